(* Model of linker/symbols.go (the shared symbol table, type Symbols).  Definitions only; the
   proofs are in Proofs/Symbols.v.

   Part 1  data: names, the package trie (flat store: path of a node -> node; a Go pointer
           *packageSymbols is the package path that leads to it), files.
   Part 2  the sequential (functional) model: importPackage(s), getPackage, importFile
           (check-then-commit), AddExtension, Import, Lookup, LookupExtension, as the code is.
   Part 3  (merged into part 2 and 4) the repaired variants, prepared for the proposed fixes and
           not the pinned code: import_gen true pre-checks the extension numbers before the
           commit, lookup_prog_fx takes the read lock.
   Part 4  the concurrent model: the same operations as programs over explicit lock / unlock /
           read / write steps on one node, threads, a scheduler choice per step.
   Part 5  specification-level collisions of a set of files (used by C16).
   Part 6  correspondence cases and checkers.

   Abstractions (stated in the check's ASSUMPTIONS): a source span is reduced to the file that
   owns it (span.Start().Filename); isEnumValue only changes the error text and is dropped; the
   handler is a fresh reporter.NewHandler(nil) per call, so the first reported error aborts the
   call; names are lists of components (no empty component). *)
From Coq Require Import List NArith ZArith Bool.
From PV Require Import Common.Corr.
Import ListNotations.

(* ------------------------------------------------------------------------------------------ *)
(* Part 1: data *)

Definition name := list N.

Fixpoint name_eqb (a b : name) : bool :=
  match a, b with
  | [], [] => true
  | x :: a', y :: b' => N.eqb x y && name_eqb a' b'
  | _, _ => false
  end.

Fixpoint is_prefix (p n : name) : bool :=
  match p, n with
  | [], _ => true
  | x :: p', y :: n' => N.eqb x y && is_prefix p' n'
  | _ :: _, [] => false
  end.

(* strings.HasPrefix(n, p + dot) on dotted names *)
Definition proper_prefix (p n : name) : bool := is_prefix p n && Nat.ltb (length p) (length n).

(* nameEnumerator: a, a.b, a.b.c for a.b.c; nothing for the empty name *)
Fixpoint prefixes (n : name) : list name :=
  match n with
  | [] => []
  | c :: r => [c] :: map (cons c) (prefixes r)
  end.

(* symbolEntry: span (reduced to the owning file) and isPackage *)
Record entry := mkEntry { e_owner : N; e_pkg : bool }.

(* packageSymbols without the mutex; maps are association lists, the first match wins *)
Record node := mkNode {
  n_children : list name;
  n_symbols : list (name * entry);
  n_exts : list (name * Z * N);
  n_files : list N }.

Definition empty_node : node := mkNode [] [] [] [].

Fixpoint mem_name (x : name) (l : list name) : bool :=
  match l with [] => false | y :: r => name_eqb x y || mem_name x r end.

Fixpoint mem_N (x : N) (l : list N) : bool :=
  match l with [] => false | y :: r => N.eqb x y || mem_N x r end.

Fixpoint sym_find (x : name) (l : list (name * entry)) : option entry :=
  match l with
  | [] => None
  | (y, e) :: r => if name_eqb x y then Some e else sym_find x r
  end.

Fixpoint ext_find (m : name) (t : Z) (l : list (name * Z * N)) : option N :=
  match l with
  | [] => None
  | (m', t', o) :: r => if name_eqb m m' && Z.eqb t t' then Some o else ext_find m t r
  end.

Definition add_symbol (nd : node) (x : name) (e : entry) : node :=
  mkNode (n_children nd) ((x, e) :: n_symbols nd) (n_exts nd) (n_files nd).
Definition add_child (nd : node) (c : name) : node :=
  mkNode (c :: n_children nd) (n_symbols nd) (n_exts nd) (n_files nd).
Definition add_ext (nd : node) (m : name) (t : Z) (o : N) : node :=
  mkNode (n_children nd) (n_symbols nd) ((m, t, o) :: n_exts nd) (n_files nd).
Definition add_file (nd : node) (f : N) : node :=
  mkNode (n_children nd) (n_symbols nd) (n_exts nd) (f :: n_files nd).

(* the store: node path -> node.  The root is the path []; a missing path reads as an empty node *)
Definition table := list (name * node).

Fixpoint find_node (p : name) (T : table) : option node :=
  match T with
  | [] => None
  | (q, nd) :: r => if name_eqb p q then Some nd else find_node p r
  end.
Definition get_node (T : table) (p : name) : node :=
  match find_node p T with Some nd => nd | None => empty_node end.
Definition set_node (T : table) (p : name) (nd : node) : table := (p, nd) :: T.

(* a descriptor file as Import sees it: identity, package, imports, the full names in the order
   walk.Descriptors yields them, the extension fields in that order as
   (package of the extendee's file, extendee, tag) *)
Inductive file := File (fid : N) (pkg : name) (deps : list file) (syms : list name)
                       (exts : list (name * name * Z)).

Definition ffid (f : file) : N := match f with File i _ _ _ _ => i end.
Definition fpkg (f : file) : name := match f with File _ p _ _ _ => p end.
Definition fdeps (f : file) : list file := match f with File _ _ d _ _ => d end.
Definition fsyms (f : file) : list name := match f with File _ _ _ s _ => s end.
Definition fexts (f : file) : list (name * name * Z) := match f with File _ _ _ _ x => x end.

Inductive err :=
| ESym (n : name) (aspkg : bool)   (* symbol n already defined [as a package] *)
| EExt (m : name) (t : Z)          (* extension with tag t for message m already defined *)
| EExtPkg                          (* extendee does not match package *)
| ENoPkg                           (* missing package symbols *)
| EInvalid.                        (* reporter.ErrInvalidSource: errors were reported, the reporter returned nil *)
Inductive res := Ok | Err (e : err).
Inductive pkres := PkgOk (child : option name) | PkgErr (e : err).

(* ------------------------------------------------------------------------------------------ *)
(* Part 2: the sequential model *)

(* packageSymbols.importPackage (sequentially the re-check under the write lock is redundant) *)
Definition import_package (T : table) (cur : name) (owner : N) (p : name) : table * pkres :=
  let nd := get_node T cur in
  match sym_find p (n_symbols nd) with
  | Some e =>
    if e_pkg e then (T, PkgOk (if mem_name p (n_children nd) then Some p else None))
    else (T, PkgErr (ESym p (e_pkg e)))
  | None =>
    let nd' := add_child (add_symbol nd p (mkEntry owner true)) p in
    (set_node (set_node T cur nd') p empty_node, PkgOk (Some p))
  end.

(* Symbols.importPackages *)
Fixpoint import_packages_loop (T : table) (owner : N) (cur : name) (ps : list name) : table * pkres :=
  match ps with
  | [] => (T, PkgOk (Some cur))
  | p :: r =>
    match import_package T cur owner p with
    | (T', PkgOk (Some c)) => import_packages_loop T' owner c r
    | other => other
    end
  end.
Definition import_packages (T : table) (owner : N) (pkg : name) : table * pkres :=
  import_packages_loop T owner [] (prefixes pkg).

(* Symbols.getPackage *)
Fixpoint get_package_loop (T : table) (cur : name) (ps : list name) (exact : bool) : option name :=
  match ps with
  | [] => Some cur
  | p :: r =>
    if mem_name p (n_children (get_node T cur)) then get_package_loop T p r exact
    else if exact then None else Some cur
  end.
Definition get_package (T : table) (n : name) (exact : bool) : option name :=
  get_package_loop T [] (prefixes n) exact.

(* checkFileLocked: the first name of the walk that is already in the node *)
Fixpoint check_syms (syms : list name) (tbl : list (name * entry)) : option err :=
  match syms with
  | [] => None
  | x :: r =>
    match sym_find x tbl with
    | Some e => Some (ESym x (e_pkg e))
    | None => check_syms r tbl
    end
  end.

(* commitFileLocked *)
Definition commit_syms (nd : node) (fid : N) (syms : list name) : node :=
  fold_left (fun nd x => add_symbol nd x (mkEntry fid false)) syms nd.

(* packageSymbols.importFile: (table, imported, error) *)
Definition import_file_node (T : table) (p : name) (fid : N) (syms : list name) : table * bool * res :=
  let nd := get_node T p in
  if mem_N fid (n_files nd) then (T, false, Ok)
  else match check_syms syms (n_symbols nd) with
       | Some e => (T, false, Err e)
       | None => (set_node T p (add_file (commit_syms nd fid syms) fid), true, Ok)
       end.

(* packageSymbols.addExtension *)
Definition add_ext_node (T : table) (p m : name) (t : Z) (o : N) : table * res :=
  let nd := get_node T p in
  match ext_find m t (n_exts nd) with
  | Some _ => (T, Err (EExt m t))
  | None => (set_node T p (add_ext nd m t o), Ok)
  end.

(* Symbols.AddExtension *)
Definition add_extension (T : table) (pkg m : name) (t : Z) (o : N) : table * res :=
  if negb (name_eqb pkg []) && negb (proper_prefix pkg m) then (T, Err EExtPkg)
  else match get_package T pkg true with
       | None => (T, Err ENoPkg)
       | Some p => add_ext_node T p m t o
       end.

(* the walk over the extension fields in importFileWithExtensions *)
Fixpoint add_exts (T : table) (o : N) (exts : list (name * name * Z)) : table * res :=
  match exts with
  | [] => (T, Ok)
  | (pkg, m, t) :: r =>
    match add_extension T pkg m t o with
    | (T', Ok) => add_exts T' o r
    | other => other
    end
  end.

(* the pre-check of the extension numbers of the proposed repair (not in the pinned code; used
   only when fx = true): exactly the tests AddExtension makes, plus duplicates inside the file,
   without registering anything *)
Fixpoint seen_ext (m : name) (t : Z) (seen : list (name * Z)) : bool :=
  match seen with
  | [] => false
  | (m', t') :: r => (name_eqb m m' && Z.eqb t t') || seen_ext m t r
  end.

Fixpoint check_exts (T : table) (exts : list (name * name * Z)) (seen : list (name * Z)) : option err :=
  match exts with
  | [] => None
  | (pkg, m, t) :: r =>
    if negb (name_eqb pkg []) && negb (proper_prefix pkg m) then Some EExtPkg
    else match get_package T pkg true with
         | None => Some ENoPkg
         | Some p =>
           if seen_ext m t seen then Some (EExt m t)
           else match ext_find m t (n_exts (get_node T p)) with
                | Some _ => Some (EExt m t)
                | None => check_exts T r ((m, t) :: seen)
                end
         end
  end.

(* Symbols.Import followed by importFileWithExtensions.  fx = false is the pinned code;
   fx = true is the proposed repair: the extension numbers are checked before the commit (and a
   conflict is dropped when the file turns out to be imported meanwhile, which cannot happen
   sequentially). *)
Fixpoint import_gen (fx : bool) (f : file) (T : table) : table * res :=
  match f with
  | File fid pkg deps syms exts =>
    match import_packages T fid pkg with
    | (T1, PkgErr e) => (T1, Err e)
    | (T1, PkgOk None) => (T1, Ok)
    | (T1, PkgOk (Some p)) =>
      if mem_N fid (n_files (get_node T1 p)) then (T1, Ok)
      else
        match (fix import_deps (ds : list file) (T : table) : table * res :=
                 match ds with
                 | [] => (T, Ok)
                 | d :: r => match import_gen fx d T with
                             | (T', Ok) => import_deps r T'
                             | other => other
                             end
                 end) deps T1 with
        | (T2, Err e) => (T2, Err e)
        | (T2, Ok) =>
          match (if fx then check_exts T2 exts [] else None) with
          | Some e => if mem_N fid (n_files (get_node T2 p)) then (T2, Ok) else (T2, Err e)
          | None =>
            match import_file_node T2 p fid syms with
            | (T3, _, Err e) => (T3, Err e)
            | (T3, false, Ok) => (T3, Ok)
            | (T3, true, Ok) => add_exts T3 fid exts
            end
          end
        end
    end
  end.
Definition import := import_gen false.
Definition import_fx := import_gen true.

Fixpoint import_list (imp : file -> table -> table * res) (ds : list file) (T : table) : table * res :=
  match ds with
  | [] => (T, Ok)
  | d :: r => match imp d T with
              | (T', Ok) => import_list imp r T'
              | other => other
              end
  end.

(* Symbols.Lookup / Symbols.LookupExtension: the owner of the registered span, or nil *)
Definition lookup (T : table) (n : name) : option N :=
  match get_package T n false with
  | Some p => option_map e_owner (sym_find n (n_symbols (get_node T p)))
  | None => None
  end.
Definition lookup_ext (T : table) (m : name) (t : Z) : option N :=
  match get_package T m false with
  | Some p => ext_find m t (n_exts (get_node T p))
  | None => None
  end.

(* histories *)
Inductive op :=
| OImport (f : file)
| OAddExt (pkg m : name) (t : Z) (o : N)
| OLookup (n : name)
| OLookupExt (m : name) (t : Z).
Inductive ans := ARes (r : res) | ALook (o : option N).

Definition do_op_with (imp : file -> table -> table * res) (T : table) (o : op) : table * ans :=
  match o with
  | OImport f => let '(T', r) := imp f T in (T', ARes r)
  | OAddExt pkg m t ow => let '(T', r) := add_extension T pkg m t ow in (T', ARes r)
  | OLookup n => (T, ALook (lookup T n))
  | OLookupExt m t => (T, ALook (lookup_ext T m t))
  end.
Definition do_op := do_op_with import.

Fixpoint run_ops_with (imp : file -> table -> table * res) (T : table) (ops : list op) : table * list ans :=
  match ops with
  | [] => (T, [])
  | o :: r => let '(T', a) := do_op_with imp T o in
              let '(T'', l) := run_ops_with imp T' r in (T'', a :: l)
  end.
Definition run_ops := run_ops_with import.

(* the observable interface of the table (reading of C17): a lookup, an extension lookup, the
   outcome of a later Import, or any of these after further operations *)
Inductive query :=
| QLookup (n : name)
| QLookupExt (m : name) (t : Z)
| QImport (f : file)
| QAfter (o : op) (q : query).

Fixpoint observe_with (imp : file -> table -> table * res) (T : table) (q : query) : ans :=
  match q with
  | QLookup n => ALook (lookup T n)
  | QLookupExt m t => ALook (lookup_ext T m t)
  | QImport f => ARes (snd (imp f T))
  | QAfter o q' => observe_with imp (fst (do_op_with imp T o)) q'
  end.
Definition observe := observe_with import.

(* ------------------------------------------------------------------------------------------ *)
(* Part 2b: the same operations with the handler made explicit.  reporter.Handler calls its
   reporter for every error; a fail-fast reporter (reporter.NewHandler(nil)) returns the error,
   which aborts the operation (HAbort: this is what part 2 models); a collecting reporter
   returns nil, the operation goes on, and Handler.Error() is ErrInvalidSource from then on
   (HCollect).  The handler state is the list of the errors reported so far. *)

Inductive hmode := HAbort | HCollect.
Definition hstate := list err.

(* Handler.HandleErrorf: (new state, what the call returns) *)
Definition handle (m : hmode) (hs : hstate) (e : err) : hstate * option err :=
  match m with
  | HAbort => match hs with
              | [] => ([e], Some e)
              | e0 :: _ => (hs, Some e0)      (* already aborted: the first error again, nothing reported *)
              end
  | HCollect => (hs ++ [e], None)
  end.

(* Handler.Error() *)
Definition handler_error (m : hmode) (hs : hstate) : option err :=
  match hs with
  | [] => None
  | e0 :: _ => match m with HAbort => Some e0 | HCollect => Some EInvalid end
  end.

Definition import_packageH (m : hmode) (hs : hstate) (T : table) (cur : name) (owner : N) (p : name)
  : table * hstate * pkres :=
  let nd := get_node T cur in
  match sym_find p (n_symbols nd) with
  | Some e =>
    if e_pkg e then (T, hs, PkgOk (if mem_name p (n_children nd) then Some p else None))
    else match handle m hs (ESym p (e_pkg e)) with
         | (hs', Some er) => (T, hs', PkgErr er)
         | (hs', None) => (T, hs', PkgOk None)       (* return nil, nil *)
         end
  | None =>
    let nd' := add_child (add_symbol nd p (mkEntry owner true)) p in
    (set_node (set_node T cur nd') p empty_node, hs, PkgOk (Some p))
  end.

Fixpoint import_packages_loopH (m : hmode) (hs : hstate) (T : table) (owner : N) (cur : name) (ps : list name)
  : table * hstate * pkres :=
  match ps with
  | [] => (T, hs, PkgOk (Some cur))
  | p :: r =>
    match import_packageH m hs T cur owner p with
    | (T', hs', PkgOk (Some c)) => import_packages_loopH m hs' T' owner c r
    | other => other
    end
  end.
Definition import_packagesH (m : hmode) (hs : hstate) (T : table) (owner : N) (pkg : name) :=
  import_packages_loopH m hs T owner [] (prefixes pkg).

(* checkFileLocked: every colliding name is reported until the handler returns an error *)
Fixpoint check_symsH (m : hmode) (hs : hstate) (syms : list name) (tbl : list (name * entry))
  : hstate * option err :=
  match syms with
  | [] => (hs, None)
  | x :: r =>
    match sym_find x tbl with
    | Some e => match handle m hs (ESym x (e_pkg e)) with
                | (hs', Some er) => (hs', Some er)
                | (hs', None) => check_symsH m hs' r tbl
                end
    | None => check_symsH m hs r tbl
    end
  end.

(* importFile: check pass, then the gate handler.Error(), then the commit pass *)
Definition import_file_nodeH (m : hmode) (hs : hstate) (T : table) (p : name) (fid : N) (syms : list name)
  : table * hstate * bool * res :=
  let nd := get_node T p in
  if mem_N fid (n_files nd) then (T, hs, false, Ok)
  else match check_symsH m hs syms (n_symbols nd) with
       | (hs1, Some e) => (T, hs1, false, Err e)
       | (hs1, None) =>
         match handler_error m hs1 with
         | Some e => (T, hs1, false, Err e)
         | None => (set_node T p (add_file (commit_syms nd fid syms) fid), hs1, true, Ok)
         end
       end.

Definition of_handle (T : table) (x : hstate * option err) : table * hstate * res :=
  match x with
  | (hs', Some er) => (T, hs', Err er)
  | (hs', None) => (T, hs', Ok)
  end.

Definition add_extensionH (m : hmode) (hs : hstate) (T : table) (pkg mn : name) (t : Z) (o : N)
  : table * hstate * res :=
  if negb (name_eqb pkg []) && negb (proper_prefix pkg mn) then of_handle T (handle m hs EExtPkg)
  else match get_package T pkg true with
       | None => of_handle T (handle m hs ENoPkg)
       | Some p =>
         let nd := get_node T p in
         match ext_find mn t (n_exts nd) with
         | Some _ => of_handle T (handle m hs (EExt mn t))
         | None => (set_node T p (add_ext nd mn t o), hs, Ok)
         end
       end.

Fixpoint add_extsH (m : hmode) (hs : hstate) (T : table) (o : N) (exts : list (name * name * Z))
  : table * hstate * res :=
  match exts with
  | [] => (T, hs, Ok)
  | (pkg, mn, t) :: r =>
    match add_extensionH m hs T pkg mn t o with
    | (T', hs', Ok) => add_extsH m hs' T' o r
    | other => other
    end
  end.

Fixpoint importH (m : hmode) (f : file) (T : table) (hs : hstate) : table * hstate * res :=
  match f with
  | File fid pkg deps syms exts =>
    match import_packagesH m hs T fid pkg with
    | (T1, hs1, PkgErr e) => (T1, hs1, Err e)
    | (T1, hs1, PkgOk None) => (T1, hs1, Ok)
    | (T1, hs1, PkgOk (Some p)) =>
      if mem_N fid (n_files (get_node T1 p)) then (T1, hs1, Ok)
      else
        match (fix import_deps (ds : list file) (T : table) (hs : hstate) : table * hstate * res :=
                 match ds with
                 | [] => (T, hs, Ok)
                 | d :: r => match importH m d T hs with
                             | (T', hs', Ok) => import_deps r T' hs'
                             | other => other
                             end
                 end) deps T1 hs1 with
        | (T2, hs2, Err e) => (T2, hs2, Err e)
        | (T2, hs2, Ok) =>
          match import_file_nodeH m hs2 T2 p fid syms with
          | (T3, hs3, _, Err e) => (T3, hs3, Err e)
          | (T3, hs3, false, Ok) => (T3, hs3, Ok)
          | (T3, hs3, true, Ok) => add_extsH m hs3 T3 fid exts
          end
        end
    end
  end.

Fixpoint import_listH (m : hmode) (ds : list file) (T : table) (hs : hstate) : table * hstate * res :=
  match ds with
  | [] => (T, hs, Ok)
  | d :: r => match importH m d T hs with
              | (T', hs', Ok) => import_listH m r T' hs'
              | other => other
              end
  end.

(* one operation with a fresh handler: (table, what was reported, what was returned) *)
Inductive ansH := AHRes (reported : list err) (r : res) | AHLook (o : option N).

Definition do_opH (m : hmode) (T : table) (o : op) : table * ansH :=
  match o with
  | OImport f => let '(T', hs, r) := importH m f T [] in (T', AHRes hs r)
  | OAddExt pkg mn t ow => let '(T', hs, r) := add_extensionH m [] T pkg mn t ow in (T', AHRes hs r)
  | OLookup n => (T, AHLook (lookup T n))
  | OLookupExt mn t => (T, AHLook (lookup_ext T mn t))
  end.

Fixpoint run_opsH (m : hmode) (T : table) (ops : list op) : table * list ansH :=
  match ops with
  | [] => (T, [])
  | o :: r => let '(T', a) := do_opH m T o in
              let '(T'', l) := run_opsH m T' r in (T'', a :: l)
  end.

(* an operation failed: it reported or returned an error *)
Fixpoint any_failH (l : list ansH) : bool :=
  match l with
  | [] => false
  | AHRes [] Ok :: r => any_failH r
  | AHRes _ _ :: _ => true
  | AHLook _ :: r => any_failH r
  end.

Fixpoint observeH (m : hmode) (T : table) (q : query) : ansH :=
  match q with
  | QLookup n => AHLook (lookup T n)
  | QLookupExt mn t => AHLook (lookup_ext T mn t)
  | QImport f => let '(_, hs, r) := importH m f T [] in AHRes hs r
  | QAfter o q' => observeH m (fst (do_opH m T o)) q'
  end.

(* the guard of the partial theorems, for either kind of handler *)
Definition deps_settledH (m : hmode) (T : table) (f : file) : Prop :=
  (exists p, import_packagesH m [] T (ffid f) (fpkg f) = (T, [], PkgOk (Some p))) /\
  (forall d, In d (fdeps f) -> importH m d T [] = (T, [], Ok)).

(* the guard under which the pinned code does leave the table unchanged: the packages of the
   file are registered and importing each of its dependencies changes nothing *)
Definition deps_settled (imp : file -> table -> table * res) (T : table) (f : file) : Prop :=
  (exists p, import_packages T (ffid f) (fpkg f) = (T, PkgOk (Some p))) /\
  (forall d, In d (fdeps f) -> imp d T = (T, Ok)).

(* ------------------------------------------------------------------------------------------ *)
(* Part 4: the concurrent model.  One instruction = one step of one goroutine; the scheduler
   picks the goroutine.  Every access to a map of a node names the node and the map. *)

Inductive field := FChildren | FSymbols | FExts | FFiles.

Definition field_eqb (a b : field) : bool :=
  match a, b with
  | FChildren, FChildren | FSymbols, FSymbols | FExts, FExts | FFiles, FFiles => true
  | _, _ => false
  end.

(* what a read of one map can see, and what a write of one map can change *)
Definition proj (f : field) (nd : node) : node :=
  match f with
  | FChildren => mkNode (n_children nd) [] [] []
  | FSymbols => mkNode [] (n_symbols nd) [] []
  | FExts => mkNode [] [] (n_exts nd) []
  | FFiles => mkNode [] [] [] (n_files nd)
  end.
Definition merge (f : field) (old new : node) : node :=
  match f with
  | FChildren => mkNode (n_children new) (n_symbols old) (n_exts old) (n_files old)
  | FSymbols => mkNode (n_children old) (n_symbols new) (n_exts old) (n_files old)
  | FExts => mkNode (n_children old) (n_symbols old) (n_exts new) (n_files old)
  | FFiles => mkNode (n_children old) (n_symbols old) (n_exts old) (n_files new)
  end.

Inductive prog (R : Type) : Type :=
| Ret (r : R)
| RLock (p : name) (k : prog R)                       (* p.mu.RLock() *)
| RUnlock (p : name) (k : prog R)
| WLock (p : name) (k : prog R)                       (* p.mu.Lock() *)
| WUnlock (p : name) (k : prog R)
| Rd (p : name) (f : field) (k : node -> prog R)      (* read map f of node p *)
| Wr (p : name) (f : field) (u : node -> node) (k : prog R)   (* write map f of node p *)
| NewChild (p c : name) (k : prog R).                 (* p.children[c] = new(packageSymbols) *)
Arguments Ret {R} r.
Arguments RLock {R} p k.
Arguments RUnlock {R} p k.
Arguments WLock {R} p k.
Arguments WUnlock {R} p k.
Arguments Rd {R} p f k.
Arguments Wr {R} p f u k.
Arguments NewChild {R} p c k.

Fixpoint bind {A B : Type} (m : prog A) (g : A -> prog B) : prog B :=
  match m with
  | Ret r => g r
  | RLock p k => RLock p (bind k g)
  | RUnlock p k => RUnlock p (bind k g)
  | WLock p k => WLock p (bind k g)
  | WUnlock p k => WUnlock p (bind k g)
  | Rd p f k => Rd p f (fun nd => bind (k nd) g)
  | Wr p f u k => Wr p f u (bind k g)
  | NewChild p c k => NewChild p c (bind k g)
  end.

(* importPackage with its two phases: read lock, then write lock and re-check *)
Definition import_package_prog (cur : name) (owner : N) (p : name) : prog pkres :=
  RLock cur (Rd cur FSymbols (fun nd =>
    match sym_find p (n_symbols nd) with
    | Some e =>
      if e_pkg e then
        Rd cur FChildren (fun nd2 => RUnlock cur
          (Ret (PkgOk (if mem_name p (n_children nd2) then Some p else None))))
      else RUnlock cur (Ret (PkgErr (ESym p (e_pkg e))))
    | None =>
      RUnlock cur (WLock cur (Rd cur FSymbols (fun nd' =>
        match sym_find p (n_symbols nd') with
        | Some e =>
          if e_pkg e then
            Rd cur FChildren (fun nd2 => WUnlock cur
              (Ret (PkgOk (if mem_name p (n_children nd2) then Some p else None))))
          else WUnlock cur (Ret (PkgErr (ESym p (e_pkg e))))
        | None =>
          Wr cur FSymbols (fun x => add_symbol x p (mkEntry owner true))
            (NewChild cur p (WUnlock cur (Ret (PkgOk (Some p)))))
        end)))
    end)).

Fixpoint import_packages_loop_prog (owner : N) (cur : name) (ps : list name) : prog pkres :=
  match ps with
  | [] => Ret (PkgOk (Some cur))
  | p :: r =>
    bind (import_package_prog cur owner p) (fun x =>
      match x with
      | PkgOk (Some c) => import_packages_loop_prog owner c r
      | other => Ret other
      end)
  end.
Definition import_packages_prog (owner : N) (pkg : name) : prog pkres :=
  import_packages_loop_prog owner [] (prefixes pkg).

Fixpoint get_package_loop_prog (cur : name) (ps : list name) (exact : bool) : prog (option name) :=
  match ps with
  | [] => Ret (Some cur)
  | p :: r =>
    RLock cur (Rd cur FChildren (fun nd => RUnlock cur
      (if mem_name p (n_children nd) then get_package_loop_prog p r exact
       else Ret (if exact then None else Some cur))))
  end.
Definition get_package_prog (n : name) (exact : bool) : prog (option name) :=
  get_package_loop_prog [] (prefixes n) exact.

(* importFile: everything under the write lock of the node *)
Definition import_file_prog (p : name) (fid : N) (syms : list name) : prog (bool * res) :=
  WLock p (Rd p FFiles (fun nf =>
    if mem_N fid (n_files nf) then WUnlock p (Ret (false, Ok))
    else Rd p FSymbols (fun ns =>
      match check_syms syms (n_symbols ns) with
      | Some e => WUnlock p (Ret (false, Err e))
      | None =>
        fold_right (fun x k => Wr p FSymbols (fun nd => add_symbol nd x (mkEntry fid false)) k)
          (Wr p FFiles (fun nd => add_file nd fid) (WUnlock p (Ret (true, Ok)))) syms
      end))).

Definition add_ext_node_prog (p m : name) (t : Z) (o : N) : prog res :=
  WLock p (Rd p FExts (fun nd =>
    match ext_find m t (n_exts nd) with
    | Some _ => WUnlock p (Ret (Err (EExt m t)))
    | None => Wr p FExts (fun x => add_ext x m t o) (WUnlock p (Ret Ok))
    end)).

Definition add_extension_prog (pkg m : name) (t : Z) (o : N) : prog res :=
  if negb (name_eqb pkg []) && negb (proper_prefix pkg m) then Ret (Err EExtPkg)
  else bind (get_package_prog pkg true) (fun x =>
    match x with
    | None => Ret (Err ENoPkg)
    | Some p => add_ext_node_prog p m t o
    end).

Fixpoint add_exts_prog (o : N) (exts : list (name * name * Z)) : prog res :=
  match exts with
  | [] => Ret Ok
  | (pkg, m, t) :: r =>
    bind (add_extension_prog pkg m t o) (fun x =>
      match x with Ok => add_exts_prog o r | other => Ret other end)
  end.

(* the pre-check of the repair as a program: the exts map of the extendee's node is read under
   its read lock *)
Fixpoint check_exts_prog (exts : list (name * name * Z)) (seen : list (name * Z)) : prog (option err) :=
  match exts with
  | [] => Ret None
  | (pkg, m, t) :: r =>
    if negb (name_eqb pkg []) && negb (proper_prefix pkg m) then Ret (Some EExtPkg)
    else bind (get_package_prog pkg true) (fun x =>
      match x with
      | None => Ret (Some ENoPkg)
      | Some p =>
        if seen_ext m t seen then Ret (Some (EExt m t))
        else RLock p (Rd p FExts (fun nd => RUnlock p
               (match ext_find m t (n_exts nd) with
                | Some _ => Ret (Some (EExt m t))
                | None => check_exts_prog r ((m, t) :: seen)
                end)))
      end)
  end.

Fixpoint import_prog_gen (fx : bool) (f : file) : prog res :=
  match f with
  | File fid pkg deps syms exts =>
    bind (import_packages_prog fid pkg) (fun x =>
      match x with
      | PkgErr e => Ret (Err e)
      | PkgOk None => Ret Ok
      | PkgOk (Some p) =>
        RLock p (Rd p FFiles (fun nf => RUnlock p
          (if mem_N fid (n_files nf) then Ret Ok
           else
             bind ((fix deps_prog (ds : list file) : prog res :=
                      match ds with
                      | [] => Ret Ok
                      | d :: r => bind (import_prog_gen fx d) (fun y =>
                                    match y with Ok => deps_prog r | other => Ret other end)
                      end) deps)
               (fun y =>
                  match y with
                  | Err e => Ret (Err e)
                  | Ok =>
                    bind (if fx then check_exts_prog exts [] else Ret None) (fun c =>
                      match c with
                      | Some e =>
                        RLock p (Rd p FFiles (fun nf2 => RUnlock p
                          (if mem_N fid (n_files nf2) then Ret Ok else Ret (Err e))))
                      | None =>
                        bind (import_file_prog p fid syms) (fun z =>
                          match z with
                          | (_, Err e) => Ret (Err e)
                          | (false, Ok) => Ret Ok
                          | (true, Ok) => add_exts_prog fid exts
                          end)
                      end)
                  end))))
      end)
  end.
Definition import_prog := import_prog_gen false.
Definition import_prog_fx := import_prog_gen true.

(* Lookup / LookupExtension as the code is: the final map read takes no lock *)
Definition lookup_prog (n : name) : prog (option N) :=
  bind (get_package_prog n false) (fun x =>
    match x with
    | Some p => Rd p FSymbols (fun nd => Ret (option_map e_owner (sym_find n (n_symbols nd))))
    | None => Ret None
    end).
Definition lookup_ext_prog (m : name) (t : Z) : prog (option N) :=
  bind (get_package_prog m false) (fun x =>
    match x with
    | Some p => Rd p FExts (fun nd => Ret (ext_find m t (n_exts nd)))
    | None => Ret None
    end).

(* the repaired lookups (proposed fix): the read lock of the node is held around the read *)
Definition lookup_prog_fx (n : name) : prog (option N) :=
  bind (get_package_prog n false) (fun x =>
    match x with
    | Some p => RLock p (Rd p FSymbols (fun nd => RUnlock p
                  (Ret (option_map e_owner (sym_find n (n_symbols nd))))))
    | None => Ret None
    end).
Definition lookup_ext_prog_fx (m : name) (t : Z) : prog (option N) :=
  bind (get_package_prog m false) (fun x =>
    match x with
    | Some p => RLock p (Rd p FExts (fun nd => RUnlock p (Ret (ext_find m t (n_exts nd)))))
    | None => Ret None
    end).

Definition op_prog_with (impp : file -> prog res)
           (lk : name -> prog (option N)) (lke : name -> Z -> prog (option N))
           (o : op) : prog ans :=
  match o with
  | OImport f => bind (impp f) (fun r => Ret (ARes r))
  | OAddExt pkg m t ow => bind (add_extension_prog pkg m t ow) (fun r => Ret (ARes r))
  | OLookup n => bind (lk n) (fun r => Ret (ALook r))
  | OLookupExt m t => bind (lke m t) (fun r => Ret (ALook r))
  end.
Definition op_prog := op_prog_with import_prog lookup_prog lookup_ext_prog.
(* everything repaired: extension pre-check and locked lookups *)
Definition op_prog_fx := op_prog_with import_prog_fx lookup_prog_fx lookup_ext_prog_fx.
(* only the lookups repaired *)
Definition op_prog_lk := op_prog_with import_prog lookup_prog_fx lookup_ext_prog_fx.

(* a goroutine runs a list of operations one after the other *)
Fixpoint ops_prog_with (opp : op -> prog ans) (ops : list op) : prog (list ans) :=
  match ops with
  | [] => Ret []
  | o :: r => bind (opp o) (fun a => bind (ops_prog_with opp r) (fun l => Ret (a :: l)))
  end.
Definition ops_prog := ops_prog_with op_prog.
Definition ops_prog_fx := ops_prog_with op_prog_fx.

(* running a program alone (no other goroutine: every lock is free) *)
Fixpoint run_seq {R : Type} (m : prog R) (T : table) : table * R :=
  match m with
  | Ret r => (T, r)
  | RLock _ k | RUnlock _ k | WLock _ k | WUnlock _ k => run_seq k T
  | Rd p f k => run_seq (k (proj f (get_node T p))) T
  | Wr p f u k => run_seq k (set_node T p (merge f (get_node T p) (u (proj f (get_node T p)))))
  | NewChild p c k =>
    run_seq k (set_node (set_node T p (add_child (get_node T p) c)) c empty_node)
  end.

(* threads: the locks a goroutine holds, (node, true) = write lock *)
Definition held := list (name * bool).

Fixpoint holds (h : held) (p : name) (w : bool) : bool :=
  match h with
  | [] => false
  | (q, w') :: r => (name_eqb p q && Bool.eqb w w') || holds r p w
  end.
Definition holds_any (h : held) (p : name) : bool := holds h p true || holds h p false.

Fixpoint release (h : held) (p : name) (w : bool) : held :=
  match h with
  | [] => []
  | (q, w') :: r => if name_eqb p q && Bool.eqb w w' then r else (q, w') :: release r p w
  end.

Record thread (R : Type) := mkThread { th_held : held; th_prog : prog R }.
Arguments mkThread {R} th_held th_prog.
Arguments th_held {R} t.
Arguments th_prog {R} t.

Record cstate (R : Type) := mkCState { cs_table : table; cs_threads : list (thread R) }.
Arguments mkCState {R} cs_table cs_threads.
Arguments cs_table {R} c.
Arguments cs_threads {R} c.

(* does a goroutine other than number t hold node p (in write mode / in any mode)? *)
Fixpoint others_hold_at {R : Type} (ths : list (thread R)) (i t : nat) (p : name) (wonly : bool) : bool :=
  match ths with
  | [] => false
  | th :: r =>
    (if Nat.eqb i t then false
     else if wonly then holds (th_held th) p true else holds_any (th_held th) p)
    || others_hold_at r (S i) t p wonly
  end.

Fixpoint replace_nth {A : Type} (l : list A) (n : nat) (x : A) : list A :=
  match l, n with
  | [], _ => []
  | _ :: r, O => x :: r
  | y :: r, S n' => y :: replace_nth r n' x
  end.

(* one step of goroutine t; None = finished, blocked on a lock, or unlocking a lock it does not
   hold (the Go runtime would throw) *)
Definition step {R : Type} (s : cstate R) (t : nat) : option (cstate R) :=
  match nth_error (cs_threads s) t with
  | None => None
  | Some th =>
    let T := cs_table s in
    let h := th_held th in
    let upd T' h' k := Some (mkCState T' (replace_nth (cs_threads s) t (mkThread h' k))) in
    match th_prog th with
    | Ret _ => None
    | RLock p k =>
      if others_hold_at (cs_threads s) 0 t p true || holds_any h p then None
      else upd T ((p, false) :: h) k
    | WLock p k =>
      if others_hold_at (cs_threads s) 0 t p false || holds_any h p then None
      else upd T ((p, true) :: h) k
    | RUnlock p k => if holds h p false then upd T (release h p false) k else None
    | WUnlock p k => if holds h p true then upd T (release h p true) k else None
    | Rd p f k => upd T h (k (proj f (get_node T p)))
    | Wr p f u k => upd (set_node T p (merge f (get_node T p) (u (proj f (get_node T p))))) h k
    | NewChild p c k =>
      upd (set_node (set_node T p (add_child (get_node T p) c)) c empty_node) h k
    end
  end.

(* a schedule is a list of goroutine numbers; a disabled choice stutters *)
Fixpoint run_sched {R : Type} (s : cstate R) (sched : list nat) : cstate R :=
  match sched with
  | [] => s
  | t :: r => match step s t with Some s' => run_sched s' r | None => run_sched s r end
  end.

Definition init_state {R : Type} (T : table) (progs : list (prog R)) : cstate R :=
  mkCState T (map (fun m => mkThread [] m) progs).

(* the access a goroutine is about to make: (node, map, is a write) *)
Definition next_access {R : Type} (m : prog R) : option (name * field * bool) :=
  match m with
  | Rd p f _ => Some (p, f, false)
  | Wr p f _ _ => Some (p, f, true)
  | NewChild p _ _ => Some (p, FChildren, true)
  | _ => None
  end.

(* the lock discipline at one thread: a read holds R or W of the node, a write holds W *)
Definition access_ok {R : Type} (th : thread R) : bool :=
  match next_access (th_prog th) with
  | None => true
  | Some (p, _, false) => holds_any (th_held th) p
  | Some (p, _, true) => holds (th_held th) p true
  end.

Definition conflicting (a b : option (name * field * bool)) : bool :=
  match a, b with
  | Some (p, f, w), Some (q, g, w') => name_eqb p q && field_eqb f g && (w || w')
  | _, _ => false
  end.

(* a data race of the model: two different goroutines are both about to access the same map of
   the same node and at least one access is a write *)
Definition race_at {R : Type} (s : cstate R) (i j : nat) : bool :=
  match nth_error (cs_threads s) i, nth_error (cs_threads s) j with
  | Some a, Some b => negb (Nat.eqb i j) && conflicting (next_access (th_prog a)) (next_access (th_prog b))
  | _, _ => false
  end.

(* ------------------------------------------------------------------------------------------ *)
(* Part 5: collisions of a set of files, independent of any table *)

(* the file and everything it imports, transitively *)
Fixpoint closure (f : file) : list file :=
  match f with
  | File _ _ deps _ _ =>
    f :: (fix go (ds : list file) : list file :=
            match ds with [] => [] | d :: r => closure d ++ go r end) deps
  end.
Definition closure_list (fs : list file) : list file := flat_map closure fs.

Definition ext_keys (f : file) : list (name * Z) := map (fun x => (snd (fst x), snd x)) (fexts f).

Fixpoint mem_key (m : name) (t : Z) (l : list (name * Z)) : bool :=
  match l with
  | [] => false
  | (m', t') :: r => (name_eqb m m' && Z.eqb t t') || mem_key m t r
  end.

Fixpoint dup_key (l : list (name * Z)) : bool :=
  match l with
  | [] => false
  | (m, t) :: r => mem_key m t r || dup_key r
  end.

(* two different files collide: a common name, a name of one that is a package (prefix) of the
   other, or a common (extendee, tag) *)
Definition files_collide (f g : file) : bool :=
  existsb (fun n => mem_name n (fsyms g) || mem_name n (prefixes (fpkg g))) (fsyms f)
  || existsb (fun n => mem_name n (prefixes (fpkg f))) (fsyms g)
  || existsb (fun k => mem_key (fst k) (snd k) (ext_keys g)) (ext_keys f).

(* distinct file identities of a list, first occurrences *)
Fixpoint dedup_files (l : list file) (seen : list N) : list file :=
  match l with
  | [] => []
  | f :: r => if mem_N (ffid f) seen then dedup_files r seen else f :: dedup_files r (ffid f :: seen)
  end.

Fixpoint pairs_collide (l : list file) : bool :=
  match l with
  | [] => false
  | f :: r => existsb (files_collide f) r || pairs_collide r
  end.

(* does the set of files (with everything they import) contain a collision? *)
Definition has_collision (fs : list file) : bool :=
  let u := dedup_files (closure_list fs) [] in
  pairs_collide u || existsb (fun f => dup_key (ext_keys f)) u.

(* the same notion as propositions, for the theorems *)

(* the names of a file lie strictly below its package and contain, with a name, every longer
   prefix of it down to the package (walk.Descriptors yields the parents of every element) *)
Definition names_closed (f : file) : Prop :=
  forall n, In n (fsyms f) ->
    exists r, r <> [] /\ n = fpkg f ++ r /\
              forall r1 r2, r = r1 ++ r2 -> r1 <> [] -> In (fpkg f ++ r1) (fsyms f).

(* every extension names an extendee that the file or one of its imports defines, together with
   the package of that file (packageFor) *)
Definition exts_resolved (f : file) : Prop :=
  forall c m t, In (c, m, t) (fexts f) -> exists h, In h (closure f) /\ fpkg h = c /\ In m (fsyms h).

Definition wf_universe (U : list file) : Prop :=
  (forall f g, In f U -> In g U -> ffid f = ffid g -> f = g) /\
  (forall f, In f U -> names_closed f /\ exts_resolved f).

(* a boolean test that implies wf_universe (Proofs/SymbolsSpec.v wf_universe_b_sound); evaluated on
   every generated case of the correspondence *)
Fixpoint file_eqb (f g : file) : bool :=
  match f, g with
  | File i p d s x, File i' p' d' s' x' =>
    N.eqb i i' && name_eqb p p'
    && (fix deps_eqb (a b : list file) : bool :=
          match a, b with
          | [], [] => true
          | u :: a', v :: b' => file_eqb u v && deps_eqb a' b'
          | _, _ => false
          end) d d'
    && (fix names_eqb (a b : list name) : bool :=
          match a, b with
          | [], [] => true
          | u :: a', v :: b' => name_eqb u v && names_eqb a' b'
          | _, _ => false
          end) s s'
    && (fix exts_eqb (a b : list (name * name * Z)) : bool :=
          match a, b with
          | [], [] => true
          | (c, m, t) :: a', (c', m', t') :: b' =>
            name_eqb c c' && name_eqb m m' && Z.eqb t t' && exts_eqb a' b'
          | _, _ => false
          end) x x'
  end.

Definition names_closed_b (f : file) : bool :=
  forallb (fun n =>
             proper_prefix (fpkg f) n
             && forallb (fun q => negb (Nat.ltb (length (fpkg f)) (length q)) || mem_name q (fsyms f)) (prefixes n))
          (fsyms f).

Definition exts_resolved_b (f : file) : bool :=
  forallb (fun x => existsb (fun h => name_eqb (fpkg h) (fst (fst x)) && mem_name (snd (fst x)) (fsyms h)) (closure f))
          (fexts f).

Definition wf_universe_b (U : list file) : bool :=
  forallb (fun f => forallb (fun g => negb (N.eqb (ffid f) (ffid g)) || file_eqb f g) U) U
  && forallb (fun f => names_closed_b f && exts_resolved_b f) U.

Definition share_name (f g : file) : Prop :=
  exists n, In n (fsyms f) /\ (In n (fsyms g) \/ In n (prefixes (fpkg g))).
Definition share_ext (f g : file) : Prop :=
  exists m t, In (m, t) (ext_keys f) /\ In (m, t) (ext_keys g).

(* the set of files contains a collision: two different files share a name, a name of one is a
   package (prefix) of the other, they share an (extendee, tag), or one file has an (extendee,
   tag) twice *)
Definition collides (U : list file) : Prop :=
  (exists f g, In f U /\ In g U /\ f <> g /\ (share_name f g \/ share_ext f g)) \/
  (exists f, In f U /\ ~ NoDup (ext_keys f)).

Fixpoint any_err (l : list ans) : bool :=
  match l with
  | [] => false
  | ARes (Err _) :: _ => true
  | _ :: r => any_err r
  end.

(* ------------------------------------------------------------------------------------------ *)
(* Part 6: correspondence *)

Definition err_eqb (a b : err) : bool :=
  match a, b with
  | ESym n p, ESym n' p' => name_eqb n n' && Bool.eqb p p'
  | EExt m t, EExt m' t' => name_eqb m m' && Z.eqb t t'
  | EExtPkg, EExtPkg | ENoPkg, ENoPkg | EInvalid, EInvalid => true
  | _, _ => false
  end.
Definition res_eqb (a b : res) : bool :=
  match a, b with
  | Ok, Ok => true
  | Err x, Err y => err_eqb x y
  | _, _ => false
  end.
Definition optN_eqb (a b : option N) : bool :=
  match a, b with
  | Some x, Some y => N.eqb x y
  | None, None => true
  | _, _ => false
  end.
Definition ans_eqb (a b : ans) : bool :=
  match a, b with
  | ARes x, ARes y => res_eqb x y
  | ALook x, ALook y => optN_eqb x y
  | _, _ => false
  end.

Definition entry_eqb (a b : entry) : bool := N.eqb (e_owner a) (e_owner b) && Bool.eqb (e_pkg a) (e_pkg b).

(* the maps of two nodes agree as finite maps / sets *)
Definition node_eqv (a b : node) : bool :=
  forallb (fun c => mem_name c (n_children b)) (n_children a)
  && forallb (fun c => mem_name c (n_children a)) (n_children b)
  && forallb (fun xe => match sym_find (fst xe) (n_symbols b) with
                        | Some e => entry_eqb e (match sym_find (fst xe) (n_symbols a) with Some e' => e' | None => snd xe end)
                        | None => false end) (n_symbols a)
  && forallb (fun xe => match sym_find (fst xe) (n_symbols a) with Some _ => true | None => false end) (n_symbols b)
  && forallb (fun x => optN_eqb (ext_find (fst (fst x)) (snd (fst x)) (n_exts b))
                                (ext_find (fst (fst x)) (snd (fst x)) (n_exts a))) (n_exts a)
  && forallb (fun x => match ext_find (fst (fst x)) (snd (fst x)) (n_exts a) with Some _ => true | None => false end) (n_exts b)
  && forallb (fun f => mem_N f (n_files b)) (n_files a)
  && forallb (fun f => mem_N f (n_files a)) (n_files b).

(* the dump lists every node reachable from the root with its children, so agreement on every
   dumped node means the reachable tries are the same *)
Definition dump_eqv (T : table) (dump : list (name * node)) : bool :=
  forallb (fun pn => node_eqv (get_node T (fst pn)) (snd pn)) dump.

Record stepobs := mkStepObs {
  so_ans : ans;
  so_dump : list (name * node);
  so_looks : list (name * option N);
  so_elooks : list (name * Z * option N) }.

Definition looks_ok (T : table) (l : list (name * option N)) (le : list (name * Z * option N)) : bool :=
  forallb (fun x => optN_eqb (lookup T (fst x)) (snd x)) l
  && forallb (fun x => optN_eqb (lookup_ext T (fst (fst x)) (snd (fst x))) (snd x)) le.

Fixpoint steps_ok (imp : file -> table -> table * res) (opp : op -> prog ans)
         (T : table) (ops : list op) (obs : list stepobs) : bool :=
  match ops, obs with
  | [], [] => true
  | o :: r, b :: rb =>
    let '(T', a) := do_op_with imp T o in
    ans_eqb a (so_ans b) && dump_eqv T' (so_dump b) && looks_ok T' (so_looks b) (so_elooks b)
    && (* the step program of the operation, run alone, is observed in the same way *)
       (let '(T2, a2) := run_seq (opp o) T in ans_eqb a2 (so_ans b) && dump_eqv T2 (so_dump b))
    && steps_ok imp opp T' r rb
  | _, _ => false
  end.

Definition errs_eqb (a b : list err) : bool :=
  (fix go (a b : list err) : bool :=
     match a, b with
     | [], [] => true
     | x :: a', y :: b' => err_eqb x y && go a' b'
     | _, _ => false
     end) a b.
Definition ansH_eqb (a b : ansH) : bool :=
  match a, b with
  | AHRes h r, AHRes h' r' => errs_eqb h h' && res_eqb r r'
  | AHLook x, AHLook y => optN_eqb x y
  | _, _ => false
  end.

Record stepobsH := mkStepObsH {
  soh_ans : ansH;
  soh_dump : list (name * node);
  soh_looks : list (name * option N);
  soh_elooks : list (name * Z * option N) }.

Fixpoint steps_okH (m : hmode) (T : table) (ops : list op) (obs : list stepobsH) : bool :=
  match ops, obs with
  | [], [] => true
  | o :: r, b :: rb =>
    let '(T', a) := do_opH m T o in
    ansH_eqb a (soh_ans b) && dump_eqv T' (soh_dump b) && looks_ok T' (soh_looks b) (soh_elooks b)
    && steps_okH m T' r rb
  | _, _ => false
  end.

Inductive sym_case :=
(* a sequential history on a fresh table: operations and what was observed after each *)
| CSeq (ops : list op) (obs : list stepobs)
(* a set of files imported on a fresh shared table, in parts (sequentially or concurrently):
   was any collision reported, and, when none was, the final lookups *)
| CPart (fs : list file) (any_error : bool) (looks : list (name * option N)) (elooks : list (name * Z * option N))
(* a sequential history with an explicit handler kind: per operation what was reported and returned *)
| CSeqH (m : hmode) (ops : list op) (obs : list stepobsH)
(* a set of files imported part after part with the given handler kind: did any import fail *)
| CPartH (m : hmode) (fs : list file) (any_fail : bool) (looks : list (name * option N)) (elooks : list (name * Z * option N)).

Definition sym_chk_with (imp : file -> table -> table * res) (opp : op -> prog ans) (c : sym_case) : bool :=
  match c with
  | CSeq ops obs => steps_ok imp opp [] ops obs
  | CPart fs anyerr looks elooks =>
    wf_universe_b (closure_list fs) && Bool.eqb (has_collision fs) anyerr
    && (anyerr || let '(T, _) := run_ops_with imp [] (map OImport fs) in looks_ok T looks elooks)
  | CSeqH m ops obs => steps_okH m [] ops obs
  | CPartH m fs anyfail looks elooks =>
    wf_universe_b (closure_list fs) && Bool.eqb (has_collision fs) anyfail
    && (let '(T, l) := run_opsH m [] (map OImport fs) in
        Bool.eqb (any_failH l) anyfail && (anyfail || looks_ok T looks elooks))
  end.
(* one checker per state of the two proposed repairs (read lock in the lookups; extension pre-check) *)
Definition sym_chk := sym_chk_with import op_prog.                      (* neither *)
Definition sym_chk_lk := sym_chk_with import op_prog_lk.                (* locked lookups only *)
Definition sym_chk_ext := sym_chk_with import_fx (op_prog_with import_prog_fx lookup_prog lookup_ext_prog).
Definition sym_chk_fx := sym_chk_with import_fx op_prog_fx.             (* both *)
