(* Model of the checks that decide accept / reject, as the code is:
   Part 1  parser/validate.go validateBasic on the descriptor built by Model/Lower.v
           (validateImports, validateMessage: sort-and-scan overlap tests, merge scan of reserved
           vs extension ranges, sort.Search for field numbers, duplicate tags, reserved names;
           validateEnum; validateField: label / keyword rules per syntax)
   Part 2  linking: linker/symbols.go (flat view of the package trie), linker/resolve.go
           resolveFieldTypes / resolveMethodTypes on top of Model/Resolve.v (C15), extension
           number inside an extension range of the extendee, proto3 extendee whitelist
   Part 3  options/options.go pseudo-options json_name and default
   Part 4  linker/validate.go ValidateOptions: JSON-name conflicts (both passes), enum value
           JSON conflicts, first value of an open enum, closed enum in an implicit-presence
           field, message-set extensions, extension number above the ordinary maximum
   Part 5  the pipeline of compiler.go for a file set: first error per file
   Definitions only. *)
From Coq Require Import List NArith ZArith Bool Arith.
From PV Require Import Model.MiniProto Model.Lower Model.ValiditySpec Model.ProtocDescriptor.
From PV Require Model.Resolve Model.ProtocLookup.
Import ListNotations.
Open Scope Z_scope.

(* ------------------------------------------------------------------------------------------ *)
(* Part 1: validateBasic *)

(* tagRanges.Less *)
Definition rng_less (a b : Z * Z) : bool :=
  (fst a <? fst b) || ((fst a =? fst b) && (snd a <? snd b)).

(* sort.Sort(tagRanges): the sorted sequence of (start, end) pairs does not depend on the
   algorithm because Less is a strict weak order whose classes are single pairs *)
Fixpoint insert_rng (x : Z * Z) (l : list (Z * Z)) : list (Z * Z) :=
  match l with
  | [] => [x]
  | y :: r => if rng_less x y then x :: l else y :: insert_rng x r
  end.
Definition sort_rngs (l : list (Z * Z)) : list (Z * Z) := fold_right insert_rng [] l.

(* for i := 1; i < len; i++ { if cmp(rs[i].start, rs[i-1].end) { error } } *)
Fixpoint scan_adj (cmp : Z -> Z -> bool) (prev : Z * Z) (l : list (Z * Z)) (e : ecls) : list ecls :=
  match l with
  | [] => []
  | c :: r => (if cmp (fst c) (snd prev) then [e] else []) ++ scan_adj cmp c r e
  end.
Definition overlap_errs (cmp : Z -> Z -> bool) (sorted : list (Z * Z)) (e : ecls) : list ecls :=
  match sorted with [] => [] | p :: r => scan_adj cmp p r e end.

(* the two-index loop over reserved and extension ranges; None = out of fuel *)
Fixpoint merge_scan (fuel : nat) (rsvd exts : list (Z * Z)) : option (list ecls) :=
  match rsvd, exts with
  | r :: rs, x :: xs =>
    match fuel with
    | O => None
    | S f =>
      let hit := ((fst x <=? fst r) && (fst r <? snd x)) || ((fst r <=? fst x) && (fst x <? snd r)) in
      option_map (app (if hit then [EExtReservedOverlap] else []))
                 (if fst r <? fst x then merge_scan f rs exts else merge_scan f rsvd xs)
    end
  | _, _ => Some []
  end.

(* sort.Search(n, pred): None = out of fuel *)
Fixpoint search_loop (fuel : nat) (pred : nat -> bool) (i j : nat) : option nat :=
  if Nat.ltb i j then
    match fuel with
    | O => None
    | S f => let h := Nat.div2 (i + j) in
             if negb (pred h) then search_loop f pred (S h) j else search_loop f pred i h
    end
  else Some i.
Definition sort_search (n : nat) (pred : nat -> bool) : option nat := search_loop (S n) pred 0%nat n.

(* r := sort.Search(len(rs), func(i) { return cmp(rs[i].end, num) }); r < len && rs[r].start <= num *)
Definition in_sorted_ranges (cmp : Z -> Z -> bool) (rs : list (Z * Z)) (num : Z) : option bool :=
  match sort_search (length rs) (fun i => cmp (snd (nth i rs (0, 0))) num) with
  | None => None
  | Some r => Some (Nat.ltb r (length rs) && (fst (nth r rs (0, 0)) <=? num))
  end.

(* isIdentifier *)
Definition ident_char (first : bool) (c : N) : bool :=
  ((48 <=? c)%N && (c <=? 57)%N && negb first) || ((97 <=? c)%N && (c <=? 122)%N)
  || ((65 <=? c)%N && (c <=? 90)%N) || (c =? 95)%N.
Fixpoint ident_rest (s : name) : bool :=
  match s with [] => true | c :: r => ident_char false c && ident_rest r end.
Definition is_identifier (s : name) : bool :=
  match s with [] => false | c :: r => ident_char true c && ident_rest r end.

Fixpoint assocZ (k : Z) (l : list (Z * name)) : option name :=
  match l with [] => None | (k', v) :: r => if k =? k' then Some v else assocZ k r end.
Definition nonempty (o : option name) : bool := match o with Some (_ :: _) => true | _ => false end.

(* the field loop of validateMessage; [tags] is the map fieldTags *)
Fixpoint msg_field_loop (rsvn : list name) (rsvd exts : list (Z * Z)) (tags : list (Z * name))
         (fs : list dfield) : list ecls :=
  match fs with
  | [] => []
  | fd :: r =>
    (if mem_name (df_name fd) rsvn then [EFieldReservedName] else [])
    ++ (if nonempty (assocZ (df_number fd) tags) then [EDupTag] else [])
    ++ (match in_sorted_ranges Z.gtb rsvd (df_number fd) with
        | Some true => [EInReservedRange] | Some false => [] | None => [EOther] end)
    ++ (match in_sorted_ranges Z.gtb exts (df_number fd) with
        | Some true => [ETagInExtRange] | Some false => [] | None => [EOther] end)
    ++ msg_field_loop rsvn rsvd exts ((df_number fd, df_name fd) :: tags) r
  end.

Definition invalid_names (ns : list name) : list ecls :=
  flat_map (fun n => if is_identifier n then [] else [EReservedNameInvalid]) ns.

(* validateMessage *)
Definition validate_message (syn : syntax) (m : dmsg) : list ecls :=
  let rsvd := sort_rngs (dm_rsvr m) in
  let exts := sort_rngs (dm_extr m) in
  (if syntax_eqb syn Proto3 && negb (match dm_extr m with [] => true | _ => false end) then [EProto3ExtRange] else [])
  ++ overlap_errs Z.ltb rsvd EMsgReservedOverlap
  ++ overlap_errs Z.ltb exts EExtOverlap
  ++ (match merge_scan (length rsvd + length exts) rsvd exts with Some l => l | None => [EOther] end)
  ++ invalid_names (dm_rsvn m)
  ++ msg_field_loop (dm_rsvn m) rsvd exts [] (dm_fields m).

(* internal.FindOption for one of the two field pseudo-options *)
Definition foptk_eqb (a b : foptk) : bool := match a, b with OJsonName, OJsonName | ODefault, ODefault => true | _, _ => false end.
Definition find_fopts (k : foptk) (opts : list fopt) : list oval :=
  map snd (filter (fun o => foptk_eqb (fst o) k) opts).

Definition is_label (l : option dlabel) (x : dlabel) : bool :=
  match l, x with
  | Some DOptional, DOptional | Some DRequired, DRequired | Some DRepeated, DRepeated => true
  | _, _ => false
  end.
Definition is_group (t : option dtype) : bool := match t with Some DGroup => true | _ => false end.
Definition is_some {A} (o : option A) : bool := match o with Some _ => true | None => false end.
Definition ext_nonempty (fd : dfield) : bool := match df_extendee fd with Some (_ :: _) => true | _ => false end.

(* validateField *)
Definition validate_field (syn : syntax) (fd : dfield) : list ecls :=
  match syn with
  | Proto2 =>
    (if negb (is_some (df_label fd)) && negb (is_some (df_oneof fd)) then [ELabelMissing] else [])
    ++ (if ext_nonempty fd && is_label (df_label fd) DRequired then [EExtRequired] else [])
  | _ =>
    (if is_group (df_type fd) then [EGroupNotProto2]
     else if is_label (df_label fd) DRequired then [ERequiredNotProto2] else [])
    ++ (match syn with
        | Editions => if is_label (df_label fd) DOptional then [EOptionalInEditions] else []
        | _ => match find_fopts ODefault (df_opts fd) with
               | [] => []
               | [_] => [EDefaultInProto3]
               | _ => [EOptionRepeated]
               end
        end)
  end.

(* validateEnum *)
Fixpoint alias_loop (allow : bool) (vals : list (Z * name)) (vs : list (name * Z)) (has : bool)
  : list ecls * bool :=
  match vs with
  | [] => ([], has)
  | (nm, num) :: r =>
    let dup := nonempty (assocZ num vals) in
    let '(es, h) := alias_loop allow ((num, nm) :: vals) r (has || (dup && allow)) in
    ((if dup && negb allow then [EEnumDupNumber] else []) ++ es, h)
  end.

Fixpoint enum_value_loop (rsvn : list name) (rsvd : list (Z * Z)) (vs : list (name * Z)) : list ecls :=
  match vs with
  | [] => []
  | (nm, num) :: r =>
    (if mem_name nm rsvn then [EValueReservedName] else [])
    ++ (match in_sorted_ranges Z.geb rsvd num with
        | Some true => [EInReservedRange] | Some false => [] | None => [EOther] end)
    ++ enum_value_loop rsvn rsvd r
  end.

Definition validate_enum (syn : syntax) (e : denum) : list ecls :=
  let '(allow, ealias) :=
    match de_alias e with
    | [] => (false, [])
    | [VIdent n] => if name_eqb n true_name then (true, []) else if name_eqb n false_name then (false, [])
                    else (false, [EAliasNotBool])
    | [_] => (false, [EAliasNotBool])
    | _ => (false, [EOptionRepeated])
    end in
  let '(edup, has) := alias_loop allow [] (de_values e) false in
  let rsvd := sort_rngs (de_rsv e) in
  (match de_values e with [] => [EEnumEmpty] | _ => [] end)
  ++ ealias
  ++ (match syn, de_values e with
      | Proto3, (_, num) :: _ => if num =? 0 then [] else [EEnumFirstZero]
      | _, _ => []
      end)
  ++ edup
  ++ (if allow && negb has then [EAliasUnused] else [])
  ++ overlap_errs Z.leb rsvd EEnumReservedOverlap
  ++ invalid_names (de_rsvn e)
  ++ enum_value_loop (de_rsvn e) rsvd (de_values e).

(* walk.DescriptorProtos: message, its fields, (oneofs), nested messages, enums, extensions *)
Fixpoint walk_msg (syn : syntax) (m : dmsg) : list ecls :=
  match m with
  | DMsg _ fields nested enums exts _ _ _ _ _ _ =>
    validate_message syn m
    ++ flat_map (validate_field syn) fields
    ++ flat_map (walk_msg syn) nested
    ++ flat_map (validate_enum syn) enums
    ++ flat_map (validate_field syn) exts
  end.

Fixpoint dup_import (seen deps : list name) : list ecls :=
  match deps with
  | [] => []
  | d :: r => if mem_name d seen then [EImportDup] else dup_import (d :: seen) r
  end.

Definition validate_basic (d : dfile) : list ecls :=
  dup_import [] (dfl_deps d)
  ++ flat_map (walk_msg (dfl_syntax d)) (dfl_msgs d)
  ++ flat_map (validate_enum (dfl_syntax d)) (dfl_enums d)
  ++ flat_map (validate_field (dfl_syntax d)) (dfl_exts d).

(* parser.ResultFromAST(file, validate = true): every error in the order it is reported *)
Definition stage1 (f : sfile) : list ecls :=
  let '(d, errs) := lower_file_raw f in errs ++ validate_basic d.

(* ------------------------------------------------------------------------------------------ *)
(* Part 2: linking *)

Definition dotc : N := 46%N.
Definition qual (prefix n : name) : name := match prefix with [] => n | _ => prefix ++ dotc :: n end.

(* [mi_mapval]: for a map entry, type and type name of its value field (field number 2) *)
Record minfo := mkMInfo { mi_mapentry : bool; mi_extr : list (Z * Z); mi_msgset : bool;
                          mi_mapval : option (option dtype * option name) }.
Record einfo := mkEInfo { ei_closed : bool; ei_values : list (name * Z) }.
Inductive sinfo := IMsg (m : minfo) | IEnum (e : einfo) | INone.

Record sym := mkSym { s_name : name; s_kind : Resolve.kind; s_enumval : bool; s_info : sinfo }.

Definition enum_syms (syn : syntax) (parent : name) (e : denum) : list sym :=
  mkSym (qual parent (de_name e)) Resolve.KEnum false
        (IEnum (mkEInfo (syntax_eqb syn Proto2) (de_values e)))
  :: map (fun v => mkSym (qual parent (fst v)) Resolve.KEnumValue true INone) (de_values e).

(* walk.Descriptors order: message, fields, oneofs, nested messages, enums (with values), extensions *)
Fixpoint msg_syms (syn : syntax) (parent : name) (m : dmsg) : list sym :=
  match m with
  | DMsg nm fields nested enums exts oneofs extr _ _ me ms =>
    let fq := qual parent nm in
    mkSym fq Resolve.KMessage false
          (IMsg (mkMInfo me extr ms (match fields with
                                     | [_; v] => if me then Some (df_type v, df_type_name v) else None
                                     | _ => None
                                     end)))
    :: map (fun f => mkSym (qual fq (df_name f)) Resolve.KField false INone) fields
    ++ map (fun o => mkSym (qual fq o) Resolve.KOneof false INone) oneofs
    ++ flat_map (msg_syms syn fq) nested
    ++ flat_map (enum_syms syn fq) enums
    ++ map (fun f => mkSym (qual fq (df_name f)) Resolve.KExtension false INone) exts
  end.

Definition pkg_of (d : dfile) : name := match dfl_package d with Some p => p | None => [] end.

Definition file_syms (d : dfile) : list sym :=
  let p := pkg_of d in
  flat_map (msg_syms (dfl_syntax d) p) (dfl_msgs d)
  ++ flat_map (enum_syms (dfl_syntax d) p) (dfl_enums d)
  ++ map (fun f => mkSym (qual p (df_name f)) Resolve.KExtension false INone) (dfl_exts d)
  ++ flat_map (fun s => mkSym (qual p (ds_name s)) Resolve.KService false INone
                        :: map (fun m => mkSym (qual (qual p (ds_name s)) (rpc_name m)) Resolve.KMethod false INone)
                               (ds_methods s)) (dfl_services d).

(* nameEnumerator: a, a.b, a.b.c *)
Fixpoint pkg_prefixes_from (acc rest : name) : list name :=
  match rest with
  | [] => match acc with [] => [] | _ => [acc] end
  | c :: r => if N.eqb c dotc then acc :: pkg_prefixes_from (acc ++ [c]) r
              else pkg_prefixes_from (acc ++ [c]) r
  end.
Definition pkg_prefixes (p : name) : list name := pkg_prefixes_from [] p.

(* the symbol table, flat: name -> isPackage *)
Definition symtab := list (name * bool).
Fixpoint tab_find (n : name) (T : symtab) : option bool :=
  match T with [] => None | (m, b) :: r => if name_eqb n m then Some b else tab_find n r end.

(* Symbols.importPackages: Some table, or None after a collision with a non-package symbol *)
Fixpoint import_packages (T : symtab) (ps : list name) : option symtab :=
  match ps with
  | [] => Some T
  | p :: r =>
    match tab_find p T with
    | Some true => import_packages T r
    | Some false => None
    | None => import_packages ((p, true) :: T) r
    end
  end.

(* packageSymbols.checkResultLocked *)
Fixpoint check_syms (T : symtab) (seen : list name) (ss : list sym) : list ecls :=
  match ss with
  | [] => []
  | s :: r =>
    (if is_some (tab_find (s_name s) T) then [ESymbolDup] else [])
    ++ (if mem_name (s_name s) seen then [ESymbolDup] else [])
    ++ check_syms T (s_name s :: seen) r
  end.

Definition commit_syms (T : symtab) (ss : list sym) : symtab :=
  fold_left (fun t s => (s_name s, false) :: t) ss T.

(* Symbols.importResult *)
Definition import_result (T : symtab) (d : dfile) : symtab * list ecls :=
  match import_packages T (pkg_prefixes (pkg_of d)) with
  | None => (T, [ESymbolDup])
  | Some T1 =>
    match check_syms T1 [] (file_syms d) with
    | [] => (commit_syms T1 (file_syms d), [])
    | es => (T1, es)
    end
  end.

Fixpoint assoc_name {A} (n : name) (l : list (name * A)) : option A :=
  match l with [] => None | (m, v) :: r => if name_eqb n m then Some v else assoc_name n r end.

(* ---- extension declarations (linker/validate.go validateExtension) ---- *)
(* an extension range of the descriptor with its options as written; None = no options at all *)
Record xrange := mkXRange { xr_rng : Z * Z; xr_opts : option xopts }.

Definition body_xranges (body : list melem) : list xrange :=
  let mt := match is_msgset body with MsYes => msgset_max | _ => field_max end in
  flat_map (fun e => match e with
                     | MExtensions rs => map (fun r => mkXRange (fst (msg_range r mt)) None) rs
                     | MExtensionsOpt rs o => map (fun r => mkXRange (fst (msg_range r mt)) (Some o)) rs
                     | _ => []
                     end) body.

(* every message of the source tree with its extension ranges, keyed by full name *)
Fixpoint elem_xdecls (parent : name) (e : melem) {struct e} : list (name * list xrange) :=
  match e with
  | MMessage nm body => (qual parent nm, body_xranges body) :: flat_map (elem_xdecls (qual parent nm)) body
  | MGroup _ nm _ body => (qual parent nm, body_xranges body) :: flat_map (elem_xdecls (qual parent nm)) body
  | MOneof _ els => flat_map (elem_xdecls parent) els
  | MExtend _ els => flat_map (elem_xdecls parent) els
  | _ => []
  end.

Definition file_xdecls (f : sfile) : list (name * list xrange) :=
  let p := match sf_package f with Some p => p | None => [] end in
  flat_map (fun d => match d with TElem e => elem_xdecls p e | TService _ _ => [] end) (sf_decls f).

Definition opt_name (o : option name) : name := match o with Some n => n | None => [] end.
Definition opt_Z (o : option Z) : Z := match o with Some z => z | None => 0 end.

(* the checks against the declaration that carries the number *)
(* [card]: what happens when the cardinality differs from the declared one.  The Go code reports it
   at the label keyword of the extension (file.NodeInfo(r.FieldNode(fd.proto).FieldLabel())); an
   extension written without a label (editions, proto3) has no such node, FieldLabel() is nil and
   the compile of the file panics (ECompilerPanic) after whatever was reported before *)
Definition decl_check (card : ecls) (d : xdecl) (fullname tyname : name) (repeated : bool) : list ecls :=
  if xd_reserved d then [EExtDeclReserved]
  else (if name_eqb (opt_name (xd_full_name d)) (dotc :: fullname) then [] else [EExtDeclName])
       ++ (if name_eqb (opt_name (xd_type d)) tyname then [] else [EExtDeclType])
       ++ (if Bool.eqb (xd_repeated d) repeated then [] else [card]).

(* the inner loop over the declarations of one range: the first one with the number decides *)
(* [miss]: what happens when no declaration carries the number.  The Go code reports it; but it
   looks for the position of the verification option in the file of the EXTENSION
   (findExtensionRangeOptionSpan(fd.ParentFile(), ...)), so when the extendee lives in another file
   the node lookup yields nil and the compile of the file panics (ECompilerPanic) *)
Fixpoint decl_loop (miss card : ecls) (ds : list xdecl) (num : Z) (fullname tyname : name) (repeated : bool) : list ecls :=
  match ds with
  | [] => [miss]
  | d :: r => if opt_Z (xd_number d) =? num then decl_check card d fullname tyname repeated
              else decl_loop miss card r num fullname tyname repeated
  end.

(* a range asks for declarations when it has some, or says verification = DECLARATION *)
Definition demands (o : xopts) : bool :=
  negb (match xo_decls o with [] => true | _ => false end)
  || match xo_verification o with Some true => true | _ => false end.

(* the loop over md.ExtensionRange as it is: ranges that do not contain the number are skipped;
   a containing range without options, or one that does not ask for declarations, ends the loop;
   after a checked range the loop goes on *)
Fixpoint go_ext_decl_errs (miss card : ecls) (xrs : list xrange) (num : Z) (fullname tyname : name) (repeated : bool) : list ecls :=
  match xrs with
  | [] => []
  | x :: r =>
    if (num <? fst (xr_rng x)) || (num >=? snd (xr_rng x)) then go_ext_decl_errs miss card r num fullname tyname repeated
    else match xr_opts x with
         | None => []
         | Some o =>
           if demands o then decl_loop miss card (xo_decls o) num fullname tyname repeated
                             ++ go_ext_decl_errs miss card r num fullname tyname repeated
           else []
         end
  end.

(* protoc: the range that contains the number is the one consulted *)
Definition spec_ext_decl_errs (miss card : ecls) (xrs : list xrange) (num : Z) (fullname tyname : name) (repeated : bool) : list ecls :=
  match find (fun x => in_ho_b num (xr_rng x)) xrs with
  | None => []
  | Some x => match xr_opts x with
              | Some o => if demands o then decl_loop miss card (xo_decls o) num fullname tyname repeated else []
              | None => []
              end
  end.

(* protoreflect.Kind.String() *)
Definition scalar_name (s : scalar) : name :=
  match s with
  | SDouble => [100;111;117;98;108;101] | SFloat => [102;108;111;97;116] | SInt64 => [105;110;116;54;52]
  | SUint64 => [117;105;110;116;54;52] | SInt32 => [105;110;116;51;50] | SFixed64 => [102;105;120;101;100;54;52]
  | SFixed32 => [102;105;120;101;100;51;50] | SBool => [98;111;111;108] | SString => [115;116;114;105;110;103]
  | SBytes => [98;121;116;101;115] | SUint32 => [117;105;110;116;51;50] | SSfixed32 => [115;102;105;120;101;100;51;50]
  | SSfixed64 => [115;102;105;120;101;100;54;52] | SSint32 => [115;105;110;116;51;50] | SSint64 => [115;105;110;116;54;52]
  end%N.

(* ---- linker/validate.go validateExtensionDeclarations: the declarations themselves ---- *)
Fixpoint split_dots_acc (s cur : name) : list name :=
  match s with
  | [] => [cur]
  | c :: r => if N.eqb c dotc then cur :: split_dots_acc r [] else split_dots_acc r (cur ++ [c])
  end.
(* protoreflect.FullName.IsValid *)
Definition full_name_valid (s : name) : bool := forallb is_identifier (split_dots_acc s []).

Definition all_scalars : list scalar :=
  [SDouble; SFloat; SInt64; SUint64; SInt32; SFixed64; SFixed32; SBool; SString; SBytes; SUint32; SSfixed32; SSfixed64; SSint32; SSint64].
Definition is_builtin_type_name (t : name) : bool := existsb (fun s => name_eqb t (scalar_name s)) all_scalars.

(* extDecls of linker.Symbols: declared extension name -> (extendee, number) *)
Definition xnames := list (name * (name * Z)).

Fixpoint mem_Z (z : Z) (l : list Z) : bool := match l with [] => false | x :: r => (z =? x) || mem_Z z r end.

(* the loop over the declarations of one range; [seen] = declsByTag, [T] = the table of names *)
Fixpoint xdecl_wf_loop (msg : name) (rng : Z * Z) (ds : list xdecl) (seen : list Z) (T : xnames) : list ecls * xnames :=
  match ds with
  | [] => ([], T)
  | d :: r =>
    let '(e1, seen1) :=
      match xd_number d with
      | None => ([EExtDeclBad], seen)
      | Some n => if (n <? fst rng) || (n >=? snd rng) then ([EExtDeclBad], seen)
                  else if mem_Z n seen then ([EExtDeclBad], seen) else ([], n :: seen)
      end in
    let '(e2, T1) :=
      match xd_full_name d with
      | None => (if xd_reserved d then [] else [EExtDeclBad], T)
      | Some fnm =>
        let nodot := negb (match fnm with c :: _ => N.eqb c dotc | [] => false end) in
        let bare := if nodot then fnm else tl fnm in
        let ea := if nodot then [EExtDeclBad] else [] in
        let eb := if full_name_valid bare then [] else [EExtDeclBad] in
        let num := opt_Z (xd_number d) in
        match assoc_name bare T with
        | Some (m0, n0) => (ea ++ eb ++ (if name_eqb m0 msg && (n0 =? num) then [] else [EExtDeclBad]), T)
        | None => (ea ++ eb, (bare, (msg, num)) :: T)
        end
      end in
    let e3 :=
      match xd_type d with
      | None => if xd_reserved d then [] else [EExtDeclBad]
      | Some t => match t with
                  | c :: rest => if N.eqb c dotc then (if full_name_valid rest then [] else [EExtDeclBad])
                                 else if is_builtin_type_name t then [] else [EExtDeclBad]
                  | [] => [EExtDeclBad]
                  end
      end in
    let e4 := if xd_reserved d && negb (Bool.eqb (is_some (xd_full_name d)) (is_some (xd_type d))) then [EExtDeclBad] else [] in
    let '(er, T2) := xdecl_wf_loop msg rng r seen1 T1 in
    (e1 ++ e2 ++ e3 ++ e4 ++ er, T2)
  end.

Fixpoint xranges_wf (msg : name) (xrs : list xrange) (T : xnames) : list ecls * xnames :=
  match xrs with
  | [] => ([], T)
  | x :: r =>
    let '(e, T1) :=
      match xr_opts x with
      | Some o =>
        match xo_decls o with
        | [] => ([], T)
        | ds =>
          let e0 := match xo_verification o with Some false => [EExtDeclBad] | _ => [] end in
          let '(e1, T1) := xdecl_wf_loop msg (xr_rng x) ds [] T in (e0 ++ e1, T1)
        end
      | None => ([], T)
      end in
    let '(er, T2) := xranges_wf msg r T1 in (e ++ er, T2)
  end.

(* ---- what a file can see ---- *)
Record cfile := mkCFile { cf_name : name; cf_desc : dfile; cf_syms : list sym;
                         cf_xdecls : list (name * list xrange) }.

Fixpoint find_cfile (n : name) (cs : list cfile) : option cfile :=
  match cs with [] => None | c :: r => if name_eqb n (cf_name c) then Some c else find_cfile n r end.

(* resolveInFile(dep, publicImportsOnly = true): the file, then its public imports, depth first *)
Fixpoint pub_closure (fuel : nat) (cs : list cfile) (c : cfile) : list cfile :=
  match fuel with
  | O => [c]
  | S f =>
    c :: flat_map (fun i => match nth_error (dfl_deps (cf_desc c)) i with
                            | Some p => match find_cfile p cs with Some d => pub_closure f cs d | None => [] end
                            | None => [] end) (dfl_public (cf_desc c))
  end.

Definition visible_deps (cs : list cfile) (d : dfile) : list cfile :=
  flat_map (fun p => match find_cfile p cs with Some c => pub_closure (length cs) cs c | None => [] end)
           (dfl_deps d).

Definition rfile (pkg : name) (ss : list sym) : Resolve.file :=
  Resolve.mkFile pkg (map (fun s => (s_name s, s_kind s)) ss).

Definition universe_of (cs : list cfile) (d : dfile) : Resolve.universe :=
  Resolve.mkU (rfile (pkg_of d) (file_syms d))
              (map (fun c => rfile (pkg_of (cf_desc c)) (cf_syms c)) (visible_deps cs d)).

Fixpoint find_sym (n : name) (ss : list sym) : option sym :=
  match ss with [] => None | s :: r => if name_eqb n (s_name s) then Some s else find_sym n r end.

Definition all_visible_syms (cs : list cfile) (d : dfile) : list sym :=
  file_syms d ++ flat_map cf_syms (visible_deps cs d).

(* ---- which reading of the rules: the Go code as it is, or protoc (Model/SpecOracle.v) ----
   go_cfg is the mirror of the code.  The other settings are the points where the repository
   documents that protoc behaves differently, plus the choice of the lookup algorithm (the Go scope
   walk, or protoc's LookupSymbol as specified in Model/ProtocLookup.v, equal by C15). *)
Record cfg := mkCfg {
  c_spec_lookup : bool;      (* resolve names with Spec.lookup instead of go_resolve *)
  c_protoc_json : bool;      (* JSON-name conflicts as protoc's CheckFieldJsonNameUniqueness *)
  c_spec_extdecl : bool;     (* extension declarations: the containing range, not the Go loop *)
  c_extdecl_span_repaired : bool  (* fixes/C01-extdecl-missing-span-file.diff applied: no panic for an
                                     undeclared extension whose extendee is in another file *)
}.
Definition go_cfg : cfg := mkCfg false false false false.
Definition go_cfg_repaired : cfg := mkCfg false false false true.

Definition sres_to_gres (r : ProtocLookup.Spec.sres) : Resolve.gres :=
  match r with
  | ProtocLookup.Spec.SNone | ProtocLookup.Spec.SOutOfFuel => Resolve.GNil
  | ProtocLookup.Spec.SFound n (ProtocLookup.Spec.SK k) => Resolve.GDesc n k
  | ProtocLookup.Spec.SFound n ProtocLookup.Spec.SKPackage => Resolve.GSentinel n
  | ProtocLookup.Spec.SUndefined n => Resolve.GSentinel n
  end.

(* result.resolve(name, onlyTypes, scopes) for a reference held by element [elem] inside the
   messages [path] *)
Definition resolve_ref (c : cfg) (U : Resolve.universe) (path : list name) (elem nm : name) (onlyTypes : bool) : Resolve.gres :=
  if c_spec_lookup c
  then sres_to_gres (ProtocLookup.Spec.lookup U (ProtocLookup.relative_to U path elem) nm
                       (if onlyTypes then ProtocLookup.Spec.LookupTypes else ProtocLookup.Spec.LookupAll))
  else Resolve.go_resolve U path nm onlyTypes.

(* ---- resolveFieldTypes ---- *)
Record lctx := mkLCtx { lc_cfg : cfg; lc_files : list cfile; lc_self : dfile; lc_U : Resolve.universe;
                        lc_vis : list sym; lc_xdecls : list (name * list xrange);
                        lc_xself : name -> bool   (* is this message declared in the file being compiled *) }.

Definition info_of (L : lctx) (n : name) : sinfo :=
  match find_sym n (lc_vis L) with Some s => s_info s | None => INone end.

Definition in_half_open (tag : Z) (r : Z * Z) : bool := (fst r <=? tag) && (tag <? snd r).

Definition set_type (fd : dfield) (t : option dtype) (tn : option name) : dfield :=
  mkDField (df_name fd) (df_number fd) (df_label fd) t tn (df_extendee fd) (df_json fd) (df_oneof fd)
           (df_p3opt fd) (df_default fd) (df_opts fd) (df_src fd).

Definition extnums := list (name * Z).
Fixpoint ext_mem (m : name) (t : Z) (l : extnums) : bool :=
  match l with [] => false | (m', t') :: r => (name_eqb m m' && (t =? t')) || ext_mem m t r end.

(* the extendee half of resolveFieldTypes: new field, new table of extension numbers, errors;
   the boolean says that the function returned (no type resolution after it) *)
Definition resolve_extendee (L : lctx) (path : list name) (X : extnums) (fd : dfield)
  : dfield * extnums * list ecls * bool :=
  match df_extendee fd with
  | Some ((_ :: _) as x) =>
    match resolve_ref (lc_cfg L) (lc_U L) path (df_name fd) x false with
    | Resolve.GNil | Resolve.GSentinel _ => (fd, X, [EExtendeeUnknown], true)
    | Resolve.GDesc n Resolve.KMessage =>
      let fd1 := set_extendee fd (dotc :: n) in
      let rs := match info_of L n with IMsg mi => mi_extr mi | _ => [] end in
      if existsb (in_half_open (df_number fd)) rs then
        if ext_mem n (df_number fd) X then (fd1, X, [ESymbolDup], false)
        else (fd1, (n, df_number fd) :: X, [], false)
      else (fd1, X, [EExtTagNotInRange], false)
    | Resolve.GDesc _ _ => (fd, X, [EExtendeeNotMessage], true)
    end
  | _ => (fd, X, [], false)
  end.

(* the type half of resolveFieldTypes *)
Definition resolve_type (L : lctx) (path : list name) (fd : dfield) : dfield * list ecls :=
  match df_type_name fd with
  | Some ((_ :: _) as tn) =>
    match resolve_ref (lc_cfg L) (lc_U L) path (df_name fd) tn true with
    | Resolve.GNil | Resolve.GSentinel _ => (fd, [ETypeUnknown])
    | Resolve.GDesc n Resolve.KMessage =>
      let isentry := match info_of L n with IMsg mi => mi_mapentry mi | _ => false end in
      if isentry && negb (match df_src fd with FromMap => true | _ => false end) then (fd, [EMapEntryRef])
      else
        let fd1 := set_type fd (df_type fd) (Some (dotc :: n)) in
        match df_type fd with
        | None => (set_type fd1 (Some DMessage) (df_type_name fd1), [])
        | Some DMessage | Some DGroup => (fd1, [])
        | Some _ => (fd1, [EOther])
        end
    | Resolve.GDesc n Resolve.KEnum =>
      let fd1 := set_type fd (df_type fd) (Some (dotc :: n)) in
      match df_type fd with
      | None => (set_type fd1 (Some DEnum) (df_type_name fd1), [])
      | Some DEnum => (fd1, [])
      | Some _ => (fd1, [EOther])
      end
    | Resolve.GDesc _ _ => (fd, [ETypeNotType])
    end
  | _ => (fd, [])
  end.

Definition resolve_field (L : lctx) (path : list name) (X : extnums) (fd : dfield)
  : dfield * extnums * list ecls :=
  let '(fd1, X1, e1, stop) := resolve_extendee L path X fd in
  if stop then (fd1, X1, e1)
  else let '(fd2, e2) := resolve_type L path fd1 in (fd2, X1, e1 ++ e2).

(* allowedProto3Extendee on the resolved extendee *)
Definition gp : name := [46;103;111;111;103;108;101;46;112;114;111;116;111;98;117;102;46]%N.
Definition opt_names : list name :=
  [ [70;105;108;101;79;112;116;105;111;110;115]; [77;101;115;115;97;103;101;79;112;116;105;111;110;115];
    [70;105;101;108;100;79;112;116;105;111;110;115]; [79;110;101;111;102;79;112;116;105;111;110;115];
    [69;120;116;101;110;115;105;111;110;82;97;110;103;101;79;112;116;105;111;110;115];
    [69;110;117;109;79;112;116;105;111;110;115]; [69;110;117;109;86;97;108;117;101;79;112;116;105;111;110;115];
    [83;101;114;118;105;99;101;79;112;116;105;111;110;115]; [77;101;116;104;111;100;79;112;116;105;111;110;115] ]%N.
Definition allowed_proto3_extendee (x : option name) : bool :=
  match x with
  | None | Some [] => true
  | Some n => existsb (fun o => name_eqb n (gp ++ o)) opt_names
  end.

Fixpoint resolve_fields (L : lctx) (path : list name) (isext : bool) (X : extnums) (fs : list dfield)
  : list dfield * extnums * list ecls :=
  match fs with
  | [] => ([], X, [])
  | fd :: r =>
    let '(fd1, X1, e1) := resolve_field L path X fd in
    let e2 := if isext && syntax_eqb (dfl_syntax (lc_self L)) Proto3 && negb (allowed_proto3_extendee (df_extendee fd1))
              then [EProto3Extend] else [] in
    let '(fs1, X2, e3) := resolve_fields L path isext X1 r in
    (fd1 :: fs1, X2, e1 ++ e2 ++ e3)
  end.

(* resolveReferences over a message: fields, nested messages, extensions (the scope stack is
   the list of enclosing message names, outermost first) *)
Fixpoint resolve_msg (L : lctx) (path : list name) (X : extnums) (m : dmsg) : dmsg * extnums * list ecls :=
  match m with
  | DMsg nm fields nested enums exts oneofs extr rsvr rsvn me ms =>
    let p := path ++ [nm] in
    let '(fields1, X1, e1) := resolve_fields L p false X fields in
    let '(nested1, X2, e2) :=
      (fix go (X : extnums) (ms : list dmsg) : list dmsg * extnums * list ecls :=
         match ms with
         | [] => ([], X, [])
         | c :: r => let '(c1, Xa, ea) := resolve_msg L p X c in
                     let '(r1, Xb, eb) := go Xa r in (c1 :: r1, Xb, ea ++ eb)
         end) X1 nested in
    let '(exts1, X3, e3) := resolve_fields L p true X2 exts in
    (DMsg nm fields1 nested1 enums exts1 oneofs extr rsvr rsvn me ms, X3, e1 ++ e2 ++ e3)
  end.

Fixpoint resolve_msgs (L : lctx) (X : extnums) (ms : list dmsg) : list dmsg * extnums * list ecls :=
  match ms with
  | [] => ([], X, [])
  | c :: r => let '(c1, Xa, ea) := resolve_msg L [] X c in
              let '(r1, Xb, eb) := resolve_msgs L Xa r in (c1 :: r1, Xb, ea ++ eb)
  end.

(* resolveMethodTypes *)
Definition resolve_rpc_type (L : lctx) (svc mtd : name) (t : name) : name * list ecls :=
  match resolve_ref (lc_cfg L) (lc_U L) [svc] mtd t false with
  | Resolve.GNil | Resolve.GSentinel _ => (t, [EMethodTypeUnknown])
  | Resolve.GDesc n Resolve.KMessage => (dotc :: n, [])
  | Resolve.GDesc _ _ => (t, [EMethodTypeNotMessage])
  end.

Definition resolve_service (L : lctx) (s : dservice) : dservice * list ecls :=
  let rs := map (fun m =>
                   let '(i, e1) := resolve_rpc_type L (ds_name s) (rpc_name m) (rpc_in m) in
                   let '(o, e2) := resolve_rpc_type L (ds_name s) (rpc_name m) (rpc_out m) in
                   (mkRpc (rpc_name m) i o (rpc_cs m) (rpc_ss m), e1 ++ e2)) (ds_methods s) in
  (mkDService (ds_name s) (map fst rs), flat_map snd rs).

(* resolveReferences *)
Definition resolve_file (c : cfg) (cs : list cfile) (X : extnums) (d : dfile) : dfile * extnums * list ecls :=
  let L := mkLCtx c cs d (universe_of cs d) (all_visible_syms cs d) [] (fun _ => true) in
  let '(msgs, X1, e1) := resolve_msgs L X (dfl_msgs d) in
  let '(exts, X2, e2) := resolve_fields L [] true X1 (dfl_exts d) in
  let svcs := map (resolve_service L) (dfl_services d) in
  (mkDFile (dfl_name d) (dfl_package d) (dfl_syntax d) (dfl_deps d) (dfl_public d) (dfl_weak d)
           msgs (dfl_enums d) exts (map fst svcs),
   X2, e1 ++ e2 ++ flat_map snd svcs).

(* ------------------------------------------------------------------------------------------ *)
(* Part 3: the field pseudo-options *)

Definition set_json (fd : dfield) (j : name) : dfield :=
  mkDField (df_name fd) (df_number fd) (df_label fd) (df_type fd) (df_type_name fd) (df_extendee fd) j
           (df_oneof fd) (df_p3opt fd) (df_default fd) (df_opts fd) (df_src fd).
Definition set_default (fd : dfield) (v : list N) : dfield :=
  mkDField (df_name fd) (df_number fd) (df_label fd) (df_type fd) (df_type_name fd) (df_extendee fd)
           (df_json fd) (df_oneof fd) (df_p3opt fd) (Some v) (df_opts fd) (df_src fd).

Definition brackets (s : name) : bool :=
  match s with
  | c :: _ => N.eqb c 91%N && N.eqb (last s 0%N) 93%N
  | [] => false
  end.

(* decimal text of an integer (fmt %v) *)
Fixpoint digits_pos (fuel : nat) (n : N) (acc : list N) : list N :=
  match fuel with
  | O => acc
  | S f => let acc1 := (48 + n mod 10)%N :: acc in
           if (n / 10 =? 0)%N then acc1 else digits_pos f (n / 10)%N acc1
  end.
Definition dec_N (n : N) : list N := digits_pos (S (N.to_nat (N.log2 n))) n [].
Definition dec_Z (z : Z) : list N := if z <? 0 then 45%N :: dec_N (Z.to_N (- z)) else dec_N (Z.to_N z).

Definition int_range (s : scalar) : option (Z * Z) :=
  match s with
  | SInt32 | SSint32 | SSfixed32 => Some (-2147483648, 2147483647)
  | SUint32 | SFixed32 => Some (0, 4294967295)
  | SInt64 | SSint64 | SSfixed64 => Some (-9223372036854775808, 9223372036854775807)
  | SUint64 | SFixed64 => Some (0, 18446744073709551615)
  | _ => None
  end.

(* EscapeBytes is Model/Escape.v (C26); restated here on the same byte lists *)
Definition escape_byte (c : N) : list N :=
  (if c =? 10 then [92; 110] else if c =? 13 then [92; 114] else if c =? 9 then [92; 116]
   else if c =? 34 then [92; 34] else if c =? 39 then [92; 39] else if c =? 92 then [92; 92]
   else if (32 <=? c) && (c <? 127) then [c]
   else [92; 48 + (c / 64) mod 8; 48 + (c / 8) mod 8; 48 + c mod 8])%N.

Inductive defres := DefOk (text : list N) | DefErr (e : ecls) | DefUnmodelled.

(* processDefaultOption after the repeated / message checks *)
Definition default_value (L : lctx) (fd : dfield) (v : oval) : defres :=
  match df_type fd with
  | Some DEnum =>
    match v, df_type_name fd with
    | VIdent n, Some (_ :: tn) =>
      match info_of L tn with
      | IEnum ei => if existsb (fun p => name_eqb n (fst p)) (ei_values ei) then DefOk n else DefErr EDefaultBadValue
      | _ => DefErr EDefaultBadValue
      end
    | _, _ => DefErr EDefaultBadValue
    end
  | Some (DScalar SBool) =>
    match v with
    | VIdent n => if name_eqb n true_name || name_eqb n false_name then DefOk n else DefErr EDefaultBadValue
    | _ => DefErr EDefaultBadValue
    end
  | Some (DScalar SString) => match v with VStr b => DefOk b | _ => DefErr EDefaultBadValue end
  | Some (DScalar SBytes) => match v with VStr b => DefOk (flat_map escape_byte b) | _ => DefErr EDefaultBadValue end
  | Some (DScalar s) =>
    match int_range s with
    | Some (lo, hi) =>
      match v with
      | VUint z => if z <=? hi then DefOk (dec_Z z) else DefErr EDefaultBadValue
      | VNint z => if (lo <=? z) && (z <=? hi) then DefOk (dec_Z z) else DefErr EDefaultBadValue
      | _ => DefErr EDefaultBadValue
      end
    | None => DefUnmodelled
    end
  | _ => DefUnmodelled
  end.

(* interpretFieldPseudoOptions *)
Definition pseudo_options (L : lctx) (fd : dfield) : dfield * list ecls :=
  match df_opts fd with
  | [] => (fd, [])
  | opts =>
    let '(fd1, e1, stop) :=
      match find_fopts OJsonName opts with
      | [] => (fd, [], false)
      | [VStr j] =>
        if ext_nonempty fd && negb (match j with [] => true | _ => false end) && negb (name_eqb j (json_name (df_name fd)))
        then (fd, [EJsonNameExt], true)
        else if brackets j then (fd, [EJsonNameBrackets], true)
        else (set_json fd j, [], false)
      | [_] => (fd, [EJsonNameNotString], true)
      | _ => (fd, [EOptionRepeated], true)
      end in
    if stop then (fd1, e1)
    else
      match find_fopts ODefault opts with
      | [] => (fd1, e1)
      | [v] =>
        if is_label (df_label fd1) DRepeated then (fd1, e1 ++ [EDefaultRepeated])
        else match df_type fd1 with
             | Some DGroup | Some DMessage => (fd1, e1 ++ [EDefaultMessage])
             | _ => match default_value L fd1 v with
                    | DefOk t => (set_default fd1 t, e1)
                    | DefErr e => (fd1, e1 ++ [e])
                    | DefUnmodelled => (fd1, e1 ++ [EOther])
                    end
             end
      | _ => (fd1, e1 ++ [EOptionRepeated])
      end
  end.

Definition map_fields_errs (f : dfield -> dfield * list ecls) (fs : list dfield) : list dfield * list ecls :=
  let rs := map f fs in (map fst rs, flat_map snd rs).

(* interpretMessageOptions: fields, extensions, nested messages *)
Fixpoint options_msg (L : lctx) (m : dmsg) : dmsg * list ecls :=
  match m with
  | DMsg nm fields nested enums exts oneofs extr rsvr rsvn me ms =>
    let '(f1, e1) := map_fields_errs (pseudo_options L) fields in
    let '(x1, e2) := map_fields_errs (pseudo_options L) exts in
    let ns := map (options_msg L) nested in
    (DMsg nm f1 (map fst ns) enums x1 oneofs extr rsvr rsvn me ms, e1 ++ e2 ++ flat_map snd ns)
  end.

(* interpretFileOptions: messages, then file-level extensions *)
Definition options_file (c : cfg) (cs : list cfile) (d : dfile) : dfile * list ecls :=
  let L := mkLCtx c cs d (universe_of cs d) (all_visible_syms cs d) [] (fun _ => true) in
  let ms := map (options_msg L) (dfl_msgs d) in
  let '(x1, e2) := map_fields_errs (pseudo_options L) (dfl_exts d) in
  (mkDFile (dfl_name d) (dfl_package d) (dfl_syntax d) (dfl_deps d) (dfl_public d) (dfl_weak d)
           (map fst ms) (dfl_enums d) x1 (dfl_services d), flat_map snd ms ++ e2).

(* ------------------------------------------------------------------------------------------ *)
(* Part 4: ValidateOptions *)

(* features of a file of the fragment (no feature options): proto2 = explicit presence, closed
   enums, best-effort JSON; proto3 = implicit, open, JSON; edition 2023 = explicit, open, JSON *)
Definition json_compliant (syn : syntax) : bool := negb (syntax_eqb syn Proto2).

Definition is_msg_kind (t : option dtype) : bool :=
  match t with Some DMessage | Some DGroup => true | _ => false end.

(* fldDescriptor.HasPresence *)
Definition has_presence (syn : syntax) (fd : dfield) : bool :=
  if is_label (df_label fd) DRepeated then false
  else if ext_nonempty fd || is_msg_kind (df_type fd) || is_some (df_oneof fd) then true
  else negb (syntax_eqb syn Proto3).

Definition has_custom_json (fd : dfield) : bool :=
  match find_fopts OJsonName (df_opts fd) with [] => false | _ => true end.


(* validateFieldJSONNames: [seen] maps a JSON name to (custom?) of the field that owns it;
   the result lists (is an error?) for every reported conflict *)
Fixpoint json_loop (compliant useCustom : bool) (seen : list (name * bool)) (fs : list dfield) : list bool :=
  match fs with
  | [] => []
  | fd :: r =>
    let dflt := json_name (df_name fd) in
    let '(nm, custom) :=
      if useCustom && (negb (name_eqb (df_json fd) dflt) || has_custom_json fd) then (df_json fd, true)
      else (dflt, false) in
    match assoc_name nm seen with
    | Some ecustom =>
      (if negb useCustom || custom || ecustom
       then [negb (negb compliant && negb custom && negb ecustom)] else [])
      ++ json_loop compliant useCustom seen r
    | None => json_loop compliant useCustom ((nm, custom) :: seen) r
    end
  end.

Definition json_conflict_errs (compliant : bool) (fs : list dfield) : list ecls :=
  flat_map (fun b : bool => if b then [EJsonConflict] else [])
           (json_loop compliant false [] fs ++ json_loop compliant true [] fs).

(* the projection of a field that protoc's JSON check looks at (Model/ValiditySpec.v) *)
Definition jf_of (fd : dfield) : jfield := (df_name fd, df_json fd, has_custom_json fd).

(* validateJSONNamesInEnum *)
Fixpoint enum_json_loop (compliant : bool) (ename : name) (seen : list (name * Z)) (vs : list (name * Z)) : list ecls :=
  match vs with
  | [] => []
  | (nm, num) :: r =>
    let c := canonical_enum_value_name nm ename in
    match assoc_name c seen with
    | Some n0 => if negb (num =? n0) then (if compliant then [EEnumJsonConflict] else []) ++ enum_json_loop compliant ename seen r
                 else enum_json_loop compliant ename ((c, num) :: seen) r
    | None => enum_json_loop compliant ename ((c, num) :: seen) r
    end
  end.

(* validateEnum of linker/validate.go *)
Definition validate_enum_link (syn : syntax) (e : denum) : list ecls :=
  (match de_values e with
   | (_, num) :: _ => if negb (syntax_eqb syn Proto2) && negb (num =? 0) then [EEnumFirstZero] else []
   | [] => []
   end)
  ++ enum_json_loop (json_compliant syn) (de_name e) [] (de_values e).

(* validateField of linker/validate.go, including validateExtension *)
Definition field_type_name (fd : dfield) : name :=
  match df_type fd with
  | Some (DScalar s) => scalar_name s
  | _ => opt_name (df_type_name fd)
  end.

(* r.FieldNode(fd.proto).FieldLabel() != nil for a field that reached ValidateOptions: the descriptor
   no longer says whether a label keyword was written (fillInMissingLabels made it optional), but
   validateBasic has passed, so a proto2 field has one, an editions field that is optional has none
   (the keyword is rejected there), and a proto3 field that is optional has one exactly when it is
   a proto3-optional field *)
Definition has_label_keyword (syn : syntax) (fd : dfield) : bool :=
  negb (is_label (df_label fd) DOptional) || syntax_eqb syn Proto2 || df_p3opt fd.

Definition validate_field_link (L : lctx) (parent : name) (fd : dfield) : list ecls :=
  let syn := dfl_syntax (lc_self L) in
  (match df_type fd, df_type_name fd with
   | Some DEnum, Some (_ :: tn) =>
     let closed := match info_of L tn with IEnum ei => ei_closed ei | _ => false end in
     if negb (is_label (df_label fd) DRepeated) && negb (has_presence syn fd) && closed
     then [EClosedEnumImplicit] else []
   | _, _ => []
   end)
  ++ (* fd.IsMap(): a repeated field whose message type is a map entry; the enum of the value field
        must start at zero *)
     (match df_type_name fd with
      | Some (_ :: tn) =>
        match info_of L tn with
        | IMsg mi =>
          match mi_mapentry mi && is_label (df_label fd) DRepeated, mi_mapval mi with
          | true, Some (Some DEnum, Some (_ :: en)) =>
            match info_of L en with
            | IEnum ei => match ei_values ei with (_, num) :: _ => if num =? 0 then [] else [EMapEnumFirstZero] | [] => [] end
            | _ => []
            end
          | _, _ => []
          end
        | _ => []
        end
      | _ => []
      end)
  ++ (if is_some (df_default fd) && negb (has_presence syn fd) then [EDefaultImplicit] else [])
  ++ (match df_extendee fd with
      | Some (_ :: x) =>
        let isset := match info_of L x with IMsg mi => mi_msgset mi | _ => false end in
        if isset then
          (match df_type fd with Some DMessage => [] | _ => [EMsgsetScalarExt] end)
          ++ (if is_label (df_label fd) DRepeated then [EMsgsetRepeatedExt] else [])
        else if field_max <? df_number fd then [ETagTooHigh] else []
      | _ => []
      end)
  ++ (* validateExtension: the declarations of the extendee *)
     (match df_extendee fd with
      | Some (_ :: x) =>
        let xrs := match assoc_name x (lc_xdecls L) with Some l => l | None => [] end in
        (if c_spec_extdecl (lc_cfg L) then spec_ext_decl_errs EExtDeclMissing EExtDeclRepeated
         else go_ext_decl_errs (if lc_xself L x || c_extdecl_span_repaired (lc_cfg L) then EExtDeclMissing else ECompilerPanic)
                               (if has_label_keyword syn fd then EExtDeclRepeated else ECompilerPanic))
          xrs (df_number fd) (qual parent (df_name fd)) (field_type_name fd) (is_label (df_label fd) DRepeated)
      | _ => []
      end).

(* walk.Descriptors with validateField / validateMessage / validateEnum *)
Fixpoint validate_msg_link (L : lctx) (parent : name) (T : xnames) (m : dmsg) : list ecls * xnames :=
  match m with
  | DMsg nm fields nested enums exts _ _ _ _ _ _ =>
    let fq := qual parent nm in
    let '(ex, T1) := xranges_wf fq (match assoc_name fq (lc_xdecls L) with Some l => l | None => [] end) T in
    let '(en, T2) :=
      (fix go (T : xnames) (ms : list dmsg) : list ecls * xnames :=
         match ms with
         | [] => ([], T)
         | c :: r => let '(ea, Ta) := validate_msg_link L fq T c in
                     let '(eb, Tb) := go Ta r in (ea ++ eb, Tb)
         end) T1 nested in
    ((if c_protoc_json (lc_cfg L)
      then map (fun _ => EJsonConflict)
               (protoc_json_errors to_json_name (json_compliant (dfl_syntax (lc_self L))) (map jf_of fields))
      else json_conflict_errs (json_compliant (dfl_syntax (lc_self L))) fields)
     ++ ex
     ++ flat_map (validate_field_link L fq) fields
     ++ en
     ++ flat_map (validate_enum_link (dfl_syntax (lc_self L))) enums
     ++ flat_map (validate_field_link L fq) exts, T2)
  end.

Fixpoint validate_msgs_link (L : lctx) (parent : name) (T : xnames) (ms : list dmsg) : list ecls * xnames :=
  match ms with
  | [] => ([], T)
  | c :: r => let '(ea, Ta) := validate_msg_link L parent T c in
              let '(eb, Tb) := validate_msgs_link L parent Ta r in (ea ++ eb, Tb)
  end.

Definition validate_options (c : cfg) (cs : list cfile) (xself : list (name * list xrange)) (T : xnames) (d : dfile)
  : list ecls * xnames :=
  let L := mkLCtx c cs d (universe_of cs d) (all_visible_syms cs d)
                  (xself ++ flat_map cf_xdecls (visible_deps cs d))
                  (fun x => is_some (assoc_name x xself)) in
  let '(em, T1) := validate_msgs_link L (pkg_of d) T (dfl_msgs d) in
  (em ++ flat_map (validate_enum_link (dfl_syntax d)) (dfl_enums d)
      ++ flat_map (validate_field_link L (pkg_of d)) (dfl_exts d), T1).

(* ------------------------------------------------------------------------------------------ *)
(* Part 5: the pipeline *)

Record cstate := mkCState { st_tab : symtab; st_exts : extnums; st_done : list cfile; st_failed : list name;
                           st_xnames : xnames }.

Inductive fres := FOk (d : dfile) | FErr (first : ecls) | FDepFailed.

Definition hd_err (es : list ecls) : option ecls := match es with [] => None | e :: _ => Some e end.

(* one file: parse + basic validation; then, if every import compiled, link, interpret the
   pseudo-options, validate *)
Definition compile_file (c : cfg) (st : cstate) (f : sfile) : cstate * fres :=
  let fail := fun st' e => (mkCState (st_tab st') (st_exts st') (st_done st') (sf_name f :: st_failed st') (st_xnames st'), e) in
  match stage1 f with
  | e :: _ => fail st (FErr e)
  | [] =>
    let d := lower_file f in
    if existsb (fun p => mem_name p (st_failed st) || negb (is_some (find_cfile p (st_done st)))) (dfl_deps d)
    then fail st FDepFailed
    else
      match import_result (st_tab st) d with
      | (T, e :: _) => fail (mkCState T (st_exts st) (st_done st) (st_failed st) (st_xnames st)) (FErr e)
      | (T, []) =>
        let '(d1, X, e2) := resolve_file c (st_done st) (st_exts st) d in
        let st1 := mkCState T X (st_done st) (st_failed st) (st_xnames st) in
        match e2 with
        | e :: _ => fail st1 (FErr e)
        | [] =>
          let '(d2, e3) := options_file c (st_done st) d1 in
          match e3 with
          | e :: _ => fail st1 (FErr e)
          | [] =>
            match validate_options c (st_done st) (file_xdecls f) (st_xnames st) d2 with
            | (e :: _, XN) => fail (mkCState T X (st_done st) (st_failed st) XN) (FErr e)
            | ([], XN) => (mkCState T X (st_done st ++ [mkCFile (sf_name f) d2 (file_syms d2) (file_xdecls f)]) (st_failed st) XN, FOk d2)
            end
          end
        end
      end
  end.

Fixpoint compile_files (c : cfg) (st : cstate) (fs : list sfile) : list (name * fres) :=
  match fs with
  | [] => []
  | f :: r => let '(st1, res) := compile_file c st f in (sf_name f, res) :: compile_files c st1 r
  end.

(* the files are given with every import before its importer *)
Definition compile_with (c : cfg) (fs : list sfile) : list (name * fres) := compile_files c (mkCState [] [] [] [] []) fs.
Definition compile (fs : list sfile) : list (name * fres) := compile_with go_cfg fs.

Definition accepts (fs : list sfile) : bool :=
  forallb (fun p => match snd p with FOk _ => true | _ => false end) (compile fs).

(* ------------------------------------------------------------------------------------------ *)
(* correspondence: what the harness observed on the implementation, checked against the model *)
From PV Require Import Common.Corr.

Definition opt_ecls_eqb (a b : option ecls) : bool :=
  match a, b with Some x, Some y => ecls_eqb x y | None, None => true | _, _ => false end.
(* a panic aborts the compile of the file without a report *)
Definition res_cls (r : fres) : option ecls :=
  match r with FErr ECompilerPanic => None | FErr e => Some e | _ => None end.

(* files in compile order, the verdict, and per file the class of the first error reported for it *)
Inductive c01_case := C01Case (files : list sfile) (ok : bool) (first : list (name * option ecls)).

Definition c01_chk_with (g : cfg) (c : c01_case) : bool :=
  match c with
  | C01Case fs ok first =>
    let res := compile_with g fs in
    Bool.eqb (forallb (fun p => match snd p with FOk _ => true | _ => false end) res) ok
    && list_eqb (fun a b => name_eqb (fst a) (fst b) && opt_ecls_eqb (snd a) (snd b))
                (map (fun p => (fst p, res_cls (snd p))) res) first
  end.
Definition c01_chk : c01_case -> bool := c01_chk_with go_cfg.
(* the mirror after fixes/C01-extdecl-missing-span-file.diff *)
Definition c01_chk_repaired : c01_case -> bool := c01_chk_with go_cfg_repaired.

(* ---- descriptors: the projection compared for C02 ---- *)
Definition opt_eqb {A} (eq : A -> A -> bool) (a b : option A) : bool :=
  match a, b with Some x, Some y => eq x y | None, None => true | _, _ => false end.
Definition dlabel_eqb (a b : dlabel) : bool := Z.eqb (dlabel_num a) (dlabel_num b).
Definition dtype_eqb (a b : dtype) : bool := Z.eqb (dtype_num a) (dtype_num b).
Definition bytes_eqb (a b : list N) : bool := name_eqb a b.

Definition dfield_eqb (a b : dfield) : bool :=
  name_eqb (df_name a) (df_name b) && Z.eqb (df_number a) (df_number b)
  && opt_eqb dlabel_eqb (df_label a) (df_label b) && opt_eqb dtype_eqb (df_type a) (df_type b)
  && opt_eqb name_eqb (df_type_name a) (df_type_name b) && opt_eqb name_eqb (df_extendee a) (df_extendee b)
  && name_eqb (df_json a) (df_json b) && opt_eqb Nat.eqb (df_oneof a) (df_oneof b)
  && Bool.eqb (df_p3opt a) (df_p3opt b) && opt_eqb bytes_eqb (df_default a) (df_default b).

Definition alias_on (l : list oval) : bool :=
  match l with [VIdent n] => name_eqb n true_name | _ => false end.

Definition denum_eqb (a b : denum) : bool :=
  name_eqb (de_name a) (de_name b)
  && list_eqb (fun x y => name_eqb (fst x) (fst y) && Z.eqb (snd x) (snd y)) (de_values a) (de_values b)
  && Bool.eqb (alias_on (de_alias a)) (alias_on (de_alias b))
  && list_eqb pairZ_eqb (de_rsv a) (de_rsv b) && list_eqb name_eqb (de_rsvn a) (de_rsvn b).

Fixpoint dmsg_eqb (a b : dmsg) {struct a} : bool :=
  match a, b with
  | DMsg n1 f1 ns1 e1 x1 o1 er1 rr1 rn1 me1 ms1, DMsg n2 f2 ns2 e2 x2 o2 er2 rr2 rn2 me2 ms2 =>
    name_eqb n1 n2 && list_eqb dfield_eqb f1 f2
    && (fix go (l1 l2 : list dmsg) {struct l1} : bool :=
          match l1, l2 with
          | [], [] => true
          | x :: r1, y :: r2 => dmsg_eqb x y && go r1 r2
          | _, _ => false
          end) ns1 ns2
    && list_eqb denum_eqb e1 e2 && list_eqb dfield_eqb x1 x2 && list_eqb name_eqb o1 o2
    && list_eqb pairZ_eqb er1 er2 && list_eqb pairZ_eqb rr1 rr2 && list_eqb name_eqb rn1 rn2
    && Bool.eqb me1 me2 && Bool.eqb ms1 ms2
  end.

Definition rpc_eqb (a b : rpc) : bool :=
  name_eqb (rpc_name a) (rpc_name b) && name_eqb (rpc_in a) (rpc_in b) && name_eqb (rpc_out a) (rpc_out b)
  && Bool.eqb (rpc_cs a) (rpc_cs b) && Bool.eqb (rpc_ss a) (rpc_ss b).

Definition dfile_eqb (a b : dfile) : bool :=
  name_eqb (dfl_name a) (dfl_name b) && opt_eqb name_eqb (dfl_package a) (dfl_package b)
  && syntax_eqb (dfl_syntax a) (dfl_syntax b) && list_eqb name_eqb (dfl_deps a) (dfl_deps b)
  && list_eqb Nat.eqb (dfl_public a) (dfl_public b) && list_eqb Nat.eqb (dfl_weak a) (dfl_weak b)
  && list_eqb dmsg_eqb (dfl_msgs a) (dfl_msgs b) && list_eqb denum_eqb (dfl_enums a) (dfl_enums b)
  && list_eqb dfield_eqb (dfl_exts a) (dfl_exts b)
  && list_eqb (fun s t => name_eqb (ds_name s) (ds_name t) && list_eqb rpc_eqb (ds_methods s) (ds_methods t))
              (dfl_services a) (dfl_services b).

(* accepted file sets: every compiled descriptor equals the observed one *)
Inductive c02_case := C02Case (files : list sfile) (obs : list dfile).

Definition c02_chk (c : c02_case) : bool :=
  match c with
  | C02Case fs obs =>
    (fix go (rs : list (name * fres)) (os : list dfile) {struct rs} : bool :=
       match rs, os with
       | [], [] => true
       | (_, FOk m) :: r, d :: o => dfile_eqb m d && go r o
       | _, _ => false
       end) (compile fs) obs
  end.

(* diagnosis helper for the plugin: index of the first file whose descriptor differs *)
Inductive c02_lower_case := C02Lower (f : sfile) (obs : dfile).
Definition c02_lower_chk (c : c02_lower_case) : bool :=
  match c with C02Lower f obs => dfile_eqb (lower_file f) obs end.
