(* The declarative side of C01: what the language specification (protobuf.com, the documented
   behaviour of protoc's parser.cc / descriptor.cc) demands, rule family by rule family.  Every
   rule is stated as a proposition about numbers and names, with no algorithm in it (no sorting,
   no scanning order), together with a naive boolean decision used to evaluate the rule on
   generated programs; Proofs/ValiditySpec.v shows that each decision reflects its proposition.
   Definitions only.

   F1  numeric ranges            F2  names per message / enum
   F4  labels and keywords       (F3 and F5, the descriptor contents, are Model/ProtocDescriptor.v) *)
From Coq Require Import List NArith ZArith Bool.
From PV Require Import Model.MiniProto.
Import ListNotations.
Open Scope Z_scope.

(* ------------------------------------------------------------------------------------------ *)
(* F1: numbers *)

(* message ranges in descriptors are half-open, enum reserved ranges are closed *)
Definition in_ho (n : Z) (r : Z * Z) : Prop := fst r <= n < snd r.
Definition in_cl (n : Z) (r : Z * Z) : Prop := fst r <= n <= snd r.
Definition wf_ho (r : Z * Z) : Prop := fst r < snd r.
Definition wf_cl (r : Z * Z) : Prop := fst r <= snd r.

(* some number lies in two ranges that stand at different positions of the list *)
Definition two_share (inr : Z -> Z * Z -> Prop) (rs : list (Z * Z)) : Prop :=
  exists i j a b n, (i < j)%nat /\ nth_error rs i = Some a /\ nth_error rs j = Some b /\ inr n a /\ inr n b.

(* some number lies in a range of each list *)
Definition cross_share (inr : Z -> Z * Z -> Prop) (xs ys : list (Z * Z)) : Prop :=
  exists a b n, In a xs /\ In b ys /\ inr n a /\ inr n b.

Definition in_some (inr : Z -> Z * Z -> Prop) (n : Z) (rs : list (Z * Z)) : Prop :=
  exists r, In r rs /\ inr n r.

(* a field number: 1 .. max, not in the range reserved for the implementation *)
Definition tag_ok (maxTag v : Z) : Prop := 1 <= v <= maxTag /\ ~ (19000 <= v <= 19999).

(* the numbers of a message: ranges pairwise disjoint, extension and reserved ranges disjoint,
   field numbers distinct and outside every range *)
Definition msg_numbers_ok (rsvr extr : list (Z * Z)) (nums : list Z) : Prop :=
  ~ two_share in_ho rsvr /\ ~ two_share in_ho extr /\ ~ cross_share in_ho rsvr extr /\
  NoDup nums /\ (forall n, In n nums -> ~ in_some in_ho n rsvr /\ ~ in_some in_ho n extr).

(* the numbers of an enum (aliases aside): reserved ranges pairwise disjoint, no value inside *)
Definition enum_numbers_ok (rsv : list (Z * Z)) (nums : list Z) : Prop :=
  ~ two_share in_cl rsv /\ (forall n, In n nums -> ~ in_some in_cl n rsv).

(* ---- naive decisions ---- *)
Definition share_ho_b (a b : Z * Z) : bool := (Z.max (fst a) (fst b) <? Z.min (snd a) (snd b)).
Definition share_cl_b (a b : Z * Z) : bool := (Z.max (fst a) (fst b) <=? Z.min (snd a) (snd b)).
Definition in_ho_b (n : Z) (r : Z * Z) : bool := (fst r <=? n) && (n <? snd r).
Definition in_cl_b (n : Z) (r : Z * Z) : bool := (fst r <=? n) && (n <=? snd r).

Fixpoint two_share_b (sh : Z * Z -> Z * Z -> bool) (rs : list (Z * Z)) : bool :=
  match rs with
  | [] => false
  | a :: r => existsb (sh a) r || two_share_b sh r
  end.
Definition cross_share_b (sh : Z * Z -> Z * Z -> bool) (xs ys : list (Z * Z)) : bool :=
  existsb (fun a => existsb (sh a) ys) xs.
Definition in_some_b (inb : Z -> Z * Z -> bool) (n : Z) (rs : list (Z * Z)) : bool := existsb (inb n) rs.

Fixpoint nodup_Z_b (l : list Z) : bool :=
  match l with [] => true | x :: r => negb (existsb (Z.eqb x) r) && nodup_Z_b r end.

Definition tag_ok_b (maxTag v : Z) : bool :=
  (1 <=? v) && (v <=? maxTag) && negb ((19000 <=? v) && (v <=? 19999)).

Definition msg_numbers_ok_b (rsvr extr : list (Z * Z)) (nums : list Z) : bool :=
  negb (two_share_b share_ho_b rsvr) && negb (two_share_b share_ho_b extr)
  && negb (cross_share_b share_ho_b rsvr extr) && nodup_Z_b nums
  && forallb (fun n => negb (in_some_b in_ho_b n rsvr) && negb (in_some_b in_ho_b n extr)) nums.

Definition enum_numbers_ok_b (rsv : list (Z * Z)) (nums : list Z) : bool :=
  negb (two_share_b share_cl_b rsv) && forallb (fun n => negb (in_some_b in_cl_b n rsv)) nums.

(* a range as written: start (and end, unless max) inside lo .. hi, start <= end *)
Definition srange_ok (lo hi : Z) (r : srange) : Prop :=
  lo <= sr_start r <= hi /\
  (sr_max r = true \/
   match sr_end r with
   | None => True
   | Some e => lo <= e <= hi /\ sr_start r <= e
   end).
Definition srange_ok_b (lo hi : Z) (r : srange) : bool :=
  (lo <=? sr_start r) && (sr_start r <=? hi) &&
  (sr_max r || match sr_end r with
               | None => true
               | Some e => (lo <=? e) && (e <=? hi) && (sr_start r <=? e)
               end).

(* the closed interval a well-formed written range denotes *)
Definition srange_bounds (hi : Z) (r : srange) : Z * Z :=
  (sr_start r, if sr_max r then hi else match sr_end r with None => sr_start r | Some e => e end).

(* ------------------------------------------------------------------------------------------ *)
(* F2: names *)

(* no field (enum value) carries a reserved name *)
Definition no_reserved_name_used (rsvn names : list name) : Prop :=
  forall n, In n names -> ~ In n rsvn.
Definition no_reserved_name_used_b (rsvn names : list name) : bool :=
  forallb (fun n => negb (mem_name n rsvn)) names.

(* ------------------------------------------------------------------------------------------ *)
(* F4: labels and keywords, per field *)

(* proto2: a label is mandatory outside a oneof, an extension is never required.
   proto3: no required, no groups, no defaults (optional is allowed and means explicit presence).
   editions: no required, no optional, no groups. *)
Definition field_rules_ok (syn : syntax) (has_label is_required is_optional in_oneof is_ext is_group has_default : bool) : Prop :=
  match syn with
  | Proto2 => (has_label = true \/ in_oneof = true) /\ ~ (is_ext = true /\ is_required = true)
  | Proto3 => is_required = false /\ is_group = false /\ has_default = false
  | Editions => is_required = false /\ is_group = false /\ is_optional = false
  end.
Definition field_rules_ok_b (syn : syntax) (has_label is_required is_optional in_oneof is_ext is_group has_default : bool) : bool :=
  match syn with
  | Proto2 => (has_label || in_oneof) && negb (is_ext && is_required)
  | Proto3 => negb is_required && negb is_group && negb has_default
  | Editions => negb is_required && negb is_group && negb is_optional
  end.

(* ------------------------------------------------------------------------------------------ *)
(* descriptor-level validity of one message / enum / field (what validateBasic must decide).
   [strict_names]: the Go code also rejects reserved names that are not identifiers; protoc only
   warns (documented divergence, parser/validate_test.go), so the oracle uses strict_names = false. *)

Definition ident_ok (s : name) : Prop :=
  match s with
  | [] => False
  | c :: r =>
    let alpha := fun c : N => ((97 <= c <= 122) \/ (65 <= c <= 90) \/ c = 95)%N in
    alpha c /\ Forall (fun c => alpha c \/ (48 <= c <= 57)%N) r
  end.

Definition msg_desc_ok (strict_names : bool) (syn : syntax) (rsvr extr : list (Z * Z)) (rsvn : list name)
           (fields : list (name * Z)) : Prop :=
  (syn = Proto3 -> extr = []) /\
  msg_numbers_ok rsvr extr (map snd fields) /\
  (strict_names = true -> Forall ident_ok rsvn) /\
  no_reserved_name_used rsvn (map fst fields).

(* allow_alias as written: absent, or exactly one boolean; [protoc_alias]: protoc additionally
   rejects an explicit allow_alias = false (documented divergence) *)
Inductive alias_opt := AliasAbsent | AliasTrue | AliasFalse | AliasBad.

Definition enum_desc_ok (strict_names protoc_alias : bool) (syn : syntax) (alias : alias_opt)
           (values : list (name * Z)) (rsv : list (Z * Z)) (rsvn : list name) : Prop :=
  values <> [] /\
  alias <> AliasBad /\ (protoc_alias = true -> alias <> AliasFalse) /\
  (syn = Proto3 -> match values with (_, n) :: _ => n = 0 | [] => True end) /\
  (alias = AliasTrue -> ~ NoDup (map snd values)) /\
  (alias <> AliasTrue -> NoDup (map snd values)) /\
  enum_numbers_ok rsv (map snd values) /\
  (strict_names = true -> Forall ident_ok rsvn) /\
  no_reserved_name_used rsvn (map fst values).

(* ------------------------------------------------------------------------------------------ *)
(* JSON names of the fields of one message.
   Every field has a default JSON name (ToJsonName of its name) and an effective one (json_name
   if given).  With JSON support mandatory (proto3, editions) both families of names must be
   pairwise distinct. *)
Definition json_names_ok_compliant (defaults effective : list name) : Prop :=
  NoDup defaults /\ NoDup effective.

(* protoc's CheckFieldJsonNameUniqueness, both passes (descriptor.cc).  A field is (name, json
   name, json_name option given?).  [seen] keeps the first holder of a name with its custom flag;
   the result lists, per reported conflict, whether it is an error (true) or a warning (false). *)
Definition jfield := (name * name * bool)%type.

Fixpoint assoc_nm {A} (n : name) (l : list (name * A)) : option A :=
  match l with [] => None | (m, v) :: r => if name_eqb n m then Some v else assoc_nm n r end.

Section ProtocJson.
Variable to_json : name -> name.

Definition protoc_custom (f : jfield) : bool :=
  let '(nm, js, given) := f in given && negb (name_eqb js (to_json nm)).

Fixpoint protoc_json_loop (compliant useCustom : bool) (seen : list (name * bool)) (fs : list jfield) : list bool :=
  match fs with
  | [] => []
  | f :: r =>
    let '(nm, js, given) := f in
    let custom := useCustom && protoc_custom f in
    let key := if custom then js else to_json nm in
    match assoc_nm key seen with
    | Some mcustom =>
      (if useCustom && negb custom && negb mcustom then []
       else [negb (negb compliant && (negb custom || negb mcustom))])
      ++ protoc_json_loop compliant useCustom seen r
    | None => protoc_json_loop compliant useCustom ((key, custom) :: seen) r
    end
  end.

Definition protoc_json_errors (compliant : bool) (fs : list jfield) : list bool :=
  filter (fun b => b) (protoc_json_loop compliant false [] fs ++ protoc_json_loop compliant true [] fs).
End ProtocJson.
