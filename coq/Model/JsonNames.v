(* C10 - JSON-name validation of the fields of one message (linker/validate.go validateFieldJSONNames,
   hasCustomJSONName), as it runs on a file compiled from source (the AST says whether a field has an explicit
   json_name option) and on the same file given back as a descriptor proto (no AST: hasCustomJSONName is false
   for every field, only a json_name different from the default counts as custom).
   A conflict between two default names is a warning when the message is not JSON compliant (proto2, or
   features.json_format = LEGACY_BEST_EFFORT) and an error otherwise; a conflict that involves a custom name is
   always an error. Definitions only. *)
From Coq Require Import List Bool String.
Import ListNotations.
Open Scope string_scope.
Open Scope list_scope.

(* jf_default = internal.JSONName(name); jf_json = json_name of the descriptor proto;
   jf_explicit = the source has a json_name option on the field (what hasCustomJSONName reads from the AST) *)
Record jfield := mkjf { jf_name : string; jf_default : string; jf_json : string; jf_explicit : bool }.

Inductive event := EWarn | EErr.

(* seen: map from JSON name to (custom?) of the first field that claimed it; newest first *)
Fixpoint lookup (k : string) (seen : list (string * bool)) : option bool :=
  match seen with
  | [] => None
  | (k', c) :: r => if String.eqb k k' then Some c else lookup k r
  end.

(* the name a field claims in one pass and whether it counts as custom:
     name := defaultName; custom := false
     if useCustom { n := fd.GetJsonName(); if n != defaultName || r.hasCustomJSONName(fd) { name = n; custom = true } } *)
Definition claim (use_custom has_ast : bool) (f : jfield) : string * bool :=
  if use_custom then
    if negb (String.eqb (jf_json f) (jf_default f)) || (has_ast && jf_explicit f) then (jf_json f, true)
    else (jf_default f, false)
  else (jf_default f, false).

(* one pass over md.proto.GetField(), with a reporter that records and continues *)
Fixpoint pass (compliant use_custom has_ast : bool) (fs : list jfield) (seen : list (string * bool)) : list event :=
  match fs with
  | [] => []
  | f :: r =>
      let '(name, custom) := claim use_custom has_ast f in
      match lookup name seen with
      | Some excustom =>
          (if negb use_custom || custom || excustom
           then [if negb compliant && negb custom && negb excustom then EWarn else EErr]
           else [])
          ++ pass compliant use_custom has_ast r seen
      | None => pass compliant use_custom has_ast r ((name, custom) :: seen)
      end
  end.

(* validateJSONNamesInMessage: the default-name pass, then the custom-name pass *)
Definition validate (compliant has_ast : bool) (fs : list jfield) : list event :=
  pass compliant false has_ast fs [] ++ pass compliant true has_ast fs [].

Definition is_err (e : event) : bool := match e with EErr => true | EWarn => false end.
Definition is_warn (e : event) : bool := match e with EWarn => true | EErr => false end.
Definition errors (l : list event) : nat := List.length (filter is_err l).
Definition warnings (l : list event) : nat := List.length (filter is_warn l).

(* what the compiler writes into the output proto: a field without an explicit json_name gets the default *)
Definition compiled (f : jfield) : Prop := jf_explicit f = false -> jf_json f = jf_default f.
Definition compiled_b (f : jfield) : bool := jf_explicit f || String.eqb (jf_json f) (jf_default f).

(* ---- correspondence: per file, the messages (compliant, fields) and the number of JSON-name warnings of the
   source compilation, of the re-link, and the number of JSON-name errors of the re-link *)
Inductive json_case :=
| JFile (msgs : list (bool * list jfield)) (src_warn rl_warn rl_err : nat).

Definition sum_over (f : bool * list jfield -> nat) (msgs : list (bool * list jfield)) : nat :=
  fold_right (fun m acc => f m + acc) 0 msgs.

Definition json_chk (c : json_case) : bool :=
  match c with
  | JFile msgs sw rw re =>
      forallb (fun m => forallb compiled_b (snd m)) msgs
      && Nat.eqb (sum_over (fun m => errors (validate (fst m) true (snd m))) msgs) 0
      && Nat.eqb (sum_over (fun m => warnings (validate (fst m) true (snd m))) msgs) sw
      && Nat.eqb (sum_over (fun m => warnings (validate (fst m) false (snd m))) msgs) rw
      && Nat.eqb (sum_over (fun m => errors (validate (fst m) false (snd m))) msgs) re
  end.
