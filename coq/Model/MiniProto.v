(* MiniProto: the shared data model of the whole-pipeline properties (C01, C02).
   Part 1  source level: what the generator produces and renders to .proto text (and what the
           harness reads back through the repository's parser for the golden files).
   Part 2  descriptor level: the observable projection of a FileDescriptorProto (names, numbers,
           labels, types, type names, JSON names, oneof indices, proto3_optional, map entries,
           nested synthetic messages, ranges, reserved names, default values, dependencies).
   Part 3  error classes: the small rule enum the harness maps error texts to.
   Names are byte strings (list N).  Definitions only. *)
From Coq Require Import List NArith ZArith Bool.
Import ListNotations.

Definition name := list N.

Fixpoint name_eqb (a b : name) : bool :=
  match a, b with
  | [], [] => true
  | x :: a', y :: b' => N.eqb x y && name_eqb a' b'
  | _, _ => false
  end.

Fixpoint mem_name (x : name) (l : list name) : bool :=
  match l with [] => false | y :: r => name_eqb x y || mem_name x r end.

(* ------------------------------------------------------------------------------------------ *)
(* Part 1: source level *)

Inductive syntax := Proto2 | Proto3 | Editions.
Definition syntax_eqb (a b : syntax) : bool :=
  match a, b with Proto2, Proto2 | Proto3, Proto3 | Editions, Editions => true | _, _ => false end.

Inductive label := LNone | LOptional | LRequired | LRepeated.

Inductive scalar := SDouble | SFloat | SInt64 | SUint64 | SInt32 | SFixed64 | SFixed32 | SBool
                  | SString | SBytes | SUint32 | SSfixed32 | SSfixed64 | SSint32 | SSint64.

(* the type as written: one of the fifteen keywords, or a (possibly qualified) name *)
Inductive ftype := TScalar (s : scalar) | TNamed (n : name).

(* option values: identifier, unsigned literal, negated literal, string, anything else *)
Inductive oval := VIdent (n : name) | VUint (z : Z) | VNint (z : Z) | VStr (b : list N) | VOther.
Inductive foptk := OJsonName | ODefault.
Definition fopt := (foptk * oval)%type.

(* a range as written: start, optional end, or the keyword max *)
Record srange := mkRange { sr_start : Z; sr_end : option Z; sr_max : bool }.

Inductive eelem :=
| EValue (nm : name) (num : Z)
| EAllowAlias (v : oval)
| EReserved (rs : list srange)
| EReservedNames (strs idents : list name).

Inductive edecl := EDecl (nm : name) (elems : list eelem).

(* options of an extension range: verification (Some true = DECLARATION, Some false = UNVERIFIED)
   and the extension declarations as written *)
Record xdecl := mkXDecl { xd_number : option Z; xd_full_name : option name; xd_type : option name;
                          xd_reserved : bool; xd_repeated : bool }.
Record xopts := mkXOpts { xo_verification : option bool; xo_decls : list xdecl }.

Inductive fdecl := FDecl (lbl : label) (ty : ftype) (nm : name) (num : Z) (opts : list fopt).

Inductive melem :=
| MField (f : fdecl)
| MMap (key : scalar) (val : ftype) (nm : name) (num : Z) (opts : list fopt)
| MGroup (lbl : label) (nm : name) (num : Z) (body : list melem)
| MOneof (nm : name) (elems : list melem)        (* members: MField / MGroup *)
| MMessage (nm : name) (body : list melem)
| MEnum (e : edecl)
| MExtend (extendee : name) (elems : list melem) (* members: MField / MGroup *)
| MExtensions (rs : list srange)
| MExtensionsOpt (rs : list srange) (o : xopts)   (* extensions ... [verification = ..., declaration = {...}] *)
| MReserved (rs : list srange)
| MReservedNames (strs idents : list name)
| MMsgSet (v : oval).                            (* option message_set_wire_format = v *)

Record rpc := mkRpc { rpc_name : name; rpc_in : name; rpc_out : name; rpc_cs : bool; rpc_ss : bool }.

Inductive tdecl :=
| TElem (e : melem)                               (* MMessage / MEnum / MExtend *)
| TService (nm : name) (methods : list rpc).

Inductive impkind := ImpPlain | ImpPublic | ImpWeak.

Record sfile := mkSFile {
  sf_name : name;
  sf_syntax : syntax;
  sf_has_syntax : bool;          (* false: no syntax statement (proto2 with a warning) *)
  sf_package : option name;
  sf_imports : list (name * impkind);
  sf_decls : list tdecl
}.

(* ------------------------------------------------------------------------------------------ *)
(* Part 2: descriptor level *)

Inductive dlabel := DOptional | DRequired | DRepeated.
Inductive dtype := DScalar (s : scalar) | DGroup | DMessage | DEnum.

(* FieldDescriptorProto.Type numbers *)
Definition scalar_num (s : scalar) : Z :=
  match s with
  | SDouble => 1 | SFloat => 2 | SInt64 => 3 | SUint64 => 4 | SInt32 => 5 | SFixed64 => 6
  | SFixed32 => 7 | SBool => 8 | SString => 9 | SBytes => 12 | SUint32 => 13 | SSfixed32 => 15
  | SSfixed64 => 16 | SSint32 => 17 | SSint64 => 18
  end%Z.
Definition dtype_num (t : dtype) : Z :=
  match t with DScalar s => scalar_num s | DGroup => 10 | DMessage => 11 | DEnum => 14 end%Z.
Definition dlabel_num (l : dlabel) : Z :=
  match l with DOptional => 1 | DRequired => 2 | DRepeated => 3 end%Z.

(* which source construct a field descriptor came from (the Go code asks the AST node type) *)
Inductive fsrc := FromField | FromMap | FromGroup | FromMapKV.

Record dfield := mkDField {
  df_name : name;
  df_number : Z;
  df_label : option dlabel;
  df_type : option dtype;
  df_type_name : option name;
  df_extendee : option name;
  df_json : name;
  df_oneof : option nat;
  df_p3opt : bool;
  df_default : option (list N);
  df_opts : list fopt;            (* uninterpreted json_name / default *)
  df_src : fsrc
}.

Record denum := mkDEnum {
  de_name : name;
  de_values : list (name * Z);
  de_alias : list oval;           (* the allow_alias options as written *)
  de_rsv : list (Z * Z);          (* inclusive *)
  de_rsvn : list name
}.

Inductive dmsg := DMsg (nm : name) (fields : list dfield) (nested : list dmsg) (enums : list denum)
                       (exts : list dfield) (oneofs : list name) (extr rsvr : list (Z * Z))
                       (rsvn : list name) (mapentry : bool) (msgset : bool).

Definition dm_name (m : dmsg) := match m with DMsg n _ _ _ _ _ _ _ _ _ _ => n end.
Definition dm_fields (m : dmsg) := match m with DMsg _ f _ _ _ _ _ _ _ _ _ => f end.
Definition dm_nested (m : dmsg) := match m with DMsg _ _ n _ _ _ _ _ _ _ _ => n end.
Definition dm_enums (m : dmsg) := match m with DMsg _ _ _ e _ _ _ _ _ _ _ => e end.
Definition dm_exts (m : dmsg) := match m with DMsg _ _ _ _ x _ _ _ _ _ _ => x end.
Definition dm_oneofs (m : dmsg) := match m with DMsg _ _ _ _ _ o _ _ _ _ _ => o end.
Definition dm_extr (m : dmsg) := match m with DMsg _ _ _ _ _ _ r _ _ _ _ => r end.
Definition dm_rsvr (m : dmsg) := match m with DMsg _ _ _ _ _ _ _ r _ _ _ => r end.
Definition dm_rsvn (m : dmsg) := match m with DMsg _ _ _ _ _ _ _ _ n _ _ => n end.
Definition dm_mapentry (m : dmsg) := match m with DMsg _ _ _ _ _ _ _ _ _ b _ => b end.
Definition dm_msgset (m : dmsg) := match m with DMsg _ _ _ _ _ _ _ _ _ _ b => b end.

Record dservice := mkDService { ds_name : name; ds_methods : list rpc }.

Record dfile := mkDFile {
  dfl_name : name;
  dfl_package : option name;
  dfl_syntax : syntax;
  dfl_deps : list name;
  dfl_public : list nat;
  dfl_weak : list nat;
  dfl_msgs : list dmsg;
  dfl_enums : list denum;
  dfl_exts : list dfield;
  dfl_services : list dservice
}.

(* ------------------------------------------------------------------------------------------ *)
(* Part 3: error classes (the harness maps message texts to these) *)

Inductive ecls :=
| ETagZero | ETagTooHigh | ETag19000 | ERangeStartOOR | ERangeEndOOR | ERangeOrder | EEnumValueOOR
| EGroupLower | EOneofEmpty | EExtendEmpty | EReservedNameForm | EReservedNameDup | EDepth
| EMsgsetProto3 | EMsgsetFields | EMsgsetNoRange | EMsgsetNotBool | EMsgsetScalarExt | EMsgsetRepeatedExt
| EOptionRepeated
| EImportDup | EProto3ExtRange | EMsgReservedOverlap | EEnumReservedOverlap | EExtOverlap
| EExtReservedOverlap | EReservedNameInvalid | EFieldReservedName | EValueReservedName | EDupTag
| EInReservedRange | ETagInExtRange | EEnumEmpty | EAliasNotBool | EEnumFirstZero | EEnumDupNumber
| EAliasUnused | EGroupNotProto2 | ERequiredNotProto2 | EOptionalInEditions | EDefaultInProto3
| ELabelMissing | EExtRequired
| ESymbolDup | EExtendeeUnknown | EExtendeeNotMessage | ETypeUnknown | ETypeNotType
| EMethodTypeUnknown | EMethodTypeNotMessage | EExtTagNotInRange | EProto3Extend | EMapEntryRef
| EJsonNameExt | EJsonNameBrackets | EJsonNameNotString | EDefaultRepeated | EDefaultMessage
| EDefaultBadValue | EJsonConflict | EEnumJsonConflict | EClosedEnumImplicit | EDefaultImplicit
| EMapEnumFirstZero
| EExtDeclReserved | EExtDeclName | EExtDeclType | EExtDeclRepeated | EExtDeclMissing | EExtDeclBad
| ECompilerPanic   (* the compile of the file was aborted by a panic: nothing is reported for it *)
| EOther.

Definition ecls_num (e : ecls) : N :=
  match e with
  | ETagZero => 1 | ETagTooHigh => 2 | ETag19000 => 3 | ERangeStartOOR => 4 | ERangeEndOOR => 5
  | ERangeOrder => 6 | EEnumValueOOR => 7 | EGroupLower => 8 | EOneofEmpty => 9 | EExtendEmpty => 10
  | EReservedNameForm => 11 | EReservedNameDup => 12 | EDepth => 13 | EMsgsetProto3 => 14
  | EMsgsetFields => 15 | EMsgsetNoRange => 16 | EMsgsetNotBool => 17 | EMsgsetScalarExt => 18
  | EMsgsetRepeatedExt => 19 | EOptionRepeated => 20 | EImportDup => 21 | EProto3ExtRange => 22
  | EMsgReservedOverlap => 23 | EEnumReservedOverlap => 24 | EExtOverlap => 25
  | EExtReservedOverlap => 26 | EReservedNameInvalid => 27 | EFieldReservedName => 28
  | EValueReservedName => 29 | EDupTag => 30 | EInReservedRange => 31 | ETagInExtRange => 32
  | EEnumEmpty => 33 | EAliasNotBool => 34 | EEnumFirstZero => 35 | EEnumDupNumber => 36
  | EAliasUnused => 37 | EGroupNotProto2 => 38 | ERequiredNotProto2 => 39
  | EOptionalInEditions => 40 | EDefaultInProto3 => 41 | ELabelMissing => 42 | EExtRequired => 43
  | ESymbolDup => 44 | EExtendeeUnknown => 45 | EExtendeeNotMessage => 46 | ETypeUnknown => 47
  | ETypeNotType => 48 | EMethodTypeUnknown => 49 | EMethodTypeNotMessage => 50
  | EExtTagNotInRange => 51 | EProto3Extend => 52 | EMapEntryRef => 53 | EJsonNameExt => 54
  | EJsonNameBrackets => 55 | EJsonNameNotString => 56 | EDefaultRepeated => 57
  | EDefaultMessage => 58 | EDefaultBadValue => 59 | EJsonConflict => 60 | EEnumJsonConflict => 61
  | EClosedEnumImplicit => 62 | EDefaultImplicit => 63 | EMapEnumFirstZero => 64
  | EExtDeclReserved => 65 | EExtDeclName => 66 | EExtDeclType => 67 | EExtDeclRepeated => 68
  | EExtDeclMissing => 69 | EExtDeclBad => 70 | ECompilerPanic => 71 | EOther => 0
  end%N.
Definition ecls_eqb (a b : ecls) : bool := N.eqb (ecls_num a) (ecls_num b).

(* ---- small shared helpers ---- *)
Definition opt_name_eqb (a b : option name) : bool :=
  match a, b with Some x, Some y => name_eqb x y | None, None => true | _, _ => false end.

Fixpoint list_eqb {A} (eq : A -> A -> bool) (a b : list A) : bool :=
  match a, b with
  | [], [] => true
  | x :: a', y :: b' => eq x y && list_eqb eq a' b'
  | _, _ => false
  end.

Definition pairZ_eqb (a b : Z * Z) : bool := Z.eqb (fst a) (fst b) && Z.eqb (snd a) (snd b).

(* int32(v) for an unsigned literal that may exceed the range *)
Definition wrap32 (z : Z) : Z := ((z + 2147483648) mod 4294967296 - 2147483648)%Z.

(* compact spelling of byte strings in generated case files: the bytes in base 256 below a
   leading 1 (nm 0x1666f6f = [102;111;111], nm 1 = []); used only by the correspondence input *)
Fixpoint unpack_bytes (fuel : nat) (n : N) (acc : list N) : list N :=
  match fuel with
  | O => acc
  | S f => if (n <=? 1)%N then acc else unpack_bytes f (n / 256)%N ((n mod 256)%N :: acc)
  end.
Definition nm (n : N) : name := unpack_bytes (S (N.to_nat (N.log2 n))) n [].
