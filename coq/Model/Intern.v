(* Model of internal/intern/intern.go: Table.Query, Table.Intern / internSlow, Table.Value,
   as a small-step transition system.  One scheduler choice (a thread id) per step; every
   step is one access to shared memory, in the order internSlow performs them:
     Query (index.Load, then p.Load) ; LoadOrStore ; p.Load ; Gosched ; Append ; Store.
   The shared state is the index (string -> slot) and the append-only log.
   sync.Map, the atomics and syncx.Log are modelled by their sequentially consistent
   contracts.  Definitions only; proofs are in Proofs/Intern.v. *)
From Coq Require Import List NArith ZArith Bool Arith.
From PV Require Import Common.Bytes Common.Corr Model.Char6.
Import ListNotations.
Open Scope Z_scope.

(* what index holds for a key: no entry; an entry whose atomic.Int32 is still 0 (a leader is
   inserting); an entry holding a committed id; the nil pointer (key poisoned, log exhausted) *)
Inductive slot := Absent | Pending | Done (id : Z) | Poisoned.

Definition str_eq_dec : forall a b : str, {a = b} + {a <> b} := list_eq_dec N.eq_dec.

Definition index_t := str -> slot.
Definition idx_empty : index_t := fun _ => Absent.
Definition idx_set (ix : index_t) (k : str) (v : slot) : index_t :=
  fun k' => if str_eq_dec k k' then v else ix k'.

(* syncx.Log holds at most 2^31 - 1 elements: next.Add(1) < 0 afterwards *)
Definition log_limit : Z := 2147483647.

(* program counter of a thread inside Intern(s) *)
Inductive pc_t :=
| Idle                         (* nothing left to do *)
| Panicked                     (* panic(ErrLogExhausted) *)
| PQuery (s : str)             (* Query: encodeChar6, else index.Load(s) *)
| PQuery2 (s : str)            (* Query: p.Load() on the entry found *)
| PLos (s : str)               (* again: index.LoadOrStore(key, new(atomic.Int32)) *)
| PLoadVal (s : str)           (* loaded: p.Load() *)
| PSpin (s : str)              (* id == 0: runtime.Gosched(); goto again *)
| PAppend (s : str)            (* leader: table.Append(s) *)
| PStore (s : str) (i : Z)     (* leader: p.Store(int32(i + 1)); return *)
| PPoison (s : str).           (* leader, Append failed: index.Store(key, nil); panic *)

Record thread := { todo : list str; pc : pc_t; res : list (str * Z) }.

(* Intern returned id for s: record it, start on the next string *)
Definition th_return (th : thread) (s : str) (id : Z) : thread :=
  match todo th with
  | [] => {| todo := []; pc := Idle; res := res th ++ [(s, id)] |}
  | s' :: r => {| todo := r; pc := PQuery s'; res := res th ++ [(s, id)] |}
  end.
Definition th_goto (th : thread) (p : pc_t) : thread :=
  {| todo := todo th; pc := p; res := res th |}.

(* a thread that will intern the strings of prog in order *)
Definition th_start (prog : list str) : thread :=
  match prog with
  | [] => {| todo := []; pc := Idle; res := [] |}
  | s :: r => {| todo := r; pc := PQuery s; res := [] |}
  end.

(* one step of one thread on the shared memory; None = the thread has nothing to do *)
Definition th_step (ix : index_t) (lg : list str) (th : thread)
  : option (index_t * list str * thread) :=
  match pc th with
  | Idle => None
  | Panicked => None
  | PQuery s =>
    match encode s with
    | Some id => Some (ix, lg, th_return th s id)
    | None =>
      match ix s with
      | Absent => Some (ix, lg, th_goto th (PLos s))
      | Poisoned => Some (ix, lg, th_goto th (PLos s))
      | _ => Some (ix, lg, th_goto th (PQuery2 s))
      end
    end
  | PQuery2 s =>
    match ix s with
    | Done id => Some (ix, lg, th_return th s id)
    | _ => Some (ix, lg, th_goto th (PLos s))
    end
  | PLos s =>
    match ix s with
    | Absent => Some (idx_set ix s Pending, lg, th_goto th (PAppend s))
    | Poisoned => Some (ix, lg, th_goto th Panicked)
    | _ => Some (ix, lg, th_goto th (PLoadVal s))
    end
  | PLoadVal s =>
    match ix s with
    | Done id => Some (ix, lg, th_return th s id)
    | _ => Some (ix, lg, th_goto th (PSpin s))
    end
  | PSpin s => Some (ix, lg, th_goto th (PLos s))
  | PAppend s =>
    if log_limit <=? Z.of_nat (length lg) then Some (ix, lg, th_goto th (PPoison s))
    else Some (ix, lg ++ [s], th_goto th (PStore s (Z.of_nat (length lg))))
  | PStore s i =>
    let id := wrap32 (i + 1) in
    Some (idx_set ix s (Done id), lg, th_return th s id)
  | PPoison s => Some (idx_set ix s Poisoned, lg, th_goto th Panicked)
  end.

Record state := { index : index_t; log : list str; threads : list thread }.

Fixpoint upd_nth {A} (n : nat) (x : A) (l : list A) : list A :=
  match l, n with
  | [], _ => []
  | _ :: r, O => x :: r
  | a :: r, S k => a :: upd_nth k x r
  end.

Definition step (st : state) (t : nat) : option state :=
  match nth_error (threads st) t with
  | None => None
  | Some th =>
    match th_step (index st) (log st) th with
    | None => None
    | Some (ix, lg, th') => Some {| index := ix; log := lg; threads := upd_nth t th' (threads st) |}
    end
  end.

(* a schedule is a list of thread ids; a disabled choice stutters *)
Definition step_or_stutter (st : state) (t : nat) : state :=
  match step st t with Some st' => st' | None => st end.
Definition run (sched : list nat) (st : state) : state := fold_left step_or_stutter sched st.

Definition init (progs : list (list str)) : state :=
  {| index := idx_empty; log := []; threads := map th_start progs |}.

Definition th_final (th : thread) : bool :=
  match pc th with Idle | Panicked => true | _ => false end.
Definition final (st : state) : bool := forallb th_final (threads st).

(* Table.Query on a state: (id, ok) *)
Definition query (ix : index_t) (s : str) : Z * bool :=
  match encode s with
  | Some id => (id, true)
  | None => match ix s with Done id => (id, true) | _ => (0, false) end
  end.

(* Table.Value: None = index out of range panic *)
Definition value (lg : list str) (id : Z) : option str :=
  if id <=? 0 then Some (decode id) else nth_error lg (Z.to_nat (id - 1)).

(* infinite schedules for the termination statement *)
Fixpoint run_inf (sched : nat -> nat) (n : nat) (st : state) : state :=
  match n with
  | O => st
  | S k => step_or_stutter (run_inf sched k st) (sched k)
  end.

(* ---- sequential use: one thread, every operation runs to completion ---- *)
Inductive op := OIntern (s : str) | OQuery (s : str) | OValue (id : Z).
Inductive obs := RIntern (id : Z) | RQuery (id : Z) (ok : bool) | RValue (v : option str)
               | RStuck.

(* Intern(s) alone on the table: at most 5 steps (Query, LoadOrStore, Append, Store) *)
Definition intern_seq (ix : index_t) (lg : list str) (s : str) : index_t * list str * obs :=
  let st := {| index := ix; log := lg; threads := [th_start [s]] |} in
  let st' := run (repeat O 6) st in
  match threads st' with
  | [th] => match pc th, res th with
            | Idle, [(_, id)] => (index st', log st', RIntern id)
            | _, _ => (index st', log st', RStuck)
            end
  | _ => (ix, lg, RStuck)
  end.

Fixpoint run_ops (ix : index_t) (lg : list str) (ops : list op) : index_t * list str * list obs :=
  match ops with
  | [] => (ix, lg, [])
  | o :: r =>
    let '(ix1, lg1, ob) :=
      match o with
      | OIntern s => intern_seq ix lg s
      | OQuery s => let '(id, ok) := query ix s in (ix, lg, RQuery id ok)
      | OValue id => (ix, lg, RValue (value lg id))
      end in
    let '(ix2, lg2, obs) := run_ops ix1 lg1 r in
    (ix2, lg2, ob :: obs)
  end.

(* ---- the byte-slice entry points InternBytes / QueryBytes ----
   The caller owns mutable buffers (a heap nat -> str) and may overwrite them between calls.
   InternBytes aliases the buffer as a string for the duration of the call; internSlow clones
   its argument BEFORE it builds the index key and before it appends to the log, so what the
   table keeps is the content at call time (a value), never a reference into the heap.  BWrite
   is the caller overwriting one of its buffers; it is not a table operation and has no
   observation. *)
Inductive bop :=
| BOp (o : op)
| BInternBytes (b : nat)
| BQueryBytes (b : nat)
| BWrite (b : nat) (s : str).
Definition heap := nat -> str.
Definition heap_empty : heap := fun _ => [].
Definition heap_set (hp : heap) (b : nat) (s : str) : heap :=
  fun x => if Nat.eqb x b then s else hp x.

Fixpoint run_bops (hp : heap) (ix : index_t) (lg : list str) (ops : list bop)
  : index_t * list str * list obs :=
  match ops with
  | [] => (ix, lg, [])
  | BWrite b s :: r => run_bops (heap_set hp b s) ix lg r
  | o :: r =>
    let '(ix1, lg1, ob) :=
      match o with
      | BOp (OIntern s) => intern_seq ix lg s
      | BOp (OQuery s) => let '(id, ok) := query ix s in (ix, lg, RQuery id ok)
      | BOp (OValue id) => (ix, lg, RValue (value lg id))
      | BInternBytes b => intern_seq ix lg (hp b)
      | BQueryBytes b => let '(id, ok) := query ix (hp b) in (ix, lg, RQuery id ok)
      | BWrite _ _ => (ix, lg, RStuck)
      end in
    let '(ix2, lg2, obs) := run_bops hp ix1 lg1 r in
    (ix2, lg2, ob :: obs)
  end.

(* the same history with every byte-slice call replaced by the string call on the content the
   buffer had when the call was made, and the caller's writes dropped *)
Fixpoint resolve_bops (hp : heap) (ops : list bop) : list op :=
  match ops with
  | [] => []
  | BOp o :: r => o :: resolve_bops hp r
  | BInternBytes b :: r => OIntern (hp b) :: resolve_bops hp r
  | BQueryBytes b :: r => OQuery (hp b) :: resolve_bops hp r
  | BWrite b s :: r => resolve_bops (heap_set hp b s) r
  end.

(* ---- correspondence ---- *)
Definition obs_eqb (a b : obs) : bool :=
  match a, b with
  | RIntern x, RIntern y => x =? y
  | RQuery x o, RQuery y p => (x =? y) && Bool.eqb o p
  | RValue x, RValue y => opt_list_N_eqb x y
  | _, _ => false
  end.
Fixpoint obs_list_eqb (a b : list obs) : bool :=
  match a, b with
  | [], [] => true
  | x :: r, y :: q => obs_eqb x y && obs_list_eqb r q
  | _, _ => false
  end.
Fixpoint list_list_N_eqb (a b : list str) : bool :=
  match a, b with
  | [] , [] => true
  | x :: r, y :: q => list_N_eqb x y && list_list_N_eqb r q
  | _, _ => false
  end.

Inductive intern_case :=
(* one table used sequentially: the operations and what the implementation answered *)
| CSeq (ops : list op) (observed : list obs)
(* one table used sequentially through both the string and the byte-slice entry points, the
   caller overwriting its buffers between calls *)
| CSeqB (bops : list bop) (observed : list obs)
(* one table used by several goroutines: the strings each interned, the ids each got, and the
   log read back afterwards with Value(1..n).  The model is run under the schedule in which
   the leaders commit in the order of the observed log; that fixes every id. *)
| CConc (progs : list (list str)) (ids : list (list Z)) (lg : list str).

Definition conc_thread_ok (ix : index_t) (prog : list str) (ids : list Z) : bool :=
  Nat.eqb (length prog) (length ids) &&
  forallb (fun '(s, id) => let '(qid, ok) := query ix s in ok && (qid =? id)) (combine prog ids).

Definition intern_chk (c : intern_case) : bool :=
  match c with
  | CSeq ops observed =>
    let '(_, _, o) := run_ops idx_empty [] ops in obs_list_eqb o observed
  | CSeqB bops observed =>
    let '(_, _, o) := run_bops heap_empty idx_empty [] bops in obs_list_eqb o observed
  | CConc progs ids lg =>
    let '(ix, mlg, _) := run_ops idx_empty [] (map OIntern lg) in
    list_list_N_eqb mlg lg &&
    Nat.eqb (length progs) (length ids) &&
    forallb (fun '(p, i) => conc_thread_ok ix p i) (combine progs ids)
  end.
