(* Specification: what protoc does with the comments between two tokens.  Transcribed from protoc's
   io::Tokenizer::NextWithComments and its CommentCollector (src/google/protobuf/io/tokenizer.cc, the
   algorithm of protoc 22 and later; the golden files of the repository were produced by protoc 33.2),
   from Tokenizer::ConsumeLineComment / ConsumeBlockComment for the text of a comment, and from
   Parser::LocationRecorder::AttachComments for what reaches the descriptor.  Validated on every run
   against the protoc-produced golden file internal/testdata/source_info.protoset (checks/C03.py).
   It works on the same gaps as Model/Comments.v.  Definitions only.

   protoc calls NextWithComments when it consumes the token that ends a declaration or opens or
   closes a block, and at the start of the file; prev_trailing_comments goes to the declaration
   that just ended, detached_comments and next_leading_comments to the declaration that starts with
   the next token.  Before a token that starts no declaration they are dropped. *)
From Coq Require Import List NArith ZArith Bool Arith.
From PV Require Import Common.Bytes Common.Corr Model.Lexer Model.Comments.
Import ListNotations.
Open Scope N_scope.

(* ---- CommentCollector ---- *)
(* comment_buffer_ holds the concatenated contents of the comments read into it; the model keeps the
   comments themselves and concatenates their contents on output *)
Record coll := mkcoll {
  buf : list cunit;                  (* comment_buffer_ *)
  has_comment : bool;
  is_line_comment : bool;
  can_attach_to_prev : bool;
  num_comments : nat;
  has_trailing_comment : bool;
  trailing : list cunit;             (* *prev_trailing_comments_ *)
  detached : list (list cunit)       (* *detached_comments_ *)
}.

Definition coll_init : coll := mkcoll [] false false true 0 false [] [].

Definition clear_buffer (c : coll) : coll :=
  mkcoll [] false (is_line_comment c) (can_attach_to_prev c) (num_comments c)
         (has_trailing_comment c) (trailing c) (detached c).

Definition flush (c : coll) : coll :=
  if has_comment c then
    if can_attach_to_prev c
    then mkcoll [] false (is_line_comment c) false (S (num_comments c)) true
                (trailing c ++ buf c) (detached c)
    else mkcoll [] false (is_line_comment c) false (S (num_comments c)) (has_trailing_comment c)
                (trailing c) (detached c ++ [buf c])
  else c.

Definition detach_from_prev (c : coll) : coll :=
  mkcoll (buf c) (has_comment c) (is_line_comment c) false (num_comments c)
         (has_trailing_comment c) (trailing c) (detached c).

(* GetBufferForLineComment / GetBufferForBlockComment followed by reading the comment into the buffer *)
Definition read_comment (c : coll) (u : cunit) : coll :=
  let c1 := if u_blk u
            then (if has_comment c then flush c else c)
            else (if has_comment c && negb (is_line_comment c) then flush c else c) in
  mkcoll (buf c1 ++ [u]) true (negb (u_blk u)) (can_attach_to_prev c1) (num_comments c1)
         (has_trailing_comment c1) (trailing c1) (detached c1).

Definition maybe_detach_comment (c : coll) : coll :=
  let count := (num_comments c + (if has_comment c then 1 else 0))%nat in
  if Nat.eqb count 1 then
    let c1 := if has_trailing_comment c
              then mkcoll (buf c) (has_comment c) (is_line_comment c) (can_attach_to_prev c)
                          (num_comments c) (has_trailing_comment c) [] (trailing c :: detached c)
              else c in
    flush c1
  else c.

(* ---- NextWithComments ---- *)
Record tstate := mkts { ts_c : coll; ts_line : nat }.

(* the loop sees a line that holds nothing but whitespace *)
Definition blank_line (s : tstate) : tstate :=
  mkts (detach_from_prev (flush (ts_c s))) (S (ts_line s)).
Fixpoint blank_lines (n : nat) (s : tstate) : tstate :=
  match n with O => s | S m => blank_lines m (blank_line s) end.

(* one comment in the loop: LINE_COMMENT consumes the newline that ends it; BLOCK_COMMENT consumes the
   rest of the line including the newline (if there is one); further newlines are blank lines *)
Definition loop_unit (s : tstate) (u : cunit) : tstate :=
  let s1 := mkts (read_comment (ts_c s) u) (ts_line s + u_k u) in
  match u_nls u with
  | O => s1
  | S m => blank_lines m (mkts (ts_c s1) (S (ts_line s1)))
  end.

Definition is_scope_end (next : nextk) : bool :=
  match next with NEof | NCloser => true | _ => false end.

(* the end of the loop: Next() read the next token (result = false at the end of the file) *)
Definition finish (prev_line tce : option nat) (next : nextk) (s : tstate) : coll :=
  let result := negb (is_eof next) in
  let c1 := if is_scope_end next then flush (ts_c s) else ts_c s in
  let same (x : option nat) := match x with Some l => Nat.eqb l (ts_line s) | None => false end in
  if result && (same prev_line || same tce) then maybe_detach_comment c1 else c1.

Definition run_gap (g : gap) : coll :=
  if g_prev g then
    match g_pre g, g_units g with
    | O, [] => coll_init                          (* NO_COMMENT and no newline: return Next() *)
    | O, u :: r =>
      (* a comment on the line of the previous token: it is read, the rest of its line is consumed
         and it is flushed so that later comments are not attached to it *)
      let tce := if u_blk u then u_k u else O in   (* trailing_comment_end_line *)
      let c1 := read_comment coll_init u in
      let line1 := (u_k u + (match u_nls u with O => 0 | S _ => 1 end))%nat in
      let s1 := mkts (flush c1) line1 in
      let s2 := blank_lines (pred (u_nls u)) s1 in
      finish (Some O) (Some tce) (g_next g) (fold_left loop_unit r s2)
    | S p, us =>
      (* NO_COMMENT and a newline: we are now on the line after the previous token *)
      let s1 := blank_lines p (mkts coll_init 1) in
      finish (Some O) None (g_next g) (fold_left loop_unit us s1)
    end
  else
    (* start of the file: DetachFromPrev, prev_line = -1 *)
    let s1 := blank_lines (g_pre g) (mkts (detach_from_prev coll_init) 0) in
    finish None None (g_next g) (fold_left loop_unit (g_units g) s1).

(* ---- the text of a comment ---- *)
(* WhitespaceNoNewline *)
Definition is_ws_no_nl (c : N) : bool := (c =? 32) || (c =? 9) || (c =? 13) || (c =? 11) || (c =? 12).

(* ConsumeBlockComment on the bytes between the delimiters: rec = recording; after a newline the
   recording stops, whitespace and one asterisk are skipped, and recording resumes *)
Fixpoint block_content (rec : bool) (s : list N) : list N :=
  match s with
  | [] => []
  | c :: r =>
    if rec then (if c =? 10 then c :: block_content false r else c :: block_content true r)
    else if is_ws_no_nl c then block_content false r
    else if c =? 42 then block_content true r
    else if c =? 10 then c :: block_content false r
    else c :: block_content true r
  end.

(* ConsumeLineComment records up to and including the newline *)
Definition spec_content (u : cunit) : list N :=
  if u_blk u then block_content true (u_text u)
  else u_text u ++ (if Nat.ltb 0 (u_nls u) then [10] else []).

Definition render (grp : list cunit) : list N := flat_map spec_content grp.

(* LocationRecorder::AttachComments: empty leading and trailing strings are not set *)
Definition attach (s : list N) : option (list N) := match s with [] => None | _ => Some s end.

Definition next_with_comments (g : gap) : comments_out :=
  let c := run_gap g in
  (attach (render (trailing c)), map render (detached c),
   attach (if has_comment c then render (buf c) else [])).

(* ---- what can be observed: before the end of a scope or of the file no declaration starts, so
   detached and leading comments are dropped there ---- *)
Definition observable (next : nextk) (o : comments_out) : comments_out :=
  if is_scope_end next then (fst (fst o), [], None) else o.

(* ---- corrections that sourceinfo/source_code_info_test.go applies to protoc's output (protocFixers):
   locations, selected by path, whose span protoc gets wrong or that it emits twice.  None of them
   concerns comments. ---- *)
Fixpoint strip_nested (fuel : nat) (p : list Z) : list Z :=
  (* after  4, i  : any number of  3, j  *)
  match fuel with
  | O => p
  | S f => match p with
           | 3%Z :: _ :: r => strip_nested f r
           | _ => p
           end
  end.

Inductive correction := FixDefaultSpan | DropSecondJsonName.

(* path patterns of the test file:  4,i,(3,j,)*2,k,7   7,k,7   4,i,(3,j,)*7,k,7   and  4,i,(3,j,)*2,k,10 *)
Definition known_protoc_corrections (path : list Z) : option correction :=
  match path with
  | [7%Z; _; 7%Z] => Some FixDefaultSpan
  | 4%Z :: _ :: r =>
    match strip_nested (length r) r with
    | [2%Z; _; 7%Z] => Some FixDefaultSpan
    | [7%Z; _; 7%Z] => Some FixDefaultSpan
    | [2%Z; _; 10%Z] => Some DropSecondJsonName
    | _ => None
    end
  | _ => None
  end.

Definition correction_code (c : option correction) : nat :=
  match c with None => 0 | Some FixDefaultSpan => 1 | Some DropSecondJsonName => 2 end%nat.

(* ---- correspondence / golden validation ---- *)
Definition spec_chk (c : gcase) : bool :=
  match gap_of_bytes (gc_prev c) (gc_bytes c) (gc_next c) with
  | None => false
  | Some g => out_matches (next_with_comments g) (gc_t c) (gc_dl c)
  end.

(* the transcription of the path patterns against the regular expressions of the test file *)
Definition path_chk (c : list Z * nat) : bool := Nat.eqb (correction_code (known_protoc_corrections (fst c))) (snd c).

(* all the kinds of C03 cases in one list, so that one evaluation serves them *)
Inductive c03_case := CGo (c : gcase) | CSpec (c : gcase) | CPath (p : list Z * nat).
Definition c03_chk (c : c03_case) : bool :=
  match c with CGo g => go_chk g | CSpec g => spec_chk g | CPath p => path_chk p end.
