(* Correspondence cases for Model/XLexer.v: what the harness (harness/cmd/xlexer) observed on the
   implementation, checked against the model inside coqc.  Definitions only. *)
From Coq Require Import List NArith ZArith Bool.
From PV Require Import Common.Corr Model.XLexer Model.XLexerTables.
Import ListNotations.

Definition T (k : N) (a b : nat) (kw : N) (off : Z) : otok :=
  {| o_kind := k; o_start := a; o_end := b; o_kw := kw; o_off := off |}.
Definition D (l : Z) (c : dclass) (sp : list (nat * nat)) : diag := mkd l c sp.

Definition otok_eqb (x y : otok) : bool :=
  N.eqb (o_kind x) (o_kind y) && Nat.eqb (o_start x) (o_start y) && Nat.eqb (o_end x) (o_end y)
  && N.eqb (o_kw x) (o_kw y) && Z.eqb (o_off x) (o_off y).

Definition dclass_code (c : dclass) : N :=
  match c with
  | DUnrecognized => 1 | DUntermString => 2 | DNulInString => 3 | DNewlineInString => 4
  | DNonPrintInString => 5 | DInvalidEscape => 6 | DUnmatched => 7 | DNonAsciiIdent => 8
  | DIncompatPrefix => 9 | DTooLarge => 10 | DUtf16 => 11 | DBadUtf8 => 12 | DBinary => 13
  | DIcePanic => 14
  end%N.

Definition span_eqb (x y : nat * nat) : bool := Nat.eqb (fst x) (fst y) && Nat.eqb (snd x) (snd y).

Fixpoint list_eqb {A} (eqb : A -> A -> bool) (x y : list A) : bool :=
  match x, y with
  | [], [] => true
  | a :: x', b :: y' => eqb a b && list_eqb eqb x' y'
  | _, _ => false
  end.

Definition diag_eqb (x y : diag) : bool :=
  Z.eqb (d_level x) (d_level y) && N.eqb (dclass_code (d_class x)) (dclass_code (d_class y))
  && list_eqb span_eqb (d_spans x) (d_spans y).

(* the observable of one Lex call: (tokens, diagnostics) *)
Definition observe (r : xres) : option (list otok * list diag) :=
  match r with
  | XReject d => Some ([], [d])
  | XDone ts ds => Some (ts, ds)
  | XICE ts ds => Some (ts, ds)
  | XFuel => None
  end.

Definition kwent_eqb (x y : kwent) : bool :=
  N.eqb (k_id x) (k_id y) && list_eqb N.eqb (k_str x) (k_str y) && N.eqb (k_act x) (k_act y)
  && Bool.eqb (k_word x) (k_word y) && Bool.eqb (k_brk x) (k_brk y)
  && N.eqb (k_left x) (k_left y) && N.eqb (k_right x) (k_right y) && N.eqb (k_fused x) (k_fused y).

Definition range_eqb (x y : Z * Z) : bool := Z.eqb (fst x) (fst y) && Z.eqb (snd x) (snd y).

(* a flat encoding of the observable, so that the case files are cheap to read: tokens as groups
   (kind, start, end, keyword, sign of the offset, magnitude of the offset), diagnostics as
   (level, class code, number of spans, then start and end of each span) *)
Definition enc_tok (t : otok) : list N :=
  [o_kind t; N.of_nat (o_start t); N.of_nat (o_end t); o_kw t;
   (if (o_off t <? 0)%Z then 1 else 0)%N; Z.to_N (Z.abs (o_off t))].
Definition enc_diag (d : diag) : list N :=
  Z.to_N (d_level d) :: dclass_code (d_class d) :: N.of_nat (length (d_spans d))
  :: flat_map (fun sp => [N.of_nat (fst sp); N.of_nat (snd sp)]) (d_spans d).

Inductive xcase :=
| CLex (fixflush fixesc : bool) (s : list N) (ts : list otok) (ds : list diag)
| CLexF (fixflush fixesc : bool) (s : list N) (ts ds : list N)
| CVerdict (fixed : bool) (levels : list Z) (ok : bool)
| CKws (kws : list kwent)
| CRanges (which : N) (rs : list (Z * Z))
| CConsts (actions kinds : list N) (levels : list Z) (dot newline parens maxsize : N)
          (flags : list bool) (affix : list (list N * bool)).

Definition cfg_flags (c : cfg) : list bool :=
  [c_dotnum c; c_asciiident c; c_ext c; c_ask c; c_octal c; c_partialx c; c_upperx c; c_olduni c;
   c_emit_newline c].

Definition xlex_chk (c : xcase) : bool :=
  match c with
  | CLex ff fe s ts ds =>
    match observe (xlex parser_cfg {| fix_flush := ff; fix_esc := fe |} s) with
    | Some (mts, mds) => list_eqb otok_eqb mts ts && list_eqb diag_eqb mds ds
    | None => false
    end
  | CLexF ff fe s ts ds =>
    match observe (xlex parser_cfg {| fix_flush := ff; fix_esc := fe |} s) with
    | Some (mts, mds) => list_eqb N.eqb (flat_map enc_tok mts) ts && list_eqb N.eqb (flat_map enc_diag mds) ds
                         && forallb (fun d => (0 <=? d_level d)%Z) mds
    | None => false
    end
  | CVerdict fixed levels ok =>
    Bool.eqb (if fixed then verdict_repaired levels else verdict_as_is levels) ok
  | CKws kws => list_eqb kwent_eqb kws kw_table
  | CRanges which rs =>
    list_eqb range_eqb rs
      (match which with
       | 0 => tbl_white | 1 => tbl_digit | 2 => tbl_letter | 3 => tbl_print | 4 => tbl_xids | _ => tbl_xidc
       end%N)
  | CConsts actions kinds levels dot newline parens maxsize flags affix =>
    list_eqb N.eqb actions [A_Discard; A_Hard; A_Soft; A_Bracket; A_Line; A_Block]
    && list_eqb N.eqb kinds [K_Unrec; K_Space; K_Comment; K_Ident; K_String; K_Number; K_Keyword]
    && list_eqb Z.eqb levels [L_ICE; L_Error; L_Warning; L_Remark]
    && N.eqb dot (c_kw_dot parser_cfg) && N.eqb newline (c_kw_newline parser_cfg)
    && N.eqb parens (c_kw_parens parser_cfg) && N.eqb maxsize (c_maxsize parser_cfg)
    && list_eqb Bool.eqb flags (cfg_flags parser_cfg)
    && forallb (fun '(a, b) => Bool.eqb (c_str_affix parser_cfg a) b) affix
  end.

(* for development and replay: the model's own observable *)
Definition xlex_obs (ff fe : bool) (s : list N) :=
  observe (xlex parser_cfg {| fix_flush := ff; fix_esc := fe |} s).
