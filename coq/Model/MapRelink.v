(* C10 - the check that lets a field refer to a synthetic map-entry message when the file has no AST
   (linker/resolve.go resolveFieldTypes, case *ast.NoSourceNode, and isValidMap), on the fields of ONE message and the
   map-entry messages nested in that message. From source a map declaration is recognised by its AST node; on the
   re-link the field must be repeated, not an extension, declared in the message the entry is nested in, the entry must
   be named internal.MapEntry(field name), and no EARLIER field of the message may pass the same test for this entry.
   Mirrors the code as it is: the test on the earlier fields does not look at what they refer to. Definitions only. *)
From Coq Require Import List Bool String Arith.
Import ListNotations.
Open Scope string_scope.
Open Scope list_scope.

(* mf_entry_name = internal.MapEntry(name) (read from the implementation, like the default JSON name of Model/JsonNames.v);
   mf_ref = the simple name of the map-entry message nested in the same message that the field's type_name resolves to,
   None for every other field. The fields of a message are never extensions, and their containing message is the parent
   of the entries considered here, so the first two conjuncts of isValidMap are true and are not represented. *)
Record mfield := mkmf { mf_name : string; mf_entry_name : string; mf_repeated : bool; mf_ref : option string }.

(* isValidMap(mapField, mapEntry) *)
Definition is_valid_map (g : mfield) (entry : string) : bool :=
  mf_repeated g && String.eqb entry (mf_entry_name g).

(* one field: isValid = isValidMap(f, dsc) and no earlier field is valid for dsc; true = accepted *)
Definition field_ok (earlier : list mfield) (f : mfield) : bool :=
  match mf_ref f with
  | Some e => is_valid_map f e && negb (existsb (fun g => is_valid_map g e) earlier)
  | None => true
  end.

(* the errors a collecting reporter sees for the fields of the message, in declaration order *)
Fixpoint relink_errors (earlier fs : list mfield) : nat :=
  match fs with
  | [] => 0
  | f :: r => (if field_ok earlier f then 0 else 1) + relink_errors (earlier ++ [f]) r
  end.

(* the repaired code (fixes/C10-map-entry-twin.diff): an earlier field counts only if it refers to this entry itself *)
Definition field_ok_repaired (earlier : list mfield) (f : mfield) : bool :=
  match mf_ref f with
  | Some e => is_valid_map f e
              && negb (existsb (fun g => match mf_ref g with
                                         | Some e' => String.eqb e' e && is_valid_map g e
                                         | None => false end) earlier)
  | None => true
  end.

Fixpoint relink_errors_repaired (earlier fs : list mfield) : nat :=
  match fs with
  | [] => 0
  | f :: r => (if field_ok_repaired earlier f then 0 else 1) + relink_errors_repaired (earlier ++ [f]) r
  end.

(* what a compilation from source produces for a map declaration: a repeated field whose entry is named after it *)
Definition from_source (f : mfield) : Prop :=
  match mf_ref f with
  | Some e => e = mf_entry_name f /\ mf_repeated f = true
  | None => True
  end.
Definition from_source_b (f : mfield) : bool :=
  match mf_ref f with
  | Some e => String.eqb e (mf_entry_name f) && mf_repeated f
  | None => true
  end.

(* the entry names claimed by the repeated fields / by the map fields of the message *)
Definition repeated_entry_names (fs : list mfield) : list string := map mf_entry_name (filter mf_repeated fs).
Definition is_map_field (f : mfield) : bool := match mf_ref f with Some _ => true | None => false end.
Definition map_entry_names (fs : list mfield) : list string := map mf_entry_name (filter is_map_field fs).

(* ---- correspondence: per file, the messages that have map fields, and the number of map-entry errors of the re-link *)
Inductive map_case :=
| MFile (msgs : list (list mfield)) (rl_err : nat).

Definition map_chk (c : map_case) : bool :=
  match c with
  | MFile msgs re =>
      forallb (fun m => forallb from_source_b m) msgs
      && Nat.eqb (fold_right (fun m acc => relink_errors [] m + acc) 0 msgs) re
  end.

(* the same against the repaired scan (used when the check runs against a tree with fixes/C10-map-entry-twin.diff applied:
   VERIF_C10_REPAIRED=1) *)
Definition map_chk_repaired (c : map_case) : bool :=
  match c with
  | MFile msgs re =>
      forallb (fun m => forallb from_source_b m) msgs
      && Nat.eqb (fold_right (fun m acc => relink_errors_repaired [] m + acc) 0 msgs) re
  end.
