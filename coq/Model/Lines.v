(* Specification vocabulary shared by the two line/column models (C32: experimental/source/file.go,
   C13: ast/file_info.go + parser/lexer.go): where the newlines of a text are. Definitions only. *)
From Coq Require Import List NArith Bool.
Import ListNotations.
Open Scope N_scope.

Definition is_nl (c : N) : bool := c =? 10.

(* number of newline bytes in s *)
Fixpoint count_nl (s : list N) : nat :=
  match s with
  | [] => O
  | c :: r => if is_nl c then S (count_nl r) else count_nl r
  end.

(* offsets just after every newline of s, in increasing order; pos = offset of the head of s *)
Fixpoint nl_after_from (pos : nat) (s : list N) : list nat :=
  match s with
  | [] => []
  | c :: r => if is_nl c then S pos :: nl_after_from (S pos) r else nl_after_from (S pos) r
  end.
Definition nl_after (s : list N) : list nat := nl_after_from 0 s.

Definition no_nl (s : list N) : Prop := forall c, In c s -> c <> 10.

(* text[a:b] of Go, for a <= b <= len *)
Definition slice (s : list N) (a b : nat) : list N := firstn (b - a) (skipn a s).

(* start of the line containing offset off: the offset after the last newline before off *)
Definition line_start (s : list N) (off : nat) : nat := last (nl_after (firstn off s)) 0%nat.
