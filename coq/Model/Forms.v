(* C09 - input forms of the compiler (compiler.go task.asFile / asParseResult / asAST / link, parser/clone.go).
   An abstract heap of descriptor objects: asParseResult makes a defensive copy (a fresh object) for the
   ParseResult and Proto forms and passes an AST through; link mutates ITS ARGUMENT in place (as
   linker.resolveFieldTypes and options interpretation do); source info is generated / kept / stripped as
   task.link does. The parser, the AST-to-proto lowering, the linker and the source-info generator are
   section variables: the theorems hold for every such functions. Definitions only. *)
From Coq Require Import List Bool PeanoNat NArith.
Import ListNotations.

Section Forms.
Variables src ast core si : Type.
Variable parse : src -> ast.                       (* parser.Parse *)
Variable to_core : ast -> core.                    (* parser.ResultFromAST: the unlinked descriptor proto *)
(* what linker.Link + options.InterpretOptions leave in the proto, as a function of the unlinked proto and
   of the dependencies' descriptors (without their source info: the linker does not read it) *)
Variable link_core : core -> list core -> core.
Variable gen_si : N -> ast -> core -> si.          (* sourceinfo.GenerateSourceInfo under a SourceInfoMode *)

Definition id := nat.

Inductive obj :=
| OAst (a : ast)                                   (* *ast.FileNode *)
| OProto (c : core) (s : option si)                (* *descriptorpb.FileDescriptorProto: content + SourceCodeInfo *)
| ORes (oa : option id) (pid : id).                (* parser.Result: its AST (shared pointer) and its proto *)

Record heap := mkheap { next : id; store : id -> option obj }.

Definition alloc (h : heap) (o : obj) : id * heap :=
  (next h, mkheap (S (next h)) (fun i => if Nat.eqb i (next h) then Some o else store h i)).
Definition write (h : heap) (i : id) (o : obj) : heap :=
  mkheap (next h) (fun j => if Nat.eqb j i then Some o else store h j).

(* SearchResult: Source is a reader (a value), the other three are pointers to objects the resolver owns *)
Inductive input :=
| ISource (s : src)
| IAst (i : id)
| IRes (i : id)
| IProto (i : id).

(* task.asAST: an AST is passed through as it is; source is parsed into a new node *)
Definition as_ast (h : heap) (inp : input) : option (id * heap) :=
  match inp with
  | IAst i => match store h i with Some (OAst _) => Some (i, h) | _ => None end
  | ISource s => Some (alloc h (OAst (parse s)))
  | _ => None
  end.

(* task.asParseResult *)
Definition as_parse_result (h : heap) (inp : input) : option (id * heap) :=
  match inp with
  | IRes r =>
    (* parser.Clone: proto.Clone of the descriptor, the file node is shared, a new result *)
    match store h r with
    | Some (ORes oa pid) =>
      match store h pid with
      | Some (OProto c s) => let (pid', h1) := alloc h (OProto c s) in Some (alloc h1 (ORes oa pid'))
      | _ => None
      end
    | _ => None
    end
  | IProto p =>
    (* proto.Clone + parser.ResultWithoutAST *)
    match store h p with
    | Some (OProto c s) => let (pid', h1) := alloc h (OProto c s) in Some (alloc h1 (ORes None pid'))
    | _ => None
    end
  | _ =>
    match as_ast h inp with
    | Some (ia, h1) =>
      match store h1 ia with
      | Some (OAst a) =>
        (* parser.ResultFromAST: a new descriptor proto built from the AST *)
        let (pid', h2) := alloc h1 (OProto (to_core a) None) in Some (alloc h2 (ORes (Some ia) pid'))
      | _ => None
      end
    | None => None
    end
  end.

(* linker.Link + options.InterpretOptions: the proto of the parse result is rewritten IN PLACE *)
Definition link_step (h : heap) (rid : id) (deps : list core) : option heap :=
  match store h rid with
  | Some (ORes oa pid) =>
    match store h pid with
    | Some (OProto c s) => Some (write h pid (OProto (link_core c deps) s))
    | _ => None
    end
  | _ => None
  end.

Definition mode_none (mode : N) : bool := N.eqb mode 0.

(* the source-info part of task.link: needsSourceInfo = mode != None && AST != nil && SourceCodeInfo == nil *)
Definition si_step (h : heap) (rid : id) (mode : N) : option heap :=
  match store h rid with
  | Some (ORes oa pid) =>
    match store h pid with
    | Some (OProto c s) =>
      let the_ast := match oa with
                     | Some ia => match store h ia with Some (OAst a) => Some a | _ => None end
                     | None => None
                     end in
      match the_ast, s with
      | Some a, None =>
        if negb (mode_none mode) then Some (write h pid (OProto c (Some (gen_si mode a c))))
        else Some (write h pid (OProto c None))
      | _, _ =>
        if mode_none mode then Some (write h pid (OProto c None)) else Some h
      end
    | _ => None
    end
  | _ => None
  end.

Definition result_of (h : heap) (rid : id) : option (core * option si) :=
  match store h rid with
  | Some (ORes _ pid) => match store h pid with Some (OProto c s) => Some (c, s) | _ => None end
  | _ => None
  end.

(* one file, sequentially *)
Definition compile_file (h : heap) (inp : input) (deps : list core) (mode : N)
  : option ((core * option si) * heap) :=
  match as_parse_result h inp with
  | Some (rid, h1) =>
    match link_step h1 rid deps with
    | Some h2 =>
      match si_step h2 rid mode with
      | Some h3 => match result_of h3 rid with Some r => Some (r, h3) | None => None end
      | None => None
      end
    | None => None
    end
  | None => None
  end.

(* a program: files in dependency order, each with its input and the positions of its imports among the
   files before it *)
Record file_in := mkfile { fi_inp : input; fi_deps : list nat }.

Fixpoint lookup_all {A} (l : list A) (ixs : list nat) : option (list A) :=
  match ixs with
  | [] => Some []
  | i :: r => match nth_error l i, lookup_all l r with
              | Some x, Some xs => Some (x :: xs)
              | _, _ => None
              end
  end.

Fixpoint compile_all (h : heap) (files : list file_in) (done : list (core * option si)) (mode : N)
  : option (list (core * option si) * heap) :=
  match files with
  | [] => Some (done, h)
  | f :: r =>
    match lookup_all (map fst done) (fi_deps f) with
    | Some deps =>
      match compile_file h (fi_inp f) deps mode with
      | Some (res, h') => compile_all h' r (done ++ [res]) mode
      | None => None
      end
    | None => None
    end
  end.

(* ---- concurrent compilations: every task is a little state machine, a schedule picks who moves ---- *)
Inductive tstate :=
| TStart
| TParsed (rid : id)
| TLinked (rid : id)
| TDone (rid : id)
| TFailed.

Record task := mktask { t_inp : input; t_deps : list core; t_mode : N; t_state : tstate }.

Definition set_state (t : task) (s : tstate) : task := mktask (t_inp t) (t_deps t) (t_mode t) s.

Definition step_task (h : heap) (t : task) : heap * task :=
  match t_state t with
  | TStart => match as_parse_result h (t_inp t) with
              | Some (rid, h1) => (h1, set_state t (TParsed rid))
              | None => (h, set_state t TFailed)
              end
  | TParsed rid => match link_step h rid (t_deps t) with
                   | Some h1 => (h1, set_state t (TLinked rid))
                   | None => (h, set_state t TFailed)
                   end
  | TLinked rid => match si_step h rid (t_mode t) with
                   | Some h1 => (h1, set_state t (TDone rid))
                   | None => (h, set_state t TFailed)
                   end
  | TDone _ => (h, t)
  | TFailed => (h, t)
  end.

Fixpoint update_nth {A} (l : list A) (n : nat) (x : A) : list A :=
  match l, n with
  | [], _ => []
  | _ :: r, O => x :: r
  | y :: r, S k => y :: update_nth r k x
  end.

(* a schedule is a list of task indices; an index out of range stutters *)
Fixpoint run (h : heap) (ts : list task) (sched : list nat) : heap * list task :=
  match sched with
  | [] => (h, ts)
  | k :: r => match nth_error ts k with
              | Some t => let (h1, t1) := step_task h t in run h1 (update_nth ts k t1) r
              | None => run h ts r
              end
  end.

End Forms.

(* ---- correspondence: the model is instantiated with small concrete functions and predicts, for an
   assignment of forms to the files of a program and a source-info mode, (1) that no supplied object
   changes, (2) which compiled files carry source info, (3) that the descriptor content is the same as for
   the all-source assignment. The harness reports what the real compiler did. ---- *)
From PV Require Import Common.Corr.
Open Scope N_scope.

(* toy instance: a source is a number; parse, lowering and linking are injective arithmetic *)
Definition toy_parse (s : N) : N := s + 1.
Definition toy_to_core (a : N) : N := 3 * a + 1.
Definition toy_link (c : N) (deps : list N) : N := fold_left (fun acc d => 7 * acc + d) deps (5 * c + 2).
Definition toy_si (mode a c : N) : N := 11 * a + 13 * c + mode.

(* source, AST, parser.Result, parser.Result without AST (parser.ResultWithoutAST), proto, proto that already
   carries source info *)
Inductive form := FSource | FAst | FRes | FResNoAst | FProto | FProtoSI | FResNoAstSI.

Record obs := mkfobs { ob_changed : bool;      (* did the supplied object change *)
                       ob_has_si : bool;       (* does the compiled file carry source info *)
                       ob_core_same : bool;    (* descriptor content equal to the all-source compilation *)
                       ob_si_same : bool }.    (* source info equal to the all-source compilation (when both have it) *)

(* Sets up the resolver's objects for file number k with source s, returns the input and the ids to watch. *)
Definition supply (h : heap N N N) (fm : form) (s mode : N) : input N * list id * heap N N N :=
  let a := toy_parse s in
  match fm with
  | FSource => (ISource N s, [], h)
  | FAst => let (ia, h1) := alloc N N N h (OAst N N N a) in (IAst N ia, [ia], h1)
  | FRes => let (ia, h1) := alloc N N N h (OAst N N N a) in
            let (ip, h2) := alloc N N N h1 (OProto N N N (toy_to_core a) None) in
            let (ir, h3) := alloc N N N h2 (ORes N N N (Some ia) ip) in (IRes N ir, [ia; ip; ir], h3)
  | FResNoAst => let (ip, h1) := alloc N N N h (OProto N N N (toy_to_core a) None) in
                 let (ir, h2) := alloc N N N h1 (ORes N N N None ip) in (IRes N ir, [ip; ir], h2)
  | FProto => let (ip, h1) := alloc N N N h (OProto N N N (toy_to_core a) None) in (IProto N ip, [ip], h1)
  | FProtoSI =>
    (* the source info an all-source compilation produces is attached up front; the linked content it
       was generated from is not known here, the harness attaches the reference one: model it as a marker *)
    let (ip, h1) := alloc N N N h (OProto N N N (toy_to_core a) (Some 0)) in (IProto N ip, [ip], h1)
  | FResNoAstSI =>
    (* parser.ResultWithoutAST around a descriptor proto that already carries source info *)
    let (ip, h1) := alloc N N N h (OProto N N N (toy_to_core a) (Some 0)) in
    let (ir, h2) := alloc N N N h1 (ORes N N N None ip) in (IRes N ir, [ip; ir], h2)
  end.

Fixpoint supply_all (h : heap N N N) (fms : list (form * list nat)) (k mode : N)
  : list (file_in N) * list id * heap N N N :=
  match fms with
  | [] => ([], [], h)
  | (fm, deps) :: r =>
    let '(inp, watch, h1) := supply h fm k mode in
    let '(fs, ws, h2) := supply_all h1 r (k + 1) mode in
    (mkfile N inp deps :: fs, watch ++ ws, h2)
  end.

Definition empty_heap : heap N N N := mkheap N N N O (fun _ => None).

Definition obj_eqb (a b : option (obj N N N)) : bool :=
  match a, b with
  | None, None => true
  | Some (OAst _ _ _ x), Some (OAst _ _ _ y) => x =? y
  | Some (OProto _ _ _ c s), Some (OProto _ _ _ d t) =>
      (c =? d) && match s, t with Some u, Some v => u =? v | None, None => true | _, _ => false end
  | Some (ORes _ _ _ oa p), Some (ORes _ _ _ ob q) =>
      Nat.eqb p q && match oa, ob with Some u, Some v => Nat.eqb u v | None, None => true | _, _ => false end
  | _, _ => false
  end.

Definition run_forms (fms : list (form * list nat)) (mode : N)
  : option (list (N * option N) * bool) :=
  let '(files, watch, h) := supply_all empty_heap fms 0 mode in
  match compile_all N N N N toy_parse toy_to_core toy_link toy_si h files [] mode with
  | Some (res, h') => Some (res, forallb (fun i => obj_eqb (store N N N h i) (store N N N h' i)) watch)
  | None => None
  end.

Inductive forms_case :=
(* forms and imports of every file, the mode, a second round flag is folded into the observations *)
| FC (fms : list (form * list nat)) (mode : N) (observed : list obs).

Definition all_source (fms : list (form * list nat)) : list (form * list nat) :=
  map (fun p => (FSource, snd p)) fms.

Fixpoint forms_cmp (fms : list (form * list nat)) (mode : N) (res ref : list (N * option N)) (o : list obs) : bool :=
  match fms, res, ref, o with
  | [], [], [], [] => true
  | (fm, _) :: fr, (c, s) :: rr, (c0, s0) :: r0, ob :: orr =>
      let has := match s with Some _ => true | None => false end in
      Bool.eqb (ob_has_si ob) has
      && Bool.eqb (ob_core_same ob) (c =? c0)
      && (* source info is predicted equal to the reference whenever it was generated from the AST; a
            pre-attached one is the reference's by construction of the harness, so whenever it is kept it is
            observed equal (the plugin reports equal when one side has none) *)
         (match fm, s, s0 with
          | FProtoSI, _, _ | FResNoAstSI, _, _ => ob_si_same ob
          | _, Some u, Some v => Bool.eqb (ob_si_same ob) (u =? v)
          | _, _, _ => true
          end)
      && forms_cmp fr mode rr r0 orr
  | _, _, _, _ => false
  end.

Definition forms_chk (c : forms_case) : bool :=
  match c with
  | FC fms mode observed =>
    match run_forms fms mode, run_forms (all_source fms) mode with
    | Some (res, untouched), Some (ref, _) =>
        Bool.eqb untouched (negb (existsb ob_changed observed)) && forms_cmp fms mode res ref observed
    | _, _ => false
    end
  end.
