(* Model of parser/lexer.go (protoLex.Lex and its sub-scanners) over byte lists: which tokens and
   comments are produced, with which offsets, lengths and literal values, and where errors are
   reported.  The model follows the Go code branch by branch; runes are decoded with the model of
   utf8.DecodeRune in Model/Utf8.v where the Go code reads runes and the value of the rune matters
   (string literals, the dispatch on the first character); comments, identifiers and numbers are
   scanned byte-wise, which is equivalent because every byte they test for is ASCII and no byte
   of a multi-byte sequence is.  Comment attribution (prev/next token) is not part of this model.
   Definitions only. *)
From Coq Require Import List NArith ZArith Bool.
From PV Require Import Common.Bytes Model.Utf8.
Import ListNotations.
Open Scope N_scope.

(* ---- character classes ---- *)
Definition is_ws (c : N) : bool :=
  (c =? 10) || (c =? 13) || (c =? 9) || (c =? 12) || (c =? 11) || (c =? 32).
Definition is_digit (c : N) : bool := (48 <=? c) && (c <=? 57).
Definition is_octdigit (c : N) : bool := (48 <=? c) && (c <=? 55).
Definition is_hexdigit (c : N) : bool :=
  is_digit c || ((97 <=? c) && (c <=? 102)) || ((65 <=? c) && (c <=? 70)).
Definition is_letter (c : N) : bool := ((97 <=? c) && (c <=? 122)) || ((65 <=? c) && (c <=? 90)).
Definition is_ident_start (c : N) : bool := (c =? 95) || is_letter c.
Definition is_ident_char (c : N) : bool := (c =? 95) || is_letter c || is_digit c.
(* ";,.:=-+(){}[]<>/" *)
Definition is_punct (c : N) : bool :=
  (c =? 59) || (c =? 44) || (c =? 46) || (c =? 58) || (c =? 61) || (c =? 45) || (c =? 43) ||
  (c =? 40) || (c =? 41) || (c =? 123) || (c =? 125) || (c =? 91) || (c =? 93) || (c =? 60) ||
  (c =? 62) || (c =? 47).

Definition hexval (c : N) : N :=
  if c <=? 57 then c - 48 else if c <=? 70 then c - 55 else c - 87.
Definition digits_val (base : N) (ds : list N) : N :=
  fold_left (fun a c => a * base + hexval c) ds 0.

Fixpoint span (p : N -> bool) (l : list N) : nat :=
  match l with
  | c :: r => if p c then S (span p r) else O
  | [] => O
  end.

(* ---- readNumber: bytes consumed after the first character of the number ---- *)
Definition is_num_char (c : N) : bool :=
  (c =? 46) || (c =? 95) || is_digit c || is_letter c || (c =? 45) || (c =? 43).
Fixpoint read_number (rest : list N) (allow_sign : bool) : nat :=
  match rest with
  | [] => O
  | c :: r =>
    if ((c =? 45) || (c =? 43)) && negb allow_sign then O
    else if negb (is_num_char c) then O
    else S (read_number r ((c =? 101) || (c =? 69)))
  end.

(* ---- literal values ---- *)
Inductive tok :=
| TName                      (* identifier or keyword *)
| TInt (v : N)
| TFloat
| TStr (bytes : list N)
| TRune (c : N)
| TEof.

Definition two64 : N := 18446744073709551616.

(* strconv.ParseFloat's decimal grammar on a token without sign: digits [. digits] [e [sign] digits]
   with at least one mantissa digit; parseFloat additionally rejects any underscore *)
Definition float_syntax_ok (t : list N) : bool :=
  let n1 := span is_digit t in
  let t1 := skipn n1 t in
  let '(n2, t2) := match t1 with
                   | 46 :: r => (span is_digit r, skipn (span is_digit r) r)
                   | _ => (O, t1)
                   end in
  Nat.ltb 0 (n1 + n2) &&
  match t2 with
  | [] => true
  | e :: r =>
    ((e =? 101) || (e =? 69)) &&
    let r' := match r with
              | s :: r0 => if (s =? 43) || (s =? 45) then r0 else r
              | [] => r
              end in
    Nat.ltb 0 (length r') && forallb is_digit r'
  end.

Definition has_float_char (t : list N) : bool :=
  existsb (fun c => (c =? 46) || (c =? 101) || (c =? 69)) t.

(* the token kind / value of a number token, None = the lexer returns _ERROR *)
Definition classify_number (t : list N) : option tok :=
  let decimal :=
    if has_float_char t then (if float_syntax_ok t then Some TFloat else None)
    else if forallb is_digit t then
      (if digits_val 10 t <? two64 then Some (TInt (digits_val 10 t)) else Some TFloat)
    else None in
  match t with
  | [] => decimal
  | c0 :: r =>
    if c0 =? 48 then
      match r with
      | [] => Some (TInt 0)
      | x :: ds =>
        if (x =? 120) || (x =? 88) then
          if Nat.ltb 0 (length ds) && forallb is_hexdigit ds && (digits_val 16 ds <? two64)
          then Some (TInt (digits_val 16 ds)) else None
        else if has_float_char t then (if float_syntax_ok t then Some TFloat else None)
        else if forallb is_octdigit t && (digits_val 8 t <? two64) then Some (TInt (digits_val 8 t)) else None
      end
    else decimal
  end.

(* ---- string literals ---- *)

(* strconv.ParseUint(s, 16, 32) on a string given as runes: at least one hex digit, nothing else *)
Definition parse_uint16_32 (rs : list N) : option N :=
  if Nat.ltb 0 (length rs) && forallb is_hexdigit rs && (digits_val 16 rs <? 4294967296)
  then Some (digits_val 16 rs) else None.

Definition simple_esc (c : N) : option N :=
  if c =? 97 then Some 7 else if c =? 98 then Some 8 else if c =? 102 then Some 12
  else if c =? 110 then Some 10 else if c =? 114 then Some 13 else if c =? 116 then Some 9
  else if c =? 118 then Some 11 else if c =? 92 then Some 92 else if c =? 39 then Some 39
  else if c =? 34 then Some 34 else if c =? 63 then Some 63 else None.

(* reads up to k runes for a unicode escape, stopping before a quote or a backslash.
   Some (runes read, bytes consumed, complete?) ; None = end of input *)
Fixpoint read_uni (k : nat) (quote : N) (rest : list N) : option (list N * nat * bool) :=
  match k with
  | O => Some ([], O, true)
  | S k' =>
    match rest with
    | [] => None
    | _ =>
      let '(c, sz) := decode_rune rest in
      if (c =? quote) || (c =? 92) then Some ([], O, false)
      else match read_uni k' quote (skipn sz rest) with
           | None => None
           | Some (rs, n, full) => Some (c :: rs, (sz + n)%nat, full)
           end
    end
  end.

(* state of the escape-error bookkeeping of readStringLiteral: errors already handed to the
   handler (flushed) and the one still held back (pend); each is the offset it is reported at *)
Record sstate := { s_buf : list N; s_pend : option Z; s_flushed : list Z }.
Definition report (st : sstate) (at_ : Z) : sstate :=
  {| s_buf := s_buf st; s_pend := Some at_;
     s_flushed := match s_pend st with Some p => s_flushed st ++ [p] | None => s_flushed st end |}.
Definition emit (st : sstate) (bs : list N) : sstate :=
  {| s_buf := s_buf st ++ bs; s_pend := s_pend st; s_flushed := s_flushed st |}.

Inductive sres :=
| SDone (endpos : nat) (st : sstate)     (* closing quote consumed; endpos = offset after it *)
| SEof (st : sstate)                      (* input ended inside the literal *)
| SNewline (st : sstate)
| SFuel.

(* one iteration of the loop of readStringLiteral at offset pos: either a final result or the
   new offset, remaining input and state *)
Inductive sstep := SStop (r : sres) | SCont (pos : nat) (rest : list N) (st : sstate).

Definition string_step (quote : N) (pos : nat) (rest : list N) (st : sstate) : sstep :=
  match rest with
  | [] => SStop (SEof st)
  | _ =>
    let '(c, sz) := decode_rune rest in
    let r1 := skipn sz rest in
    let p1 := (pos + sz)%nat in
    if c =? 10 then SStop (SNewline st)
    else if c =? quote then SStop (SDone p1 st)
    else if c =? 0 then SCont p1 r1 (report st (Z.of_nat pos))
    else if negb (c =? 92) then SCont p1 r1 (emit st (encode_rune c))
    else
      match r1 with
      | [] => SStop (SEof st)
      | _ =>
        let '(e, esz) := decode_rune r1 in
        let r2 := skipn esz r1 in
        let p2 := (p1 + esz)%nat in
        if (e =? 120) || (e =? 88) then
          match r2 with
          | [] => SStop (SEof st)
          | _ =>
            let '(c1, sz1) := decode_rune r2 in
            if (c1 =? quote) || (c1 =? 92) then SCont p2 r2 (report st (Z.of_nat pos))
            else
              let r3 := skipn sz1 r2 in
              let p3 := (p2 + sz1)%nat in
              match r3 with
              | [] => SStop (SEof st)
              | _ =>
                let '(c2, sz2) := decode_rune r3 in
                let '(hex, r4, p4) := if is_hexdigit c2 then ([c1; c2], skipn sz2 r3, (p3 + sz2)%nat)
                                      else ([c1], r3, p3) in
                match parse_uint16_32 hex with
                | Some i => SCont p4 r4 (emit st [i mod 256])
                | None => SCont p4 r4 (report st (Z.of_nat pos))
                end
              end
          end
        else if is_octdigit e then
          match r2 with
          | [] => SStop (SEof st)
          | _ =>
            let '(c2, sz2) := decode_rune r2 in
            if negb (is_octdigit c2) then SCont p2 r2 (emit st [digits_val 8 [e]])
            else
              let r3 := skipn sz2 r2 in
              let p3 := (p2 + sz2)%nat in
              match r3 with
              | [] => SStop (SEof st)
              | _ =>
                let '(c3, sz3) := decode_rune r3 in
                if negb (is_octdigit c3) then SCont p3 r3 (emit st [digits_val 8 [e; c2]])
                else
                  let v := digits_val 8 [e; c2; c3] in
                  let p4 := (p3 + sz3)%nat in
                  if 255 <? v then SCont p4 (skipn sz3 r3) (report st (Z.of_nat pos))
                  else SCont p4 (skipn sz3 r3) (emit st [v])
              end
          end
        else if e =? 117 then
          match read_uni 4 quote r2 with
          | None => SStop (SEof st)
          | Some (rs, n, full) =>
            let p3 := (p2 + n)%nat in
            let r3 := skipn n r2 in
            if negb full then SCont p3 r3 (report st (Z.of_nat pos))
            else match parse_uint16_32 rs with
                 | Some i => SCont p3 r3 (emit st (encode_rune i))
                 | None => SCont p3 r3 (report st (Z.of_nat pos))
                 end
          end
        else if e =? 85 then
          match read_uni 8 quote r2 with
          | None => SStop (SEof st)
          | Some (rs, n, full) =>
            let p3 := (p2 + n)%nat in
            let r3 := skipn n r2 in
            if negb full then SCont p3 r3 (report st (Z.of_nat pos))
            else match parse_uint16_32 rs with
                 | Some i => if 1114111 <? i
                             then SCont p3 r3 (report st (Z.of_nat pos))
                             else SCont p3 r3 (emit st (encode_rune i))
                 | None => SCont p3 r3 (report st (Z.of_nat pos))
                 end
          end
        else match simple_esc e with
             | Some b => SCont p2 r2 (emit st [b])
             | None => SCont p2 r2 (report st (Z.of_nat pos))
             end
      end
  end.

Fixpoint scan_string (fuel : nat) (quote : N) (pos : nat) (rest : list N) (st : sstate) : sres :=
  match fuel with
  | O => SFuel
  | S f =>
    match string_step quote pos rest st with
    | SStop r => r
    | SCont pos' rest' st' => scan_string f quote pos' rest' st'
    end
  end.

(* ---- comments ---- *)
Inductive cres := COk (n : nat) | CEof | CControl.

(* after the two slashes: bytes up to (not including) the newline *)
Fixpoint scan_line_comment (rest : list N) : cres :=
  match rest with
  | [] => COk O
  | c :: r =>
    if c =? 10 then COk O
    else if c =? 0 then CControl
    else match scan_line_comment r with COk n => COk (S n) | x => x end
  end.

(* after the slash and the star: bytes up to and including the closing star-slash *)
Fixpoint scan_block_comment (rest : list N) : cres :=
  match rest with
  | [] => CEof
  | c :: r =>
    if c =? 0 then CControl
    else if c =? 42 then
      match r with
      | [] => CEof
      | d :: r' => if d =? 47 then COk 2
                   else match scan_block_comment r with COk n => COk (S n) | x => x end
      end
    else match scan_block_comment r with COk n => COk (S n) | x => x end
  end.

(* ---- the main loop ---- *)
Inductive ikind := IToken (t : tok) | IComment (block : bool).
Record item := { i_kind : ikind; i_off : nat; i_len : nat }.

Inductive lerr :=
| EControl | EInvalidChar | ENumber | EStringEof | EStringNewline | EStringEscape
| EBlockEof.

(* errors as reported to the handler: class and offset *)
Definition errs := list (lerr * Z).

Inductive lres :=
| LDone (items : list item)                       (* the EOF token is the last item *)
| LFail (items : list item) (es : errs)           (* first call of Lex that returned _ERROR *)
| LFuel.

(* what one call of the dispatch produces at offset pos on the non-empty, non-whitespace input *)
Inductive dres := DItem (it : item) | DErr (es : errs).

Definition mk (k : ikind) (off len : nat) : item := {| i_kind := k; i_off := off; i_len := len |}.

Definition dispatch (pos : nat) (rest : list N) : dres :=
  let '(c, sz) := decode_rune rest in
  let r1 := skipn sz rest in
  let here := Z.of_nat pos in
  if c =? 46 then
    match r1 with
    | [] => DItem (mk (IToken (TRune 46)) pos 1)
    | d :: r2 =>
      if is_digit d then
        let n := (2 + read_number r2 false)%nat in
        match (if float_syntax_ok (firstn n rest) then Some TFloat else None) with
        | Some t => DItem (mk (IToken t) pos n)
        | None => DErr [(ENumber, here)]
        end
      else DItem (mk (IToken (TRune 46)) pos 1)
    end
  else if is_ident_start c then DItem (mk (IToken TName) pos (1 + span is_ident_char r1))
  else if is_digit c then
    let n := (1 + read_number r1 false)%nat in
    match classify_number (firstn n rest) with
    | Some t => DItem (mk (IToken t) pos n)
    | None => DErr [(ENumber, here)]
    end
  else if (c =? 39) || (c =? 34) then
    match scan_string (S (length r1)) c (pos + 1) r1 {| s_buf := []; s_pend := None; s_flushed := [] |} with
    | SDone endpos st =>
      match s_pend st with
      | None => DItem (mk (IToken (TStr (s_buf st))) pos (endpos - pos))
      | Some p => DErr (map (fun z => (EStringEscape, z)) (s_flushed st ++ [p]))
      end
    | SEof st => DErr (map (fun z => (EStringEscape, z)) (s_flushed st) ++ [(EStringEof, here)])
    | SNewline st => DErr (map (fun z => (EStringEscape, z)) (s_flushed st) ++ [(EStringNewline, here)])
    | SFuel => DErr []
    end
  else if c =? 47 then
    match r1 with
    | [] => DItem (mk (IToken (TRune 47)) pos 1)
    | d :: r2 =>
      if d =? 47 then
        match scan_line_comment r2 with
        | COk n => DItem (mk (IComment false) pos (2 + n))
        | _ => DErr [(EControl, here)]
        end
      else if d =? 42 then
        match scan_block_comment r2 with
        | COk n => DItem (mk (IComment true) pos (2 + n))
        | CEof => DErr [(EBlockEof, here)]
        | CControl => DErr [(EControl, here)]
        end
      else DItem (mk (IToken (TRune 47)) pos 1)
    end
  else if (c <? 32) || (c =? 127) then DErr [(EControl, here)]
  else if negb (is_punct c) then DErr [(EInvalidChar, here)]
  else DItem (mk (IToken (TRune c)) pos 1).

Fixpoint lex_loop (fuel : nat) (pos : nat) (rest : list N) (acc : list item) : lres :=
  match fuel with
  | O => LFuel
  | S f =>
    match rest with
    | [] => LDone (rev (mk (IToken TEof) pos 0 :: acc))
    | c :: r =>
      if is_ws c then lex_loop f (S pos) r acc
      else match dispatch pos rest with
           | DErr es => LFail (rev acc) es
           | DItem it =>
             lex_loop f (pos + i_len it) (skipn (i_len it) rest) (it :: acc)
           end
    end
  end.

(* newLexer strips a UTF-8 byte order mark; offsets are relative to the stripped contents *)
Definition strip_bom (data : list N) : list N :=
  match data with
  | a :: b :: c :: r => if (a =? 239) && (b =? 187) && (c =? 191) then r else data
  | _ => data
  end.

Definition lex (data : list N) : lres :=
  let d := strip_bom data in lex_loop (S (length d)) 0 d [].

(* ---- correspondence: what the harness observed when driving the real lexer ---- *)
From PV Require Import Common.Corr.

(* observed item: kind code (0 name, 1 int, 2 float, 3 string, 4 rune, 5 eof, 6 line comment or
   block comment - the harness does not distinguish them), offset, length, integer value / rune,
   string bytes *)
Record oitem := { o_k : nat; o_off : nat; o_len : nat; o_v : N; o_s : list N }.

Definition item_matches (m : item) (o : oitem) : bool :=
  Nat.eqb (i_off m) (o_off o) && Nat.eqb (i_len m) (o_len o) &&
  match i_kind m with
  | IToken TName => Nat.eqb (o_k o) 0
  | IToken (TInt v) => Nat.eqb (o_k o) 1 && (v =? o_v o)
  | IToken TFloat => Nat.eqb (o_k o) 2
  | IToken (TStr s) => Nat.eqb (o_k o) 3 && list_N_eqb s (o_s o)
  | IToken (TRune c) => Nat.eqb (o_k o) 4 && (c =? o_v o)
  | IToken TEof => Nat.eqb (o_k o) 5
  | IComment _ => Nat.eqb (o_k o) 6
  end.

Fixpoint items_match (ms : list item) (os : list oitem) : bool :=
  match ms, os with
  | [], [] => true
  | m :: ms', o :: os' => item_matches m o && items_match ms' os'
  | _, _ => false
  end.

Definition lerr_code (e : lerr) : nat :=
  match e with
  | EControl => 0 | EInvalidChar => 1 | ENumber => 2 | EStringEof => 3 | EStringNewline => 4
  | EStringEscape => 5 | EBlockEof => 6
  end.

Fixpoint errs_match (es : errs) (os : list (nat * Z)) : bool :=
  match es, os with
  | [], [] => true
  | (e, z) :: es', (c, z') :: os' => Nat.eqb (lerr_code e) c && Z.eqb z z' && errs_match es' os'
  | _, _ => false
  end.

Record lex_case := { lc_data : list N; lc_items : list oitem; lc_failed : bool; lc_errs : list (nat * Z) }.

Definition lex_chk (c : lex_case) : bool :=
  match lex (lc_data c) with
  | LDone items => negb (lc_failed c) && items_match items (lc_items c) &&
                   match lc_errs c with [] => true | _ => false end
  | LFail items es => lc_failed c && items_match items (lc_items c) && errs_match es (lc_errs c)
  | LFuel => false
  end.
