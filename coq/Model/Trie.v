(* Model of internal/trie (property C41): nybbles.insert / step / has / set (nybbles.go) and
   Trie.Insert / Prefixes / Get (trie.go).

   Abstractions (stated in the trusted base):
   - the index type N (uint8..uint64) is unbounded: a table slot is [option nat], [None] being the
     all-ones value, for which the Go tests [len(t.lo) <= int(m)] / [len(t.hi) <= int(m)] are always
     true; the width-overflow return -1 of insert and [grow] are therefore not modelled (grow copies
     the tables slot by slot and is exercised by the check with more than 255 nodes);
   - the hasValue bitset is a list of booleans indexed by node number;
   - a key is a list of bytes ([N] below 256, as in Common/Bytes.v); byte b selects slot b / 16
     ([hi4 b]) in a hi row and b mod 16 ([lo4 b]) in a lo row.
   Values are naturals, the zero value is 0. *)
From Coq Require Import List Arith NArith Bool Lia.
Import ListNotations.

Definition hi4 (b : N) : nat := N.to_nat (b / 16).   (* b >> 4 *)
Definition lo4 (b : N) : nat := N.to_nat (b mod 16). (* b & 0xf *)
Definition key := list N.
Definition key_eqb (a b : key) : bool := if list_eq_dec N.eq_dec a b then true else false.

Definition row := list (option nat).
Definition all_ones : row := repeat None 16.

Record nyb := mkNyb { hi : list row; lo : list row; hasv : list bool }.
Definition nyb_empty : nyb := mkNyb [] [] [].

Fixpoint upd {A} (l : list A) (i : nat) (x : A) : list A :=
  match l, i with
  | [], _ => []
  | _ :: r, O => x :: r
  | y :: r, S j => y :: upd r j x
  end.

Definition slot (t : list row) (n k : nat) : option nat := nth k (nth n t []) None.
Definition set_slot (t : list row) (n k : nat) (v : nat) : list row := upd t n (upd (nth n t []) k (Some v)).

(* len(table) <= int(m) *)
Definition free (len : nat) (m : option nat) : bool :=
  match m with None => true | Some i => len <=? i end.

Definition has (t : nyb) (n : nat) : bool := nth n (hasv t) false.
(* set(n): grow the bitset with zeros up to n, then set the bit *)
Definition set_has (hv : list bool) (n : nat) : list bool :=
  let hv' := if length hv <=? n then hv ++ repeat false (S n - length hv) else hv in
  upd hv' n true.

(* the loop of insert, from node n over the remaining bytes; returns the tables and the final node *)
Fixpoint insert_loop (h l : list row) (n : nat) (k : key) : list row * list row * nat :=
  match k with
  | [] => (h, l, n)
  | b :: r =>
    let m1 := slot h n (hi4 b) in
    let '(h, l, i1) :=
      if free (length l) m1 then (set_slot h n (hi4 b) (length l), l ++ [all_ones], length l)
      else (h, l, match m1 with Some i => i | None => 0 end) in
    let m2 := slot l i1 (lo4 b) in
    let '(h, l, i2) :=
      if free (length h) m2 then (h ++ [all_ones], set_slot l i1 (lo4 b) (length h), length h)
      else (h, l, match m2 with Some i => i | None => 0 end) in
    insert_loop h l i2 r
  end.

Definition nyb_insert (t : nyb) (k : key) : nyb * nat :=
  let h0 := match hi t with [] => [all_ones] | _ => hi t end in    (* if t.hi == nil *)
  let '(h, l, n) := insert_loop h0 (lo t) 0 k in
  (mkNyb h l (set_has (hasv t) n), n).

(* the for loop of step: rest = key[i-1:], searcher (i, n); None is s.n = -1 *)
Fixpoint step_loop (t : nyb) (rest : key) (i n : nat) : option (nat * nat) :=
  match rest with
  | [] => None
  | b :: r =>
    if length (hi t) <=? n then None
    else match slot (hi t) n (hi4 b) with
         | None => None
         | Some m =>
           if length (lo t) <=? m then None
           else match slot (lo t) m (lo4 b) with
                | None => None       (* s.n = all-ones: has is false and the next iteration breaks *)
                | Some n' => if has t n' then Some (S i, n') else step_loop t r (S i) n'
                end
         end
  end.

Definition step (t : nyb) (k : key) (s : nat * nat) : option (nat * nat) :=
  let (i, n) := s in
  if i =? 0 then (if has t 0 then Some (1, n) else step_loop t k 1 n)
  else step_loop t (skipn (i - 1) k) i n.

(* Trie *)
Record trie := mkTrie { impl : option nyb; values : list nat }.
Definition trie_empty : trie := mkTrie None [].

Definition set_value (vs : list nat) (n v : nat) : list nat :=
  let vs' := if length vs <=? n then vs ++ repeat 0 (S n - length vs) else vs in
  upd vs' n v.

Definition trie_insert (t : trie) (k : key) (v : nat) : trie :=
  let im := match impl t with None => nyb_empty | Some x => x end in
  let (im', n) := nyb_insert im k in
  mkTrie (Some im') (set_value (values t) n v).

(* Prefixes: for { s = step(key, s); if s.n == -1 {break}; yield(key[:s.i-1], values[s.n]) };
   None = out of fuel (Proofs/Trie.v: never with the fuel [trie_prefixes] supplies) *)
Fixpoint prefixes_loop (fuel : nat) (im : nyb) (vs : list nat) (k : key) (s : nat * nat)
  : option (list (key * nat)) :=
  match fuel with
  | O => None
  | S f =>
    match step im k s with
    | None => Some []
    | Some (i, n) =>
      match prefixes_loop f im vs k (i, n) with
      | None => None
      | Some r => Some ((firstn (i - 1) k, nth n vs 0) :: r)
      end
    end
  end.

Definition trie_prefixes (t : trie) (k : key) : option (list (key * nat)) :=
  match impl t with
  | None => Some []
  | Some im => prefixes_loop (length k + 2) im (values t) k (0, 0)
  end.

(* Get = the last pair Prefixes yields, or the zero values *)
Definition trie_get (t : trie) (k : key) : option (key * nat) :=
  match trie_prefixes t k with
  | None => None
  | Some l => Some (last l ([], 0))
  end.

Fixpoint trie_run (t : trie) (kvs : list (key * nat)) : trie :=
  match kvs with
  | [] => t
  | (k, v) :: r => trie_run (trie_insert t k v) r
  end.

(* ---- specification vocabulary (used by Props/C41.v) ---- *)
Definition Bytes_key (k : key) : Prop := Forall (fun c => (c < 256)%N) k.
(* the value given by the last insertion of k, if k was inserted *)
Fixpoint last_value (kvs : list (key * nat)) (k : key) : option nat :=
  match kvs with
  | [] => None
  | (k', v) :: r => match last_value r k with
                    | Some x => Some x
                    | None => if key_eqb k' k then Some v else None
                    end
  end.
(* every inserted prefix of q with its value, by increasing length *)
Definition spec_prefixes (kvs : list (key * nat)) (q : key) : list (key * nat) :=
  flat_map (fun n => match last_value kvs (firstn n q) with
                     | Some v => [(firstn n q, v)]
                     | None => []
                     end) (seq 0 (S (length q))).

(* ---- correspondence ---- *)
From PV Require Import Common.Corr.
Definition kv_eqb (x y : key * nat) : bool := key_eqb (fst x) (fst y) && Nat.eqb (snd x) (snd y).
Fixpoint kvs_eqb (x y : list (key * nat)) : bool :=
  match x, y with
  | [], [] => true
  | a :: r, b :: s => kv_eqb a b && kvs_eqb r s
  | _, _ => false
  end.

Fixpoint number_keys (i : nat) (ks : list key) : list (key * nat) :=
  match ks with [] => [] | k :: r => (k, i) :: number_keys (S i) r end.

(* keys (value of key i is i+1), then per query: the query, what Get returned, what Prefixes yielded *)
Inductive trie_case :=
| CTrie (keys : list key) (queries : list (key * (key * nat) * list (key * nat))).

Definition trie_chk (c : trie_case) : bool :=
  match c with
  | CTrie keys qs =>
    let t := trie_run trie_empty (number_keys 1 keys) in
    forallb (fun q => let '(k, g, ps) := q in
                      match trie_prefixes t k, trie_get t k with
                      | Some l, Some g' => kvs_eqb l ps && kv_eqb g' g
                      | _, _ => false
                      end) qs
  end.
