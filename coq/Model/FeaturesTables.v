(* GENERATED on every run of bin/check C04 by checks/C04.py pregen (checks/featgen.py) from the
   google.golang.org/protobuf module version named in the repository's go.mod (v1.36.11):
   types/descriptorpb/descriptor.pb.go (embedded descriptor.proto: the edition_defaults options the linker reads) and
   internal/editiondefaults/editions_defaults.binpb (the table the runtime reads). Do not edit. *)
From Coq Require Import NArith List.
Import ListNotations.
Open Scope N_scope.

Definition ED_PROTO2 : N := 998.
Definition ED_PROTO3 : N := 999.
Definition ED_2023 : N := 1000.
(* the numbers of descriptorpb.Edition_name: GetEditionDefaults computes defaults for these only *)
Definition known_editions : list N := [0; 1; 2; 900; 998; 999; 1000; 1001; 9999; 99997; 99998; 99999; 2147483647].

Definition FP_EXPLICIT : N := 1.
Definition FP_IMPLICIT : N := 2.
Definition FP_LEGACY_REQUIRED : N := 3.
Definition ET_OPEN : N := 1.
Definition ET_CLOSED : N := 2.
Definition RFE_PACKED : N := 1.
Definition RFE_EXPANDED : N := 2.
Definition UTF8_VERIFY : N := 2.
Definition UTF8_NONE : N := 3.
Definition ME_LENGTH_PREFIXED : N := 1.
Definition ME_DELIMITED : N := 2.
Definition JF_ALLOW : N := 1.
Definition JF_LEGACY_BEST_EFFORT : N := 2.

(* per feature, the edition_defaults option of the FeatureSet field: (edition, value) in declaration order *)
Definition code_defaults_field_presence : list (N * N) := [(900, 1); (999, 2); (1000, 1)].
Definition code_defaults_enum_type : list (N * N) := [(900, 2); (999, 1)].
Definition code_defaults_repeated_field_encoding : list (N * N) := [(900, 2); (999, 1)].
Definition code_defaults_utf8_validation : list (N * N) := [(900, 3); (999, 2)].
Definition code_defaults_message_encoding : list (N * N) := [(900, 1)].
Definition code_defaults_json_format : list (N * N) := [(900, 2); (999, 1)].

(* the runtime's FeatureSetDefaults: (edition, six values in the order field_presence, enum_type,
   repeated_field_encoding, utf8_validation, message_encoding, json_format; fixed merged with overridable) *)
Definition rt_defaults_src : list (N * list (option N)) :=
 [
  (900, [Some 1; Some 2; Some 2; Some 3; Some 1; Some 2]);
  (999, [Some 2; Some 1; Some 1; Some 2; Some 1; Some 1]);
  (1000, [Some 1; Some 1; Some 1; Some 2; Some 1; Some 1]);
  (1001, [Some 1; Some 1; Some 1; Some 2; Some 1; Some 1])
 ].
Definition rt_minimum_edition : N := 998.
Definition rt_maximum_edition : N := 1001.
