(* Model of the position machinery of the stable AST (property C13):
     - the line table that parser/lexer.go records through maybeNewLine -> FileInfo.AddLine while it
       scans the file: a rune-level state machine that follows the control flow of protoLex.Lex and its
       helpers exactly as far as it decides which runes are consumed where (whitespace, identifiers,
       numbers, string literals with their escapes, line and block comments, single-rune tokens);
     - ast/file_info.go: FileInfo.SourcePos (search in the table + column loop with tab stops of 8 and
       utf8.RuneStart), NodeInfo.Start / NodeInfo.End / Comment.End.
   The model follows the Go code as it is at the pinned commit: newlines consumed inside a string literal
   are NOT recorded.  [fx = true] models the proposed repair (maybeNewLine on every rune read inside
   readStringLiteral that is not unread).  Definitions only; proofs are in Proofs/FileInfo.v. *)
From Coq Require Import List NArith Bool Arith.
From PV Require Import Model.Utf8 Model.Lines.
Import ListNotations.
Open Scope N_scope.

(* ---- character classes used by the lexer ---- *)
Definition is_space (c : N) : bool :=                      (* strings.ContainsRune of LF CR TAB FF VT SPACE *)
  (c =? 10) || (c =? 13) || (c =? 9) || (c =? 12) || (c =? 11) || (c =? 32).
Definition is_digit (c : N) : bool := (48 <=? c) && (c <=? 57).
Definition is_letter (c : N) : bool := ((97 <=? c) && (c <=? 122)) || ((65 <=? c) && (c <=? 90)).
Definition is_ident_start (c : N) : bool := (c =? 95) || is_letter c.
Definition is_ident_char (c : N) : bool := (c =? 95) || is_letter c || is_digit c.
Definition is_octal_digit (c : N) : bool := (48 <=? c) && (c <=? 55).
Definition is_hex_digit (c : N) : bool :=
  is_digit c || ((97 <=? c) && (c <=? 102)) || ((65 <=? c) && (c <=? 70)).
(* readNumber: c == '.' || c == '_' || digit || letter || c == '-' || c == '+' *)
Definition is_number_char (c : N) : bool :=
  (c =? 46) || (c =? 95) || is_digit c || is_letter c || (c =? 45) || (c =? 43).

(* ---- where the lexer is between two calls of readRune ---- *)
Inductive lstate :=
| LTop                            (* top of the loop of Lex *)
| LDot                            (* Lex read '.', is about to look at the next rune *)
| LIdent                          (* readIdentifier *)
| LNumber (allowExpSign : bool)   (* readNumber *)
| LSlash                          (* Lex read '/', is about to look at the next rune *)
| LLineComment                    (* skipToEndOfLineComment *)
| LBlockComment                   (* skipToEndOfBlockComment, top of its loop *)
| LBlockStar                      (* ... after a '*' *)
| LStr (q : N)                    (* readStringLiteral, top of its loop; q = the quote rune *)
| LStrEsc (q : N)                 (* ... after a backslash *)
| LStrHex1 (q : N)                (* ... after \x, about to read c1 *)
| LStrHex2 (q : N)                (* ... about to read c2 *)
| LStrOct2 (q : N)                (* ... after backslash + octal digit, about to read c2 *)
| LStrOct3 (q : N)                (* ... about to read c3 *)
| LStrUni (q : N) (k : nat).      (* ... inside \u / \U, k more runes to read *)

Definition in_string (st : lstate) : bool :=
  match st with
  | LStr _ | LStrEsc _ | LStrHex1 _ | LStrHex2 _ | LStrOct2 _ | LStrOct3 _ | LStrUni _ _ => true
  | _ => false
  end.

(* Every function below returns the state after the rune r has been consumed and whether
   maybeNewLine(r) was called on it with r = newline (so that its end offset goes into the table).
   Where the Go code unreads the rune and goes back to an outer loop, the outer function is applied
   to the same rune. *)

(* one iteration of the loop of Lex on the rune c *)
Definition top_step (c : N) : lstate * bool :=
  if is_space c then (LTop, c =? 10)                       (* l.maybeNewLine(c); continue *)
  else if c =? 46 then (LDot, false)
  else if is_ident_start c then (LIdent, false)
  else if is_digit c then (LNumber false, false)
  else if (c =? 39) || (c =? 34) then (LStr c, false)
  else if c =? 47 then (LSlash, false)
  else (LTop, false).                                      (* a single-rune token or an error token *)

(* top of the loop of readStringLiteral; fx = the repaired code *)
Definition str_step (fx : bool) (q c : N) : lstate * bool :=
  if c =? 10 then (LTop, fx)                              (* error: end-of-line before end of string literal *)
  else if c =? q then (LTop, false)
  else if c =? 0 then (LStr q, false)
  else if c =? 92 then (LStrEsc q, false)
  else (LStr q, false).

(* top of the loop of skipToEndOfBlockComment *)
Definition block_step (c : N) : lstate * bool :=
  if c =? 0 then (LTop, false)                             (* invalid control character: error token *)
  else if c =? 42 then (LBlockStar, false)
  else (LBlockComment, c =? 10).                           (* l.maybeNewLine(c) *)

Definition lex_step (fx : bool) (st : lstate) (c : N) : lstate * bool :=
  match st with
  | LTop => top_step c
  | LDot => if is_digit c then (LNumber false, false) else top_step c
  | LIdent => if is_ident_char c then (LIdent, false) else top_step c
  | LNumber allow =>
    if ((c =? 45) || (c =? 43)) && negb allow then top_step c
    else if negb (is_number_char c) then top_step c
    else (LNumber ((c =? 101) || (c =? 69)), false)
  | LSlash =>
    if c =? 47 then (LLineComment, false)
    else if c =? 42 then (LBlockComment, false)
    else top_step c
  | LLineComment =>
    if c =? 10 then top_step c                             (* unread; Lex sees it as whitespace *)
    else if c =? 0 then (LTop, false)
    else (LLineComment, false)
  | LBlockComment => block_step c
  | LBlockStar => if c =? 47 then (LTop, false) else block_step c
  | LStr q => str_step fx q c
  | LStrEsc q =>
    if (c =? 120) || (c =? 88) then (LStrHex1 q, false)
    else if is_octal_digit c then (LStrOct2 q, false)
    else if c =? 117 then (LStrUni q 4, false)
    else if c =? 85 then (LStrUni q 8, false)
    else (LStr q, fx && (c =? 10))                        (* a simple escape or an invalid one *)
  | LStrHex1 q =>
    if (c =? q) || (c =? 92) then str_step fx q c
    else (LStrHex2 q, fx && (c =? 10))
  | LStrHex2 q => if is_hex_digit c then (LStr q, false) else str_step fx q c
  | LStrOct2 q => if is_octal_digit c then (LStrOct3 q, false) else str_step fx q c
  | LStrOct3 q => if is_octal_digit c then (LStr q, false) else str_step fx q c
  | LStrUni q k =>
    if (c =? q) || (c =? 92) then str_step fx q c
    else (match k with
          | S (S k') => LStrUni q (S k')
          | _ => LStr q
          end, fx && (c =? 10))
  end.

(* the offsets handed to AddLine while the runes rs = (byte index, rune) are consumed from state st:
   a newline at index i ends at offset i + 1 *)
Fixpoint scan (fx : bool) (st : lstate) (rs : list (nat * N)) : list nat :=
  match rs with
  | [] => []
  | (i, c) :: rest =>
    let '(st', rec) := lex_step fx st c in
    if rec then S i :: scan fx st' rest else scan fx st' rest
  end.

(* the newlines that were consumed inside a string literal and not recorded (pinned code) *)
Fixpoint strlit_newlines (st : lstate) (rs : list (nat * N)) : list nat :=
  match rs with
  | [] => []
  | (i, c) :: rest =>
    let st' := fst (lex_step false st c) in
    if in_string st && (c =? 10) then S i :: strlit_newlines st' rest else strlit_newlines st' rest
  end.

(* FileInfo.lines after the whole file has been lexed: NewFileInfo starts it with [0] *)
Definition lex_lines (data : list N) : list nat := 0%nat :: scan false LTop (range data).
Definition lex_lines_fixed (data : list N) : list nat := 0%nat :: scan true LTop (range data).
Definition missed_newlines (data : list N) : list nat := strlit_newlines LTop (range data).

(* ---- FileInfo.SourcePos ---- *)
(* sort.Search(len(lines), func(n) { return lines[n] > offset }): the smallest index whose entry is
   greater than offset, len if there is none (library contract for a sorted table) *)
Fixpoint search_gt (l : list nat) (offset i : nat) : nat :=
  match l with
  | [] => i
  | y :: r => if Nat.ltb offset y then i else search_gt r offset (S i)
  end.

(* the column loop over data[lines[lineNumber-1] : offset] *)
Fixpoint col_loop (bs : list N) (col : nat) : nat :=
  match bs with
  | [] => col
  | b :: r =>
    col_loop r (if b =? 9 then (col + (8 - col mod 8))%nat  (* nextTabStop := 8 - (col % 8) *)
                else if rune_start b then (col + 1)%nat
                else col)
  end.

(* Some (Line, Col); None = the Go code panics (index out of range) *)
Definition source_pos (lines : list nat) (data : list N) (offset : nat) : option (nat * nat) :=
  match search_gt lines offset 0 with
  | O => None                                               (* f.lines[-1] *)
  | S l0 =>
    match nth_error lines l0 with
    | None => None
    | Some start =>
      if Nat.ltb (length data) offset then None             (* f.data[i] beyond the end *)
      else Some (S l0, (col_loop (slice data start offset) 0 + 1)%nat)
    end
  end.

(* NodeInfo.Start / NodeInfo.End / Comment.End of an item = (offset, length) *)
Definition item_start (lines : list nat) (data : list N) (it : nat * nat) : option (nat * nat) :=
  source_pos lines data (fst it).

Definition node_end (lines : list nat) (data : list N) (it : nat * nat) : option (nat * nat) :=
  let '(o, len) := it in
  let offset := if Nat.ltb 0 len then (o + (len - 1))%nat else o in
  match source_pos lines data offset with
  | None => None
  | Some (l, c) => Some (l, if Nat.ltb 0 len then S c else c)  (* pos.Col++ *)
  end.

Definition comment_end (lines : list nat) (data : list N) (it : nat * nat) : option (nat * nat) :=
  let '(o, len) := it in source_pos lines data (o + len - 1)%nat.

(* positions are compared line first, then column *)
Definition pos_le (a b : nat * nat) : Prop :=
  (fst a < fst b)%nat \/ (fst a = fst b /\ (snd a <= snd b)%nat).

(* ---- the column as the property states it: one per character since the line start, a tab advances to
   the next multiple of eight (0-based); characters = decoded runes ---- *)
Definition col_chars (rs : list (nat * N)) : nat :=
  fold_left (fun col p => if snd p =? 9 then (col + (8 - col mod 8))%nat else (col + 1)%nat) rs 0%nat.

(* ---- correspondence: what the harness observed on the implementation, checked against the model ---- *)
Inductive fi_case :=
(* the table the lexer recorded; lexed = an offset the lexer certainly reached (the parser may stop early) *)
| FILines (data : list N) (lines : list nat) (lexed : nat)
(* SourcePos(off) for off = 0, 1, ... on the FileInfo with this table; None = panic *)
| FIPos (data : list N) (lines : list nat) (obs : list (option (nat * nat)))
(* per lexed item: offset, length, is-comment, ItemInfo.Start, ItemInfo.End *)
| FISpans (data : list N) (lines : list nat) (spans : list (nat * nat * bool * (nat * nat) * (nat * nat)))
(* per AST node: first item, last item (offset, length), NodeInfo.Start, NodeInfo.End *)
| FINodes (data : list N) (lines : list nat) (nodes : list ((nat * nat) * (nat * nat) * (nat * nat) * (nat * nat)))
(* reported error positions: line, column, offset *)
| FIErrs (data : list N) (lines : list nat) (errs : list (nat * nat * nat)).

Definition opt_pos_eqb (a b : option (nat * nat)) : bool :=
  match a, b with
  | Some (l, c), Some (l', c') => Nat.eqb l l' && Nat.eqb c c'
  | None, None => true
  | _, _ => false
  end.

Fixpoint is_prefix (a b : list nat) : bool :=
  match a, b with
  | [], _ => true
  | x :: a', y :: b' => Nat.eqb x y && is_prefix a' b'
  | _, _ => false
  end.

Definition fi_chk_gen (fx : bool) (c : fi_case) : bool :=
  match c with
  | FILines data lines lexed =>
    let m := if fx then lex_lines_fixed data else lex_lines data in
    is_prefix lines m && forallb (fun x => Nat.ltb lexed x || existsb (Nat.eqb x) lines) m
  | FIPos data lines obs =>
    forallb (fun p => opt_pos_eqb (source_pos lines data (fst p)) (snd p)) (combine (seq 0 (length obs)) obs)
  | FISpans data lines spans =>
    forallb (fun s => let '(o, len, isc, st, en) := s in
                      opt_pos_eqb (item_start lines data (o, len)) (Some st) &&
                      opt_pos_eqb ((if isc : bool then comment_end else node_end) lines data (o, len)) (Some en)) spans
  | FINodes data lines nodes =>
    forallb (fun n => let '(i1, i2, st, en) := n in
                      opt_pos_eqb (item_start lines data i1) (Some st) &&
                      opt_pos_eqb (node_end lines data i2) (Some en)) nodes
  | FIErrs data lines errs =>
    forallb (fun e => let '(l, c, off) := e in opt_pos_eqb (source_pos lines data off) (Some (l, c))) errs
  end.
Definition fi_chk : fi_case -> bool := fi_chk_gen false.
Definition fi_chk_fixed : fi_case -> bool := fi_chk_gen true.
