(* Model of linker/resolve.go resolveInFile (with publicImportsOnly and the checked path list) and
   of the three resolvers of linker/files.go fileResolver that the property names:
   FindDescriptorByName, FindExtensionByNumber, FindFileByPath.  Definitions only.

   Files are identified by their path (a number); element names and extension names are numbers
   too (the plugin interns the strings): visibility does not depend on what a name looks like. *)
From Coq Require Import List NArith ZArith Bool Arith.
Import ListNotations.

Record vfile := mkV {
  vf_path : N;
  vf_imports : list (N * bool);          (* f.Imports(): path, IsPublic, in declaration order *)
  vf_names : list N;                     (* keys of the descriptor map of the file *)
  vf_exts : list (N * Z * N);            (* extendee, tag, extension name; order of findExtension *)
  vf_weak : list N                       (* paths of the imports whose IsWeak is set (import weak, or weak_dependency of a
                                            descriptor proto, where a public import can be weak too); the walk never reads it *)
}.

Definition graph := list vfile.

(* Files.FindFileByPath: first file with that path *)
Fixpoint find_file (G : graph) (p : N) : option vfile :=
  match G with
  | [] => None
  | f :: r => if N.eqb (vf_path f) p then Some f else find_file r p
  end.

Fixpoint memN (x : N) (l : list N) : bool :=
  match l with [] => false | y :: r => N.eqb x y || memN x r end.

(* VFound: path of the file that answered, and the element it answered with.
   VPanic: FindImportByPath returned nil and the nil File was dereferenced.
   VOutOfFuel: never returned when fuel > number of files (Proofs/Visibility.v). *)
Inductive vres := VFound (file : N) (elem : N) | VNotFound | VPanic | VOutOfFuel.

Section ResolveInFile.
  Variable G : graph.
  Variable fn : vfile -> option N.       (* Some e = found (nil error), None = protoregistry.NotFound *)

  Fixpoint visit (fuel : nat) (publicImportsOnly : bool) (checked : list N) (f : vfile) : vres :=
    match fuel with
    | O => VOutOfFuel
    | S fuel' =>
      if memN (vf_path f) checked then VNotFound                      (* already checked *)
      else
        let checked' := checked ++ [vf_path f] in
        match fn f with
        | Some e => VFound (vf_path f) e                              (* found it *)
        | None =>
          (fix imports_loop (imps : list (N * bool)) : vres :=
             match imps with
             | [] => VNotFound
             | (p, isPublic) :: r =>
               if publicImportsOnly && negb isPublic then imports_loop r
               else match find_file G p with
                    | None => VPanic
                    | Some g =>
                      match visit fuel' true checked' g with
                      | VNotFound => imports_loop r
                      | other => other
                      end
                    end
             end) (vf_imports f)
        end
    end.
End ResolveInFile.

(* the resolvers *)
Inductive query := QName (n : N) | QExt (extendee : N) (tag : Z) | QPath (p : N).

Fixpoint find_ext (l : list (N * Z * N)) (m : N) (t : Z) : option N :=
  match l with
  | [] => None
  | (m', t', x) :: r => if N.eqb m m' && Z.eqb t t' then Some x else find_ext r m t
  end.

Definition query_fn (q : query) (f : vfile) : option N :=
  match q with
  | QName n => if memN n (vf_names f) then Some n else None
  | QExt m t => find_ext (vf_exts f) m t
  | QPath p => if N.eqb (vf_path f) p then Some p else None
  end.

(* fileResolver{f}.Find*: resolveInFile(f, false, nil, fn) *)
Definition resolver_find (G : graph) (f : vfile) (q : query) : vres :=
  visit G (query_fn q) (S (length G)) false [] f.

(* ---- specification: the visible set ----
   visible f = the file itself, its direct imports (plain, public or weak alike), and every file
   reachable from a direct import through public imports only (a public import counts whatever
   vf_weak says about it) *)
Definition direct_import (G : graph) (a d : N) : Prop :=
  exists f pub, find_file G a = Some f /\ In (d, pub) (vf_imports f).
Definition pub_edge (G : graph) (a b : N) : Prop :=
  exists f, find_file G a = Some f /\ In (b, true) (vf_imports f).

(* paths of public imports that avoid the files in S (S = [] gives the public closure) *)
Inductive reach (G : graph) (S : list N) : N -> N -> Prop :=
| reach_refl p : ~ In p S -> reach G S p p
| reach_step p q r : ~ In p S -> pub_edge G p q -> reach G S q r -> reach G S p r.

Definition pub_closure (G : graph) : N -> N -> Prop := reach G [].

Definition visible (G : graph) (a b : N) : Prop :=
  b = a \/ exists d, direct_import G a d /\ pub_closure G d b.

(* what a compile guarantees about the files a resolver can reach: paths are unique and every
   import is present.  Cycles are NOT excluded. *)
Fixpoint nodupN (l : list N) : bool :=
  match l with [] => true | x :: r => negb (memN x r) && nodupN r end.
Definition graph_ok (G : graph) : bool :=
  nodupN (map vf_path G) &&
  forallb (fun f => forallb (fun pi => match find_file G (fst pi) with Some _ => true | None => false end)
                            (vf_imports f)) G.

(* the same graph with every IsWeak flag cleared (used to state that the flag is irrelevant) *)
Definition unweak_file (f : vfile) : vfile :=
  mkV (vf_path f) (vf_imports f) (vf_names f) (vf_exts f) [].
Definition unweak (G : graph) : graph := map unweak_file G.

(* ---- correspondence ---- *)
From PV Require Import Common.Corr.

Inductive obs := ONotFound | OFound (file : N) (elem : N).

Definition obs_chk (r : vres) (o : obs) : bool :=
  match r, o with
  | VNotFound, ONotFound => true
  | VFound p e, OFound p' e' => N.eqb p p' && N.eqb e e'
  | _, _ => false
  end.

Inductive vis_case := VC (G : graph) (root : N) (q : query) (o : obs).

(* one query against the resolver of the file [root] of graph G *)
Definition qchk (G : graph) (root : N) (qo : query * obs) : bool :=
  match find_file G root with
  | Some f => obs_chk (resolver_find G f (fst qo)) (snd qo)
  | None => false
  end.

Definition vis_chk (c : vis_case) : bool :=
  match c with
  | VC G root q o =>
    match find_file G root with
    | Some f => obs_chk (resolver_find G f q) o
    | None => false
    end
  end.
