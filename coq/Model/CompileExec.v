(* Small-step model of the compile executor of compiler.go (Compiler.Compile, executor.compileLocked,
   doCompile, task.asFile, executor.checkForDependencyCycle).  One task per created result; every
   step of a task is one atomic action of the Go code (a semaphore operation, one getBlockedOn /
   results lookup of the cycle check, a wait on a dependency's ready channel, ...).  The scheduler
   is a list of task ids: any interleaving, any parallelism.  Definitions only. *)
From Coq Require Import List Arith Bool.
Import ListNotations.

(* outcome of Resolver.FindFileByPath (+ parse) and of link for a file: the fault plan *)
Inductive rkind := ROk | RErr | RPanic.

Record graph := {
  nfiles : nat;                      (* files are 0 .. nfiles-1 *)
  imports : nat -> list nat;         (* declared dependencies, in declaration order *)
  rres : nat -> rkind;
  lres : nat -> bool                 (* does link (incl. option interpretation etc.) succeed *)
}.

Inductive fail :=
| FResolve | FPanic | FLink
| FCycle (seq : list nat) (d : nat)  (* handleImportCycle(seq, d): d is already in seq *)
| FDep (d : nat).                    (* a dependency's result carried an error *)

(* a frame of checkForDependencyCycle: the sequence so far and the dependencies still to look at *)
Inductive frame := Frame (sq : list nat) (rest : list nat).

Inductive pc :=
| PNone                               (* no result created for this file *)
| PAcquire                            (* e.s.Acquire *)
| PResolve                            (* FindFileByPath + parse; holds a permit from here on *)
| PPublish                            (* t.r.setBlockedOn(imports) *)
| PLoop (i : nat)                     (* for i, dep := range Dependency: self-import test, t.e.compile(dep) *)
| PCall (i : nat)                     (* top-level checkForDependencyCycle(res, [name, dep]) *)
| PDfs (i : nat) (st : list frame)    (* inside the recursive check *)
| PRelease                            (* t.e.s.Release(1) *)
| PWait (i : nat)                     (* <-results[i].ready *)
| PClear                              (* t.r.setBlockedOn(nil) *)
| PReacquire                          (* t.e.s.Acquire *)
| PLink                               (* t.link; then r.complete / r.fail and the deferred release *)
| PDone (r : option fail).            (* ready closed; None = a linker.File was produced *)

Record tstate := {
  tpc : pc;
  checked : list nat;                 (* the per-task `checked` map of asFile *)
  blocked : bool;                     (* r.blockedOn != nil; its value is then imports f *)
  ptime : nat                         (* ghost: value of the global clock when blockedOn was set *)
}.

Record state := {
  tasks : nat -> tstate;
  permits : nat;                      (* free permits of the weighted semaphore *)
  clock : nat                         (* ghost: number of setBlockedOn(imports) so far *)
}.

Definition memb (x : nat) (l : list nat) : bool := existsb (Nat.eqb x) l.

Definition upd (m : nat -> tstate) (k : nat) (v : tstate) : nat -> tstate :=
  fun x => if Nat.eqb x k then v else m x.

Definition set_pc (t : tstate) (p : pc) : tstate :=
  {| tpc := p; checked := checked t; blocked := blocked t; ptime := ptime t |}.
Definition set_pc_checked (t : tstate) (p : pc) (c : list nat) : tstate :=
  {| tpc := p; checked := c; blocked := blocked t; ptime := ptime t |}.

Definition get_blocked (g : graph) (s : state) (x : nat) : list nat :=
  if blocked (tasks s x) then imports g x else [].

Definition created (s : state) (x : nat) : bool :=
  match tpc (tasks s x) with PNone => false | _ => true end.

Definition fresh_task : tstate := {| tpc := PAcquire; checked := []; blocked := false; ptime := 0 |}.
Definition none_task : tstate := {| tpc := PNone; checked := []; blocked := false; ptime := 0 |}.

(* effect of a step on the semaphore *)
Inductive peff := PAcq | PRel | PSame.

(* the local part of a step of the task of file f: its new task state, the result it creates
   (t.e.compile(dep) for a file without result), its semaphore effect, and whether it publishes
   its blockedOn list (which ticks the ghost clock).  None = finished, not created, or waiting on a
   dependency that is not ready. *)
Definition step_local (g : graph) (s : state) (f : nat) : option (tstate * option nat * peff * bool) :=
  let t := tasks s f in
  match tpc t with
  | PNone => None
  | PDone _ => None
  | PAcquire => Some (set_pc t PResolve, None, PAcq, false)
  | PResolve =>
    match rres g f with
    | ROk => Some (set_pc t (match imports g f with [] => PLink | _ => PPublish end), None, PSame, false)
    | RErr => Some (set_pc t (PDone (Some FResolve)), None, PRel, false)
    | RPanic => Some (set_pc t (PDone (Some FPanic)), None, PRel, false)
    end
  | PPublish =>
    Some ({| tpc := PLoop 0; checked := checked t; blocked := true; ptime := clock s |}, None, PSame, true)
  | PLoop i =>
    match nth_error (imports g f) i with
    | None => Some (set_pc t PRelease, None, PSame, false)
    | Some d =>
      if Nat.eqb d f then Some (set_pc t (PDone (Some (FCycle [f] d))), None, PRel, false)
      else (* t.e.compile(dep): create the result (and its goroutine) unless it exists *)
        Some (set_pc t (PCall i), (if created s d then None else Some d), PSame, false)
    end
  | PCall i =>
    match nth_error (imports g f) i with
    | None => None
    | Some d =>
      if memb d (checked t) then Some (set_pc t (PLoop (S i)), None, PSame, false)
      else Some (set_pc_checked t (PDfs i [Frame [f; d] (get_blocked g s d)]) (d :: checked t),
                 None, PSame, false)
    end
  | PDfs i st =>
    match st with
    | [] => Some (set_pc t (PLoop (S i)), None, PSame, false)
    | Frame sq [] :: st' => Some (set_pc t (PDfs i st'), None, PSame, false)
    | Frame sq (d :: rest) :: st' =>
      if memb d sq then Some (set_pc t (PDone (Some (FCycle sq d))), None, PRel, false)
      else if negb (created s d) then Some (set_pc t (PDfs i (Frame sq rest :: st')), None, PSame, false)
      else if memb d (checked t) then Some (set_pc t (PDfs i (Frame sq rest :: st')), None, PSame, false)
      else Some (set_pc_checked t
                   (PDfs i (Frame (sq ++ [d]) (get_blocked g s d) :: Frame sq rest :: st')) (d :: checked t),
                 None, PSame, false)
    end
  | PRelease => Some (set_pc t (PWait 0), None, PRel, false)
  | PWait i =>
    match nth_error (imports g f) i with
    | None => Some (set_pc t PClear, None, PSame, false)
    | Some d =>
      match tpc (tasks s d) with
      | PDone None => Some (set_pc t (PWait (S i)), None, PSame, false)
      | PDone (Some _) => Some (set_pc t (PDone (Some (FDep d))), None, PSame, false)
      | _ => None
      end
    end
  | PClear =>
    Some ({| tpc := PReacquire; checked := checked t; blocked := false; ptime := ptime t |}, None, PSame, false)
  | PReacquire => Some (set_pc t PLink, None, PAcq, false)
  | PLink => Some (set_pc t (PDone (if lres g f then None else Some FLink)), None, PRel, false)
  end.

Definition apply_create (m : nat -> tstate) (cr : option nat) : nat -> tstate :=
  match cr with None => m | Some d => upd m d fresh_task end.

(* one step of the task of file f; None = not enabled *)
Definition step (g : graph) (s : state) (f : nat) : option state :=
  match step_local g s f with
  | None => None
  | Some (t', cr, pe, tick) =>
    let m := upd (apply_create (tasks s) cr) f t' in
    let c := if tick then S (clock s) else clock s in
    match pe with
    | PSame => Some {| tasks := m; permits := permits s; clock := c |}
    | PRel => Some {| tasks := m; permits := S (permits s); clock := c |}
    | PAcq => match permits s with
              | O => None
              | S p => Some {| tasks := m; permits := p; clock := c |}
              end
    end
  end.

(* Compile(files...): results for all requested files are created under the executor lock *)
Definition init (par : nat) (requested : list nat) : state :=
  {| tasks := fun x => if memb x requested then fresh_task else none_task;
     permits := par; clock := 0 |}.

(* a schedule is a list of task ids; a choice that is not enabled stutters *)
Fixpoint run (g : graph) (sched : list nat) (s : state) : state :=
  match sched with
  | [] => s
  | f :: rest => match step g s f with Some s' => run g rest s' | None => run g rest s end
  end.

Definition is_done (p : pc) : bool := match p with PDone _ | PNone => true | _ => false end.
Definition final (g : graph) (s : state) : bool :=
  forallb (fun f => is_done (tpc (tasks s f))) (seq 0 (nfiles g)).

Definition is_ok (p : pc) : bool := match p with PDone None => true | _ => false end.
(* what Compile returns: success iff every requested result carries no error *)
Definition verdict (s : state) (requested : list nat) : bool :=
  forallb (fun f => is_ok (tpc (tasks s f))) requested.
Definition cycle_reported (g : graph) (s : state) : bool :=
  existsb (fun f => match tpc (tasks s f) with PDone (Some (FCycle _ _)) => true | _ => false end)
          (seq 0 (nfiles g)).

(* round-robin driver used by the correspondence: rounds * nfiles scheduler choices *)
Definition round_robin (g : graph) (rounds : nat) : list nat :=
  concat (repeat (seq 0 (nfiles g)) rounds).

(* ---- correspondence: observations of the real compiler on a generated graph ---- *)
Fixpoint rr_run (g : graph) (rounds : nat) (s : state) : state :=
  match rounds with
  | O => s
  | S r => if final g s then s else rr_run g r (run g (seq 0 (nfiles g)) s)
  end.

Record gcase := {
  c_n : nat;
  c_imports : list (list nat);
  c_rres : list nat;             (* 0 = resolves, 1 = resolver error / missing, 2 = resolver panics *)
  c_lres : list bool;
  c_req : list nat;
  c_par : nat;
  c_ok : bool;                   (* observed: Compile returned no error *)
  c_cycle : option bool          (* observed: the error is an import-cycle report; None = not compared *)
}.

Definition graph_of (c : gcase) : graph :=
  {| nfiles := c_n c;
     imports := fun f => nth f (c_imports c) [];
     rres := fun f => match nth f (c_rres c) 0 with 0 => ROk | 1 => RErr | _ => RPanic end;
     lres := fun f => nth f (c_lres c) true |}.

Definition gcase_wf (c : gcase) : bool :=
  Nat.leb (length (c_imports c)) (c_n c) &&
  forallb (fun l => forallb (fun d => Nat.ltb d (c_n c)) l) (c_imports c) &&
  forallb (fun r => Nat.ltb r (c_n c)) (c_req c) && Nat.leb 1 (c_par c).

Definition exec_chk (c : gcase) : bool :=
  let g := graph_of c in
  let n := c_n c in
  let s := rr_run g (n * (4 * n + 10 + (n + 2) * n) + 1) (init (c_par c) (c_req c)) in
  gcase_wf c && final g s && Bool.eqb (verdict s (c_req c)) (c_ok c) &&
  match c_cycle c with None => true | Some b => Bool.eqb (cycle_reported g s) b end.
