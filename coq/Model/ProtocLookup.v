(* Specification: protoc's relative name lookup, transcribed from
   DescriptorBuilder::LookupSymbolNoPlaceholder, DescriptorBuilder::FindSymbol and
   FileDescriptorTables/IsInPackage in src/google/protobuf/descriptor.cc (the algorithm the
   language specification at protobuf.com describes under reference resolution).
   protoc is not available in this sandbox; this file is the oracle.  Definitions only.

   The pool is the same symbol universe as in Model/Resolve.v (the files visible from the file
   being built: the file itself and dependencies_ = direct imports and their public closure).
   Packages are symbols of their own kind, as in protoc. *)
From Coq Require Import List NArith Bool Arith.
Import ListNotations.
From PV Require Import Model.Resolve.

Module Spec.

Inductive skind := SK (k : kind) | SKPackage.

Definition skind_eqb (a b : skind) : bool :=
  match a, b with
  | SK k, SK j => kind_eqb k j
  | SKPackage, SKPackage => true
  | _, _ => false
  end.

(* Symbol::IsAggregate: MESSAGE, PACKAGE, ENUM, SERVICE.  Symbol::IsType: MESSAGE, ENUM. *)
Definition is_aggregate (k : skind) : bool :=
  match k with
  | SKPackage | SK KMessage | SK KEnum | SK KService => true
  | _ => false
  end.
Definition is_type (k : skind) : bool :=
  match k with
  | SK KMessage | SK KEnum => true
  | _ => false
  end.

Inductive mode := LookupAll | LookupTypes.

(* result of LookupSymbolNoPlaceholder: a symbol; or null with undefine_resolved_name_ set
   (SUndefined); or null.  SOutOfFuel is never returned (Proofs/Resolve.v lookup_total). *)
Inductive sres := SNone | SFound (n : name) (k : skind) | SUndefined (n : name) | SOutOfFuel.

(* IsInPackage(file, package_name): file->package() starts with package_name and either ends
   there or continues with a dot *)
Definition is_in_package (f : file) (n : name) : bool :=
  has_prefix (f_pkg f) n &&
  (Nat.eqb (length (f_pkg f)) (length n) ||
   match nth_error (f_pkg f) (length n) with Some c => N.eqb c dot | None => false end).

Fixpoint first_some {A} (fn : file -> option A) (fs : list file) : option A :=
  match fs with
  | [] => None
  | f :: r => match fn f with Some x => Some x | None => first_some fn r end
  end.

(* a package symbol exists for every non-empty prefix of a file's package (AddPackage);
   FindSymbol returns it when the file being built or one of dependencies_ is in that package *)
Definition is_package (U : universe) (n : name) : bool :=
  negb (is_nil n) && existsb (fun f => is_in_package f n) (u_files U).

(* DescriptorBuilder::FindSymbol restricted to what the file may see *)
Definition find_symbol (U : universe) (n : name) : option skind :=
  match first_some (fun f => assoc n (f_syms f)) (u_files U) with
  | Some k => Some (SK k)
  | None => if is_package U n then Some SKPackage else None
  end.

Definition of_find (n : name) (r : option skind) : sres :=
  match r with Some k => SFound n k | None => SNone end.

(* std::string::find_last_of(dot) *)
Fixpoint find_last_dot_from (i : nat) (s : name) (acc : option nat) : option nat :=
  match s with
  | [] => acc
  | c :: r => find_last_dot_from (S i) r (if N.eqb c dot then Some i else acc)
  end.
Definition find_last_dot (s : name) : option nat := find_last_dot_from 0 s None.

(* name.find_first_of(dot): first_part_of_name = name, or name.substr(0, name_dot_pos) *)
Definition first_part (nm : name) : name :=
  match index_dot nm with
  | None => nm
  | Some p => firstn p nm
  end.

(* the while(true) loop; each round erases the last component of scope_to_try *)
Fixpoint lookup_loop (U : universe) (first nm : name) (m : mode) (fuel : nat) (scope_to_try : name)
  : sres :=
  match fuel with
  | O => SOutOfFuel
  | S fuel' =>
    match find_last_dot scope_to_try with
    | None => of_find nm (find_symbol U nm)
    | Some dot_pos =>
      let sc := firstn dot_pos scope_to_try in                 (* scope_to_try.erase(dot_pos) *)
      let cand := sc ++ dot :: first in                        (* append dot, append first part *)
      match find_symbol U cand with
      | Some k =>
        if (length first <? length nm)%nat then
          (* compound name of which only the first part was found *)
          if is_aggregate k then
            let full := cand ++ skipn (length first) nm in
            match find_symbol U full with
            | Some k' => SFound full k'
            | None => SUndefined full
            end
          else lookup_loop U first nm m fuel' sc               (* not an aggregate: continue *)
        else
          match m with
          | LookupTypes => if is_type k then SFound cand k
                           else lookup_loop U first nm m fuel' sc   (* not a type: continue *)
          | LookupAll => SFound cand k
          end
      | None => lookup_loop U first nm m fuel' sc              (* erase(old_size), try again *)
      end
    end
  end.

Definition lookup (U : universe) (relative_to nm : name) (m : mode) : sres :=
  if starts_with_dot nm then of_find (tl nm) (find_symbol U (tl nm))     (* fully-qualified *)
  else lookup_loop U (first_part nm) nm m (S (length relative_to)) relative_to.

(* ---- comparing an answer of the Go code with an answer of protoc ----
   A sentinelDescriptor stands for a package (protoc: a PACKAGE symbol) or for the name
   that undefine_resolved_name_ would hold. *)
Definition to_spec (U : universe) (g : gres) : sres :=
  match g with
  | GNil => SNone
  | GDesc n k => SFound n (SK k)
  | GSentinel n => if is_package U n then SFound n SKPackage else SUndefined n
  end.

(* what the caller makes of the answer.  In LOOKUP_TYPES mode anything that is not a message or
   an enum is the same failure (not a type); everything else is compared exactly: the element
   found, the undefined resolved name, or nothing *)
Inductive outcome := OExact (r : sres) | ONotAType.

Definition not_a_type (r : sres) : bool :=
  match r with
  | SNone => true
  | SFound _ k => negb (is_type k)
  | _ => false
  end.

Definition outcome_of (m : mode) (r : sres) : outcome :=
  match m with
  | LookupTypes => if not_a_type r then ONotAType else OExact r
  | LookupAll => OExact r
  end.

Definition only_types (m : mode) : bool := match m with LookupTypes => true | LookupAll => false end.

Definition sres_eqb (a b : sres) : bool :=
  match a, b with
  | SNone, SNone => true
  | SFound n k, SFound n' k' => name_eqb n n' && skind_eqb k k'
  | SUndefined n, SUndefined n' => name_eqb n n'
  | SOutOfFuel, SOutOfFuel => true
  | _, _ => false
  end.

Definition outcome_eqb (a b : outcome) : bool :=
  match a, b with
  | OExact r, OExact r' => sres_eqb r r'
  | ONotAType, ONotAType => true
  | _, _ => false
  end.

End Spec.

(* ---- well-formed universes: what the symbol table (linker.Symbols / protoc's pool) guarantees
   before references are resolved ---- *)
Definition all_names (U : universe) : list name := flat_map (fun f => map fst (f_syms f)) (u_files U).

Fixpoint mem_name (n : name) (l : list name) : bool :=
  match l with [] => false | m :: r => name_eqb n m || mem_name n r end.

Fixpoint nodup_names (l : list name) : bool :=
  match l with [] => true | n :: r => negb (mem_name n r) && nodup_names r end.

(* split at dots: the components of a dotted name; the empty name has one empty component *)
Fixpoint split_dots_acc (s acc : name) : list name :=
  match s with
  | [] => [rev acc]
  | c :: r => if N.eqb c dot then rev acc :: split_dots_acc r [] else split_dots_acc r (c :: acc)
  end.
Definition split_dots (s : name) : list name := split_dots_acc s [].

Fixpoint join_dots (cs : list name) : name :=
  match cs with
  | [] => []
  | [c] => c
  | c :: r => c ++ dot :: join_dots r
  end.

Fixpoint no_dot (s : name) : bool :=
  match s with [] => true | c :: r => negb (N.eqb c dot) && no_dot r end.
Definition simple (c : name) : bool := negb (is_nil c) && no_dot c.

(* a package is empty or a dotted sequence of non-empty components *)
Definition pkg_ok (p : name) : bool := is_nil p || forallb simple (split_dots p).
Definition pkg_comps (p : name) : list name := if is_nil p then [] else split_dots p.

Definition strip_last (n : name) : option name :=
  match Spec.find_last_dot n with Some i => Some (firstn i n) | None => None end.

(* the parent of an element is its file's package or another element of the same file *)
Definition parent_ok (f : file) (n : name) : bool :=
  match strip_last n with
  | Some p => name_eqb p (f_pkg f) || mem_name p (map fst (f_syms f))
  | None => is_nil (f_pkg f)
  end.

Definition wf_universe (U : universe) : bool :=
  forallb (fun f => pkg_ok (f_pkg f)) (u_files U) &&
  nodup_names (all_names U) &&                                           (* one element per name *)
  forallb (fun n => negb (Spec.is_package U n)) (all_names U) &&         (* no element named like a package *)
  forallb (fun f => forallb (fun nk => parent_ok f (fst nk)) (f_syms f)) (u_files U).

(* the element that holds the reference: enclosing messages exist in the file being linked *)
Definition scope_ok (U : universe) (path : list name) (elem : name) : bool :=
  forallb simple path && simple elem &&
  forallb (fun m => mem_name m (map fst (f_syms (u_self U)))) (msg_fqns (f_pkg (u_self U)) path).

(* relative_to: the full name of the element that holds the reference *)
Definition relative_to (U : universe) (path : list name) (elem : name) : name :=
  qualify (last (msg_fqns (f_pkg (u_self U)) path) (f_pkg (u_self U))) elem.

(* the guard outside of which the Go code is known to differ from protoc for reasons that are not
   about scoping: a reference spelled with two leading dots (impossible in source text) *)
Definition double_dot (nm : name) : bool :=
  match nm with c :: d :: _ => N.eqb c dot && N.eqb d dot | _ => false end.

(* ---- correspondence case for one reference ---- *)
From PV Require Import Common.Corr.

Inductive ref_case :=
  RC (U : universe) (path : list name) (elem : name) (nm : name) (types : bool) (observed : gres).

(* mirror model vs implementation *)
Definition ref_chk_model (c : ref_case) : bool :=
  match c with RC U path elem nm types obs => gres_eqb (go_resolve U path nm types) obs end.

(* implementation vs the protoc specification (the property itself, evaluated on the observation) *)
Definition ref_chk_spec (c : ref_case) : bool :=
  match c with RC U path elem nm types obs =>
    let m := if types then Spec.LookupTypes else Spec.LookupAll in
    Spec.outcome_eqb (Spec.outcome_of m (Spec.to_spec U obs))
                     (Spec.outcome_of m (Spec.lookup U (relative_to U path elem) nm m))
  end.

Definition ref_chk_scope (c : ref_case) : bool :=
  match c with RC U path elem nm types obs => scope_ok U path elem end.
