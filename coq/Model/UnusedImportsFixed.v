(* The marking rule of linker/resolve.go after the repair fixes/C19-exact-unused-imports.diff:
   the import through which a lookup is answered first is marked only when no LATER import of the
   file (public or not) answers the lookup too; the earlier ones did not, so this says: the import
   is the only one through which the lookup can be answered.  Everything else (the traversal, the
   lookups, the programs of references, CheckForUnusedImports) is Model/UnusedImports.v.
   Definitions only. *)
From Coq Require Import List NArith ZArith Bool Arith.
Import ListNotations.
From PV Require Import Model.Visibility Model.Resolve Model.UnusedImports.

Fixpoint top_loop_r (G : graph) (fn : vfile -> option N) (fuel : nat) (self : N)
         (imps : list (N * bool)) : vres * option N :=
  match imps with
  | [] => (VNotFound, None)
  | (p, isPublic) :: r =>
    match find_file G p with
    | None => (VPanic, None)
    | Some g =>
      match visit G fn fuel true [self] g with
      | VNotFound => top_loop_r G fn fuel self r
      | VFound a e =>
        (VFound a e,
         if isPublic then None
         else if existsb (provides G fn fuel self) r then None      (* needed = false *)
         else Some p)                                               (* markUsed(imp.Path()) *)
      | other => (other, None)
      end
    end
  end.

Definition resolve_mark_r (G : graph) (fn : vfile -> option N) (f : vfile) : vres * option N :=
  match fn f with
  | Some e => (VFound (vf_path f) e, None)
  | None => top_loop_r G fn (length G) (vf_path f) (vf_imports f)
  end.

Definition ask_r (W : world) (f : vfile) (m : qmode) (n : name) : vres * option N :=
  match m with
  | QSelf => (match lookup_fn W QSelf n f with Some e => VFound (vf_path f) e | None => VNotFound end, None)
  | _ => resolve_mark_r (w_G W) (lookup_fn W m (qname m n)) f
  end.

Fixpoint run_r (W : world) (f : vfile) (p : prog) : gres * list event :=
  match p with
  | Ret r => (r, [])
  | Ask m n k =>
    let a := ask_r W f m n in
    let rest := run_r W f (k (gres_of W m n (fst a))) in
    (fst rest, mkEv m n (fst a) (snd a) :: snd rest)
  end.

Definition used_r (W : world) (f : vfile) (refs : list prog) : list N :=
  flat_map (fun p => marks_of (snd (run_r W f p))) refs.

Definition warned_list_r (W : world) (f : vfile) (refs : list prog) : list N :=
  map fst (filter (fun pi => negb (memN (fst pi) (used_r W f refs)) && negb (snd pi)) (vf_imports f)).

Definition warned_r (W : world) (f : vfile) (refs : list prog) (i : N) : Prop :=
  In i (warned_list_r W f refs).

(* what a reference resolves to: its result and the element (or sentinel) every lookup it makes is
   answered with *)
Definition outcome_g (W : world) (r : gres * list event) : gres * list (qmode * name * gres) :=
  (fst r, map (fun e => (ev_mode e, ev_name e, gres_of W (ev_mode e) (ev_name e) (ev_res e))) (snd r)).

Definition removable_r (W : world) (f : vfile) (refs : list prog) (i : N) : Prop :=
  forall p, In p refs -> outcome_g W (run_r W (remove_import i f) p) = outcome_g W (run_r W f p).

(* well-formedness the symbol table guarantees for a linked file set: whichever import a lookup is
   answered through, the answer is the same element *)
Definition answer_via (W : world) (f : vfile) (m : qmode) (n : name) (pi : N * bool) : gres :=
  match find_file (w_G W) (fst pi) with
  | Some g => gres_of W m n (visit (w_G W) (lookup_fn W m (qname m n)) (length (w_G W)) true [vf_path f] g)
  | None => GNil
  end.

Fixpoint consistent_along (W : world) (f : vfile) (p : prog) : Prop :=
  match p with
  | Ret _ => True
  | Ask m n k =>
    (forall pi pj, In pi (providers W f m n) -> In pj (providers W f m n) ->
                   answer_via W f m n pi = answer_via W f m n pj) /\
    consistent_along W f (k (gres_of W m n (fst (ask_r W f m n))))
  end.

Definition consistent (W : world) (f : vfile) (refs : list prog) : Prop :=
  forall p, In p refs -> consistent_along W f p.

(* ---- correspondence ---- *)
From PV Require Import Common.Corr.

Definition ui_chk_r (c : ui_case) : bool :=
  match c with
  | UC W root refs obs =>
    graph_ok (w_G W) &&
    match find_file (w_G W) root with
    | Some f => list_N_eqb (warned_list_r W f (map (ref_prog (root_pkg W root)) refs)) obs
    | None => false
    end
  end.

Definition explain_r (W : world) (root : N) (refs : list ref) (i : N) : N :=
  match find_file (w_G W) root with
  | Some f =>
    fold_left N.max
      (flat_map (fun r => map (ev_class W f i) (snd (run_r W f (ref_prog (root_pkg W root) r)))) refs) 0%N
  | None => 0%N
  end.

Definition ex_chk_r (c : ex_case) : bool :=
  match c with XC W root refs i cls => N.eqb (explain_r W root refs i) cls end.
