(* Small-step model of reporter.Handler (reporter/reporter.go) as it is used by compiler.go and the
   stages: one root handler holding the user's reporter, sub-handlers (Handler.SubHandler) with their
   own copy of (err, errsReported), and threads (goroutines) that issue sequences of operations
   HandleError (positional error / plain error), HandleWarning, Error(), ReporterError() on any
   handler.  The root mutex is modelled with explicit lock and unlock steps, so that being inside
   the user's reporter is a program point of a thread.  A schedule is a list of thread ids; a
   choice that is not enabled stutters.  Definitions only.

   What one model step is in the Go code:
     PIdle   -> PLock     the call h.HandleError(err) is made (ghost: the root err at that moment)
     PLock   -> PCheck    root: h.mu.Lock()           (enabled only when the mutex is free)
     PCheck  -> ...       root: if h.err != nil { return h.err }; positional: h.errsReported = true
                          and the reporter is entered; plain: h.err = err
     PInRep  -> PUnlock   the user's reporter.Error returns r; h.err = r
     PUnlock -> PUnwind   deferred h.mu.Unlock(), return to the calling sub-handler
     PUnwind (h :: _)     sub-handler h: lock; if isErrWithPos { errsReported = true }; err = ret; unlock
                          (one atomic step: the critical section of the child mutex holds only
                          these two writes)
     PUnwind []           the outermost HandleError returns to the caller
     PIdle -> PInWarn     HandleWarning reached the root: h.mu.Lock() and reporter.Warning is entered
     PInWarn -> PWUnlock  reporter.Warning returns
     PWUnlock -> PIdle    h.mu.Unlock()
     Error() / ReporterError() : lock; read; unlock of that handler - one atomic step, for the root
                          enabled only when the root mutex is free.
   HandleError(nil) is not modelled (no caller passes nil). *)
From Coq Require Import List Arith Bool.
Import ListNotations.

(* error values, by identity *)
Inductive error :=
| EInvalidSource                 (* reporter.ErrInvalidSource *)
| ERep (n : nat)                 (* a value made up by the user's reporter *)
| EPos (tag : nat)               (* the reported ErrorWithPos itself (what the default reporter returns) *)
| EPlain (tag : nat).            (* an error without position handed to HandleError *)

Definition error_eqb (a b : error) : bool :=
  match a, b with
  | EInvalidSource, EInvalidSource => true
  | ERep x, ERep y => Nat.eqb x y
  | EPos x, EPos y => Nat.eqb x y
  | EPlain x, EPlain y => Nat.eqb x y
  | _, _ => false
  end.
Definition oerror_eqb (a b : option error) : bool :=
  match a, b with
  | None, None => true
  | Some x, Some y => error_eqb x y
  | _, _ => false
  end.

(* the two mutable fields of a Handler *)
Record hstate := { herr : option error; hreported : bool }.
Definition h_init : hstate := {| herr := None; hreported := false |}.

(* Handler.Error(): if h.errsReported && h.err == nil { return ErrInvalidSource }; return h.err *)
Definition error_result (h : hstate) : option error :=
  if hreported h && (match herr h with None => true | Some _ => false end)
  then Some EInvalidSource else herr h.

(* operations a goroutine can issue; handler 0 is the root *)
Inductive op :=
| OErr (h : nat) (pos : bool) (tag : nat)   (* h.HandleError: positional (ErrorWithPos) or plain *)
| OWarn (h : nat) (tag : nat)               (* h.HandleWarning *)
| OError (h : nat)                          (* h.Error() *)
| ORepError (h : nat).                      (* h.ReporterError() *)

Record config := {
  parent : nat -> nat;                      (* handler h > 0 was made by (parent h).SubHandler() *)
  rep : nat -> nat -> option error;         (* user's reporter.Error: call index, tag of the reported error *)
  progs : nat -> list op                    (* the operation sequence of every thread *)
}.

(* the handlers a HandleError on h goes through below the root, h first.  The parent of h is
   clipped below h, so that every handler tree is well founded and fuel h is enough. *)
Fixpoint chain (par : nat -> nat) (fuel h : nat) : list nat :=
  match fuel with
  | O => []
  | S f => match h with
           | O => []
           | S h' => h :: chain par f (Nat.min (par h) h')
           end
  end.
(* on the way back the handler nearest to the root updates its copy first *)
Definition path_of (cfg : config) (h : nat) : list nat := rev (chain (parent cfg) h h).

(* an in-flight HandleError call *)
Record ecall := {
  eh : nat;                      (* the handler it was issued on *)
  epos : bool;                   (* err.(ErrorWithPos) *)
  etag : nat;
  esnap : option error           (* ghost: root err when the call was made *)
}.

Inductive pc :=
| PIdle
| PLock (c : ecall)
| PCheck (c : ecall)
| PInRep (c : ecall) (idx : nat)           (* inside the user's reporter.Error; idx = call index *)
| PUnlock (c : ecall) (ret : option error)
| PUnwind (c : ecall) (path : list nat) (ret : option error)
| PInWarn (tag : nat)                      (* inside the user's reporter.Warning *)
| PWUnlock.

(* what a completed operation returned *)
Inductive entry :=
| LErr (c : ecall) (ret : option error)
| LWarn
| LRead (h : nat) (full : bool) (r : option error).   (* full: Error(), else ReporterError() *)

Record tstate := {
  tpc : pc;
  prog : list op;                (* operations still to do; the head is the one in progress *)
  tlog : list entry              (* completed operations, newest first *)
}.

(* calls the user's reporter has seen, newest first *)
Inductive rcall :=
| CErr (tag : nat) (r : option error)
| CWarn (tag : nat).

Record state := {
  hs : nat -> hstate;
  mu : option nat;               (* owner of the root mutex *)
  ncalls : nat;                  (* reporter.Error calls begun so far *)
  rlog : list rcall;             (* ghost: completed reporter calls *)
  handled : nat;                 (* ghost: HandleError calls that passed the root check *)
  plain_seen : bool;             (* ghost: a plain error was stored into the root *)
  hcount : nat -> nat;           (* ghost: HandleError calls that updated sub-handler h *)
  threads : nat -> tstate
}.

Definition upd {A} (m : nat -> A) (k : nat) (v : A) : nat -> A :=
  fun x => if Nat.eqb x k then v else m x.

Definition set_pc (ts : tstate) (p : pc) : tstate :=
  {| tpc := p; prog := prog ts; tlog := tlog ts |}.
Definition complete (ts : tstate) (e : entry) : tstate :=
  {| tpc := PIdle; prog := tl (prog ts); tlog := e :: tlog ts |}.

Definition with_thread (s : state) (t : nat) (ts : tstate) : state :=
  {| hs := hs s; mu := mu s; ncalls := ncalls s; rlog := rlog s; handled := handled s;
     plain_seen := plain_seen s; hcount := hcount s; threads := upd (threads s) t ts |}.
Definition with_mu (s : state) (m : option nat) : state :=
  {| hs := hs s; mu := m; ncalls := ncalls s; rlog := rlog s; handled := handled s;
     plain_seen := plain_seen s; hcount := hcount s; threads := threads s |}.
Definition with_h (s : state) (h : nat) (v : hstate) : state :=
  {| hs := upd (hs s) h v; mu := mu s; ncalls := ncalls s; rlog := rlog s; handled := handled s;
     plain_seen := plain_seen s; hcount := hcount s; threads := threads s |}.
Definition with_call (s : state) : state :=
  {| hs := hs s; mu := mu s; ncalls := S (ncalls s); rlog := rlog s; handled := handled s;
     plain_seen := plain_seen s; hcount := hcount s; threads := threads s |}.
Definition with_rlog (s : state) (c : rcall) : state :=
  {| hs := hs s; mu := mu s; ncalls := ncalls s; rlog := c :: rlog s; handled := handled s;
     plain_seen := plain_seen s; hcount := hcount s; threads := threads s |}.
Definition with_handled (s : state) : state :=
  {| hs := hs s; mu := mu s; ncalls := ncalls s; rlog := rlog s; handled := S (handled s);
     plain_seen := plain_seen s; hcount := hcount s; threads := threads s |}.
Definition with_plain (s : state) : state :=
  {| hs := hs s; mu := mu s; ncalls := ncalls s; rlog := rlog s; handled := handled s;
     plain_seen := true; hcount := hcount s; threads := threads s |}.
Definition with_hcount (s : state) (h : nat) : state :=
  {| hs := hs s; mu := mu s; ncalls := ncalls s; rlog := rlog s; handled := handled s;
     plain_seen := plain_seen s; hcount := upd (hcount s) h (S (hcount s h)); threads := threads s |}.

Definition mu_free (s : state) : bool := match mu s with None => true | Some _ => false end.

(* one step of thread t; None = not enabled (finished, or waiting for the root mutex) *)
Definition step (cfg : config) (s : state) (t : nat) : option state :=
  let ts := threads s t in
  match tpc ts with
  | PIdle =>
    match prog ts with
    | [] => None
    | OErr h pos tag :: _ =>
      Some (with_thread s t (set_pc ts (PLock {| eh := h; epos := pos; etag := tag; esnap := herr (hs s 0) |})))
    | OWarn h tag :: _ =>
      (* sub-handlers delegate to the parent; the root locks and enters reporter.Warning *)
      if mu_free s then Some (with_thread (with_mu s (Some t)) t (set_pc ts (PInWarn tag))) else None
    | OError h :: _ =>
      if Nat.eqb h 0 && negb (mu_free s) then None
      else Some (with_thread s t (complete ts (LRead h true (error_result (hs s h)))))
    | ORepError h :: _ =>
      if Nat.eqb h 0 && negb (mu_free s) then None
      else Some (with_thread s t (complete ts (LRead h false (herr (hs s h)))))
    end
  | PLock c =>
    if mu_free s then Some (with_thread (with_mu s (Some t)) t (set_pc ts (PCheck c))) else None
  | PCheck c =>
    let s1 := with_handled s in
    match herr (hs s 0) with
    | Some e => Some (with_thread s1 t (set_pc ts (PUnlock c (Some e))))
    | None =>
      if epos c then
        Some (with_thread (with_call (with_h s1 0 {| herr := None; hreported := true |})) t
                          (set_pc ts (PInRep c (ncalls s))))
      else
        Some (with_thread (with_plain (with_h s1 0 {| herr := Some (EPlain (etag c));
                                                      hreported := hreported (hs s 0) |})) t
                          (set_pc ts (PUnlock c (Some (EPlain (etag c))))))
    end
  | PInRep c idx =>
    let r := rep cfg idx (etag c) in
    Some (with_thread (with_rlog (with_h s 0 {| herr := r; hreported := hreported (hs s 0) |})
                                 (CErr (etag c) r)) t
                      (set_pc ts (PUnlock c r)))
  | PUnlock c ret =>
    Some (with_thread (with_mu s None) t (set_pc ts (PUnwind c (path_of cfg (eh c)) ret)))
  | PUnwind c [] ret => Some (with_thread s t (complete ts (LErr c ret)))
  | PUnwind c (h :: rest) ret =>
    Some (with_thread (with_hcount (with_h s h {| herr := ret;
                                                  hreported := hreported (hs s h) || epos c |}) h) t
                      (set_pc ts (PUnwind c rest ret)))
  | PInWarn tag => Some (with_thread (with_rlog s (CWarn tag)) t (set_pc ts PWUnlock))
  | PWUnlock => Some (with_thread (with_mu s None) t (complete ts LWarn))
  end.

Definition init (cfg : config) : state :=
  {| hs := fun _ => h_init; mu := None; ncalls := 0; rlog := []; handled := 0; plain_seen := false;
     hcount := fun _ => 0;
     threads := fun t => {| tpc := PIdle; prog := progs cfg t; tlog := [] |} |}.

Fixpoint run (cfg : config) (sched : list nat) (s : state) : state :=
  match sched with
  | [] => s
  | t :: rest => match step cfg s t with Some s' => run cfg rest s' | None => run cfg rest s end
  end.

(* program points *)
Definition in_reporter (p : pc) : bool :=
  match p with PInRep _ _ | PInWarn _ => true | _ => false end.
Definition in_critical (p : pc) : bool :=
  match p with PCheck _ | PInRep _ _ | PUnlock _ _ | PInWarn _ | PWUnlock => true | _ => false end.
Definition finished (ts : tstate) : bool :=
  match tpc ts, prog ts with PIdle, [] => true | _, _ => false end.

(* is thread t busy with a HandleWarning (the operation a step of t would work on) *)
Definition at_warning (ts : tstate) : bool :=
  match tpc ts with
  | PInWarn _ | PWUnlock => true
  | PIdle => match prog ts with OWarn _ _ :: _ => true | _ => false end
  | _ => false
  end.

(* ---- the same configuration with every HandleWarning removed (statement of warnings_erasable) ---- *)
Definition is_warn_op (o : op) : bool := match o with OWarn _ _ => true | _ => false end.
Definition erase_prog (p : list op) : list op := filter (fun o => negb (is_warn_op o)) p.
Definition erase_cfg (cfg : config) : config :=
  {| parent := parent cfg; rep := rep cfg; progs := fun t => erase_prog (progs cfg t) |}.
Definition is_warn_entry (e : entry) : bool := match e with LWarn => true | _ => false end.
Definition erase_log (l : list entry) : list entry := filter (fun e => negb (is_warn_entry e)) l.
Definition is_warn_call (c : rcall) : bool := match c with CWarn _ => true | _ => false end.
Definition erase_rlog (l : list rcall) : list rcall := filter (fun c => negb (is_warn_call c)) l.


(* ---- drivers used by the correspondence ---- *)

(* run thread t until it has completed one more operation *)
Fixpoint run_op (cfg : config) (fuel t : nat) (s : state) : state :=
  match fuel with
  | O => s
  | S f => match step cfg s t with
           | None => s
           | Some s' => if Nat.ltb (length (tlog (threads s t))) (length (tlog (threads s' t))) then s'
                        else run_op cfg f t s'
           end
  end.
(* sequential execution in a global operation order: each entry is the thread whose next operation runs *)
Fixpoint run_order (cfg : config) (fuel : nat) (order : list nat) (s : state) : state :=
  match order with
  | [] => s
  | t :: rest => run_order cfg fuel rest (run_op cfg fuel t s)
  end.

(* reporter policies of the harness: never abort / abort at the k-th call (k >= 1) / the default
   reporter of NewHandler(nil), which returns the reported error itself *)
Definition policy (abort : nat) (deflt : bool) : nat -> nat -> option error :=
  fun idx tag => if deflt then Some (EPos tag)
                 else if Nat.eqb (S idx) abort then Some (ERep abort) else None.

(* what the harness records for a completed operation: None for a warning, else the returned error *)
Definition entry_obs (e : entry) : option (option error) :=
  match e with LErr _ r => Some r | LWarn => None | LRead _ _ r => Some r end.

Definition oo_eqb (a b : option (option error)) : bool :=
  match a, b with
  | None, None => true
  | Some x, Some y => oerror_eqb x y
  | _, _ => false
  end.
Definition rcall_eqb (a b : rcall) : bool :=
  match a, b with
  | CErr t r, CErr t' r' => Nat.eqb t t' && oerror_eqb r r'
  | CWarn t, CWarn t' => Nat.eqb t t'
  | _, _ => false
  end.
Fixpoint list_eqb {A} (eqb : A -> A -> bool) (a b : list A) : bool :=
  match a, b with
  | [], [] => true
  | x :: a', y :: b' => eqb x y && list_eqb eqb a' b'
  | _, _ => false
  end.

Inductive rep_case :=
| COps (parents : list nat)                (* handler i+1 is a sub-handler of parents[i] *)
       (abort : nat) (deflt : bool)        (* reporter policy *)
       (progs : list (list op))
       (sq : bool)                         (* true: sched is a global operation order run by one goroutine;
                                              false: sched is a step-level schedule (a witness found by the
                                              plugin for a concurrent run) *)
       (sched : list nat)
       (res : list (list (option (option error))))   (* observed results per thread, oldest first *)
       (calls : option (list rcall))       (* observed reporter calls, oldest first (None: not observable) *)
       (hfinal : list (option error * option error))  (* per handler: Error(), ReporterError() afterwards *)
| CE2E (abort : nat)                       (* Compiler.Compile with a reporter aborting at call `abort` (0: never) *)
       (deflt : bool)                      (* or one that returns the reported error itself, like the default reporter *)
       (errcalls warncalls : nat)          (* reporter calls seen *)
       (final : nat).                      (* Compile error: 0 nil, 1 the abort error, 2 ErrInvalidSource, 3 another error *)

Definition cfg_of (parents : list nat) (abort : nat) (deflt : bool) (ps : list (list op)) : config :=
  {| parent := fun h => nth (pred h) parents 0; rep := policy abort deflt; progs := fun t => nth t ps [] |}.

Definition ops_chk parents abort deflt ps (sq : bool) sched res calls hfinal : bool :=
  let cfg := cfg_of parents abort deflt ps in
  let nh := S (length parents) in
  let s := if sq then run_order cfg (nh + 8) sched (init cfg) else run cfg sched (init cfg) in
  forallb (fun t => finished (threads s t)) (seq 0 (length ps)) &&
  mu_free s &&
  list_eqb (list_eqb oo_eqb) (map (fun t => rev (map entry_obs (tlog (threads s t)))) (seq 0 (length ps))) res &&
  match calls with None => true | Some cl => list_eqb rcall_eqb (rev (rlog s)) cl end &&
  list_eqb (fun a b => oerror_eqb (fst a) (fst b) && oerror_eqb (snd a) (snd b))
           (map (fun h => (error_result (hs s h), herr (hs s h))) (seq 0 nh)) hfinal.

(* end to end.  Compiler.Compile creates the root handler, gives every file's task its own sub-handler and,
   when all requested files are done, returns the root handler's Error() when that is not nil and otherwise
   the first error among the requested files' tasks (a failure that was never given to the reporter: a file
   the resolver could not produce, a resolver panic). *)
Fixpoint first_some {A : Type} (l : list (option A)) : option A :=
  match l with
  | [] => None
  | Some a :: _ => Some a
  | None :: r => first_some r
  end.

Definition compile_final (s : state) (task_errs : list (option error)) : option error :=
  match error_result (hs s 0) with
  | Some e => Some e
  | None => first_some task_errs
  end.

(* The stages are not modelled: the observed numbers of calls are replayed on the handler model and the
   model must reproduce the number of calls that got through and the identity of the final error (class 3,
   another error, is possible only as a task error). deflt: the reporter returns the reported error itself *)
Definition e2e_chk (abort : nat) (deflt : bool) (errcalls warncalls final : nat) : bool :=
  let p := repeat (OWarn 1 0) warncalls ++ repeat (OErr 1 true 0) errcalls in
  let cfg := cfg_of [0] abort deflt [p] in
  let s := run_order cfg 10 (repeat 0 (length p)) (init cfg) in
  let te := if Nat.eqb final 3 then Some (EPlain 0) else None in
  finished (threads s 0) && Nat.eqb (ncalls s) errcalls &&
  match compile_final s [None; te] with
  | None => Nat.eqb final 0
  | Some EInvalidSource => Nat.eqb final 2
  | Some (ERep _) => negb deflt && Nat.eqb final 1
  | Some (EPos _) => deflt && Nat.eqb final 1
  | Some (EPlain _) => Nat.eqb final 3
  end.

Definition rep_chk (c : rep_case) : bool :=
  match c with
  | COps parents abort deflt ps sq sched res calls hfinal => ops_chk parents abort deflt ps sq sched res calls hfinal
  | CE2E abort d e w f => e2e_chk abort d e w f
  end.
