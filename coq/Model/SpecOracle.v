(* The executable form of the protoc specification: the verdict protoc gives on a MiniProto file
   set, and the descriptors it emits.  Used by the direct oracle of C01 / C02 (evaluated inside
   coqc on generated programs, on the repository's golden descriptors and on the protoc-confirmed
   case tables of the repository's tests).

   Stage 1 (what the parser and the per-element checks of descriptor.cc demand) is written from
   the rules, with the naive quadratic decisions of Model/ValiditySpec.v and a direct recursion
   over the source tree; nothing of the sort-and-scan machinery of the Go code is used.
   Name lookup is protoc's LookupSymbol (Model/ProtocLookup.v).  The remaining link-time rules
   (symbol uniqueness, kinds of referenced elements, extension numbers, pseudo-options, enum
   rules) are the functions of Model/Validate.v, which transcribe the same rules; for those
   families the oracle cannot be more than the mirror.

   The points where the repository documents that protoc differs from the Go code are the
   Divergences at the bottom; the oracle follows protoc there. *)
From Coq Require Import List NArith ZArith Bool Arith.
From PV Require Import Model.MiniProto Model.Lower Model.ValiditySpec Model.ProtocDescriptor Model.Validate.
From PV Require Model.Resolve.
Import ListNotations.
Open Scope Z_scope.

Definition protoc_cfg : cfg := mkCfg true true true true.

(* ------------------------------------------------------------------------------------------ *)
(* stage 1 on the source tree: numbers, ranges, names as written *)

Definition ranges_ok_b (lo hi : Z) (rs : list srange) : bool := forallb (srange_ok_b lo hi) rs.

Fixpoint nodup_names_b (l : list name) : bool :=
  match l with [] => true | x :: r => negb (mem_name x r) && nodup_names_b r end.

Definition reserved_names_ok_b (syn : syntax) (strs idents : list name) : bool :=
  match syn with
  | Editions => match strs with [] => true | _ => false end
  | _ => match idents with [] => true | _ => false end
  end.

Definition enum_elem_ok_b (syn : syntax) (e : eelem) : bool :=
  match e with
  | EValue _ num => (int32_min <=? num) && (num <=? int32_max)
  | EAllowAlias _ => true
  | EReserved rs => ranges_ok_b int32_min int32_max rs
  | EReservedNames strs idents => reserved_names_ok_b syn strs idents
  end.

Definition enum_reserved_names (e : edecl) : list name :=
  match e with EDecl _ els =>
    flat_map (fun x => match x with EReservedNames strs idents => strs ++ idents | _ => [] end) els end.

Definition enum_src_ok_b (syn : syntax) (e : edecl) : bool :=
  match e with EDecl _ els => forallb (enum_elem_ok_b syn) els end && nodup_names_b (enum_reserved_names e).

Definition msgset_of (body : list melem) : option bool :=     (* None = malformed *)
  match msgset_opts body with
  | [] => Some false
  | [VIdent n] => if name_eqb n true_name then Some true else if name_eqb n false_name then Some false else None
  | _ => None
  end.

Definition is_field_elem (e : melem) : bool :=
  match e with MField _ | MMap _ _ _ _ _ | MGroup _ _ _ _ | MOneof _ _ => true | _ => false end.

Definition body_reserved_names (body : list melem) : list name :=
  flat_map (fun x => match x with MReservedNames strs idents => strs ++ idents | _ => [] end) body.

Definition group_name_ok (nm : name) : bool := match nm with c :: _ => is_upper c | [] => false end.

(* every element of a message body, with the maximal field number of the enclosing message and
   the nesting depth of the enclosing message *)
Fixpoint elem_src_ok_b (syn : syntax) (maxTag : Z) (depth : nat) (e : melem) {struct e} : bool :=
  let body_ok := fun (body : list melem) (d : nat) =>
    Nat.ltb d 32 &&
    match msgset_of body with
    | None => false
    | Some isset =>
      let mt := if isset then msgset_max else field_max in
      negb (isset && syntax_eqb syn Proto3)
      && negb (isset && existsb is_field_elem body)
      && forallb (elem_src_ok_b syn mt d) body
      && nodup_names_b (body_reserved_names body)
    end in
  let member_ok := fun (mt : Z) (x : melem) =>
    match x with
    | MField (FDecl _ _ _ num _) => tag_ok_b mt num
    | MGroup _ nm num body => tag_ok_b mt num && group_name_ok nm && body_ok body (S depth)
    | _ => true
    end in
  match e with
  | MField (FDecl _ _ _ num _) => tag_ok_b maxTag num
  | MMap _ _ _ num _ => tag_ok_b maxTag num && Nat.ltb (S depth) 32
  | MGroup _ nm num body => tag_ok_b maxTag num && group_name_ok nm && body_ok body (S depth)
  | MOneof _ els => negb (match els with [] => true | _ => false end) && forallb (member_ok maxTag) els
  | MMessage _ body => body_ok body (S depth)
  | MEnum ed => enum_src_ok_b syn ed
  | MExtend _ els => negb (match els with [] => true | _ => false end) && forallb (member_ok msgset_max) els
  | MExtensions rs => ranges_ok_b 1 maxTag rs
  | MExtensionsOpt rs _ => ranges_ok_b 1 maxTag rs
  | MReserved rs => ranges_ok_b 1 maxTag rs
  | MReservedNames strs idents => reserved_names_ok_b syn strs idents
  | MMsgSet _ => true
  end.

Definition file_src_ok_b (f : sfile) : bool :=
  forallb (fun d => match d with TElem e => elem_src_ok_b (sf_syntax f) field_max 0 e | TService _ _ => true end)
          (sf_decls f).

(* ------------------------------------------------------------------------------------------ *)
(* stage 1 on the descriptor: the declarative rules of Model/ValiditySpec.v *)

Definition alias_of_b (l : list oval) : alias_opt :=
  match l with
  | [] => AliasAbsent
  | [VIdent n] => if name_eqb n true_name then AliasTrue else if name_eqb n false_name then AliasFalse else AliasBad
  | _ => AliasBad
  end.

Definition enum_desc_ok_b (syn : syntax) (e : denum) : bool :=
  let al := alias_of_b (de_alias e) in
  let nums := map snd (de_values e) in
  negb (match de_values e with [] => true | _ => false end)
  && match al with
     | AliasBad | AliasFalse => false                        (* protoc rejects an explicit false *)
     | AliasTrue => negb (nodup_Z_b nums)
     | AliasAbsent => nodup_Z_b nums
     end
  && (negb (syntax_eqb syn Proto3) || match de_values e with (_, n) :: _ => n =? 0 | [] => true end)
  && enum_numbers_ok_b (de_rsv e) nums
  && no_reserved_name_used_b (de_rsvn e) (map fst (de_values e)).

Definition has_default (fd : dfield) : bool := match find_fopts ODefault (df_opts fd) with [] => false | _ => true end.

Definition field_desc_ok_b (syn : syntax) (fd : dfield) : bool :=
  field_rules_ok_b syn (is_some (df_label fd)) (is_label (df_label fd) DRequired) (is_label (df_label fd) DOptional)
                   (is_some (df_oneof fd)) (ext_nonempty fd) (is_group (df_type fd)) (has_default fd)
  && match find_fopts ODefault (df_opts fd) with _ :: _ :: _ => false | _ => true end.

Fixpoint msg_desc_ok_b (syn : syntax) (m : dmsg) : bool :=
  match m with
  | DMsg _ fields nested enums exts _ extr rsvr rsvn _ _ =>
    (negb (syntax_eqb syn Proto3) || match extr with [] => true | _ => false end)
    && msg_numbers_ok_b rsvr extr (map df_number fields)
    && no_reserved_name_used_b rsvn (map df_name fields)
    && forallb (field_desc_ok_b syn) fields
    && forallb (msg_desc_ok_b syn) nested
    && forallb (enum_desc_ok_b syn) enums
    && forallb (field_desc_ok_b syn) exts
  end.

Definition file_desc_ok_b (d : dfile) : bool :=
  nodup_names_b (dfl_deps d)
  && forallb (msg_desc_ok_b (dfl_syntax d)) (dfl_msgs d)
  && forallb (enum_desc_ok_b (dfl_syntax d)) (dfl_enums d)
  && forallb (field_desc_ok_b (dfl_syntax d)) (dfl_exts d).

(* ------------------------------------------------------------------------------------------ *)
(* protoc's synthetic oneofs: names chosen against fields and oneofs only *)

Definition clear_synth (fd : dfield) : dfield :=
  if df_p3opt fd
  then mkDField (df_name fd) (df_number fd) (df_label fd) (df_type fd) (df_type_name fd) (df_extendee fd)
                (df_json fd) None true (df_default fd) (df_opts fd) (df_src fd)
  else fd.

Fixpoint protoc_synth (m : dmsg) : dmsg :=
  match m with
  | DMsg nm fields nested enums exts oneofs extr rsvr rsvn me ms =>
    let nsynth := length (filter df_p3opt fields) in
    let declared := firstn (length oneofs - nsynth) oneofs in
    let fields0 := map clear_synth fields in
    let '(fields1, oneofs1) :=
      match process_p3opt (protoc_all_names fields0 declared) fields0 declared with
      | Some r => r
      | None => (fields, oneofs)
      end in
    DMsg nm fields1 (map protoc_synth nested) enums exts oneofs1 extr rsvr rsvn me ms
  end.

Definition protoc_synth_file (d : dfile) : dfile :=
  match dfl_syntax d with
  | Proto3 => mkDFile (dfl_name d) (dfl_package d) (dfl_syntax d) (dfl_deps d) (dfl_public d) (dfl_weak d)
                      (map protoc_synth (dfl_msgs d)) (dfl_enums d) (dfl_exts d) (dfl_services d)
  | _ => d
  end.

(* ------------------------------------------------------------------------------------------ *)
(* the pipeline *)

Definition spec_stage1_ok (f : sfile) : bool :=
  file_src_ok_b f && file_desc_ok_b (fst (lower_file_raw f)).

Definition no_errs (l : list ecls) : bool := match l with [] => true | _ => false end.

(* Some descriptor = protoc accepts the file (given the files compiled before it) *)
Definition spec_compile_file (st : cstate) (f : sfile) : cstate * option dfile :=
  let fail := fun st' => (mkCState (st_tab st') (st_exts st') (st_done st') (sf_name f :: st_failed st') (st_xnames st'), None) in
  if negb (spec_stage1_ok f) then fail st
  else
    let d := protoc_synth_file (lower_file f) in
    if existsb (fun p => mem_name p (st_failed st) || negb (is_some (find_cfile p (st_done st)))) (dfl_deps d)
    then fail st
    else
      match import_result (st_tab st) d with
      | (T, _ :: _) => fail (mkCState T (st_exts st) (st_done st) (st_failed st) (st_xnames st))
      | (T, []) =>
        let '(d1, X, e2) := resolve_file protoc_cfg (st_done st) (st_exts st) d in
        let st1 := mkCState T X (st_done st) (st_failed st) (st_xnames st) in
        if negb (no_errs e2) then fail st1
        else
          let '(d2, e3) := options_file protoc_cfg (st_done st) d1 in
          if negb (no_errs e3) then fail st1
          else
            let '(e4, XN) := validate_options protoc_cfg (st_done st) (file_xdecls f) (st_xnames st) d2 in
            if negb (no_errs e4) then fail (mkCState T X (st_done st) (st_failed st) XN)
            else (mkCState T X (st_done st ++ [mkCFile (sf_name f) d2 (file_syms d2) (file_xdecls f)]) (st_failed st) XN, Some d2)
      end.

Fixpoint spec_compile_files (st : cstate) (fs : list sfile) : list (option dfile) :=
  match fs with
  | [] => []
  | f :: r => let '(st1, res) := spec_compile_file st f in res :: spec_compile_files st1 r
  end.

Definition spec_compile (fs : list sfile) : list (option dfile) := spec_compile_files (mkCState [] [] [] [] []) fs.

(* protoc accepts the file set *)
Definition spec_accepts (fs : list sfile) : bool := forallb (fun o => is_some o) (spec_compile fs).

(* ------------------------------------------------------------------------------------------ *)
(* Divergences: the intentional differences the repository documents.  Each is a predicate on
   the file set; a disagreement between the implementation and the oracle is excused only when
   the predicate that explains its direction holds.

   D1 json-proto2           linker_test.go failure_json_name_custom_and_default_proto2,
                            failure_json_name_conflict_proto2: in proto2 files Go rejects a JSON
                            conflict that involves a custom name; protoc only warns unless both
                            names are custom and differ from their defaults
   D2 synthetic-oneof       parser/result.go processProto3OptionalFields: Go also avoids the
                            names of nested types, enums, enum values and extensions
   D3 msgset-no-range       parser/validate_test.go: Go rejects a message-set message without
                            extension range (the Go runtime cannot represent it)
   D4 reserved-name-ident   parser/validate_test.go: protoc only warns about reserved names that
                            are not identifiers
   D5 allow-alias-false     parser/validate_test.go: protoc rejects option allow_alias = false
   D6 message-set gate      options.go checkFieldUsage / messageset.CanSupportMessageSets: outside
                            the fragment (needs custom options)
   D7 octal escapes > 377   lexer: outside the fragment (string escapes are rendered below 400) *)

Fixpoint any_msg (p : dmsg -> bool) (m : dmsg) : bool :=
  p m || existsb (any_msg p) (dm_nested m).
Definition any_msg_file (p : dmsg -> bool) (d : dfile) : bool := existsb (any_msg p) (dfl_msgs d).

Fixpoint all_enums (m : dmsg) : list denum := dm_enums m ++ flat_map all_enums (dm_nested m).
Definition file_enums (d : dfile) : list denum := dfl_enums d ++ flat_map all_enums (dfl_msgs d).

(* D1: a proto2 message with a json_name option somewhere *)
Definition div_json_proto2 (f : sfile) : bool :=
  let d := lower_file f in
  syntax_eqb (dfl_syntax d) Proto2 && any_msg_file (fun m => existsb has_custom_json (dm_fields m)) d.

(* D2: a proto3 message whose Go-chosen and protoc-chosen synthetic oneof names differ *)
Definition div_synth_oneof (f : sfile) : bool :=
  let d := lower_file f in
  negb (list_eqb dmsg_eqb (dfl_msgs d) (dfl_msgs (protoc_synth_file d))).

(* D3: a message-set message without extension range *)
Definition div_msgset_no_range (f : sfile) : bool :=
  any_msg_file (fun m => dm_msgset m && match dm_extr m with [] => true | _ => false end) (lower_file f).

(* D4: a reserved name that is not an identifier *)
Definition div_reserved_ident (f : sfile) : bool :=
  let d := lower_file f in
  any_msg_file (fun m => negb (forallb is_identifier (dm_rsvn m))) d
  || existsb (fun e => negb (forallb is_identifier (de_rsvn e))) (file_enums d).

(* D5: an explicit allow_alias = false *)
Definition div_alias_false (f : sfile) : bool :=
  existsb (fun e => match alias_of_b (de_alias e) with AliasFalse => true | _ => false end) (file_enums (lower_file f)).

(* Go rejects, protoc accepts: D1 D3 D4.  Go accepts, protoc rejects: D2 D5.  (D2 can go both ways
   for the descriptor, never for the verdict of Go.) *)
Definition excused (fs : list sfile) (go_ok spec_ok : bool) : bool :=
  if go_ok then negb spec_ok && existsb (fun f => div_synth_oneof f || div_alias_false f) fs
  else spec_ok && existsb (fun f => div_json_proto2 f || div_msgset_no_range f || div_reserved_ident f) fs.

(* ------------------------------------------------------------------------------------------ *)
(* correspondence input *)
From PV Require Import Common.Corr.

(* the verdict of the implementation against the oracle: 0 = agree, 1 = excused divergence,
   2 = disagreement *)
Inductive spec_case := SpecCase (files : list sfile) (impl_ok : bool).
Definition spec_verdict (c : spec_case) : N :=
  match c with
  | SpecCase fs ok =>
    let s := spec_accepts fs in
    if Bool.eqb s ok then 0%N else if excused fs ok s then 1%N else 2%N
  end.
Definition spec_chk (c : spec_case) : bool := N.eqb (spec_verdict c) 0%N.
Definition spec_chk_excused (c : spec_case) : bool := negb (N.eqb (spec_verdict c) 1%N).

(* descriptors: what protoc emits for an accepted file set, against the observation *)
Inductive spec_desc_case := SpecDesc (files : list sfile) (obs : list dfile).
Definition spec_desc_chk (c : spec_desc_case) : bool :=
  match c with
  | SpecDesc fs obs =>
    (* the property speaks about file sets that both compilers accept *)
    negb (spec_accepts fs) ||
    (fix go (rs : list (option dfile)) (os : list dfile) {struct rs} : bool :=
       match rs, os with
       | [], [] => true
       | Some m :: r, d :: o => dfile_eqb m d && go r o
       | _, _ => false
       end) (spec_compile fs) obs
  end.

(* one golden file: the lowering alone (no linking) against protoc's descriptor, ignoring what
   linking fills in is not possible, so goldens are compared after the full pipeline; this
   checker is for files whose imports are outside the fragment: names only *)
Definition spec_valid_chk (c : spec_case) : bool :=
  match c with SpecCase fs ok => Bool.eqb (spec_accepts fs) ok end.

(* one evaluation per case: the mirror agrees with the observation and the oracle agrees with the
   verdict; the plugins evaluate the parts separately only for the cases where this fails *)
Definition c01_full_chk (c : c01_case) : bool :=
  c01_chk c && match c with C01Case fs ok _ => spec_chk (SpecCase fs ok) end.
Definition c01_full_chk_repaired (c : c01_case) : bool :=
  c01_chk_repaired c && match c with C01Case fs ok _ => spec_chk (SpecCase fs ok) end.
Definition c01_spec_part (c : c01_case) : bool :=
  match c with C01Case fs ok _ => spec_chk (SpecCase fs ok) end.
Definition c01_excused_part (c : c01_case) : bool :=
  match c with C01Case fs ok _ => spec_chk_excused (SpecCase fs ok) end.

Definition c02_full_chk (c : c02_case) : bool :=
  c02_chk c && match c with C02Case fs obs => spec_desc_chk (SpecDesc fs obs) end.
Definition c02_spec_part (c : c02_case) : bool :=
  match c with C02Case fs obs => spec_desc_chk (SpecDesc fs obs) end.
(* a descriptor difference is excused only by the documented synthetic-oneof divergence *)
Definition c02_excused_part (c : c02_case) : bool :=
  match c with C02Case fs obs => negb (existsb div_synth_oneof fs) end.

(* the naming functions on arbitrary ASCII strings: observed JSONName / MapEntry against the
   mirror and against protoc's ToJsonName / MapEntryName *)
Inductive name_case := NameCase (s js entry : list N).
Definition name_chk (c : name_case) : bool :=
  match c with NameCase s js en => name_eqb (json_name s) js && name_eqb (map_entry s) en end.
Definition name_spec_chk (c : name_case) : bool :=
  match c with NameCase s js en => name_eqb (to_json_name s) js && name_eqb (map_entry_name s) en end.
Definition name_full_chk (c : name_case) : bool := name_chk c && name_spec_chk c.

(* second pass of the plugins over the few cases where the combined check fails: one evaluation
   that asks the three questions separately *)
Inductive c01_probe := P1Model (c : c01_case) | P1Spec (c : c01_case) | P1Exc (c : c01_case).
Definition c01_probe_chk (p : c01_probe) : bool :=
  match p with P1Model c => c01_chk c | P1Spec c => c01_spec_part c | P1Exc c => c01_excused_part c end.
Definition c01_probe_chk_repaired (p : c01_probe) : bool :=
  match p with P1Model c => c01_chk_repaired c | P1Spec c => c01_spec_part c | P1Exc c => c01_excused_part c end.
Inductive c02_probe := P2Model (c : c02_case) | P2Spec (c : c02_case) | P2Exc (c : c02_case).
Definition c02_probe_chk (p : c02_probe) : bool :=
  match p with P2Model c => c02_chk c | P2Spec c => c02_spec_part c | P2Exc c => c02_excused_part c end.
