(* Model of parser/result.go: building the descriptor from the AST (createFileDescriptor,
   addMessageBody, asFieldDescriptor, asGroupDescriptors, asMapDescriptors, asExtensionRanges,
   asEnumDescriptor, addReservedNames, getRangeBounds, checkTag, processProto3OptionalFields),
   of the naming functions in internal/util.go + internal/cases (JSONName, MapEntry, TrimPrefix)
   and of fillInMissingLabels (parser/validate.go).  The errors that the construction reports
   are collected in order.  Definitions only.

   Strings are byte lists; the rune loops of the Go code are byte loops here, which is the same
   for ASCII text (identifiers are ASCII). *)
From Coq Require Import List NArith ZArith Bool.
From PV Require Import Model.MiniProto.
Import ListNotations.
Open Scope N_scope.

(* ------------------------------------------------------------------------------------------ *)
(* internal/cases: Converter{Case, NaiveSplit: true, NoLowercase} *)

Definition us : N := 95.
Definition to_upper (c : N) : N := if (97 <=? c) && (c <=? 122) then c - 32 else c.
Definition to_lower (c : N) : N := if (65 <=? c) && (c <=? 90) then c + 32 else c.
Definition set_case (c : N) (upper : bool) : N := if upper then to_upper c else to_lower c.

(* strings.SplitSeq(s, underscore) *)
Fixpoint split_us (s : list N) : list (list N) :=
  match s with
  | [] => [[]]
  | c :: r =>
    if c =? us then [] :: split_us r
    else match split_us r with
         | w :: ws => (c :: w) :: ws
         | [] => [[c]]
         end
  end.

(* the inner loop of Case.convert for Camel/Pascal: [up] = uppercase || !firstWord *)
Fixpoint conv_word (up lowercase firstRune : bool) (w : list N) : list N :=
  match w with
  | [] => []
  | r :: rest =>
    let uppercase := up && firstRune in
    (if uppercase || lowercase then set_case r uppercase else r) :: conv_word up lowercase false rest
  end.

Fixpoint conv_words (pascal lowercase firstWord : bool) (ws : list (list N)) : list N :=
  match ws with
  | [] => []
  | w :: r => conv_word (pascal || negb firstWord) lowercase true w ++ conv_words pascal lowercase false r
  end.

(* internal.JSONName: Camel, NaiveSplit, NoLowercase *)
Definition json_name (s : list N) : list N := conv_words false false true (split_us s).

Definition entry_suffix : list N := [69; 110; 116; 114; 121].
(* internal.MapEntry: Pascal, NaiveSplit, NoLowercase, then Entry *)
Definition map_entry (s : list N) : list N := conv_words true false true (split_us s) ++ entry_suffix.

(* internal.TrimPrefix *)
Fixpoint drop_us (p : list N) : list N :=
  match p with
  | c :: r => if c =? us then drop_us r else p
  | [] => []
  end.

Fixpoint trim_loop (orig s pre : list N) : list N :=
  match s with
  | [] => orig
  | r :: s' =>
    if r =? us then trim_loop orig s' pre
    else match drop_us pre with
         | [] => match drop_us s with [] => orig | res => res end
         | p :: pre' => if to_lower r =? to_lower p then trim_loop orig s' pre' else orig
         end
  end.
Definition trim_prefix (str pre : list N) : list N := trim_loop str str pre.

(* linker.canonicalEnumValueName: Pascal, NaiveSplit, lowercasing *)
Definition canonical_enum_value_name (value enum : list N) : list N :=
  conv_words true true true (split_us (trim_prefix value enum)).

(* strings.ToLower on ASCII *)
Definition lower_str (s : list N) : list N := map to_lower s.
(* unicode.IsUpper(rune(s[0])) on ASCII *)
Definition is_upper (c : N) : bool := (65 <=? c) && (c <=? 90).

(* ------------------------------------------------------------------------------------------ *)
(* tags *)
Open Scope Z_scope.
Definition field_max : Z := 536870911.
Definition msgset_max : Z := 2147483646.
Definition first_reserved : Z := 19000.
Definition last_reserved : Z := 19999.
Definition int32_min : Z := -2147483648.
Definition int32_max : Z := 2147483647.

(* result.checkTag *)
Definition check_tag (v maxTag : Z) : option ecls :=
  if v <? 1 then Some ETagZero
  else if maxTag <? v then Some ETagTooHigh
  else if (first_reserved <=? v) && (v <=? last_reserved) then Some ETag19000
  else None.

Definition opt_err (o : option ecls) : list ecls := match o with Some e => [e] | None => [] end.

(* ast.AsInt32 *)
Definition as_int32 (v lo hi : Z) : Z * bool :=
  if (v <? lo) || (hi <? v) then (0, false) else (v, true).

(* result.getRangeBounds *)
Definition range_bounds (r : srange) (lo hi : Z) : Z * Z * list ecls :=
  let '(start, ok1) := as_int32 (sr_start r) lo hi in
  let e1 := if ok1 then [] else [ERangeStartOOR] in
  let '(end_, ok2) :=
    if sr_max r then (hi, true)
    else match sr_end r with
         | None => as_int32 (sr_start r) lo hi
         | Some e => as_int32 e lo hi
         end in
  let e2 := if ok2 then [] else match sr_end r with Some _ => [ERangeEndOOR] | None => [] end in
  let e3 := if ok1 && ok2 && (end_ <? start) then [ERangeOrder] else [] in
  (start, end_, e1 ++ e2 ++ e3).

(* asExtensionRanges / asMessageReservedRange: half-open in the descriptor *)
Definition msg_range (r : srange) (maxTag : Z) : (Z * Z) * list ecls :=
  let '(s, e, errs) := range_bounds r 1 maxTag in ((s, e + 1), errs).
(* asEnumReservedRange: closed *)
Definition enum_range (r : srange) : (Z * Z) * list ecls :=
  let '(s, e, errs) := range_bounds r int32_min int32_max in ((s, e), errs).

Fixpoint lower_ranges (f : srange -> (Z * Z) * list ecls) (rs : list srange) : list (Z * Z) * list ecls :=
  match rs with
  | [] => ([], [])
  | r :: rest => let '(p, e) := f r in let '(ps, es) := lower_ranges f rest in (p :: ps, e ++ es)
  end.

(* result.addReservedNames; [seen] is alreadyReserved *)
Fixpoint reserve_loop (ns : list name) (names seen : list name) (errs : list ecls)
  : list name * list name * list ecls :=
  match ns with
  | [] => (names, seen, errs)
  | n :: r =>
    if mem_name n seen then reserve_loop r names seen (errs ++ [EReservedNameDup])
    else reserve_loop r (names ++ [n]) (seen ++ [n]) errs
  end.

Definition add_reserved_names (syn : syntax) (strs idents : list name) (names seen : list name)
  : list name * list name * list ecls :=
  match syn with
  | Editions =>
    let e0 := match strs with [] => [] | _ => [EReservedNameForm] end in
    reserve_loop idents names seen e0
  | _ =>
    let e0 := match idents with [] => [] | _ => [EReservedNameForm] end in
    reserve_loop strs names seen e0
  end.

(* ------------------------------------------------------------------------------------------ *)
(* fields *)

Definition as_label (l : label) : option dlabel :=
  match l with LNone => None | LRepeated => Some DRepeated | LRequired => Some DRequired | LOptional => Some DOptional end.

(* newFieldDescriptor *)
Definition new_field (nm : name) (ty : ftype) (num : Z) (lbl : option dlabel) (opts : list fopt) (src : fsrc) : dfield :=
  mkDField nm num lbl
           (match ty with TScalar s => Some (DScalar s) | TNamed _ => None end)
           (match ty with TScalar _ => None | TNamed n => Some n end)
           None (json_name nm) None false None opts src.

Definition is_optional (l : option dlabel) : bool := match l with Some DOptional => true | _ => false end.

(* asFieldDescriptor *)
Definition as_field (syn : syntax) (maxTag : Z) (f : fdecl) : dfield * list ecls :=
  match f with
  | FDecl lbl ty nm num opts =>
    let fd := new_field nm ty (wrap32 num) (as_label lbl) opts FromField in
    let fd := if syntax_eqb syn Proto3 && is_optional (df_label fd)
              then mkDField (df_name fd) (df_number fd) (df_label fd) (df_type fd) (df_type_name fd)
                            (df_extendee fd) (df_json fd) (df_oneof fd) true (df_default fd) (df_opts fd) (df_src fd)
              else fd in
    (fd, opt_err (check_tag num maxTag))
  end.

Definition set_extendee (fd : dfield) (x : name) : dfield :=
  mkDField (df_name fd) (df_number fd) (df_label fd) (df_type fd) (df_type_name fd)
           (Some x) (df_json fd) (df_oneof fd) (df_p3opt fd) (df_default fd) (df_opts fd) (df_src fd).
Definition set_oneof (fd : dfield) (i : nat) : dfield :=
  mkDField (df_name fd) (df_number fd) (df_label fd) (df_type fd) (df_type_name fd)
           (df_extendee fd) (df_json fd) (Some i) (df_p3opt fd) (df_default fd) (df_opts fd) (df_src fd).
Definition set_label (fd : dfield) (l : option dlabel) : dfield :=
  mkDField (df_name fd) (df_number fd) l (df_type fd) (df_type_name fd)
           (df_extendee fd) (df_json fd) (df_oneof fd) (df_p3opt fd) (df_default fd) (df_opts fd) (df_src fd).

(* ------------------------------------------------------------------------------------------ *)
(* enums *)

Record eacc := mkEAcc { ea_values : list (name * Z); ea_alias : list oval; ea_rsv : list (Z * Z);
                        ea_rsvn : list name; ea_seen : list name; ea_errs : list ecls }.

Definition lower_eelem (syn : syntax) (a : eacc) (e : eelem) : eacc :=
  match e with
  | EValue nm num =>
    let '(n, ok) := as_int32 num int32_min int32_max in
    mkEAcc (ea_values a ++ [(nm, n)]) (ea_alias a) (ea_rsv a) (ea_rsvn a) (ea_seen a)
           (ea_errs a ++ (if ok then [] else [EEnumValueOOR]))
  | EAllowAlias v => mkEAcc (ea_values a) (ea_alias a ++ [v]) (ea_rsv a) (ea_rsvn a) (ea_seen a) (ea_errs a)
  | EReserved rs =>
    let '(ps, es) := lower_ranges enum_range rs in
    mkEAcc (ea_values a) (ea_alias a) (ea_rsv a ++ ps) (ea_rsvn a) (ea_seen a) (ea_errs a ++ es)
  | EReservedNames strs idents =>
    let '(names, seen, es) := add_reserved_names syn strs idents (ea_rsvn a) (ea_seen a) in
    mkEAcc (ea_values a) (ea_alias a) (ea_rsv a) names seen (ea_errs a ++ es)
  end.

(* asEnumDescriptor *)
Definition lower_enum (syn : syntax) (e : edecl) : denum * list ecls :=
  match e with
  | EDecl nm elems =>
    let a := fold_left (lower_eelem syn) elems (mkEAcc [] [] [] [] [] []) in
    (mkDEnum nm (ea_values a) (ea_alias a) (ea_rsv a) (ea_rsvn a), ea_errs a)
  end.

(* ------------------------------------------------------------------------------------------ *)
(* processProto3OptionalFields *)

Fixpoint oo_search (fuel : nat) (all : list name) (cand : name) : option name :=
  match fuel with
  | O => None
  | S f => if mem_name cand all then oo_search f all (88%N :: cand) else Some cand
  end.

Definition oo_candidate (fname : name) : name :=
  match fname with
  | c :: _ => if N.eqb c us then fname else us :: fname
  | [] => [us]
  end.

(* None = out of fuel; Proofs/LowerNames.v shows that the fuel always suffices *)
Definition oo_name (all : list name) (fname : name) : option name :=
  oo_search (S (length all)) all (oo_candidate fname).

(* the names processProto3OptionalFields collects on the first proto3-optional field *)
Definition go_all_names (fields : list dfield) (oneofs : list name) (exts : list dfield)
           (enums : list denum) (nested : list dmsg) : list name :=
  map df_name fields ++ oneofs ++ map df_name exts
  ++ flat_map (fun e => de_name e :: map fst (de_values e)) enums ++ map dm_name nested.

(* what protoc collects (GenerateSyntheticOneofs) *)
Definition protoc_all_names (fields : list dfield) (oneofs : list name) : list name :=
  map df_name fields ++ oneofs.

(* the loop over the fields; [done] are the fields already processed *)
Fixpoint p3opt_loop (fs done : list dfield) (all oneofs : list name) : option (list dfield * list name) :=
  match fs with
  | [] => Some (done, oneofs)
  | fd :: r =>
    if df_p3opt fd then
      match oo_name all (df_name fd) with
      | None => None
      | Some oo => p3opt_loop r (done ++ [set_oneof fd (length oneofs)]) (oo :: all) (oneofs ++ [oo])
      end
    else p3opt_loop r (done ++ [fd]) all oneofs
  end.

Definition process_p3opt (all : list name) (fields : list dfield) (oneofs : list name)
  : option (list dfield * list name) := p3opt_loop fields [] all oneofs.

(* ------------------------------------------------------------------------------------------ *)
(* message bodies *)

Record macc := mkMAcc {
  a_fields : list dfield; a_nested : list dmsg; a_enums : list denum; a_exts : list dfield;
  a_oneofs : list name; a_extr : list (Z * Z); a_rsvr : list (Z * Z); a_rsvn : list name;
  a_seen : list name; a_errs : list ecls }.

Definition macc0 : macc := mkMAcc [] [] [] [] [] [] [] [] [] [].

Definition add_errs (a : macc) (es : list ecls) : macc :=
  mkMAcc (a_fields a) (a_nested a) (a_enums a) (a_exts a) (a_oneofs a) (a_extr a) (a_rsvr a)
         (a_rsvn a) (a_seen a) (a_errs a ++ es).
Definition add_field (a : macc) (fd : dfield) : macc :=
  mkMAcc (a_fields a ++ [fd]) (a_nested a) (a_enums a) (a_exts a) (a_oneofs a) (a_extr a) (a_rsvr a)
         (a_rsvn a) (a_seen a) (a_errs a).
Definition add_nested (a : macc) (m : dmsg) : macc :=
  mkMAcc (a_fields a) (a_nested a ++ [m]) (a_enums a) (a_exts a) (a_oneofs a) (a_extr a) (a_rsvr a)
         (a_rsvn a) (a_seen a) (a_errs a).
Definition add_ext (a : macc) (fd : dfield) : macc :=
  mkMAcc (a_fields a) (a_nested a) (a_enums a) (a_exts a ++ [fd]) (a_oneofs a) (a_extr a) (a_rsvr a)
         (a_rsvn a) (a_seen a) (a_errs a).

(* isMessageSetWireFormat over the options of the body: the option value, or an error *)
Fixpoint msgset_opts (body : list melem) : list oval :=
  match body with
  | [] => []
  | MMsgSet v :: r => v :: msgset_opts r
  | _ :: r => msgset_opts r
  end.

Definition true_name : name := [116; 114; 117; 101]%N.
Definition false_name : name := [102; 97; 108; 115; 101]%N.

Inductive msgset_res := MsNo | MsYes | MsErr (e : ecls).
Definition is_msgset (body : list melem) : msgset_res :=
  match msgset_opts body with
  | [] => MsNo
  | [VIdent n] => if name_eqb n true_name then MsYes else if name_eqb n false_name then MsNo else MsErr EMsgsetNotBool
  | [_] => MsErr EMsgsetNotBool
  | _ => MsErr EOptionRepeated
  end.

(* asMapDescriptors *)
Definition lower_map (syn : syntax) (maxTag : Z) (depth : nat) (key : scalar) (val : ftype) (nm : name) (num : Z)
           (opts : list fopt) : dfield * dmsg * list ecls :=
  let e1 := opt_err (check_tag num maxTag) in
  let e2 := if Nat.ltb depth 32 then [] else [EDepth] in
  let lbl := if syntax_eqb syn Proto2 then Some DOptional else None in
  let keyFd := new_field [107; 101; 121]%N (TScalar key) 1 lbl [] FromMapKV in
  let valFd := new_field [118; 97; 108; 117; 101]%N val 2 lbl [] FromMapKV in
  let entryName := map_entry nm in
  let fd := new_field nm (TNamed entryName) (wrap32 num) (Some DRepeated) opts FromMap in
  (fd, DMsg entryName [keyFd; valFd] [] [] [] [] [] [] [] true false, e1 ++ e2).

(* the body of a message: addMessageBody after the option pass.  [depth] is the depth of the
   message whose body this is. *)
Fixpoint lower_elem (syn : syntax) (maxTag : Z) (depth : nat) (a : macc) (e : melem) {struct e} : macc :=
  let lower_msg := fun (nm : name) (body : list melem) (d : nat) =>
    (* asMessageDescriptor / the message half of asGroupDescriptors *)
    if Nat.ltb d 32 then
      match is_msgset body with
      | ms =>
        (* with a reporter that goes on, a malformed option counts as absent *)
        let isset := match ms with MsYes => true | _ => false end in
        let e0 := match ms with MsErr er => [er] | _ => [] end
                  ++ if isset && syntax_eqb syn Proto3 then [EMsgsetProto3] else [] in
        let mt := if isset then msgset_max else field_max in
        let b := fold_left (lower_elem syn mt d) body macc0 in
        let e1 := if isset then
                    (match a_fields b with [] => [] | _ => [EMsgsetFields] end)
                    ++ (match a_extr b with [] => [EMsgsetNoRange] | _ => [] end)
                  else [] in
        let '(fields, oneofs, e2) :=
          if syntax_eqb syn Proto3 then
            match process_p3opt (go_all_names (a_fields b) (a_oneofs b) (a_exts b) (a_enums b) (a_nested b))
                                (a_fields b) (a_oneofs b) with
            | Some (fs, oos) => (fs, oos, [])
            | None => (a_fields b, a_oneofs b, [EOther])
            end
          else (a_fields b, a_oneofs b, []) in
        (DMsg nm fields (a_nested b) (a_enums b) (a_exts b) oneofs (a_extr b) (a_rsvr b) (a_rsvn b) false isset,
         e0 ++ a_errs b ++ e1 ++ e2)
      end
    else (DMsg nm [] [] [] [] [] [] [] [] false false, [EDepth]) in
  let lower_group := fun (lbl : label) (nm : name) (num : Z) (body : list melem) (mt : Z) (d : nat) =>
    (* asGroupDescriptors *)
    let e1 := opt_err (check_tag num mt) in
    let e2 := match nm with c :: _ => if is_upper c then [] else [EGroupLower] | [] => [EGroupLower] end in
    let fieldName := lower_str nm in
    let fd := mkDField fieldName (wrap32 num) (as_label lbl) (Some DGroup) (Some nm) None (json_name fieldName)
                       None false None [] FromGroup in
    let '(md, e3) := lower_msg nm body d in
    (fd, md, e1 ++ e2 ++ e3) in
  match e with
  | MField f => let '(fd, es) := as_field syn maxTag f in add_errs (add_field a fd) es
  | MMap key val nm num opts =>
    let '(fd, md, es) := lower_map syn maxTag (S depth) key val nm num opts in
    add_errs (add_nested (add_field a fd) md) es
  | MGroup lbl nm num body =>
    let '(fd, md, es) := lower_group lbl nm num body maxTag (S depth) in
    add_errs (add_nested (add_field a fd) md) es
  | MOneof nm elems =>
    let idx := length (a_oneofs a) in
    let a1 := mkMAcc (a_fields a) (a_nested a) (a_enums a) (a_exts a) (a_oneofs a ++ [nm]) (a_extr a)
                     (a_rsvr a) (a_rsvn a) (a_seen a) (a_errs a) in
    let step := fix step (ac : macc * nat) (els : list melem) {struct els} : macc * nat :=
      match els with
      | [] => ac
      | MField f :: r =>
        let '(fd, es) := as_field syn maxTag f in
        step (add_errs (add_field (fst ac) (set_oneof fd idx)) es, S (snd ac)) r
      | MGroup lbl gn num body :: r =>
        let '(fd, md, es) := lower_group lbl gn num body maxTag (S depth) in
        step (add_errs (add_nested (add_field (fst ac) (set_oneof fd idx)) md) es, S (snd ac)) r
      | _ :: r => step ac r
      end in
    let '(a2, n) := step (a1, O) elems in
    match n with O => add_errs a2 [EOneofEmpty] | _ => a2 end
  | MMessage nm body =>
    let '(md, es) := lower_msg nm body (S depth) in add_errs (add_nested a md) es
  | MEnum ed =>
    let '(de, es) := lower_enum syn ed in
    add_errs (mkMAcc (a_fields a) (a_nested a) (a_enums a ++ [de]) (a_exts a) (a_oneofs a) (a_extr a)
                     (a_rsvr a) (a_rsvn a) (a_seen a) (a_errs a)) es
  | MExtend extendee elems =>
    (* addExtensions with depth = the depth of this message *)
    let step := fix step (ac : macc * nat) (els : list melem) {struct els} : macc * nat :=
      match els with
      | [] => ac
      | MField f :: r =>
        let '(fd, es) := as_field syn msgset_max f in
        step (add_errs (add_ext (fst ac) (set_extendee fd extendee)) es, S (snd ac)) r
      | MGroup lbl gn num body :: r =>
        let '(fd, md, es) := lower_group lbl gn num body msgset_max (S depth) in
        step (add_errs (add_nested (add_ext (fst ac) (set_extendee fd extendee)) md) es, S (snd ac)) r
      | _ :: r => step ac r
      end in
    let '(a2, n) := step (a, O) elems in
    match n with O => add_errs a2 [EExtendEmpty] | _ => a2 end
  | MExtensions rs =>
    let '(ps, es) := lower_ranges (fun r => msg_range r maxTag) rs in
    add_errs (mkMAcc (a_fields a) (a_nested a) (a_enums a) (a_exts a) (a_oneofs a) (a_extr a ++ ps)
                     (a_rsvr a) (a_rsvn a) (a_seen a) (a_errs a)) es
  | MExtensionsOpt rs _ =>
    (* the options of the ranges are not part of the projection; Model/Validate.v reads them from the source *)
    let '(ps, es) := lower_ranges (fun r => msg_range r maxTag) rs in
    add_errs (mkMAcc (a_fields a) (a_nested a) (a_enums a) (a_exts a) (a_oneofs a) (a_extr a ++ ps)
                     (a_rsvr a) (a_rsvn a) (a_seen a) (a_errs a)) es
  | MReserved rs =>
    let '(ps, es) := lower_ranges (fun r => msg_range r maxTag) rs in
    add_errs (mkMAcc (a_fields a) (a_nested a) (a_enums a) (a_exts a) (a_oneofs a) (a_extr a)
                     (a_rsvr a ++ ps) (a_rsvn a) (a_seen a) (a_errs a)) es
  | MReservedNames strs idents =>
    let '(names, seen, es) := add_reserved_names syn strs idents (a_rsvn a) (a_seen a) in
    add_errs (mkMAcc (a_fields a) (a_nested a) (a_enums a) (a_exts a) (a_oneofs a) (a_extr a)
                     (a_rsvr a) names seen (a_errs a)) es
  | MMsgSet _ => a
  end.

(* a top-level message is lowered as if it were nested in a file-level accumulator at depth 0 *)
Definition lower_top (syn : syntax) (a : macc) (e : melem) : macc := lower_elem syn field_max 0 a e.

Record facc := mkFAcc { fa_deps : list name; fa_public : list nat; fa_weak : list nat;
                        fa_body : macc; fa_services : list dservice }.

(* createFileDescriptor: messages, enums, extensions (with their group messages) and services *)
Definition lower_tdecl (syn : syntax) (a : facc) (d : tdecl) : facc :=
  match d with
  | TElem e => mkFAcc (fa_deps a) (fa_public a) (fa_weak a) (lower_top syn (fa_body a) e) (fa_services a)
  | TService nm ms => mkFAcc (fa_deps a) (fa_public a) (fa_weak a) (fa_body a) (fa_services a ++ [mkDService nm ms])
  end.

Fixpoint lower_imports (imps : list (name * impkind)) (i : nat) : list name * list nat * list nat :=
  match imps with
  | [] => ([], [], [])
  | (p, k) :: r =>
    let '(ds, pub, weak) := lower_imports r (S i) in
    (p :: ds, match k with ImpPublic => i :: pub | _ => pub end, match k with ImpWeak => i :: weak | _ => weak end)
  end.

(* fillInMissingLabels *)
Definition fill_label (fd : dfield) : dfield :=
  match df_label fd with None => set_label fd (Some DOptional) | Some _ => fd end.
Fixpoint fill_msg (m : dmsg) : dmsg :=
  match m with
  | DMsg nm fields nested enums exts oneofs extr rsvr rsvn me ms =>
    DMsg nm (map fill_label fields) (map fill_msg nested) enums (map fill_label exts) oneofs extr rsvr rsvn me ms
  end.

(* the descriptor before fillInMissingLabels (what validateBasic sees) and the errors *)
Definition lower_file_raw (f : sfile) : dfile * list ecls :=
  let '(deps, pub, weak) := lower_imports (sf_imports f) O in
  let a := fold_left (lower_tdecl (sf_syntax f)) (sf_decls f) (mkFAcc deps pub weak macc0 []) in
  let b := fa_body a in
  (mkDFile (sf_name f) (sf_package f) (sf_syntax f) deps pub weak
           (a_nested b) (a_enums b) (a_exts b) (fa_services a), a_errs b).

Definition fill_file (d : dfile) : dfile :=
  mkDFile (dfl_name d) (dfl_package d) (dfl_syntax d) (dfl_deps d) (dfl_public d) (dfl_weak d)
          (map fill_msg (dfl_msgs d)) (dfl_enums d) (map fill_label (dfl_exts d)) (dfl_services d).

(* parser.ResultFromAST without validation *)
Definition lower_file (f : sfile) : dfile := fill_file (fst (lower_file_raw f)).
