(* GENERATED on every run of bin/check C39 by checks/C39.py pregen from internal/decimal/float.go.
   An entry (a, b) is the Go constant expression 1e<a> / 0x1p<b>, that is 10^a / 2^b. Do not edit. *)
From Coq Require Import ZArith List.
Import ListNotations.
Open Scope Z_scope.

Definition pow5s_src : list (Z * Z) :=
 [
  (0, 0); (1, 1); (2, 2); (3, 3);
  (4, 4); (5, 5); (6, 6); (7, 7);
  (8, 8); (9, 9); (10, 10); (11, 11);
  (12, 12); (13, 13); (14, 14); (15, 15);
  (16, 16); (17, 17); (18, 18); (19, 19);
  (20, 20); (21, 21); (22, 22); (23, 23);
  (24, 24); (25, 25); (26, 26); (27, 27);
  (28, 28); (29, 29); (30, 30); (31, 31)
 ].

Definition pow5s32_src : list (Z * Z) :=
 [
  (0, 0); (32, 32); (64, 64); (96, 96);
  (128, 128); (160, 160); (192, 192); (224, 224);
  (256, 256); (288, 288)
 ].

Definition pow5s32neg_src : list (Z * Z) :=
 [
  (0, 0); (-32, -32); (-64, -64); (-96, -96);
  (-128, -128); (-160, -160); (-192, -192); (-224, -224);
  (-256, -256); (-288, -288); (-320, -320)
 ].
