(* Model of internal/interval (property C40): Intersect (intersect.go) and Nesting (nesting.go).

   The tidwall/btree map keyed by End is abstracted to a list of entries sorted strictly by End
   with the assumed contract of the three operations the code uses:
     Set(k, e)          = [tset]   (insert at the sorted position, replace on an equal key)
     Iter.Seek(k)       = [seek_split] (the entries with End < k, and the entries from the first End >= k on)
     Iter.Next/Prev/Last = walking that list.
   The key under which an entry is stored is always its End field in the Go code (Set(entry.End, entry),
   and End is never mutated), so the model keeps no separate key.

   Go slices ([]V values of Intersect entries) are modelled with their backing arrays, because
   Insert appends to slices that share a backing array: a slice is (array id, len, cap) and the
   heap is the list of arrays. [happend] writes in place when len < cap, exactly like Go.

   The model is parametrised by a [cfg] of four booleans, one per place where the code as it is in
   the tree differs from the repaired code. [asis] (all false) is the tree as it is now; the check
   ties [asis] to the implementation. [repaired] (all true) is what the model becomes after the four
   proposed one-line repairs. Nothing else differs between the two.

   Endpoints are unbounded integers (Z); Go's int overflow at the extremes is not modelled. *)
From Coq Require Import List ZArith Bool Lia.
Import ListNotations.
Open Scope Z_scope.

Record cfg := { fix_gap : bool;    (* Intersect.Insert gap test: prev.End+1 < entry.Start instead of prev.End < entry.Start *)
                fix_clip : bool;   (* Intersect.Insert: entry.Value = append(slices.Clip(orig), value) *)
                fix_eqend : bool;  (* Nesting.Insert: an interval with the same End is a conflict for that set *)
                fix_encl : bool }. (* Nesting.Insert: every later entry of the set is tested for Start in [start,end] *)
Definition asis : cfg := {| fix_gap := false; fix_clip := false; fix_eqend := false; fix_encl := false |}.
Definition repaired : cfg := {| fix_gap := true; fix_clip := true; fix_eqend := true; fix_encl := true |}.

(* ------------------------------------------------------------------ entries and the sorted map *)
Record entry (V : Type) := mkE { eS : Z; eE : Z; eV : V }.
Arguments mkE {V}. Arguments eS {V}. Arguments eE {V}. Arguments eV {V}.

Definition contains {V} (e : entry V) (p : Z) : bool := (eS e <=? p) && (p <=? eE e).

Fixpoint tset {V} (t : list (entry V)) (e : entry V) : list (entry V) :=
  match t with
  | [] => [e]
  | x :: r => if eE e <? eE x then e :: x :: r
              else if eE e =? eE x then e :: r
              else x :: tset r e
  end.

(* Seek(k): (entries with End < k, entries from the first one with End >= k) *)
Fixpoint seek_split {V} (t : list (entry V)) (k : Z) : list (entry V) * list (entry V) :=
  match t with
  | [] => ([], [])
  | x :: r => if eE x <? k then let (b, a) := seek_split r k in (x :: b, a) else ([], x :: r)
  end.

Fixpoint last_opt {A} (l : list A) : option A :=
  match l with [] => None | [x] => Some x | _ :: r => last_opt r end.

(* ------------------------------------------------------------------ Go slices of ints *)
Record slice := mkS { sarr : nat; slen : nat; scap : nat }.
Definition heap := list (list nat).

Definition sread (h : heap) (s : slice) : list nat := firstn (slen s) (nth (sarr s) h []).

Fixpoint upd_nth {A} (l : list A) (i : nat) (x : A) : list A :=
  match l, i with
  | [], _ => []
  | _ :: r, O => x :: r
  | y :: r, S j => y :: upd_nth r j x
  end.

(* runtime.growslice for 8-byte elements, old capacity c, one element appended: double (below 256
   elements) and round up to the allocator size class. *)
Definition size_classes : list nat :=
  [1;2;3;4;6;8;10;12;14;16;18;20;22;24;26;28;30;32;36;40;44;48;52;56;60;64;72;80;88;96;112;128;
   144;160;176;192;224;256]%nat.
Definition grow_cap (c : nat) : nat :=
  let want := Nat.max 1 (2 * c) in
  match find (fun k => Nat.leb want k) size_classes with Some k => k | None => want end.

(* []V{value} *)
Definition hsingle (h : heap) (v : nat) : heap * slice := (h ++ [[v]], mkS (length h) 1 1).
(* append(s, v), or append(slices.Clip(s), v) when clip = true *)
Definition happend (clip : bool) (h : heap) (s : slice) (v : nat) : heap * slice :=
  let cp := if clip then slen s else scap s in
  if Nat.ltb (slen s) cp
  then (upd_nth h (sarr s) (upd_nth (nth (sarr s) h []) (slen s) v), mkS (sarr s) (S (slen s)) cp)
  else let c := grow_cap cp in
       (h ++ [sread h s ++ v :: repeat 0%nat (c - S (slen s))], mkS (length h) (S (slen s)) c).

(* ------------------------------------------------------------------ Intersect.Insert
   Written once over an abstract store (St, the heap) and value-list type (VS, a []V):
   [mk1 st v] is []V{v}, [app clip st s v] is append(s, v) resp. append(slices.Clip(s), v),
   [spare s] says len(s) < cap(s). Instantiated below with the Go heap; the proofs also instantiate it
   with plain lists. *)
Section IntersectGeneric.
  Variables (St VS : Type).
  Variable mk1 : St -> nat -> St * VS.
  Variable app : bool -> St -> VS -> nat -> St * VS.
  Variable spare : VS -> bool.

  Record istep_out := { so_tree : entry VS;          (* what the tree holds under this key afterwards *)
                        so_pend : list (entry VS);   (* entries appended to m.pending, in order *)
                        so_cur : entry VS;           (* the new prev *)
                        so_st : St;
                        so_hz : bool }.              (* ghost: this iteration is one where asis and repaired differ *)

  (* one iteration of the range-over-intersect loop body, for tree entry e *)
  Definition istep (c : cfg) (st : St) (e : entry VS) (a b : Z) (v : nat) (prev : option (entry VS)) : istep_out :=
    (* if prev == nil && start < entry.Start: leading gap *)
    let '(st, lead) :=
      match prev with
      | None => if a <? eS e then let '(st1, s) := mk1 st v in (st1, [mkE a (eS e - 1) s]) else (st, [])
      | Some _ => (st, [])
      end in
    let orig := eV e in
    (* if entry.Contains(end) && end < entry.End: split at end *)
    let split_end := contains e b && (b <? eE e) in
    let '(st, nv) := if split_end then app true st orig v else (st, orig) in
    let cur := if split_end then mkE (eS e) b nv else e in
    (* if entry.Contains(start) && entry.Start < start: split at start *)
    let split_start := contains cur a && (eS cur <? a) in
    let next2 := mkE (eS cur) (a - 1) orig in
    let cur := if split_start then mkE a (eE cur) (eV cur) else cur in
    (* entry.Value = append(orig, value) *)
    let '(st, nv2) := app (fix_clip c) st orig v in
    let cur := mkE (eS cur) (eE cur) nv2 in
    (* if prev != nil && prev.End < entry.Start: gap between the previous and this one *)
    let gap_test := match prev with
                    | Some p => if fix_gap c then eE p + 1 <? eS cur else eE p <? eS cur
                    | None => false
                    end in
    let '(st, gap) :=
      match prev with
      | Some p => if gap_test then let '(st1, s) := mk1 st v in (st1, [mkE (eE p + 1) (eS cur - 1) s]) else (st, [])
      | None => (st, [])
      end in
    {| so_tree := if split_end then mkE (b + 1) (eE e) orig else cur;
       so_pend := lead ++ (if split_end then [cur] else []) ++ (if split_start then [next2] else []) ++ gap;
       so_cur := cur;
       so_st := st;
       so_hz := spare orig || match prev with Some p => eE p + 1 =? eS cur | None => false end |}.

  (* the loop over m.intersect(start, end): es are the entries from Seek(start) on *)
  Fixpoint iloop (c : cfg) (st : St) (es : list (entry VS)) (a b : Z) (v : nat) (prev : option (entry VS))
    : list (entry VS) * list (entry VS) * option (entry VS) * St * bool :=
    match es with
    | [] => ([], [], prev, st, false)
    | e :: r =>
      if b <? eS e then (e :: r, [], prev, st, false)
      else let o := istep c st e a b v prev in
           let '(r', pend, prev', st', hz) := iloop c (so_st o) r a b v (Some (so_cur o)) in
           (so_tree o :: r', so_pend o ++ pend, prev', st', so_hz o || hz)
    end.

  Inductive ires := IPanic | IOk (t : list (entry VS)) (st : St) (disjoint : bool) (hz : bool).

  Definition iinsert (c : cfg) (t : list (entry VS)) (st : St) (a b : Z) (v : nat) : ires :=
    if b <? a then IPanic
    else
      let (before, rest) := seek_split t a in
      let '(rest', pend, prev, st, hz) := iloop c st rest a b v None in
      let '(st, pend) :=
        match prev with
        | Some p => if eE p <? b then let '(st1, s) := mk1 st v in (st1, pend ++ [mkE (eE p + 1) b s]) else (st, pend)
        | None => (st, pend)
        end in
      let t' := fold_left tset pend (before ++ rest') in
      match prev with
      | None => let '(st1, s) := mk1 st v in IOk (tset t' (mkE a b s)) st1 true hz
      | Some _ => IOk t' st false hz
      end.

  (* a history of Insert calls; None = some call panicked (start > end) *)
  Fixpoint irun (c : cfg) (t : list (entry VS)) (st : St) (ops : list (Z * Z * nat)) (flags : list bool) (hz : bool)
    : option (list (entry VS) * St * list bool * bool) :=
    match ops with
    | [] => Some (t, st, flags, hz)
    | (a, b, v) :: r =>
      match iinsert c t st a b v with
      | IPanic => None
      | IOk t' st' d hz' => irun c t' st' r (flags ++ [d]) (hz || hz')
      end
    end.
End IntersectGeneric.

Arguments so_tree {St VS}. Arguments so_pend {St VS}. Arguments so_cur {St VS}. Arguments so_st {St VS}. Arguments so_hz {St VS}.
Arguments IPanic {St VS}. Arguments IOk {St VS}.

(* the Go instance *)
Definition hspare (s : slice) : bool := Nat.ltb (slen s) (scap s).
Definition go_insert := iinsert heap slice hsingle happend hspare.
Definition go_run (c : cfg) (ops : list (Z * Z * nat)) := irun heap slice hsingle happend hspare c [] [] ops [] false.

(* Intersect.Get: (Start, End, values); the zero Entry when no entry contains the point *)
Definition iget_gen {VS} (rd : VS -> list nat) (t : list (entry VS)) (p : Z) : Z * Z * list nat :=
  match snd (seek_split t p) with
  | [] => (0, 0, [])
  | e :: _ => if p <? eS e then (0, 0, []) else (eS e, eE e, rd (eV e))
  end.
Definition go_get (t : list (entry slice)) (h : heap) (p : Z) := iget_gen (sread h) t p.
(* Intersect.Entries, with cap(Value) as a fourth observable *)
Definition go_entries (t : list (entry slice)) (h : heap) : list (Z * Z * list nat * nat) :=
  map (fun e => (eS e, eE e, sread h (eV e), scap (eV e))) t.

(* ------------------------------------------------------------------ Nesting.Insert *)
Definition straddled (a b : Z) (e : entry nat) : bool := (a <=? eS e) && (eS e <=? b).

(* the body of the loop over n.sets for one set: (true = continue to the next set, ghost hazard flag) *)
Definition nconflict (c : cfg) (set : list (entry nat)) (a b : Z) : bool * bool :=
  let (before, rest) := seek_split set b in
  match rest with
  | [] =>            (* !iter.Seek(end) *)
    match last_opt before with
    | None => (false, false)                         (* !iter.Last(): empty set *)
    | Some l => (negb (eE l <? a), false)
    end
  | f :: rest' =>
    if straddled a b f then (true, false)
    else
      let hz := (eE f =? b) || existsb (straddled a b) rest' in
      if (fix_eqend c && (eE f =? b)) || (fix_encl c && existsb (straddled a b) rest') then (true, hz)
      else match last_opt before with     (* iter.Prev() && start <= iter.Value().End *)
           | Some p => (a <=? eE p, hz)
           | None => (false, hz)
           end
  end.

Fixpoint ninsert (c : cfg) (sets : list (list (entry nat))) (a b : Z) (v : nat) : list (list (entry nat)) * bool :=
  match sets with
  | [] => ([[mkE a b v]], false)
  | s :: r =>
    let (cf, hz) := nconflict c s a b in
    if cf then let (r', hz') := ninsert c r a b v in (s :: r', hz || hz')
    else (tset s (mkE a b v) :: r, hz)
  end.

Fixpoint nrun (c : cfg) (sets : list (list (entry nat))) (ops : list (Z * Z * nat)) (hz : bool)
  : list (list (entry nat)) * bool :=
  match ops with
  | [] => (sets, hz)
  | (a, b, v) :: r => let (s', hz') := ninsert c sets a b v in nrun c s' r (hz || hz')
  end.
Definition nest_run (c : cfg) (ops : list (Z * Z * nat)) := nrun c [] ops false.

(* ------------------------------------------------------------------ specification vocabulary (Props/C40.v) *)
(* an insertion is (start, end, value); Insert panics unless start <= end *)
Definition valid_op (op : Z * Z * nat) : Prop := let '(a, b, _) := op in a <= b.
(* the values of the inserted intervals containing q, in insertion order *)
Definition naive (ops : list (Z * Z * nat)) (q : Z) : list nat :=
  flat_map (fun op : Z * Z * nat => let '(a, b, v) := op in if (a <=? q) && (q <=? b) then [v] else []) ops.
(* [a,b] and the interval of op have no point in common *)
Definition disjoint_b (a b : Z) (op : Z * Z * nat) : bool := let '(a', b', _) := op in (b' <? a) || (b <? a').
(* what each Insert of a history should report: disjoint from everything inserted before *)
Fixpoint naive_flags (before ops : list (Z * Z * nat)) : list bool :=
  match ops with
  | [] => []
  | (a, b, v) :: r => forallb (disjoint_b a b) before :: naive_flags (before ++ [(a, b, v)]) r
  end.
(* non-empty intervals, sorted, pairwise disjoint *)
Fixpoint sorted_disjoint (l : list (Z * Z)) : Prop :=
  match l with
  | [] => True
  | (s, e) :: r => s <= e /\ match r with [] => True | (s', _) :: _ => e < s' end /\ sorted_disjoint r
  end.
Definition ranges (l : list (Z * Z * list nat * nat)) : list (Z * Z) := map (fun x => (fst (fst (fst x)), snd (fst (fst x)))) l.
Definition values_of (g : Z * Z * list nat) : list nat := snd g.

(* a set of intervals is laminar: any two are disjoint or one is a strict subset of the other *)
Definition strict_sub (x y : entry nat) : Prop := eS y <= eS x /\ eE x <= eE y /\ (eS x <> eS y \/ eE x <> eE y).
Definition laminar_pair (x y : entry nat) : Prop :=
  eE x < eS y \/ eE y < eS x \/ strict_sub x y \/ strict_sub y x.
Definition laminar (s : list (entry nat)) : Prop :=
  forall x y, In x s -> In y s -> x <> y -> laminar_pair x y.
Definition op_entry (op : Z * Z * nat) : entry nat := let '(a, b, v) := op in mkE a b v.

(* ------------------------------------------------------------------ correspondence *)
From PV Require Import Common.Corr.

Definition Z3_eqb (x y : Z * Z * list nat) : bool :=
  let '(a, b, l) := x in let '(a', b', l') := y in
  (a =? a') && (b =? b') && (if list_eq_dec Nat.eq_dec l l' then true else false).
Definition Z4_eqb (x y : Z * Z * list nat * nat) : bool :=
  let '(t, c) := x in let '(t', c') := y in Z3_eqb t t' && Nat.eqb c c'.
Fixpoint list_eqb {A} (f : A -> A -> bool) (x y : list A) : bool :=
  match x, y with
  | [], [] => true
  | a :: r, b :: s => f a b && list_eqb f r s
  | _, _ => false
  end.
Definition ent_eqb (x : entry nat) (y : Z * Z * nat) : bool :=
  let '(a, b, v) := y in (eS x =? a) && (eE x =? b) && Nat.eqb (eV x) v.
Fixpoint sets_eqb (x : list (list (entry nat))) (y : list (list (Z * Z * nat))) : bool :=
  match x, y with
  | [], [] => true
  | s :: r, s' :: r' =>
    (fix go (p : list (entry nat)) (q : list (Z * Z * nat)) : bool :=
       match p, q with
       | [], [] => true
       | e :: p', f :: q' => ent_eqb e f && go p' q'
       | _, _ => false
       end) s s' && sets_eqb r r'
  | _, _ => false
  end.

Inductive ival_case :=
(* Intersect: ops (value of op i is i+1), observed: panicked, flags, entries with caps, Get at lo, lo+1, ... *)
| CI (c : cfg) (ops : list (Z * Z)) (panicked : bool) (flags : list bool)
     (entries : list (Z * Z * list nat * nat)) (lo : Z) (gets : list (Z * Z * list nat))
(* Nesting: ops, observed sets *)
| CN (c : cfg) (ops : list (Z * Z)) (sets : list (list (Z * Z * nat))).

Fixpoint number_ops (i : nat) (ops : list (Z * Z)) : list (Z * Z * nat) :=
  match ops with [] => [] | (a, b) :: r => (a, b, i) :: number_ops (S i) r end.

Fixpoint gets_chk (t : list (entry slice)) (h : heap) (p : Z) (gets : list (Z * Z * list nat)) : bool :=
  match gets with
  | [] => true
  | g :: r => Z3_eqb (go_get t h p) g && gets_chk t h (p + 1) r
  end.

Definition ival_chk (k : ival_case) : bool :=
  match k with
  | CI c ops panicked flags entries lo gets =>
    match go_run c (number_ops 1 ops) with
    | None => panicked
    | Some (t, h, fl, _) =>
      negb panicked && list_eqb Bool.eqb fl flags && list_eqb Z4_eqb (go_entries t h) entries
      && gets_chk t h lo gets
    end
  | CN c ops sets => sets_eqb (fst (nest_run c (number_ops 1 ops))) sets
  end.
