(* Model of internal/intern/char6.go: encodeChar6 / encodeOutlined / decodeChar6.
   intern.ID is an int32: ids are Z values kept in [-2^31, 2^31) and the wrap of the shift is
   written explicitly (wrap32).  Strings are lists of bytes (N).  Definitions only; proofs are
   in Proofs/Char6.v. *)
From Coq Require Import List NArith ZArith Bool.
From PV Require Import Common.Bytes Common.Corr.
Import ListNotations.
Open Scope Z_scope.

Definition str := list N.

Definition wrap32 (z : Z) : Z := (z + 2147483648) mod 4294967296 - 2147483648.

(* maxInlined = 32 / 6 *)
Definition max_inlined : nat := 5.

(* char6ToByte = 0123456789 abcdefghijklmnopqrstuvwxyz ABCDEFGHIJKLMNOPQRSTUVWXYZ _ .  *)
Definition alphabet : list N :=
  [48;49;50;51;52;53;54;55;56;57;
   97;98;99;100;101;102;103;104;105;106;107;108;109;110;111;112;113;114;115;116;117;118;119;120;121;122;
   65;66;67;68;69;70;71;72;73;74;75;76;77;78;79;80;81;82;83;84;85;86;87;88;89;90;
   95;46]%N.

Definition dot : N := 46%N.

(* char6ToByte[i] *)
Definition char6_to_byte (i : Z) : N := nth (Z.to_nat i) alphabet 0%N.

(* byteToChar6: a 256-entry table filled with 0xff, then out[b] = j for j, b in char6ToByte in
   order (a later duplicate would win).  Looking a byte up in it: *)
Fixpoint rev_lookup (tbl : list N) (j : Z) (c : N) (acc : Z) : Z :=
  match tbl with
  | [] => acc
  | b :: r => rev_lookup r (j + 1) c (if N.eqb b c then j else acc)
  end.
Definition byte_to_char6 (c : N) : Z := rev_lookup alphabet 0 c 255.

(* strings.HasSuffix(data, dot) *)
Fixpoint has_suffix_dot (s : str) : bool :=
  match s with
  | [] => false
  | [c] => N.eqb c dot
  | _ :: r => has_suffix_dot r
  end.

(* encodeOutlined: the loop runs over data from the last byte to the first; [rdata] is the
   reversed string.  value <<= 6 wraps in int32; value |= ID(sextet). *)
Fixpoint encode_loop (rdata : list N) (value : Z) : option Z :=
  match rdata with
  | [] => Some value
  | c :: r =>
    let sextet := byte_to_char6 c in
    if sextet =? 255 then None
    else encode_loop r (Z.lor (wrap32 (value * 64)) sextet)
  end.

(* encodeChar6: None = (0, false) *)
Definition encode (s : str) : option Z :=
  match s with
  | [] => Some 0
  | _ => if Nat.ltb max_inlined (length s) || has_suffix_dot s then None
         else encode_loop (rev s) (-1)
  end.

(* decodeChar6: fill the 5-byte buffer from the low sextets (id >>= 6 is an arithmetic shift),
   then drop the maximal suffix of dots. *)
Fixpoint decode_buf (n : nat) (id : Z) : list N :=
  match n with
  | O => []
  | S k => char6_to_byte (Z.land id 63) :: decode_buf k (Z.shiftr id 6)
  end.

Fixpoint strip_len (n : nat) (buf : list N) : nat :=
  match n with
  | O => O
  | S k => if N.eqb (nth k buf 0%N) dot then strip_len k buf else S k
  end.

Definition decode (id : Z) : str :=
  if id =? 0 then []
  else let buf := decode_buf max_inlined id in firstn (strip_len max_inlined buf) buf.

Definition int32 (z : Z) : Prop := -2147483648 <= z < 2147483648.

(* ---- correspondence ---- *)
Definition opt_Z_eqb (a b : option Z) : bool :=
  match a, b with
  | Some x, Some y => x =? y
  | None, None => true
  | _, _ => false
  end.

Inductive char6_case :=
| CEnc (s : str) (r : option Z) (dec : str)   (* encodeChar6 s = r; decodeChar6 of it when ok *)
| CDec (id : Z) (dec : str) (r : option Z)    (* decodeChar6 id = dec; encodeChar6 dec = r *)
| CTbl (alpha : list N) (rev : list Z).       (* the two tables as the implementation has them *)

Definition all_byte_Z : list N := map N.of_nat (seq 0 256).

Definition char6_chk (c : char6_case) : bool :=
  match c with
  | CEnc s r dec =>
    opt_Z_eqb (encode s) r &&
    match r with Some id => list_N_eqb (decode id) dec | None => true end
  | CDec id dec r => list_N_eqb (decode id) dec && opt_Z_eqb (encode dec) r
  | CTbl a rv => list_N_eqb alphabet a &&
                 (if list_eq_dec Z.eq_dec (map byte_to_char6 all_byte_Z) rv then true else false)
  end.
