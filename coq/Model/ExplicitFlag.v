(* Model of the explicitFile bookkeeping of compiler.go (property C19: which files are ef_checked for
   unused imports at all).  Definitions only.

   executor.results maps a file to its result; a result carries explicitFile.  compileLocked
   returns an existing result as it is and otherwise creates one with the flag it was given.
   Compiler.Compile creates the results of all requested files with explicitFile = true while it
   holds the executor lock, so no task can create a result in between; afterwards the tasks create
   the results of their imports (explicitFile = false) in whatever order the schedule dictates.
   task.link calls CheckForUnusedImports exactly when explicitFile is set. *)
From Coq Require Import List NArith Bool.
Import ListNotations.

Definition results := list (N * bool).

Fixpoint rlookup (rs : results) (p : N) : option bool :=
  match rs with
  | [] => None
  | (q, b) :: r => if N.eqb q p then Some b else rlookup r p
  end.

(* executor.compileLocked(ctx, file, explicitFile) *)
Definition compile_locked (rs : results) (pe : N * bool) : results :=
  match rlookup rs (fst pe) with
  | Some _ => rs
  | None => rs ++ [pe]
  end.

(* any sequence of compileLocked calls *)
Definition run_events (rs : results) (evs : list (N * bool)) : results := fold_left compile_locked evs rs.

(* Compile(files...): the request loop as one block under the lock, then the import requests of
   the running tasks in schedule order *)
Definition compile_run (req sched : list N) : results :=
  run_events (run_events [] (map (fun p => (p, true)) req)) (map (fun p => (p, false)) sched).

(* task.link: if t.r.explicitFile then file.CheckForUnusedImports *)
Definition checked_in (rs : results) (p : N) : bool :=
  match rlookup rs p with Some b => b | None => false end.
Definition ef_checked (req sched : list N) (p : N) : bool := checked_in (compile_run req sched) p.

Fixpoint memP (x : N) (l : list N) : bool :=
  match l with [] => false | y :: r => N.eqb y x || memP x r end.

(* ---- correspondence ---- *)
From PV Require Import Common.Corr.

(* one Compile call: request list, the imports reached (any order), the files whose warnings are
   known to be non-empty when ef_checked, and the files that did get unused-import warnings *)
Inductive ef_case := EC (req sched universe observed : list N).

Definition ef_chk (c : ef_case) : bool :=
  match c with
  | EC req sched universe observed =>
    forallb (fun p => Bool.eqb (ef_checked req sched p) (memP p observed)) universe
  end.
