(* Model of printer.emitBlockComment (experimental/ast/printer/printer.go) together with the way
   experimental/dom renders what it pushes: how format mode prints the TEXT of one block comment.

   A comment is a list of lines (the token text split at line feeds, as strings.Split does); a line
   is a list of bytes.  emitComment first trims spaces and tabs from the right end of the whole
   text, i.e. of the last line.  A comment of one line is pushed as it is.  Otherwise

   - verbatim (Formatting.NormalizeBlockComments = false, the Default preset): the minimum visual
     indentation (tabs go to 8-column stops) of the lines after the first that are not blank is
     removed from every line after the first, every line is trimmed on the right, and the lines are
     pushed as  Text(first) Text(LF) Text(l1) Text(LF) Text(l2) ...  An empty text pushes nothing
     and adjacent line-feed tags merge into the widest, so a line that became empty disappears;
   - normalised (NormalizeBlockComments = true, the Legacy preset): when every line that takes part
     starts (after white space) with the same punctuation character the lines become one space +
     the trimmed line and a stand-alone closing line becomes ` */` for the character `*`; otherwise
     the common indentation is removed and three spaces are put before every line.  Blank lines
     are kept through a counter of pending line feeds pushed as one tag.

   dom writes the indentation string of the enclosing dom.Indent tags (k spaces here) after the
   line feeds and before the next text, so every pushed non-empty line shows up as k spaces + line
   and the lines produced by pending line feeds stay empty.  emit_* below return the lines of the
   comment as they stand in the formatted output; the first line is preceded by whatever the
   context printed and is not the business of this function. *)
From Coq Require Import List NArith Bool Arith.
From PV Require Import Common.Corr.
Import ListNotations.

Definition line := list N.

Definition is_sp (c : N) : bool := (c =? 32)%N.
Definition is_tab (c : N) : bool := (c =? 9)%N.
Definition is_ws (c : N) : bool := is_sp c || is_tab c.

(* strings.TrimLeft(s, " \t") / strings.TrimRight(s, " \t") *)
Fixpoint trim_left (l : line) : line :=
  match l with
  | [] => []
  | c :: r => if is_ws c then trim_left r else l
  end.
Definition trim_right (l : line) : line := rev (trim_left (rev l)).

Definition is_nil {A} (l : list A) : bool := match l with [] => true | _ => false end.
Definition blank (l : line) : bool := is_nil (trim_left l).

(* the column after a tab at column pos *)
Definition tab_stop (pos : nat) : nat := pos + (8 - pos mod 8).

(* computeVisualIndent *)
Fixpoint vindent_from (pos : nat) (l : line) : nat :=
  match l with
  | [] => pos
  | c :: r => if is_sp c then vindent_from (S pos) r
              else if is_tab c then vindent_from (tab_stop pos) r
              else pos
  end.
Definition vindent (l : line) : nat := vindent_from 0 l.

Definition spaces (k : nat) : line := repeat 32%N k.

(* unindent: the loop body looks at pos before it looks at the character, and a line that is used
   up yields the empty string whatever pos is *)
Fixpoint unindent_from (pos n : nat) (l : line) : line :=
  match l with
  | [] => []
  | c :: r => if pos =? n then l
              else if n <? pos then spaces (pos - n) ++ l
              else if is_sp c then unindent_from (S pos) n r
              else if is_tab c then unindent_from (tab_stop pos) n r
              else l
  end.
Definition unindent (l : line) (n : nat) : line := unindent_from 0 n l.

Definition trim_last (ls : list line) : list line :=
  match rev ls with
  | [] => []
  | l :: r => rev (trim_right l :: r)
  end.

(* ---- verbatim *)
Fixpoint min_indent_v (ls : list line) : option nat :=
  match ls with
  | [] => None
  | l :: r => if blank l then min_indent_v r
              else match min_indent_v r with
                   | None => Some (vindent l)
                   | Some m => Some (Nat.min (vindent l) m)
                   end
  end.
Definition or0 (o : option nat) : nat := match o with Some m => m | None => 0 end.

Definition nonempty (l : line) : bool := negb (is_nil l).

Definition verbatim_rest (k : nat) (rest : list line) : list line :=
  let m := or0 (min_indent_v rest) in
  map (fun l => spaces k ++ l) (filter nonempty (map (fun l => trim_right (unindent l m)) rest)).

Definition emit_verbatim (k : nat) (ls : list line) : list line :=
  match trim_last ls with
  | [] => []
  | [l] => [l]
  | first :: rest => trim_right first :: verbatim_rest k rest
  end.

(* ---- normalised *)
Definition close_tok : line := [42; 47]%N.                 (* the two characters that close a comment *)
Definition line_eqb (a b : line) : bool := list_N_eqb a b.

Definition starts_close (l : line) : bool :=
  match l with
  | a :: b :: _ => (a =? 42)%N && (b =? 47)%N
  | _ => false
  end.
Definition standalone_close (last : line) : bool :=
  let t := trim_left last in starts_close t && line_eqb (trim_right t) close_tok.

Definition is_alnum (c : N) : bool :=
  ((97 <=? c) && (c <=? 122) || (65 <=? c) && (c <=? 90) || (48 <=? c) && (c <=? 57))%N.
Definition is_comment_prefix (c : N) : bool := ((33 <=? c) && (c <=? 126))%N && negb (is_alnum c).

(* the first loop: minimum indentation (None = still -1) and the prefix character (0 = none) with
   its been-set flag, over the lines after the first that are neither blank nor exactly the closer *)
Record scan_st := mkScan { s_min : option nat; s_pfx : N; s_set : bool }.
Definition scan_step (st : scan_st) (l : line) : scan_st :=
  let t := trim_left l in
  if is_nil t || line_eqb t close_tok then st
  else
    let ind := vindent l in
    let m := match s_min st with None => Some ind | Some m => Some (Nat.min ind m) end in
    match t with
    | [] => st
    | ch :: _ =>
        if is_comment_prefix ch then
          if negb (s_set st) then mkScan m ch true
          else if negb (ch =? s_pfx st)%N then mkScan m 0%N (s_set st)
          else mkScan m (s_pfx st) (s_set st)
        else mkScan m 0%N (s_set st)
    end.
Definition scan (rest : list line) : scan_st := fold_left scan_step rest (mkScan None 0%N false).

(* the second loop: what a line pushes - nothing but one more pending line feed, or a content *)
Definition norm_entry (pfx : N) (m : nat) (l : line) : option line :=
  let t := trim_left l in
  if is_nil t then None
  else if negb (pfx =? 0)%N then Some (32%N :: trim_right t)
  else let x := trim_right (unindent l m) in
       if is_nil x then None else Some (32 :: 32 :: 32 :: x)%N.

(* dom: pending line feeds before a content become empty lines; pending line feeds that no content
   follows are never pushed *)
Fixpoint render (k : nat) (es : list (option line)) : list line :=
  match es with
  | [] => []
  | None :: r => match render k r with [] => [] | x => [] :: x end
  | Some c :: r => (spaces k ++ c) :: render k r
  end.

Definition norm_rest (k : nat) (rest : list line) : list line :=
  let sc := standalone_close (last rest []) in
  let st := scan rest in
  let m := or0 (s_min st) in
  let body := if sc then removelast rest else rest in
  let closing := if sc then [Some (if (s_pfx st =? 42)%N then 32 :: close_tok else close_tok)%N] else [] in
  render k (map (norm_entry (s_pfx st) m) body ++ closing).

Definition emit_norm (k : nat) (ls : list line) : list line :=
  match trim_last ls with
  | [] => []
  | [l] => [l]
  | first :: rest => trim_right first :: norm_rest k rest
  end.

Definition emit_comment (normalise : bool) (k : nat) (ls : list line) : list line :=
  if normalise then emit_norm k ls else emit_verbatim k ls.

(* ---- correspondence: one block comment of a source, the preset, the indentation of the line the
   comment starts on in the formatted output, and the lines of the comment in that output *)
Definition lines_eqb (a b : list line) : bool :=
  if list_eq_dec (list_eq_dec N.eq_dec) a b then true else false.

Inductive bc_case := BC (normalise : bool) (k : nat) (src : list line) (observed : list line).
Definition bc_chk (c : bc_case) : bool :=
  match c with BC nz k src obs => lines_eqb (emit_comment nz k src) obs end.
