(* Model of internal/toposort/toposort.go (property C41): Sorter.Sort and Sorter.push.

   Nodes and keys are natural numbers (Key = identity). A graph is an adjacency list: the children
   of node n are [nth n g []] (nodes beyond the list have no children); children are pushed in list
   order, as [for child := range dag(node)] does. The stack is kept top-first. The state map is a
   total function with default [Unsorted], as a Go map with byte zero value.

   The loop [for len(s.stack) > 0] runs on fuel; [sort] supplies 2 * edges + 3 per root and
   Proofs/Toposort.v shows that this never runs out ([TOutOfFuel] is a distinct result).
   The consumer is assumed to take every element (yield never returns false). *)
From Coq Require Import List Arith Bool Lia.
Import ListNotations.

Inductive mark := Unsorted | Walking | Sorted.
Definition marks := nat -> mark.
Definition set_mark (m : marks) (k : nat) (x : mark) : marks := fun j => if Nat.eqb j k then x else m j.

Definition graph := list (list nat).
Definition children (g : graph) (n : nat) : list nat := nth n g [].
Definition edges (g : graph) : nat := fold_right (fun l n => length l + n) 0 g.

(* the result of the whole sort: the yielded nodes, or the panic of push with the printed suffix
   of the stack (bottom-to-top from the last occurrence of the node) and the offending node *)
Inductive tres := TOk (out : list nat) | TPanic (suffix : list nat) (v : nat) | TOutOfFuel.

(* stack[prev:] where prev = LastIndexFunc(stack, key == k); stack is top-first here *)
Fixpoint upto_incl (k : nat) (stack : list nat) : list nat :=
  match stack with
  | [] => []
  | x :: r => if Nat.eqb x k then [x] else x :: upto_incl k r
  end.

Inductive push_res := Pushed (stack : list nat) | PPanic (suffix : list nat) (v : nat).

Definition push (m : marks) (stack : list nat) (v : nat) : push_res :=
  match m v with
  | Unsorted => Pushed (v :: stack)
  | Walking => PPanic (rev (upto_incl v stack)) v
  | Sorted => Pushed stack
  end.

Fixpoint push_all (m : marks) (stack : list nat) (cs : list nat) : push_res :=
  match cs with
  | [] => Pushed stack
  | c :: r => match push m stack c with
              | Pushed s' => push_all m s' r
              | PPanic s v => PPanic s v
              end
  end.

Inductive loop_res := LDone (m : marks) (out : list nat) | LPanic (suffix : list nat) (v : nat) | LOutOfFuel.

(* for len(s.stack) > 0 { ... }   out is kept in reverse (latest first) *)
Fixpoint loop (fuel : nat) (g : graph) (m : marks) (stack : list nat) (out : list nat) {struct fuel} : loop_res :=
  match fuel with
  | O => LOutOfFuel
  | S f =>
    match stack with
    | [] => LDone m out
    | node :: rest =>
      match m node with
      | Unsorted =>
        let m' := set_mark m node Walking in
        match push_all m' stack (children g node) with
        | PPanic s v => LPanic s v
        | Pushed stack' => loop f g m' stack' out
        end
      | Walking => loop f g (set_mark m node Sorted) rest (node :: out)
      | Sorted => loop f g m rest out
      end
    end
  end.

(* for _, root := range roots { s.push(root); for len(s.stack) > 0 {...} } *)
Fixpoint sort_roots (fuel : nat) (g : graph) (m : marks) (out : list nat) (roots : list nat) : tres :=
  match roots with
  | [] => TOk (rev out)
  | r :: rs =>
    match push m [] r with
    | PPanic s v => TPanic s v
    | Pushed st =>
      match loop fuel g m st out with
      | LOutOfFuel => TOutOfFuel
      | LPanic s v => TPanic s v
      | LDone m' out' => sort_roots fuel g m' out' rs
      end
    end
  end.

Definition sort_fuel (g : graph) : nat := 2 * edges g + 3.
Definition sort (g : graph) (roots : list nat) : tres :=
  sort_roots (sort_fuel g) g (fun _ => Unsorted) [] roots.

(* ---- the Sorter as a reusable object: state that survives between uses, consumers that stop early ----
   A Sorter keeps its mark map and its stack between calls. One use = one iteration of the iter.Seq
   returned by Sorter.Sort: the loop starts from the marks and the stack the Sorter holds, the
   consumer may stop after [lim] elements (yield returns false: the function returns at once), and
   the deferred function [clear(s.state); clear(s.stack); s.stack = s.stack[:0]] runs on every way
   out - normal return, early return, panic. The iterating flag (re-entrant use) is not modelled. *)
Record sorter := mkSorter { s_marks : marks; s_stack : list nat }.
Definition sorter_init : sorter := mkSorter (fun _ => Unsorted) [].

(* what the consumer observed: all elements / it stopped after these / these, then the panic *)
Inductive use_res :=
| UDone (out : list nat) | UStopped (out : list nat) | UPanic (out : list nat) (suffix : list nat) (v : nat) | UOutOfFuel.

(* lim = None: take everything; Some k: the consumer breaks on receiving its k-th element *)
Definition lim_next (lim : option nat) : option (option nat) :=
  match lim with
  | None => Some None
  | Some k => if k <=? 1 then None else Some (Some (k - 1))
  end.

Inductive lloop_res :=
| LLDone (m : marks) (out : list nat) (lim : option nat) | LLStopped (out : list nat)
| LLPanic (out : list nat) (suffix : list nat) (v : nat) | LLOutOfFuel.

Fixpoint loop_lim (fuel : nat) (g : graph) (m : marks) (stack : list nat) (out : list nat) (lim : option nat)
  {struct fuel} : lloop_res :=
  match fuel with
  | O => LLOutOfFuel
  | S f =>
    match stack with
    | [] => LLDone m out lim
    | node :: rest =>
      match m node with
      | Unsorted =>
        let m' := set_mark m node Walking in
        match push_all m' stack (children g node) with
        | PPanic s v => LLPanic out s v
        | Pushed stack' => loop_lim f g m' stack' out lim
        end
      | Walking =>
        match lim_next lim with             (* if !yield(node) { return } *)
        | None => LLStopped (node :: out)
        | Some lim' => loop_lim f g (set_mark m node Sorted) rest (node :: out) lim'
        end
      | Sorted => loop_lim f g m rest out lim
      end
    end
  end.

(* the range over roots; the first push goes onto whatever stack the Sorter holds *)
Fixpoint sort_roots_lim (fuel : nat) (g : graph) (m : marks) (stack : list nat) (out : list nat) (roots : list nat)
  (lim : option nat) : use_res :=
  match roots with
  | [] => UDone (rev out)
  | r :: rs =>
    match push m stack r with
    | PPanic s v => UPanic (rev out) s v
    | Pushed st =>
      match loop_lim fuel g m st out lim with
      | LLOutOfFuel => UOutOfFuel
      | LLPanic o s v => UPanic (rev o) s v
      | LLStopped o => UStopped (rev o)
      | LLDone m' out' lim' => sort_roots_lim fuel g m' [] out' rs lim'
      end
    end
  end.

(* one use of the Sorter: the observation, and the Sorter afterwards (the deferred reset) *)
Definition sorter_use (s : sorter) (g : graph) (roots : list nat) (lim : option nat) : use_res * sorter :=
  (sort_roots_lim (sort_fuel g + 2 * length (s_stack s)) g (s_marks s) (s_stack s) [] roots lim, sorter_init).

Fixpoint sorter_history (s : sorter) (g : graph) (uses : list (list nat * option nat)) : list use_res :=
  match uses with
  | [] => []
  | (roots, lim) :: r => let (o, s') := sorter_use s g roots lim in o :: sorter_history s' g r
  end.

(* cutting a complete observation after k elements *)
Definition cut (k : nat) (u : use_res) : use_res :=
  match u with
  | UDone o => if k <=? length o then UStopped (firstn k o) else UDone o
  | UPanic o s v => if k <=? length o then UStopped (firstn k o) else UPanic o s v
  | other => other
  end.

(* ---- specification vocabulary (used by Props/C41.v) ---- *)
Definition edge (g : graph) (a b : nat) : Prop := In b (children g a).
(* reachable from the roots by zero or more edges *)
Inductive reach (g : graph) (roots : list nat) : nat -> Prop :=
| reach_root r : In r roots -> reach g roots r
| reach_step a b : reach g roots a -> edge g a b -> reach g roots b.
(* one or more edges *)
Inductive path (g : graph) : nat -> nat -> Prop :=
| path_one a b : edge g a b -> path g a b
| path_cons a b c : edge g a b -> path g b c -> path g a c.
Definition reachable_cycle (g : graph) (roots : list nat) : Prop := exists v, reach g roots v /\ path g v v.
(* a occurs strictly before b *)
Definition before (l : list nat) (a b : nat) : Prop := exists l1 l2 l3, l = l1 ++ a :: l2 ++ b :: l3.

(* ---- correspondence ---- *)
From PV Require Import Common.Corr.
Definition list_nat_eqb (a b : list nat) : bool := if list_eq_dec Nat.eq_dec a b then true else false.

Inductive topo_case :=
| CTOk (g : graph) (roots : list nat) (out : list nat)                       (* yielded out *)
| CTPanic (g : graph) (roots : list nat) (suffix : list nat) (v : nat)       (* panicked: cycle detected: suffix -> v *)
| CTOther (g : graph) (roots : list nat).                                    (* any other behaviour *)

Definition topo_chk (c : topo_case) : bool :=
  match c with
  | CTOk g roots out => match sort g roots with TOk o => list_nat_eqb o out | _ => false end
  | CTPanic g roots s v => match sort g roots with
                           | TPanic s' v' => list_nat_eqb s' s && Nat.eqb v' v
                           | _ => false
                           end
  | CTOther _ _ => false
  end.

(* a history of uses of ONE Sorter on one graph: per use the roots, how many elements the consumer took
   (0 = all) and what it observed: kind 0 = completed, 1 = stopped, 2 = cycle panic (suffix, v), 3 = other *)
Inductive hist_case :=
| CTHist (g : graph) (uses : list (list nat * nat * (nat * list nat * list nat * nat))).

Definition use_eqb (u : use_res) (o : nat * list nat * list nat * nat) : bool :=
  let '(kind, out, s, v) := o in
  match u with
  | UDone x => Nat.eqb kind 0 && list_nat_eqb x out
  | UStopped x => Nat.eqb kind 1 && list_nat_eqb x out
  | UPanic x s' v' => Nat.eqb kind 2 && list_nat_eqb x out && list_nat_eqb s' s && Nat.eqb v' v
  | UOutOfFuel => false
  end.

Fixpoint uses_eqb (us : list use_res) (os : list (nat * list nat * list nat * nat)) : bool :=
  match us, os with
  | [], [] => true
  | u :: r, o :: q => use_eqb u o && uses_eqb r q
  | _, _ => false
  end.

Definition hist_chk (c : hist_case) : bool :=
  match c with
  | CTHist g uses =>
    uses_eqb (sorter_history sorter_init g (map (fun u => let '(roots, k, _) := u in (roots, if Nat.eqb k 0 then None else Some k)) uses))
             (map (fun u => snd u) uses)
  end.
