(* Model of parser/fastscan: the scanner's own streaming lexer (lexer.go: Lex, readNumber,
   readIdentifier, readStringLiteral, the two comment skippers, the byte order mark) and the token
   loop of fastscan.Scan (fastscan.go: current import / package accumulation, the public, weak and
   option modifiers, the stack of open brackets, declarationStart).  The model follows the Go code
   branch by branch, as it is.  Runes are decoded with the model of utf8.DecodeRune (Model/Utf8.v),
   which is what bufio.Reader.ReadRune does on the buffered bytes; an unread rune is modelled by
   not consuming it (the Go code never holds more than one unread rune and never unreads after a
   failed read).  Comments, identifiers, numbers and white space are scanned byte-wise, which is
   equivalent because every byte they test for is ASCII and no byte of a multi-byte sequence is.
   The character classes, read_number, simple_esc, strip_bom and digits_val are those of the model
   of the full lexer (Model/Lexer.v): the two Go files use the same expressions there.
   Line and column bookkeeping (adjustPos) only feeds error positions and is not modelled.
   Definitions only; proofs are in Proofs/FastScan.v. *)
From Coq Require Import List NArith ZArith Bool.
From PV Require Import Common.Bytes Model.Utf8 Model.Lexer.
Import ListNotations.
Open Scope N_scope.

(* ---- tokens: the type is the Go tokenType as a number ---- *)
Definition t_eof : N := 0.
Definition t_string : N := 65537.     (* iota + 65536 with iota = 1 *)
Definition t_number : N := 65538.
Definition t_ident : N := 65539.
(* every other token has its rune as type: tokenType(c) *)

Record ftok := { ft_ty : N; ft_text : list N }.
Definition mkt (ty : N) (text : list N) : ftok := {| ft_ty := ty; ft_text := text |}.

(* ---- strconv.ParseInt(string(runes), base, 32) for base 8 or 16; None = it returns an error.
   One optional sign, then at least one digit of the base, nothing else (an underscore is only
   legal for base 0); ParseUint's range check for 32 bits, then ParseInt's own cutoff 2^31. *)
Definition parse_int_32 (base : N) (rs : list N) : option Z :=
  match rs with
  | [] => None
  | c :: r =>
    let '(neg, ds) := if c =? 43 then (false, r) else if c =? 45 then (true, r) else (false, rs) in
    if Nat.ltb 0 (length ds) && forallb (fun d => is_hexdigit d && (hexval d <? base)) ds then
      let v := digits_val base ds in
      if 4294967296 <=? v then None
      else if negb neg && (2147483648 <=? v) then None
      else if neg && (2147483648 <? v) then None
      else Some (if neg then (- Z.of_N v)%Z else Z.of_N v)
    else None
  end.

(* byte(i) for an int64 i *)
Definition byte_of_z (i : Z) : N := Z.to_N (i mod 256).

(* bytes.Buffer.WriteRune(rune(i)): a negative rune is written as U+FFFD *)
Definition enc_rune_z (i : Z) : list N :=
  if (i <? 0)%Z then [239; 191; 189] else encode_rune (Z.to_N i).

(* string(runes) / WriteRune of each: the UTF-8 text of a rune slice *)
Definition enc_runes (rs : list N) : list N := flat_map encode_rune rs.

(* reads up to k runes whatever they are: (runes read, bytes consumed); fewer than k = input ended *)
Fixpoint fread_runes (k : nat) (rest : list N) : list N * nat :=
  match k with
  | O => ([], O)
  | S k' =>
    match rest with
    | [] => ([], O)
    | _ =>
      let '(c, sz) := decode_rune rest in
      let '(rs, n) := fread_runes k' (skipn sz rest) in
      (c :: rs, (sz + n)%nat)
    end
  end.

(* ---- readStringLiteral: one iteration of its loop ---- *)
Inductive fstep :=
| FStop (chunk : list N) (rest : list N)     (* the loop is left: bytes appended, remaining input *)
| FCont (chunk : list N) (rest : list N).    (* next iteration *)

(* the end of the octal case: ParseInt(octal, 8, 32), error or above 0xff keeps the escape raw *)
Definition oct_emit (ds : list N) (rest : list N) : fstep :=
  match parse_int_32 8 ds with
  | Some i => if (255 <? i)%Z then FCont (92 :: enc_runes ds) rest else FCont [byte_of_z i] rest
  | None => FCont (92 :: enc_runes ds) rest
  end.

(* ---- the integer parser applied to the digits of hex and unicode escapes ----
   hex_signed: strconv.ParseInt(s, 16, 32), the tree as it is (a sign is accepted);
   hex_unsigned: strconv.ParseUint(s, 16, 32), the tree after the optional hardening patch
   (fixes/C25-fastscan-signed-escapes-optional.diff).  The lexer below is parametrised by it. *)
Definition hex_signed : list N -> option Z := parse_int_32 16.
Definition hex_unsigned (rs : list N) : option Z := option_map Z.of_N (parse_uint16_32 rs).

Section WithHexParser.
Variable ph : list N -> option Z.

(* the unicode cases: k runes are read unconditionally into u (zero-filled).  When the input ends
   inside, the reading loop writes the escape read so far and stops, and the code after the loop
   still parses the zero-padded u and writes it raw once more. *)
Definition uni_emit (k : nat) (e : N) (long : bool) (r2 : list N) : fstep :=
  let '(rs, n) := fread_runes k r2 in
  let r3 := skipn n r2 in
  let u := rs ++ repeat 0 (k - length rs) in
  let pre := if Nat.ltb (length rs) k then 92 :: e :: enc_runes rs else [] in
  match ph u with
  | Some i =>
    if long && ((1114111 <? i) || (i <? 0))%Z then FCont (pre ++ 92 :: e :: enc_runes u) r3
    else FCont (pre ++ enc_rune_z i) r3
  | None => FCont (pre ++ 92 :: e :: enc_runes u) r3
  end.

Definition fstr_step (quote : N) (rest : list N) : fstep :=
  match rest with
  | [] => FStop [] []
  | _ =>
    let '(c, sz) := decode_rune rest in
    let r1 := skipn sz rest in
    if c =? quote then FStop [] r1
    else if negb (c =? 92) then FCont (encode_rune c) r1
    else
      match r1 with
      | [] => FStop [92] []
      | _ =>
        let '(e, esz) := decode_rune r1 in
        let r2 := skipn esz r1 in
        if (e =? 120) || (e =? 88) then
          match r2 with
          | [] => FCont (92 :: encode_rune e) []
          | _ =>
            let '(c1, sz1) := decode_rune r2 in
            let r3 := skipn sz1 r2 in
            match r3 with
            | [] => FCont (92 :: encode_rune e ++ encode_rune c1) []
            | _ =>
              let '(c2, sz2) := decode_rune r3 in
              let '(hex, r4) := if is_hexdigit c2 then ([c1; c2], skipn sz2 r3) else ([c1], r3) in
              match ph hex with
              | Some i => FCont [byte_of_z i] r4
              | None => FCont (92 :: encode_rune e ++ enc_runes hex) r4
              end
            end
          end
        else if is_octdigit e then
          match r2 with
          | [] => FCont (92 :: encode_rune e) []
          | _ =>
            let '(c2, sz2) := decode_rune r2 in
            if negb (is_octdigit c2) then oct_emit [e] r2
            else
              let r3 := skipn sz2 r2 in
              match r3 with
              | [] => FCont (92 :: encode_rune e ++ encode_rune c2) []
              | _ =>
                let '(c3, sz3) := decode_rune r3 in
                if negb (is_octdigit c3) then oct_emit [e; c2] r3
                else oct_emit [e; c2; c3] (skipn sz3 r3)
              end
          end
        else if e =? 117 then uni_emit 4 117 false r2
        else if e =? 85 then uni_emit 8 85 true r2
        else match simple_esc e with
             | Some b => FCont [b] r2
             | None => FCont (92 :: encode_rune e) r2
             end
      end
  end.

(* the loop; None = out of fuel (Proofs/FastScan.v: S (length rest) always suffices).
   Result: the literal's value and the input after it. *)
Fixpoint fstring (fuel : nat) (quote : N) (rest : list N) : option (list N * list N) :=
  match fuel with
  | O => None
  | S f =>
    match fstr_step quote rest with
    | FStop chunk r => Some (chunk, r)
    | FCont chunk r =>
      match fstring f quote r with
      | Some (b, r') => Some (chunk ++ b, r')
      | None => None
      end
    end
  end.

(* ---- comments: what is left after them ---- *)
Fixpoint skip_line (rest : list N) : list N :=
  match rest with
  | [] => []
  | c :: r => if c =? 10 then r else skip_line r
  end.

Fixpoint skip_block (rest : list N) : list N :=
  match rest with
  | [] => []
  | c :: r =>
    if c =? 42 then
      match r with
      | [] => []
      | d :: r' => if d =? 47 then r' else skip_block r
      end
    else skip_block r
  end.

(* ---- Lex: what happens at a non-empty input whose first byte is not white space ---- *)
Inductive fdres :=
| FTok (t : ftok) (rest : list N)
| FSkip (rest : list N)                 (* a comment: Lex loops *)
| FFuel.

Definition fdispatch (rest : list N) : fdres :=
  let '(c, sz) := decode_rune rest in
  let r1 := skipn sz rest in
  if c =? 46 then
    match r1 with
    | [] => FTok (mkt 46 []) r1
    | d :: r2 =>
      if is_digit d then
        let n := (2 + read_number r2 false)%nat in FTok (mkt t_number (firstn n rest)) (skipn n rest)
      else FTok (mkt 46 []) r1
    end
  else if is_ident_start c then
    let n := (1 + span is_ident_char r1)%nat in FTok (mkt t_ident (firstn n rest)) (skipn n rest)
  else if is_digit c then
    let n := (1 + read_number r1 false)%nat in FTok (mkt t_number (firstn n rest)) (skipn n rest)
  else if (c =? 39) || (c =? 34) then
    match fstring (S (length r1)) c r1 with
    | Some (s, r') => FTok (mkt t_string s) r'
    | None => FFuel
    end
  else if c =? 47 then
    match r1 with
    | [] => FTok (mkt 47 []) r1
    | d :: r2 =>
      if d =? 47 then FSkip (skip_line r2)
      else if d =? 42 then FSkip (skip_block r2)
      else FTok (mkt 47 []) r1
    end
  else FTok (mkt c []) r1.

(* all tokens up to the end of the input; None = out of fuel.  (Scan stops at the first token of
   type 0, which a NUL character outside a literal also produces: see scan_loop.) *)
Fixpoint ftokens (fuel : nat) (rest : list N) : option (list ftok) :=
  match fuel with
  | O => None
  | S f =>
    match rest with
    | [] => Some []
    | c :: r =>
      if is_ws c then ftokens f r
      else match fdispatch rest with
           | FTok t r' => option_map (cons t) (ftokens f r')
           | FSkip r' => ftokens f r'
           | FFuel => None
           end
    end
  end.

Definition fast_lex (data : list N) : option (list ftok) :=
  let d := strip_bom data in ftokens (S (length d)) d.

End WithHexParser.

(* ---- Scan ---- *)
Record import := { im_path : list N; im_public : bool; im_weak : bool; im_option : bool }.

Inductive serr :=
| EExpectSemi          (* unexpected ..; expecting semicolon *)
| EExpectPath          (* unexpected ..; expecting import path string *)
| EPkgNoPeriod         (* package name should have a period between name components *)
| EPkgLeadingPeriod    (* package name should not begin with a period *)
| EPkgTwoPeriods       (* package name should not have two periods in a row *)
| EPkgEndPeriod        (* package name should not end with a period *)
| EExpectPkgName.      (* unexpected ..; expecting package name *)

Record sst := {
  s_imp : option (list (list N));     (* currentImport; None = nil *)
  s_pub : bool; s_wk : bool; s_opt : bool;
  s_pkgc : option (list (list N));    (* packageComponents; a period is the component [46] *)
  s_stack : list N;                   (* contextStack, top first: the closing symbols awaited *)
  s_dstart : bool;                    (* declarationStart *)
  s_pkg : list N;                     (* res.PackageName *)
  s_imports : list import;            (* res.Imports *)
  s_errs : list serr                  (* syntaxErrs, kinds only *)
}.

Definition st0 : sst :=
  {| s_imp := None; s_pub := false; s_wk := false; s_opt := false; s_pkgc := None; s_stack := [];
     s_dstart := true; s_pkg := []; s_imports := []; s_errs := [] |}.

Definition kw_import : list N := [105; 109; 112; 111; 114; 116].
Definition kw_package : list N := [112; 97; 99; 107; 97; 103; 101].
Definition kw_public : list N := [112; 117; 98; 108; 105; 99].
Definition kw_weak : list N := [119; 101; 97; 107].
Definition kw_option : list N := [111; 112; 116; 105; 111; 110].

Definition bytes_eqb (a b : list N) : bool := if list_eq_dec N.eq_dec a b then true else false.

Definition set_imp (st : sst) (i : option (list (list N))) : sst :=
  {| s_imp := i; s_pub := s_pub st; s_wk := s_wk st; s_opt := s_opt st; s_pkgc := s_pkgc st;
     s_stack := s_stack st; s_dstart := s_dstart st; s_pkg := s_pkg st; s_imports := s_imports st;
     s_errs := s_errs st |}.
Definition set_flags (st : sst) (p w o : bool) : sst :=
  {| s_imp := s_imp st; s_pub := p; s_wk := w; s_opt := o; s_pkgc := s_pkgc st;
     s_stack := s_stack st; s_dstart := s_dstart st; s_pkg := s_pkg st; s_imports := s_imports st;
     s_errs := s_errs st |}.
Definition set_pkgc (st : sst) (c : option (list (list N))) : sst :=
  {| s_imp := s_imp st; s_pub := s_pub st; s_wk := s_wk st; s_opt := s_opt st; s_pkgc := c;
     s_stack := s_stack st; s_dstart := s_dstart st; s_pkg := s_pkg st; s_imports := s_imports st;
     s_errs := s_errs st |}.
Definition set_stack (st : sst) (s : list N) : sst :=
  {| s_imp := s_imp st; s_pub := s_pub st; s_wk := s_wk st; s_opt := s_opt st; s_pkgc := s_pkgc st;
     s_stack := s; s_dstart := s_dstart st; s_pkg := s_pkg st; s_imports := s_imports st;
     s_errs := s_errs st |}.
Definition set_dstart (st : sst) (d : bool) : sst :=
  {| s_imp := s_imp st; s_pub := s_pub st; s_wk := s_wk st; s_opt := s_opt st; s_pkgc := s_pkgc st;
     s_stack := s_stack st; s_dstart := d; s_pkg := s_pkg st; s_imports := s_imports st;
     s_errs := s_errs st |}.
Definition set_pkg (st : sst) (p : list N) : sst :=
  {| s_imp := s_imp st; s_pub := s_pub st; s_wk := s_wk st; s_opt := s_opt st; s_pkgc := s_pkgc st;
     s_stack := s_stack st; s_dstart := s_dstart st; s_pkg := p; s_imports := s_imports st;
     s_errs := s_errs st |}.
Definition add_import (st : sst) (i : import) : sst :=
  {| s_imp := s_imp st; s_pub := s_pub st; s_wk := s_wk st; s_opt := s_opt st; s_pkgc := s_pkgc st;
     s_stack := s_stack st; s_dstart := s_dstart st; s_pkg := s_pkg st; s_imports := s_imports st ++ [i];
     s_errs := s_errs st |}.
Definition add_err (st : sst) (e : serr) : sst :=
  {| s_imp := s_imp st; s_pub := s_pub st; s_wk := s_wk st; s_opt := s_opt st; s_pkgc := s_pkgc st;
     s_stack := s_stack st; s_dstart := s_dstart st; s_pkg := s_pkg st; s_imports := s_imports st;
     s_errs := s_errs st ++ [e] |}.

(* if currentImport != nil { switch token ... } *)
Definition step_import (st : sst) (ty : N) (text : list N) : sst :=
  match s_imp st with
  | None => st
  | Some cur =>
    if ty =? t_string then set_imp st (Some (cur ++ [text]))
    else if (ty =? t_ident) && Nat.eqb (length cur) 0 &&
            (bytes_eqb text kw_public || bytes_eqb text kw_weak || bytes_eqb text kw_option)
    then set_flags st (bytes_eqb text kw_public) (bytes_eqb text kw_weak) (bytes_eqb text kw_option)
    else
      let st1 :=
        if Nat.ltb 0 (length cur) then
          let st2 := if ty =? 59 then st else add_err st EExpectSemi in
          add_import st2 {| im_path := concat cur; im_public := s_pub st; im_weak := s_wk st;
                            im_option := s_opt st |}
        else add_err st EExpectPath in
      set_imp st1 None
  end.

Definition last_is_period (comps : list (list N)) : bool :=
  match rev comps with
  | l :: _ => bytes_eqb l [46]
  | [] => false
  end.

(* if packageComponents != nil { switch token ... } *)
Definition step_package (st : sst) (ty : N) (text : list N) : sst :=
  match s_pkgc st with
  | None => st
  | Some comps =>
    if ty =? t_ident then
      let st1 := if Nat.ltb 0 (length comps) && negb (last_is_period comps)
                 then add_err st EPkgNoPeriod else st in
      set_pkgc st1 (Some (comps ++ [text]))
    else if ty =? 46 then
      let st1 := if Nat.eqb (length comps) 0 then add_err st EPkgLeadingPeriod
                 else if last_is_period comps then add_err st EPkgTwoPeriods else st in
      set_pkgc st1 (Some (comps ++ [[46]]))
    else
      let st1 :=
        if Nat.ltb 0 (length comps) then
          let st2 := if ty =? 59 then st else add_err st EExpectSemi in
          let st3 := if last_is_period comps then add_err st2 EPkgEndPeriod else st2 in
          set_pkg st3 (concat comps)
        else add_err st EExpectPkgName in
      set_pkgc st1 None
  end.

Definition close_symbol (ty : N) : N :=
  if ty =? 40 then 41 else if ty =? 123 then 125 else if ty =? 91 then 93 else 62.
Definition is_open (ty : N) : bool := (ty =? 40) || (ty =? 123) || (ty =? 91) || (ty =? 60).
Definition is_close (ty : N) : bool := (ty =? 41) || (ty =? 125) || (ty =? 93) || (ty =? 62).

(* the last switch of the loop body, then declarationStart *)
Definition step_context (st : sst) (ty : N) (text : list N) : sst :=
  let st1 :=
    if is_open ty then set_stack st (close_symbol ty :: s_stack st)
    else if is_close ty then
      match s_stack st with
      | top :: below => if top =? ty then set_stack st below else st
      | [] => st
      end
    else if ty =? t_ident then
      if s_dstart st && Nat.eqb (length (s_stack st)) 0 then
        if bytes_eqb text kw_import then set_flags (set_imp st (Some [])) false false false
        else if bytes_eqb text kw_package then set_pkgc st (Some [])
        else st
      else st
    else st in
  set_dstart st1 ((ty =? 125) || (ty =? 59)).

Definition scan_step (st : sst) (t : ftok) : sst :=
  step_context (step_package (step_import st (ft_ty t) (ft_text t)) (ft_ty t) (ft_text t))
               (ft_ty t) (ft_text t).

(* the loop of Scan over the tokens Lex returns; a token of type 0 is the end *)
Fixpoint scan_loop (toks : list ftok) (st : sst) : sst :=
  match toks with
  | [] => st
  | t :: r => if ft_ty t =? t_eof then st else scan_loop r (scan_step st t)
  end.

Record scan_result := { r_pkg : list N; r_imports : list import; r_errs : list serr }.

Definition scan (toks : list ftok) : scan_result :=
  let st := scan_loop toks st0 in
  {| r_pkg := s_pkg st; r_imports := s_imports st; r_errs := s_errs st |}.

(* fastscan.Scan on the bytes of a file; None = out of fuel *)
Definition fast_scan (ph : list N -> option Z) (data : list N) : option scan_result :=
  option_map scan (fast_lex ph data).

(* ---- one string literal in both lexers (what Proofs/FastScan.v relates) ----
   The input is what follows the opening quote.  full_decode: the full lexer (Model/Lexer.v,
   scan_string as dispatch calls it) returns a string token: its value and the number of bytes
   consumed up to and including the closing quote; None = the full lexer reports an error. *)
Definition sstate0 : sstate := {| s_buf := []; s_pend := None; s_flushed := [] |}.

Definition full_decode (quote : N) (rest : list N) : option (list N * nat) :=
  match scan_string (S (length rest)) quote 1 rest sstate0 with
  | SDone endpos st =>
    match s_pend st with
    | None => Some (s_buf st, (endpos - 1)%nat)
    | Some _ => None
    end
  | _ => None
  end.

(* the fast lexer: value and remaining input; None = out of fuel *)
Definition fast_decode (ph : list N -> option Z) (quote : N) (rest : list N) : option (list N * list N) :=
  fstring ph (S (length rest)) quote rest.

(* ---- the tokens of the full lexer as the fast lexer should see them ----
   what one item of the full lexer (Model/Lexer.v) is for the scanner: comments and the EOF token
   are nothing, names and numbers are their raw text, a string is its decoded value, a symbol is
   its rune.  [rest] is the input from the item's offset on. *)
Definition ftok_local (rest : list N) (it : item) : option ftok :=
  match i_kind it with
  | IComment _ => None
  | IToken TEof => None
  | IToken TName => Some (mkt t_ident (firstn (i_len it) rest))
  | IToken (TInt _) => Some (mkt t_number (firstn (i_len it) rest))
  | IToken TFloat => Some (mkt t_number (firstn (i_len it) rest))
  | IToken (TStr s) => Some (mkt t_string s)
  | IToken (TRune c) => Some (mkt c [])
  end.

Definition ftok_of_item (d : list N) (it : item) : list ftok :=
  match ftok_local (skipn (i_off it) d) it with
  | Some t => [t]
  | None => []
  end.

Definition ftoks_of_items (d : list N) (items : list item) : list ftok :=
  flat_map (ftok_of_item d) items.

(* ---- the abstract top-level grammar of Proofs/FastScan.v: what a file is made of ---- *)
Inductive imod := MNone | MPublic | MWeak | MOption.

Inductive decl :=
| DImport (m : imod) (parts : list (list N))       (* import [public|weak|option] lit lit ... ; *)
| DPackage (comps : list (list N))                 (* package a . b . c ; *)
| DSyntax (edition : bool) (parts : list (list N)) (* syntax|edition = lit ... ; *)
| DOther (toks : list ftok).                       (* anything else, see wf_other *)

Definition tk_ident (s : list N) : ftok := mkt t_ident s.
Definition tk_str (s : list N) : ftok := mkt t_string s.
Definition tk_sym (c : N) : ftok := mkt c [].

Definition mod_tokens (m : imod) : list ftok :=
  match m with
  | MNone => []
  | MPublic => [tk_ident kw_public]
  | MWeak => [tk_ident kw_weak]
  | MOption => [tk_ident kw_option]
  end.

Fixpoint dotted (comps : list (list N)) : list ftok :=
  match comps with
  | [] => []
  | [c] => [tk_ident c]
  | c :: r => tk_ident c :: tk_sym 46 :: dotted r
  end.

Definition kw_syntax : list N := [115; 121; 110; 116; 97; 120].
Definition kw_edition : list N := [101; 100; 105; 116; 105; 111; 110].

Definition decl_tokens (d : decl) : list ftok :=
  match d with
  | DImport m parts => tk_ident kw_import :: mod_tokens m ++ map tk_str parts ++ [tk_sym 59]
  | DPackage comps => tk_ident kw_package :: dotted comps ++ [tk_sym 59]
  | DSyntax ed parts =>
    tk_ident (if ed then kw_edition else kw_syntax) :: tk_sym 61 :: map tk_str parts ++ [tk_sym 59]
  | DOther toks => toks
  end.

Definition tokens_of (ds : list decl) : list ftok := flat_map decl_tokens ds.

Definition import_of (m : imod) (parts : list (list N)) : import :=
  {| im_path := concat parts;
     im_public := match m with MPublic => true | _ => false end;
     im_weak := match m with MWeak => true | _ => false end;
     im_option := match m with MOption => true | _ => false end |}.

Fixpoint imports_of (ds : list decl) : list import :=
  match ds with
  | [] => []
  | DImport m parts :: r => import_of m parts :: imports_of r
  | _ :: r => imports_of r
  end.

Fixpoint join_dots (comps : list (list N)) : list N :=
  match comps with
  | [] => []
  | [c] => c
  | c :: r => c ++ 46 :: join_dots r
  end.

(* the package name of the last package declaration (the full parser's descriptor keeps the last
   one too, and reports more than one as an error), empty if there is none *)
Fixpoint package_of_from (acc : list N) (ds : list decl) : list N :=
  match ds with
  | [] => acc
  | DPackage comps :: r => package_of_from (join_dots comps) r
  | _ :: r => package_of_from acc r
  end.
Definition package_of (ds : list decl) : list N := package_of_from [] ds.

(* ---- correspondence: what the harness observed on fastscan.Scan and on the lexer hook ---- *)
From PV Require Import Common.Corr.

Definition serr_code (e : serr) : N :=
  match e with
  | EExpectSemi => 0 | EExpectPath => 1 | EPkgNoPeriod => 2 | EPkgLeadingPeriod => 3
  | EPkgTwoPeriods => 4 | EPkgEndPeriod => 5 | EExpectPkgName => 6
  end.

Definition import_eqb (a b : import) : bool :=
  list_N_eqb (im_path a) (im_path b) && Bool.eqb (im_public a) (im_public b) &&
  Bool.eqb (im_weak a) (im_weak b) && Bool.eqb (im_option a) (im_option b).

Fixpoint list_eqb {A} (eqb : A -> A -> bool) (a b : list A) : bool :=
  match a, b with
  | [], [] => true
  | x :: a', y :: b' => eqb x y && list_eqb eqb a' b'
  | _, _ => false
  end.

Definition ftok_eqb (a b : ftok) : bool := (ft_ty a =? ft_ty b) && list_N_eqb (ft_text a) (ft_text b).

(* the tokens Scan gets to see: up to the first one of type 0 *)
Fixpoint until_eof (toks : list ftok) : list ftok :=
  match toks with
  | [] => []
  | t :: r => if ft_ty t =? t_eof then [] else t :: until_eof r
  end.

Record fs_case := {
  fc_data : list N;
  fc_toks : option (list ftok);       (* token dump of the hook, when it was asked for *)
  fc_pkg : list N;
  fc_imports : list import;
  fc_errs : list N                    (* kinds of the syntax errors Scan returned, in order *)
}.

Definition fs_chk (ph : list N -> option Z) (c : fs_case) : bool :=
  match fast_lex ph (fc_data c) with
  | None => false
  | Some toks =>
    let r := scan toks in
    list_N_eqb (r_pkg r) (fc_pkg c) &&
    list_eqb import_eqb (r_imports r) (fc_imports c) &&
    list_N_eqb (map serr_code (r_errs r)) (fc_errs c) &&
    match fc_toks c with
    | None => true
    | Some obs => list_eqb ftok_eqb (until_eof toks) obs
    end
  end.
