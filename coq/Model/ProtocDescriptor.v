(* The declarative side of C02: what protoc puts into a descriptor, transcribed from protoc's
   documented algorithms (descriptor.cc ToJsonName / MapEntryName, parser.cc
   GenerateSyntheticOneofs) and the language specification.  Definitions only. *)
From Coq Require Import List NArith ZArith Bool.
From PV Require Import Model.MiniProto.
Import ListNotations.
Open Scope N_scope.

(* absl::ascii_toupper *)
Definition ascii_toupper (c : N) : N := if (97 <=? c) && (c <=? 122) then c - 32 else c.

(* the loop shared by ToJsonName and MapEntryName: an underscore is dropped and capitalises the
   next character; [cap] is capitalize_next *)
Fixpoint camel_from (cap : bool) (s : list N) : list N :=
  match s with
  | [] => []
  | c :: r =>
    if c =? 95 then camel_from true r
    else if cap then ascii_toupper c :: camel_from false r
    else c :: camel_from false r
  end.

(* ToJsonName: capitalize_next starts false *)
Definition to_json_name (s : list N) : list N := camel_from false s.

(* MapEntryName: cap_next starts true, then the suffix Entry *)
Definition map_entry_name (s : list N) : list N := camel_from true s ++ [69; 110; 116; 114; 121].

(* GenerateSyntheticOneofs: the field name, with an underscore in front unless it has one, and
   then as many X in front as it takes to leave the set of names *)
Definition synth_candidate (fname : name) : name :=
  match fname with
  | c :: _ => if c =? 95 then fname else 95 :: fname
  | [] => [95]
  end.

Fixpoint x_times (k : nat) (c : name) : name :=
  match k with O => c | S k' => 88 :: x_times k' c end.

(* [r] is the name protoc gives to the synthetic oneof of a field named [fname] when [names] are
   the names taken so far: the first of cand, Xcand, XXcand, ... that is not taken *)
Definition is_synth_name (names : list name) (fname r : name) : Prop :=
  exists k, r = x_times k (synth_candidate fname) /\ ~ In r names /\
            forall j, (j < k)%nat -> In (x_times j (synth_candidate fname)) names.
