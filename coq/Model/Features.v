(* C04 - feature sets and feature resolution.
   Mirrors internal/editions/editions.go (ResolveFeature, GetFeatureDefault, GetEditionDefaults),
   linker/descriptors.go resolveFeature and protoutil/editions.go ResolveFeature / resolveFeature,
   over the six core features of google.protobuf.FeatureSet. Definitions only.
   The edition-default tables live in Model/FeaturesTables.v, which checks/C04.py pregen rewrites from the
   protobuf module the repository is built against. *)
From Coq Require Import List NArith Bool.
From PV Require Import Model.FeaturesTables.
Import ListNotations.
Open Scope N_scope.

Inductive feature := FieldPresence | EnumType | RepeatedFieldEncoding | Utf8Validation | MessageEncoding | JsonFormat.

Definition all_features : list feature :=
  [FieldPresence; EnumType; RepeatedFieldEncoding; Utf8Validation; MessageEncoding; JsonFormat].

(* A FeatureSet message restricted to the six core features: None = the field is not set
   (msgRef.Has(field) = false), Some v = set to enum number v (0 = the *_UNKNOWN value is possible). *)
Record fset := mkfs {
  fs_fp : option N; fs_et : option N; fs_rfe : option N;
  fs_utf8 : option N; fs_me : option N; fs_jf : option N }.

Definition fs_empty : fset := mkfs None None None None None None.

Definition fs_get (s : fset) (f : feature) : option N :=
  match f with
  | FieldPresence => fs_fp s
  | EnumType => fs_et s
  | RepeatedFieldEncoding => fs_rfe s
  | Utf8Validation => fs_utf8 s
  | MessageEncoding => fs_me s
  | JsonFormat => fs_jf s
  end.

(* The element with its ancestors: the head is the element's own options.features, then Parent(),
   Parent().Parent(), ... and finally the file (whose Parent() is nil). Unbounded depth. *)
Inductive chain :=
| CFile (file_features : fset)
| CNest (own : fset) (parent : chain).

Definition chain_head (c : chain) : fset := match c with CFile s => s | CNest s _ => s end.

Fixpoint levels (c : chain) : list fset :=
  match c with
  | CFile s => [s]
  | CNest s p => s :: levels p
  end.

Fixpoint chain_depth (c : chain) : nat := match c with CFile _ => O | CNest _ p => S (chain_depth p) end.

(* editions.ResolveFeature(element, field): the loop
     for { if element's features has the field -> return it; parent := element.Parent();
           if parent == nil -> return invalid; element = parent }
   None = the invalid protoreflect.Value. *)
Fixpoint resolve_chain (c : chain) (f : feature) : option N :=
  match c with
  | CFile s => fs_get s f
  | CNest s p => match fs_get s f with
                 | Some v => Some v
                 | None => resolve_chain p f
                 end
  end.

(* ---- edition defaults as the code computes them ---- *)
Definition code_defaults_src (f : feature) : list (N * N) :=
  match f with
  | FieldPresence => code_defaults_field_presence
  | EnumType => code_defaults_enum_type
  | RepeatedFieldEncoding => code_defaults_repeated_field_encoding
  | Utf8Validation => code_defaults_utf8_validation
  | MessageEncoding => code_defaults_message_encoding
  | JsonFormat => code_defaults_json_format
  end.

(* editions.GetFeatureDefault: the loop over opts.EditionDefaults
     if def.Edition <= edition && def.Edition > maxEdition { maxEdition = def.Edition; maxVal = def.Value }
   with maxEdition starting at -1 (here None); None at the end = the error no relevant default. *)
Fixpoint feature_default_loop (defs : list (N * N)) (edition : N) (best : option (N * N)) : option (N * N) :=
  match defs with
  | [] => best
  | (e, v) :: r =>
    let better := match best with None => true | Some (me, _) => me <? e end in
    if (e <=? edition) && better then feature_default_loop r edition (Some (e, v))
    else feature_default_loop r edition best
  end.

Definition get_feature_default (edition : N) (f : feature) : option N :=
  match feature_default_loop (code_defaults_src f) edition None with
  | Some (_, v) => Some v
  | None => None
  end.

Definition N_mem (x : N) (l : list N) : bool := existsb (N.eqb x) l.

(* editions.GetEditionDefaults(edition).ProtoReflect().Get(feature): the cached message only has the
   features whose default could be computed, for the editions of descriptorpb.Edition_name; a missing
   message or a missing field reads as the zero enum value. *)
Definition edition_default (edition : N) (f : feature) : N :=
  if N_mem edition known_editions then
    match get_feature_default edition f with Some v => v | None => 0 end
  else 0.

(* linker/descriptors.go resolveFeature (and protoutil.ResolveFeature, which differs only in computing
   the default first): proto2 and proto3 short-circuit to the defaults. *)
Definition resolve_feature (edition : N) (c : chain) (f : feature) : N :=
  if (edition =? ED_PROTO2) || (edition =? ED_PROTO3) then edition_default edition f
  else match resolve_chain c f with
       | Some v => v
       | None => edition_default edition f
       end.

(* protoutil.ResolveFeature returns an error (no value) when GetFeatureDefault fails; otherwise the same. *)
Definition protoutil_resolve_feature (edition : N) (c : chain) (f : feature) : option N :=
  match get_feature_default edition f with
  | None => None
  | Some d =>
    if (edition =? ED_PROTO2) || (edition =? ED_PROTO3) then Some d
    else match resolve_chain c f with
         | Some v => Some v
         | None => Some d
         end
  end.

(* the syntaxes a compiled file can have, as editions.GetEdition reports them *)
Definition supported_edition (e : N) : bool := (e =? ED_PROTO2) || (e =? ED_PROTO3) || (e =? ED_2023).
Definition is_editions (e : N) : bool := negb ((e =? ED_PROTO2) || (e =? ED_PROTO3)).

(* no level of the chain sets any feature: what the compiler enforces for proto2 / proto3 files *)
Definition fs_is_empty (s : fset) : bool :=
  match s with
  | mkfs None None None None None None => true
  | _ => false
  end.
Definition chain_empty (c : chain) : bool := forallb fs_is_empty (levels c).
