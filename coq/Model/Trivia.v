(* Model of the trivia index of the experimental AST printer
   (experimental/ast/printer/trivia.go: buildTriviaIndex, walkScope, walkDecl, walkFused,
   splitDetached, nextNonSkippableIsSemi) and of the round-trip replay of that index
   (printer.go: printTokenAs / emitTrivia / emitTriviaSlot in non-format mode, PrintFile, Print).
   Definitions only; proofs are in Proofs/Trivia.v.

   What is mirrored and what is abstracted
   - The token stream is a tree: leaf tokens and fused pairs (brackets, and implicitly concatenated
     strings) with their children.  token.Cursor is modelled by the list of the tokens that remain
     in the scope.  The Go code pushes tokens it has read back with cursor.PrevSkippable and the
     caller (walkScope) reads them again into its pending list; the model hands these tokens to
     walkScope directly (field r_pushed).  One artefact of the real cursor is kept: a fused token
     that is read right after it was pushed back is yielded as its CLOSE token, so walkScope
     registers the leading trivia under the close id (flag r_cv, repaired when fix_cv is set).
   - The two maps are association lists with Go map semantics (a later write replaces).
   - The replay is driven by the token tree and by the walker's own segmentation into
     declarations (ghost field d_starts); the AST-driven order of printer.go / decl.go / expr.go
     is not modelled.  Inside the file the pushed chunks are taken verbatim; the dom layer is
     modelled only for the last chunk of the file and the safeguard newline (finish_file).

   The record cfg selects the code as it is (cfg_asis) or the repaired code
   (fixes/C30-roundtrip-verbatim.diff): fix_keep_ws = walkDecl pushes whitespace at the end of a
   scope back instead of discarding it, fix_cv = walkScope maps a token to its open token,
   fix_eof = PrintFile in round-trip mode appends the trailing trivia verbatim and adds no newline,
   fix_decl_tail = Print appends the trailing trivia of the declaration verbatim. *)
From Coq Require Import List NArith Bool Arith.
Import ListNotations.
Open Scope N_scope.

(* ---- tokens ---- *)
Inductive cls :=
| CSpace      (* token.Space without a newline *)
| CNewline    (* token.Space containing a newline *)
| CLine       (* // comment *)
| CBlock      (* block comment *)
| CUnrec      (* token.Unrecognized: skippable, neither space nor comment *)
| CSemi | CComma | CAssign | COther.

Inductive brk := BParens | BBrackets | BBraces | BAngles | BOther.

Inductive tok :=
| Leaf (id : N) (c : cls) (text : list N)
| Fused (ido idc : N) (b : brk) (otext ctext : list N) (ch : list tok).

Definition cls_eqb (a b : cls) : bool :=
  match a, b with
  | CSpace, CSpace | CNewline, CNewline | CLine, CLine | CBlock, CBlock | CUnrec, CUnrec
  | CSemi, CSemi | CComma, CComma | CAssign, CAssign | COther, COther => true
  | _, _ => false
  end.

Definition is_cls (c : cls) (t : tok) : bool :=
  match t with Leaf _ c' _ => cls_eqb c c' | Fused _ _ _ _ _ _ => false end.

Definition skippable (t : tok) : bool :=
  is_cls CSpace t || is_cls CNewline t || is_cls CLine t || is_cls CBlock t || is_cls CUnrec t.
Definition is_space_kind (t : tok) : bool := is_cls CSpace t || is_cls CNewline t.
Definition has_nl (t : tok) : bool := is_cls CNewline t.
Definition is_comment (t : tok) : bool := is_cls CLine t || is_cls CBlock t.
Definition is_braces (t : tok) : bool :=
  match t with Fused _ _ BBraces _ _ _ => true | _ => false end.
Definition is_fused (t : tok) : bool :=
  match t with Fused _ _ _ _ _ _ => true | _ => false end.

Definition open_id (t : tok) : N := match t with Leaf i _ _ => i | Fused i _ _ _ _ _ => i end.
Definition close_id (t : tok) : N := match t with Leaf i _ _ => i | Fused _ i _ _ _ _ => i end.
Definition leaf_text (t : tok) : list N :=
  match t with Leaf _ _ x => x | Fused _ _ _ x _ _ => x end.
Definition text_of (l : list tok) : list N := flat_map leaf_text l.
Definition ids_of (l : list tok) : list N := map open_id l.

Definition nonempty {A} (l : list A) : bool := match l with [] => false | _ => true end.

(* ---- helpers of trivia.go ---- *)
Fixpoint first_newline_index (l : list tok) : nat :=
  match l with
  | [] => O
  | t :: r => if has_nl t then O else S (first_newline_index r)
  end.

Definition slice_has_comment (l : list tok) : bool := existsb is_comment l.

(* splitDetached: scan from the end; rt is the reversed slice, idx the index of its head *)
Fixpoint sd_scan (rt : list tok) (idx : nat) (lbe : option nat) : option nat :=
  match rt with
  | [] => lbe
  | t :: r =>
    if negb (is_space_kind t) then sd_scan r (pred idx) None
    else if has_nl t then
      match lbe with
      | Some _ => lbe
      | None => sd_scan r (pred idx) (Some idx)
      end
    else sd_scan r (pred idx) lbe
  end.

Definition split_detached (l : list tok) : list tok * list tok :=
  match sd_scan (rev l) (pred (length l)) None with
  | None => ([], l)
  | Some k => (firstn k l, skipn k l)
  end.

(* the skippable prefix of the remaining tokens, and what follows it *)
Fixpoint gather (l : list tok) : list tok * list tok :=
  match l with
  | [] => ([], [])
  | t :: r => if skippable t then let '(a, b) := gather r in (t :: a, b) else ([], l)
  end.

(* nextNonSkippableIsSemi *)
Definition next_nonskip_is_semi (rest : list tok) : bool :=
  match snd (gather rest) with
  | t :: _ => is_cls CSemi t
  | [] => false
  end.

(* ---- the index ---- *)
Record att := mkAtt { a_lead : list tok; a_trail : list tok }.
Record det := mkDet { d_slots : list (list tok); d_bb : list bool; d_bbc : bool;
                      d_starts : list N (* ghost: the id under which each declaration start was registered *) }.
Record index := mkIdx { i_att : list (N * att); i_det : list (N * det) }.

Definition empty_index : index := mkIdx [] [].

Fixpoint alookup {A} (k : N) (m : list (N * A)) : option A :=
  match m with
  | [] => None
  | (k', v) :: r => if k =? k' then Some v else alookup k r
  end.

Fixpoint aset {A} (k : N) (v : A) (m : list (N * A)) : list (N * A) :=
  match m with
  | [] => [(k, v)]
  | (k', v') :: r => if k =? k' then (k, v) :: r else (k', v') :: aset k v r
  end.

(* idx.attached[id] = attachedTrivia{leading: l} *)
Definition set_leading (id : N) (l : list tok) (ix : index) : index :=
  mkIdx (aset id (mkAtt l []) (i_att ix)) (i_det ix).

(* att := idx.attached[id]; att.trailing = tr; idx.attached[id] = att *)
Definition set_trailing (id : N) (tr : list tok) (ix : index) : index :=
  let old := match alookup id (i_att ix) with Some a => a | None => mkAtt [] [] end in
  mkIdx (aset id (mkAtt (a_lead old) tr) (i_att ix)) (i_det ix).

Definition set_trailing_if (id : N) (tr : list tok) (ix : index) : index :=
  if nonempty tr then set_trailing id tr ix else ix.

Definition set_det (id : N) (d : det) (ix : index) : index :=
  mkIdx (i_att ix) (aset id d (i_det ix)).

Definition get_det (id : N) (ix : index) : det :=
  match alookup id (i_det ix) with Some d => d | None => mkDet [] [] false [] end.

(* ---- configuration: the code as it is / repaired ---- *)
Record cfg := mkCfg { fix_keep_ws : bool; fix_cv : bool; fix_eof : bool; fix_decl_tail : bool }.
Definition cfg_asis : cfg := mkCfg false false false false.
(* fixes/C30-final-newline.diff alone *)
Definition cfg_eof_only : cfg := mkCfg false false true false.
(* fixes/C30-roundtrip-verbatim.diff *)
Definition cfg_fixed : cfg := mkCfg true true true true.

(* ---- walkDecl: the loop that collects the trailing trivia of a declaration ---- *)
Inductive tstop :=
| TEnd                              (* the scope is exhausted: atEndOfScope stays true *)
| TStopInline (rest : list tok)     (* something that is not space/comment on the same line *)
| TStopAfterNl (rest : list tok).   (* a comment or a token after a newline *)

Fixpoint trail_loop (rest : list tok) (afterNl : bool) (acc : list tok) : list tok * bool * tstop :=
  match rest with
  | [] => (acc, afterNl, TEnd)
  | t :: r =>
    let isNl := is_cls CNewline t in
    let isSp := is_cls CSpace t in
    let isC := is_comment t in
    if negb afterNl && negb isNl && negb isSp && negb isC then (acc, afterNl, TStopInline rest)
    else if afterNl && negb isNl && negb isSp then (acc, afterNl, TStopAfterNl rest)
    else trail_loop r (afterNl || isNl) (acc ++ [t])
  end.

Record dres := mkDres { r_idx : index; r_blank : bool; r_pushed : list tok; r_rest : list tok; r_cv : bool }.

Definition head_is_fused (l : list tok) : bool :=
  match l with t :: _ => is_fused t | [] => false end.

(* everything walkDecl does after its main loop; pending is what the main loop had collected when
   the scope ran out (it is empty whenever the loop stopped at a declaration boundary) *)
Definition decl_finish (cf : cfg) (ix : index) (endId : N) (endSemi : bool)
           (pending rest : list tok) : dres :=
  let '(trailing0, afterNl, stop) := trail_loop rest false [] in
  match stop with
  | TStopInline rest' =>
    mkDres (set_trailing_if endId trailing0 ix) false [] rest' (head_is_fused rest')
  | TStopAfterNl rest' =>
    let fn := first_newline_index trailing0 in
    let '(d, a) := split_detached (skipn fn trailing0) in
    mkDres (set_trailing_if endId (firstn (fn + length d)%nat trailing0) ix)
           (nonempty d) a rest' false
  | TEnd =>
    if nonempty pending && negb (nonempty trailing0) then
      (* leftover pending of the main loop: inline comments become trailing on the end token *)
      let fn := first_newline_index pending in
      let inl := firstn fn pending in
      let hasC := slice_has_comment inl in
      let trailing := if hasC then inl else [] in
      let fn' := if fix_keep_ws cf && negb hasC then O else fn in
      let rs := skipn fn' pending in
      let blank := if slice_has_comment rs
                   then Nat.ltb (length (snd (split_detached rs))) (length rs) else false in
      let pushed := if fix_keep_ws cf || slice_has_comment rs then rs else [] in
      mkDres (set_trailing_if endId trailing ix) blank pushed [] false
    else if negb afterNl && nonempty trailing0 && endSemi && existsb (is_cls CBlock) trailing0 then
      (* block comment after the last `;` of a scope, no newline: pushed back *)
      mkDres ix false trailing0 [] false
    else if afterNl then
      let fn := first_newline_index trailing0 in
      mkDres (set_trailing_if endId (firstn fn trailing0) ix) false (skipn fn trailing0) [] false
    else
      mkDres (set_trailing_if endId trailing0 ix) false [] [] false
  end.

(* ---- walkScope / walkDecl / walkFused ---- *)
Definition child_mode (b : brk) (parentSawAssign : bool) : bool :=
  match b with
  | BBrackets => true
  | BBraces | BAngles => parentSawAssign
  | _ => false
  end.

Fixpoint replace_last {A} (l : list A) (x : A) : list A :=
  match l with
  | [] => []
  | [_] => [x]
  | y :: r => y :: replace_last r x
  end.

(* mode: true = scopeModeLiteral.  None = out of fuel (Proofs/Trivia.v: never with build). *)
Fixpoint walk_scope (fuel : nat) (cf : cfg) (scope : N) (mode : bool)
         (pending rest : list tok) (cv : bool)
         (slots : list (list tok)) (bbs : list bool) (starts : list N) (hadBlank : bool)
         (ix : index) {struct fuel} : option index :=
  match fuel with
  | O => None
  | S f =>
    let '(sk, rest1) := gather rest in
    let pending := pending ++ sk in
    match rest1 with
    | [] =>
      let hb := if negb hadBlank && negb (scope =? 0) && nonempty pending
                then let '(d, a) := split_detached pending in
                     slice_has_comment d && slice_has_comment a
                else hadBlank in
      Some (set_det scope (mkDet (slots ++ [pending]) bbs hb starts) ix)
    | t :: r =>
      let tid := if cv && negb (fix_cv cf) then close_id t else open_id t in
      (* trailing comment on the open bracket of the scope *)
      let fn := first_newline_index pending in
      let onOpen := (Nat.eqb (length slots) 0%nat) && negb (scope =? 0)
                    && Nat.ltb fn (length pending) && slice_has_comment (firstn fn pending) in
      let ix := if onOpen then set_trailing scope (firstn fn pending) ix else ix in
      let pending := if onOpen then skipn fn pending else pending in
      let '(d, a) := split_detached pending in
      let blank := hadBlank || (Nat.eqb (length bbs) 0%nat && slice_has_comment d) in
      let ix := set_leading tid a ix in
      match decl_loop f cf mode true t r [] false tid ix with
      | None => None
      | Some res =>
        walk_scope f cf scope mode (r_pushed res) (r_rest res) (r_cv res)
                   (slots ++ [d]) (bbs ++ [blank]) (starts ++ [tid]) (r_blank res) (r_idx res)
      end
    end
  end

(* the main loop of walkDecl, positioned at the non-skippable token t *)
with decl_loop (fuel : nat) (cf : cfg) (mode : bool) (first : bool) (t : tok) (rest : list tok)
               (pending : list tok) (sawAssign : bool) (endId : N) (ix : index)
               {struct fuel} : option dres :=
  match fuel with
  | O => None
  | S f =>
    let ix :=
      if first then ix
      else
        let fn := first_newline_index pending in
        if slice_has_comment (firstn fn pending) && Nat.ltb fn (length pending)
        then set_leading (open_id t) (skipn fn pending) (set_trailing endId (firstn fn pending) ix)
        else set_leading (open_id t) pending ix in
    let sawAssign := sawAssign || is_cls CAssign t in
    match (if is_fused t then walk_fused f cf t sawAssign ix else Some ix) with
    | None => None
    | Some ix =>
      let endId := close_id t in
      let endSemi := is_cls CSemi t in
      let boundary := is_cls CSemi t
                      || (is_braces t && (negb sawAssign || negb (next_nonskip_is_semi rest)))
                      || (mode && is_cls CComma t) in
      if boundary then Some (decl_finish cf ix endId endSemi [] rest)
      else
        let '(sk, rest1) := gather rest in
        match rest1 with
        | [] => Some (decl_finish cf ix endId endSemi sk [])
        | t' :: r' => decl_loop f cf mode false t' r' sk sawAssign endId ix
        end
    end
  end

with walk_fused (fuel : nat) (cf : cfg) (t : tok) (parentSawAssign : bool) (ix : index)
                {struct fuel} : option index :=
  match fuel with
  | O => None
  | S f =>
    match t with
    | Leaf _ _ _ => Some ix
    | Fused ido idc b _ _ ch =>
      match walk_scope f cf ido (child_mode b parentSawAssign) [] ch false [] [] [] false ix with
      | None => None
      | Some ix =>
        let tr := get_det ido ix in
        let '(d, a) := split_detached (last (d_slots tr) []) in
        let tr' := mkDet (replace_last (d_slots tr) d) (d_bb tr) (d_bbc tr) (d_starts tr) in
        Some (set_leading idc a (set_det ido tr' ix))
      end
    end
  end.

Fixpoint tok_size (t : tok) : nat :=
  match t with
  | Leaf _ _ _ => 1%nat
  | Fused _ _ _ _ _ ch => (3 + (fix go (l : list tok) : nat :=
                                 match l with [] => 0 | x :: r => tok_size x + go r end) ch)%nat
  end.
Fixpoint toks_size (l : list tok) : nat :=
  match l with [] => 0%nat | x :: r => (tok_size x + toks_size r)%nat end.

(* buildTriviaIndex *)
Definition build (cf : cfg) (toks : list tok) : option index :=
  walk_scope (S (toks_size toks)) cf 0 false [] toks false [] [] [] false empty_index.

(* ---- what the token stream and the index contain ---- *)
(* every leaf in stream order: the source is the concatenation of their texts *)
Fixpoint flatten_tok (t : tok) : list (N * list N) :=
  match t with
  | Leaf i _ x => [(i, x)]
  | Fused io ic _ ox cx ch =>
    (io, ox) :: (fix go (l : list tok) := match l with [] => [] | x :: r => flatten_tok x ++ go r end) ch
    ++ [(ic, cx)]
  end.
Fixpoint flatten (l : list tok) : list (N * list N) :=
  match l with [] => [] | x :: r => flatten_tok x ++ flatten r end.
Definition source_text (l : list tok) : list N := flat_map snd (flatten l).

(* the skippable tokens at every nesting depth, in stream order *)
Fixpoint trivia_tok (t : tok) : list tok :=
  match t with
  | Leaf _ _ _ => if skippable t then [t] else []
  | Fused _ _ _ _ _ ch =>
    (fix go (l : list tok) := match l with [] => [] | x :: r => trivia_tok x ++ go r end) ch
  end.
Fixpoint trivia_of (l : list tok) : list tok :=
  match l with [] => [] | x :: r => trivia_tok x ++ trivia_of r end.

(* all trivia stored in the index, over both maps *)
Definition index_trivia (ix : index) : list tok :=
  flat_map (fun e => a_lead (snd e) ++ a_trail (snd e)) (i_att ix)
  ++ flat_map (fun e => concat (d_slots (snd e))) (i_det ix).

(* ---- round-trip replay (printTokenAs / emitTriviaSlot / emitRemainingTrivia, non-format) ---- *)
(* printer state: the pending trivia and the text pushed so far *)
Definition pstate := (list tok * list (N * list N))%type.

Definition pieces (l : list tok) : list (N * list N) := map (fun t => (open_id t, leaf_text t)) l.

Definition print_token (ix : index) (id : N) (text : list N) (st : pstate) : pstate :=
  let '(pend, out) := st in
  match alookup id (i_att ix) with
  | Some a => (a_trail a, out ++ pieces (pend ++ a_lead a) ++ [(id, text)])
  | None => (pend, out ++ [(id, text)])    (* no entry: gap fallback, pending stays *)
  end.

(* the tokens of one scope; slots/starts are what the walker recorded for it *)
Definition emit_seq (f : tok -> pstate -> pstate) :=
  fix go (l : list tok) (slots : list (list tok)) (starts : list N) (st : pstate) {struct l} : pstate :=
  match l with
  | [] => (fst st ++ concat slots, snd st)
  | t :: r =>
    if skippable t then go r slots starts st
    else
      match starts, slots with
      | s :: starts', sl :: slots' =>
        if (s =? open_id t) || (s =? close_id t)
        then go r slots' starts' (f t (fst st ++ sl, snd st))
        else go r slots starts (f t st)
      | _, _ => go r slots starts (f t st)
      end
  end.

Fixpoint emit_tok (ix : index) (t : tok) (st : pstate) : pstate :=
  match t with
  | Leaf i _ x => print_token ix i x st
  | Fused io ic _ ox cx ch =>
    let d := get_det io ix in
    print_token ix ic cx (emit_seq (emit_tok ix) ch (d_slots d) (d_starts d) (print_token ix io ox st))
  end.

Definition emit_file (ix : index) (toks : list tok) : pstate :=
  let d := get_det 0 ix in
  emit_seq (emit_tok ix) toks (d_slots d) (d_starts d) ([], []).

(* the pieces the round-trip printer emits, in order, with the file's last pending trivia *)
Definition emit_roundtrip (ix : index) (toks : list tok) : list (N * list N) :=
  let '(pend, out) := emit_file ix toks in out ++ pieces pend.

(* dom.Render on the last chunk: a chunk of spaces only is a space tag, of newlines only a break
   tag; neither is written at the end of the document; then the safeguard newline *)
Definition all_eq (c : N) (s : list N) : bool := forallb (N.eqb c) s.
Definition ends_nl (s : list N) : bool := match rev s with 10 :: _ => true | _ => false end.

Definition finish_file (cf : cfg) (out tail : list N) : list N :=
  if fix_eof cf then out ++ tail
  else
    let body := if all_eq 32 tail || all_eq 10 tail then out else out ++ tail in
    if ends_nl body then body else body ++ [10].

(* printer.PrintFile(Options{}, file) *)
Definition print_file_rt (cf : cfg) (toks : list tok) : option (list N) :=
  match build cf toks with
  | None => None
  | Some ix => let '(pend, out) := emit_file ix toks in
               Some (finish_file cf (flat_map snd out) (text_of pend))
  end.

(* printer.Print on each top-level declaration: the tokens of the file scope are cut at the
   declaration starts; each piece is rendered on its own (OmitTrailingNewline: a last chunk of
   spaces only is dropped, newlines are flushed) *)
Fixpoint cut_decls (l : list tok) (starts : list N) (cur : list tok) (acc : list (list tok)) : list (list tok) :=
  match l with
  | [] => acc ++ [cur]
  | t :: r =>
    match starts with
    | s :: starts' =>
      if negb (skippable t) && ((s =? open_id t) || (s =? close_id t))
      then cut_decls r starts' [t] (acc ++ [cur])
      else cut_decls r starts (cur ++ [t]) acc
    | [] => cut_decls r starts (cur ++ [t]) acc
    end
  end.

Definition finish_decl (cf : cfg) (out tail : list N) : list N :=
  if fix_decl_tail cf then out ++ tail
  else if all_eq 32 tail then out else out ++ tail.

Definition print_decl (cf : cfg) (ix : index) (slot : list tok) (decl : list tok) : list N :=
  let '(pend, out) := emit_seq (emit_tok ix) decl [] [] (slot, []) in
  finish_decl cf (flat_map snd out) (text_of pend).

(* the per-declaration prints and the trailing trivia of the file *)
Definition print_decls (cf : cfg) (toks : list tok) : option (list (list N) * list N) :=
  match build cf toks with
  | None => None
  | Some ix =>
    let d := get_det 0 ix in
    let groups := tl (cut_decls toks (d_starts d) [] []) in
    let n := length groups in
    Some (map (fun p => print_decl cf ix (fst p) (snd p)) (combine (firstn n (d_slots d)) groups),
          text_of (concat (skipn n (d_slots d))))
  end.

(* ---- correspondence: observations of the real buildTriviaIndex / PrintFile / Print ---- *)
From PV Require Import Common.Corr.

Inductive tcase :=
| TIdx (toks : list tok)
       (atts : list (N * (list N * list N)))                      (* id -> leading ids, trailing ids *)
       (dets : list (N * (list (list N) * list bool * bool)))     (* id -> slots, blankBefore, blankBeforeClose *)
| TPrint (toks : list tok) (whole : list N) (decls : list (list N)).  (* PrintFile and Print outputs *)

Definition list_bool_eqb (a b : list bool) : bool := if list_eq_dec bool_dec a b then true else false.
Definition list_list_N_eqb (a b : list (list N)) : bool :=
  if list_eq_dec (list_eq_dec N.eq_dec) a b then true else false.

Definition att_matches (ix : index) (e : N * (list N * list N)) : bool :=
  match alookup (fst e) (i_att ix) with
  | Some a => list_N_eqb (ids_of (a_lead a)) (fst (snd e)) && list_N_eqb (ids_of (a_trail a)) (snd (snd e))
  | None => false
  end.

Definition det_matches (ix : index) (e : N * (list (list N) * list bool * bool)) : bool :=
  match alookup (fst e) (i_det ix) with
  | Some d =>
    let '(sl, bb, bbc) := snd e in
    list_list_N_eqb (map ids_of (d_slots d)) sl && list_bool_eqb (d_bb d) bb && Bool.eqb (d_bbc d) bbc
  | None => false
  end.

Definition trivia_chk (cf : cfg) (c : tcase) : bool :=
  match c with
  | TIdx toks atts dets =>
    match build cf toks with
    | None => false
    | Some ix =>
      Nat.eqb (length (i_att ix)) (length atts) && forallb (att_matches ix) atts
      && Nat.eqb (length (i_det ix)) (length dets) && forallb (det_matches ix) dets
    end
  | TPrint toks whole decls =>
    match print_file_rt cf toks, print_decls cf toks with
    | Some w, Some (ds, _) => list_N_eqb w whole && list_list_N_eqb ds decls
    | _, _ => false
    end
  end.

(* ======================================================================================
   C31: the token-level effect of format mode on the top-level declarations
   (format.go sortFileDeclsForFormat / compareDecl; decl.go printDecl drops empty declarations).
   A declaration is represented by what compareDecl looks at and by its non-skippable tokens. *)
Record fdecl := mkFdecl {
  f_rank : N;            (* rankSyntax 0, rankPackage 1, rankImport 2, rankOption 3, rankBody 4 *)
  f_sub : bool;          (* imports: `import option` *)
  f_name : list N;       (* importSortName / optionSortName, empty otherwise *)
  f_empty : bool;        (* DeclKindEmpty: a lone `;` *)
  f_toks : list (list N) (* the texts of its non-skippable tokens *)
}.

(* cmp.Compare on strings *)
Fixpoint lex_compare (a b : list N) : comparison :=
  match a, b with
  | [], [] => Eq
  | [], _ :: _ => Lt
  | _ :: _, [] => Gt
  | x :: a', y :: b' => match N.compare x y with Eq => lex_compare a' b' | c => c end
  end.

Definition bool_compare (a b : bool) : comparison :=
  match a, b with
  | false, true => Lt
  | true, false => Gt
  | _, _ => Eq
  end.

(* compareDecl *)
Definition decl_compare (a b : fdecl) : comparison :=
  match N.compare (f_rank a) (f_rank b) with
  | Eq =>
    if f_rank a =? 2 then
      match bool_compare (f_sub a) (f_sub b) with
      | Eq => lex_compare (f_name a) (f_name b)
      | c => c
      end
    else if f_rank a =? 3 then lex_compare (f_name a) (f_name b)
    else Eq
  | c => c
  end.

Definition decl_leb (a b : fdecl) : bool :=
  match decl_compare a b with Gt => false | _ => true end.

(* slices.SortStableFunc: a stable sort; the model is the stable insertion sort *)
Fixpoint sinsert (x : fdecl) (l : list fdecl) : list fdecl :=
  match l with
  | [] => [x]
  | y :: r => if decl_leb x y then x :: y :: r else y :: sinsert x r
  end.
Fixpoint ssort (l : list fdecl) : list fdecl :=
  match l with
  | [] => []
  | x :: r => sinsert x (ssort r)
  end.

(* the declarations format mode prints, in its order *)
Definition format_order (ds : list fdecl) : list fdecl := filter (fun d => negb (f_empty d)) (ssort ds).
(* ... and the sequence of non-skippable tokens of its output *)
Definition format_effect (ds : list fdecl) : list (list N) := concat (map f_toks (format_order ds)).

Inductive fcase := FC (ds : list fdecl) (observed : list (list N)).
Definition format_chk (c : fcase) : bool :=
  match c with FC ds obs => list_list_N_eqb (format_effect ds) obs end.
