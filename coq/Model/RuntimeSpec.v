(* C04 - the rules of the Go protobuf runtime (google.golang.org/protobuf: reflect/protodesc desc_init.go,
   desc_resolve.go, editions.go and internal/filedesc desc.go) for the same attributes, written as a
   specification over the same raw facts. The runtime resolves features top-down: the file starts from the
   edition defaults of its own table, every descriptor copies its parent's flags and overwrites what its own
   options.features sets (mergeEditionFeatures). Definitions only. *)
From Coq Require Import List NArith ZArith Bool String.
From PV Require Import Model.FeaturesTables Model.Features Model.FieldView.
Import ListNotations.
Open Scope N_scope.

(* filedesc.EditionFeatures, the flags derived from the six core features *)
Record rtflags := mkrt {
  IsFieldPresence : bool; IsLegacyRequired : bool; IsOpenEnum : bool; IsPacked : bool;
  IsUTF8Validated : bool; IsDelimitedEncoded : bool; IsJSONCompliant : bool }.

Definition rt_zero : rtflags := mkrt false false false false false false false.

(* protodesc.mergeEditionFeatures(parent, child) *)
Definition rt_merge (p : rtflags) (child : fset) : rtflags :=
  let p1 := match fs_fp child with
            | Some v => mkrt ((v =? FP_LEGACY_REQUIRED) || (v =? FP_EXPLICIT)) (v =? FP_LEGACY_REQUIRED)
                             (IsOpenEnum p) (IsPacked p) (IsUTF8Validated p) (IsDelimitedEncoded p) (IsJSONCompliant p)
            | None => p end in
  let p2 := match fs_et child with
            | Some v => mkrt (IsFieldPresence p1) (IsLegacyRequired p1) (v =? ET_OPEN) (IsPacked p1)
                             (IsUTF8Validated p1) (IsDelimitedEncoded p1) (IsJSONCompliant p1)
            | None => p1 end in
  let p3 := match fs_rfe child with
            | Some v => mkrt (IsFieldPresence p2) (IsLegacyRequired p2) (IsOpenEnum p2) (v =? RFE_PACKED)
                             (IsUTF8Validated p2) (IsDelimitedEncoded p2) (IsJSONCompliant p2)
            | None => p2 end in
  let p4 := match fs_utf8 child with
            | Some v => mkrt (IsFieldPresence p3) (IsLegacyRequired p3) (IsOpenEnum p3) (IsPacked p3)
                             (v =? UTF8_VERIFY) (IsDelimitedEncoded p3) (IsJSONCompliant p3)
            | None => p3 end in
  let p5 := match fs_me child with
            | Some v => mkrt (IsFieldPresence p4) (IsLegacyRequired p4) (IsOpenEnum p4) (IsPacked p4)
                             (IsUTF8Validated p4) (v =? ME_DELIMITED) (IsJSONCompliant p4)
            | None => p4 end in
  match fs_jf child with
  | Some v => mkrt (IsFieldPresence p5) (IsLegacyRequired p5) (IsOpenEnum p5) (IsPacked p5)
                   (IsUTF8Validated p5) (IsDelimitedEncoded p5) (v =? JF_ALLOW)
  | None => p5 end.

(* protodesc.getFeatureSetFor: linear search, the last entry whose edition is <= the file's; the first
   entry when none is *)
Definition fset_of_list (l : list (option N)) : fset :=
  mkfs (nth 0 l None) (nth 1 l None) (nth 2 l None) (nth 3 l None) (nth 4 l None) (nth 5 l None).

Fixpoint rt_search (defs : list (N * list (option N))) (edition : N) (cur : list (option N)) : list (option N) :=
  match defs with
  | [] => cur
  | (e, vals) :: r => if e <=? edition then rt_search r edition vals else cur
  end.

Definition rt_default_fset (edition : N) : fset :=
  match rt_defaults_src with
  | [] => fs_empty
  | (_, first) :: _ => fset_of_list (rt_search rt_defaults_src edition first)
  end.

(* protodesc.initFileDescFromFeatureSet *)
Definition rt_file_flags (edition : N) (file_features : fset) : rtflags :=
  rt_merge (rt_merge rt_zero (rt_default_fset edition)) file_features.

Fixpoint rt_flags (edition : N) (c : chain) : rtflags :=
  match c with
  | CFile s => rt_file_flags edition s
  | CNest s p => rt_merge (rt_flags edition p) s
  end.

(* initFieldsFromDescriptorProto / initExtensionDeclarations: packed option overrides the feature *)
Definition rt_field_flags (f : field) : rtflags :=
  let fl := rt_flags (f_edition f) (f_chain f) in
  match f_packed f with
  | Some b => mkrt (IsFieldPresence fl) (IsLegacyRequired fl) (IsOpenEnum fl) b
                   (IsUTF8Validated fl) (IsDelimitedEncoded fl) (IsJSONCompliant fl)
  | None => fl
  end.

(* Cardinality: the label; a message field with legacy-required presence is Required. Extensions keep the label. *)
Definition rt_cardinality (f : field) : N :=
  if f_is_ext f then f_label f
  else if IsLegacyRequired (rt_field_flags f) then CARD_REQUIRED else f_label f.

Definition rt_has_message (f : field) : bool := (f_type f =? TYPE_MESSAGE) || (f_type f =? TYPE_GROUP).

(* filedesc.Field.IsMap: the message type is a map entry; Extension.IsMap is false *)
Definition rt_is_map (f : field) : bool :=
  if f_is_ext f then false else rt_has_message f && f_msg_mapentry f.

(* Kind: the type; a message type with delimited encoding is a group; map fields and the fields of map
   entries are never groups (desc_resolve.go). Extensions have no map exception. *)
Definition rt_kind (f : field) : N :=
  let k := if (f_type f =? TYPE_MESSAGE) && IsDelimitedEncoded (rt_field_flags f) then TYPE_GROUP else f_type f in
  if f_is_ext f then k
  else if (k =? TYPE_GROUP) && (rt_is_map f || f_parent_mapentry f) then TYPE_MESSAGE else k.

Definition rt_is_list (f : field) : bool :=
  (rt_cardinality f =? CARD_REPEATED) && negb (rt_is_map f).

(* presence = extension | explicit-or-legacy-required presence feature | message | oneof, never repeated *)
Definition rt_has_presence (f : field) : bool :=
  if rt_cardinality f =? CARD_REPEATED then false
  else if f_is_ext f then true
  else IsFieldPresence (rt_field_flags f) || rt_has_message f || f_has_oneof f.

(* packed only for packable repeated fields *)
Definition rt_is_packed (f : field) : bool :=
  if negb (rt_cardinality f =? CARD_REPEATED) then false
  else if (rt_kind f =? TYPE_STRING) || (rt_kind f =? TYPE_BYTES) || (rt_kind f =? TYPE_MESSAGE) || (rt_kind f =? TYPE_GROUP) then false
  else IsPacked (rt_field_flags f).

(* Field: (proto2 && optional && no oneof) || proto3_optional; Extension built by protodesc never has the
   proto3_optional flag: proto2 && optional *)
Definition rt_has_optional_keyword (f : field) : bool :=
  if f_is_ext f then (f_edition f =? ED_PROTO2) && (rt_cardinality f =? CARD_OPTIONAL)
  else ((f_edition f =? ED_PROTO2) && (rt_cardinality f =? CARD_OPTIONAL) && negb (f_has_oneof f)) || f_p3opt f.

(* closed enum from enum_type: everything that is not OPEN *)
Definition rt_is_closed (edition : N) (c : chain) : bool := negb (IsOpenEnum (rt_flags edition c)).

(* required numbers = the fields whose cardinality is Required (desc_resolve.go) *)
Definition rt_required_numbers (fields : list field) : list N :=
  map f_number (filter (fun f => rt_cardinality f =? CARD_REQUIRED) fields).

(* default of an integer kind (internal/encoding/defval.Unmarshal: strconv.ParseInt / ParseUint base 10 with the
   bit size of the kind): the parsed text; a text that does not parse makes protodesc.NewFile fail (None);
   no default_value means zero *)
Definition rt_default_int (k : N) (default_value : option string) : option Z :=
  match default_value with
  | Some text => parse_default_int k text
  | None => Some 0%Z
  end.

(* filedesc.isGroupLike (internal/filedesc/desc.go): group kind; the lower-cased message name is the field's name;
   the message is declared in the same FILE (same_file: Message().ParentFile() == ParentFile()) and in the same SCOPE
   (same_scope: descriptor identity of Message().Parent() with ContainingMessage(), for an extension with Parent()) *)
Definition rt_is_group_like (f : field) (nm : fnames) (same_file same_scope : bool) : bool :=
  (rt_kind f =? TYPE_GROUP) && String.eqb (to_lower (n_msg_name nm)) (n_name nm) && same_file && same_scope.

(* stringName.lazyInit: the text name. Extensions: the bracketed full name (MessageSet extensions, which
   protodesc.NewFile rejects without the protolegacy build tag, are outside the model) *)
Definition rt_text_name (f : field) (nm : fnames) (same_file same_scope : bool) : string :=
  if f_is_ext f then ("[" ++ n_full nm ++ "]")%string
  else if rt_is_group_like f nm same_file same_scope then n_msg_name nm
  else n_name nm.

(* Full names identify declaration scopes: the message type is declared in the field's own scope (same file, same
   parent descriptor) exactly when the two parent NAMES are equal. Holds for every non-extension field of an accepted
   file, because a full name is declared once in a link (a package that is also a message is rejected). A file-level
   extension and a top-level message of another file of the same package have equal parent names without this. *)
Definition scopes_by_name (f : field) (nm : fnames) (same_file same_scope : bool) : bool :=
  f_is_ext f || Bool.eqb (same_file && same_scope) (String.eqb (n_msg_parent nm) (n_parent nm)).

(* ------------------------------------------------------------------------------------------------
   What the compiler enforces on every file it accepts, whatever the input form (linker/validate.go,
   options lifetimes, parser): the hypotheses of the agreement theorems.
   - proto2 / proto3 files carry no features at all (a feature in such a file is rejected: not
     introduced until edition 2023);
   - the edition is one the compiler supports;
   - labels are one of the three;
   - a map-entry message is only the type of its own repeated, non-extension, TYPE_MESSAGE field;
   - LEGACY_REQUIRED is never in force for a repeated field, an extension, a oneof member or a member of a map entry (it can only be
     set on a singular non-extension field outside a oneof: validateFieldFeatures, validateFile, option targets);
   - the fields of a map-entry message are plain fields (no extensions, no groups): map entries are synthetic;
     an extension is never a member of a oneof;
   - proto3_optional only on optional-label fields of proto3 files. *)
Definition wf_field (f : field) : bool :=
  supported_edition (f_edition f)
  && (is_editions (f_edition f) || chain_empty (f_chain f))
  && ((f_label f =? LABEL_OPTIONAL) || (f_label f =? LABEL_REQUIRED) || (f_label f =? LABEL_REPEATED))
  && (negb (f_msg_mapentry f) || ((f_type f =? TYPE_MESSAGE) && (f_label f =? LABEL_REPEATED) && negb (f_is_ext f)))
  && (negb ((f_label f =? LABEL_REPEATED) || f_is_ext f || f_has_oneof f || f_parent_mapentry f) || negb (f_resolve f FieldPresence =? FP_LEGACY_REQUIRED))
  && ((negb (f_parent_mapentry f) || (negb (f_is_ext f) && negb (f_type f =? TYPE_GROUP))) && negb (f_is_ext f && f_has_oneof f))
  && (negb (f_p3opt f) || ((f_label f =? LABEL_OPTIONAL) && (f_edition f =? ED_PROTO3))).

Definition wf_enum (edition : N) (c : chain) : bool :=
  supported_edition edition && (is_editions edition || chain_empty c).

(* every level that sets enum_type sets it to OPEN or CLOSED (the compiler does NOT enforce this:
   ENUM_TYPE_UNKNOWN is accepted); only the historical lemmas about the old IsClosed need it *)
Definition enum_type_known (c : chain) : bool :=
  forallb (fun s => match fs_et s with
                    | Some v => (v =? ET_OPEN) || (v =? ET_CLOSED)
                    | None => true end) (levels c).
