(* Model of parser/clone.go + the node index of parser/result.go (property C24).

   A parse result holds the AST (immutable, shared), the file descriptor proto and an index from
   proto messages (Go pointers) to AST nodes.  parser.Clone copies the proto with proto.Clone and
   rebuilds the index by walking the original and the copy in parallel
   (recreateNodeIndexForFile / ...Message / ...Enum / updateNodeIndexWithOptions /
   recreateNodeIndexForOptions / updateNodeIndex).

   Descriptor tree.  One element type; the kind says which child collections the clone code
   walks (schema, in the order of the code) and whether the element has options.  Options hold
   their uninterpreted options, each with its name parts.  Every proto message carries the
   address of its Go object: (generation, name).  proto.Clone allocates a distinct new object
   for every position of the tree, so the copy made at generation g names the object at
   position bp (g, bp).  The original may share objects between positions (the parser stores
   the same options message objects in every range of one extensions statement); the copy
   never does.

   Index.  A function key -> node, where a key is a message object, or, for extension ranges,
   the wrapper asExtsNode puts around the range (a second key for the same object).  A result
   without AST has no index (nodes = None) and a placeholder node that every lookup returns.

   clone is the code as it is in the pinned tree; clone_fixed is the proposed repair (a result
   without AST stays a result without AST and keeps its placeholder). *)
From Coq Require Import List NArith Bool PeanoNat.
Import ListNotations.

Inductive ckind := CFile | CMsg | CField | COneof | CExtRange | CMsgRR | CEnum | CEnumVal | CEnumRR | CSvc | CMethod.

Inductive step :=
| SChild (slot i : nat)     (* i-th element of the slot-th child collection *)
| SOptsMsg                  (* the options message *)
| SOpt (j : nat)            (* j-th uninterpreted option *)
| SPart (j k : nat).        (* k-th name part of the j-th uninterpreted option *)

Definition addr := (N * list step)%type.
Inductive key := KMsg (a : addr) | KExts (a : addr).
Definition key_addr (k : key) : addr := match k with KMsg a => a | KExts a => a end.

Inductive uopt := UOpt (a : addr) (payload : N) (parts : list (addr * N)).
Definition opts := (addr * N * list uopt)%type.
Inductive elem := Elem (k : ckind) (a : addr) (o : option opts) (payload : N) (slots : list (list elem)).

Definition node := N.
Record result := Result {
  r_ast : option N;                      (* the *ast.FileNode *)
  r_proto : elem;
  r_nodes : option (key -> option node); (* None: nodes == nil *)
  r_noast : option node                  (* ifNoAST *)
}.

(* Result.Node and the typed accessors: if r.nodes == nil { return r.ifNoAST }; return r.nodes[m] *)
Definition node_of (r : result) (k : key) : option node :=
  match r_nodes r with None => r_noast r | Some m => m k end.

(* the child collections the clone code walks for an element handled as kind k, with the kind it
   handles their elements as *)
Definition schema (k : ckind) : list ckind :=
  match k with
  | CFile => [CMsg; CEnum; CField; CSvc]
  | CMsg => [CField; COneof; CExtRange; CMsgRR; CMsg; CEnum; CField]
  | CEnum => [CEnumVal; CEnumRR]
  | CSvc => [CMethod]
  | _ => []
  end.
(* updateNodeIndexWithOptions (true) or plain updateNodeIndex (false) *)
Definition has_opts (k : ckind) : bool := match k with CMsgRR | CEnumRR => false | _ => true end.
Definition is_extrange (k : ckind) : bool := match k with CExtRange => true | _ => false end.

(* ---------------------------------------------------------------- decidable equality of keys *)
Definition step_eqb (x y : step) : bool :=
  match x, y with
  | SChild s i, SChild s' i' => Nat.eqb s s' && Nat.eqb i i'
  | SOptsMsg, SOptsMsg => true
  | SOpt j, SOpt j' => Nat.eqb j j'
  | SPart j k, SPart j' k' => Nat.eqb j j' && Nat.eqb k k'
  | _, _ => false
  end.
Fixpoint steps_eqb (x y : list step) : bool :=
  match x, y with
  | [], [] => true
  | a :: x', b :: y' => step_eqb a b && steps_eqb x' y'
  | _, _ => false
  end.
Definition addr_eqb (a b : addr) : bool := N.eqb (fst a) (fst b) && steps_eqb (snd a) (snd b).
Definition key_eqb (x y : key) : bool :=
  match x, y with
  | KMsg a, KMsg b => addr_eqb a b
  | KExts a, KExts b => addr_eqb a b
  | _, _ => false
  end.

(* ---------------------------------------------------------------- proto.Clone *)
Section Indexed.
  Context {A B : Type}.
  Variable f : nat -> A -> B.
  Fixpoint mapi_from (i : nat) (l : list A) : list B :=
    match l with [] => [] | x :: tl => f i x :: mapi_from (S i) tl end.
End Indexed.
Definition mapi {A B} (f : nat -> A -> B) (l : list A) : list B := mapi_from f 0 l.

Definition copy_uopt (g : N) (bp : list step) (j : nat) (u : uopt) : uopt :=
  match u with
  | UOpt _ pl parts => UOpt (g, bp ++ [SOpt j]) pl (mapi (fun k p => ((g, bp ++ [SPart j k]), snd p)) parts)
  end.
Definition copy_opts (g : N) (bp : list step) (o : option opts) : option opts :=
  match o with
  | None => None
  | Some (_, pl, us) => Some ((g, bp ++ [SOptsMsg]), pl, mapi (copy_uopt g bp) us)
  end.
Fixpoint copy_elem (g : N) (bp : list step) (e : elem) {struct e} : elem :=
  match e with
  | Elem k _ o pl slots =>
    Elem k (g, bp) (copy_opts g bp o) pl
         (mapi (fun s l => mapi (fun i x => copy_elem g (bp ++ [SChild s i]) x) l) slots)
  end.

(* ---------------------------------------------------------------- index recreation *)
Section Recreate.
  Variable look : key -> option node.     (* orig.nodes *)

  (* updateNodeIndex: node := orig.nodes[origProto]; if node != nil { clone.nodes[cloneProto] = node } *)
  Definition upd (ko kc : key) (m : key -> option node) : key -> option node :=
    match look ko with
    | Some n => fun k => if key_eqb k kc then Some n else m k
    | None => m
    end.

  Fixpoint recreate_parts (po pc : list (addr * N)) (m : key -> option node) : key -> option node :=
    match po, pc with
    | p :: po', q :: pc' => recreate_parts po' pc' (upd (KMsg (fst p)) (KMsg (fst q)) m)
    | _, _ => m
    end.

  (* recreateNodeIndexForOptions *)
  Fixpoint recreate_uopts (uo uc : list uopt) (m : key -> option node) : key -> option node :=
    match uo, uc with
    | UOpt ao _ po :: uo', UOpt ac _ pc :: uc' =>
      recreate_uopts uo' uc' (recreate_parts po pc (upd (KMsg ao) (KMsg ac) m))
    | _, _ => m
    end.

  (* the tail of updateNodeIndexWithOptions: if origOpts != nil { recreateNodeIndexForOptions(...) } *)
  Definition recreate_opts (oo oc : option opts) (m : key -> option node) : key -> option node :=
    match oo with
    | None => m
    | Some (_, _, uo) => recreate_uopts uo (match oc with Some (_, _, uc) => uc | None => [] end) m
    end.

  Section Lists.
    Variable rc : elem -> elem -> (key -> option node) -> key -> option node.
    (* for i, o := range origList { c := cloneList[i]; ... } *)
    Fixpoint recreate_list (lo lc : list elem) (m : key -> option node) : key -> option node :=
      match lo, lc with
      | o :: lo', c :: lc' => recreate_list lo' lc' (rc o c m)
      | _, _ => m
      end.
  End Lists.

  Section Slots.
    Variable rc : ckind -> elem -> elem -> (key -> option node) -> key -> option node.
    (* the loops over the child collections of one element, in schema order *)
    Fixpoint recreate_slots (ks : list ckind) (so sc : list (list elem)) (m : key -> option node) {struct so}
      : key -> option node :=
      match so, ks, sc with
      | lo :: so', k' :: ks', lc :: sc' => recreate_slots ks' so' sc' (recreate_list (rc k') lo lc m)
      | _, _, _ => m
      end.
  End Slots.

  (* handle the pair (o, c) the way the code handles an element at a position of kind k:
     extension ranges first register the asExtsNode key, then updateNodeIndex[WithOptions], then
     the child collections of the kind, each element handled as the kind the schema gives *)
  Fixpoint recreate_as (k : ckind) (o c : elem) (m : key -> option node) {struct o} : key -> option node :=
    match o, c with
    | Elem _ ao oo _ so, Elem _ ac oc _ sc =>
      let m1 := if is_extrange k then upd (KExts ao) (KExts ac) m else m in
      let m2 := upd (KMsg ao) (KMsg ac) m1 in
      let m3 := if has_opts k then recreate_opts oo oc m2 else m2 in
      recreate_slots recreate_as (schema k) so sc m3
    end.
End Recreate.

Definition empty_index : key -> option node := fun _ => None.
Definition orig_look (r : result) : key -> option node :=
  match r_nodes r with Some m => m | None => empty_index end.

(* parser.Clone for the package's own *result, as it is: the index is always a fresh non-nil map
   and ifNoAST is not carried over *)
Definition clone (g : N) (r : result) : result :=
  let p' := copy_elem g [] (r_proto r) in
  Result (r_ast r) p' (Some (recreate_as (orig_look r) CFile (r_proto r) p' empty_index)) None.

(* the proposed repair: a result without index stays one and keeps its placeholder *)
Definition clone_fixed (g : N) (r : result) : result :=
  let p' := copy_elem g [] (r_proto r) in
  match r_nodes r with
  | None => Result None p' None (r_noast r)
  | Some look => Result (r_ast r) p' (Some (recreate_as look CFile (r_proto r) p' empty_index)) None
  end.

(* ---------------------------------------------------------------- vocabulary of the property *)
(* positions of the index keys of a descriptor tree *)
Inductive which := WSelf | WExts | WOpt (j : nat) | WPart (j k : nat).
Inductive pos := PHere (w : which) | PChild (slot i : nat) (p : pos).

Definition uopt_addr (u : uopt) : addr := match u with UOpt a _ _ => a end.
Definition uopt_parts (u : uopt) : list (addr * N) := match u with UOpt _ _ ps => ps end.
Definition elem_kind (e : elem) : ckind := match e with Elem k _ _ _ _ => k end.

(* the key held at a position, if the tree has that position *)
Fixpoint key_at (e : elem) (p : pos) {struct p} : option key :=
  match e with
  | Elem k a o _ slots =>
    match p with
    | PHere WSelf => Some (KMsg a)
    | PHere WExts => if is_extrange k then Some (KExts a) else None
    | PHere (WOpt j) =>
      match o with Some (_, _, us) => option_map (fun u => KMsg (uopt_addr u)) (nth_error us j) | None => None end
    | PHere (WPart j i) =>
      match o with
      | Some (_, _, us) =>
        match nth_error us j with
        | Some u => option_map (fun q => KMsg (fst q)) (nth_error (uopt_parts u) i)
        | None => None
        end
      | None => None
      end
    | PChild s i p' =>
      match nth_error slots s with
      | Some l => match nth_error l i with Some x => key_at x p' | None => None end
      | None => None
      end
    end
  end.

Definition ckind_eqb (a b : ckind) : bool :=
  match a, b with
  | CFile, CFile | CMsg, CMsg | CField, CField | COneof, COneof | CExtRange, CExtRange | CMsgRR, CMsgRR
  | CEnum, CEnum | CEnumVal, CEnumVal | CEnumRR, CEnumRR | CSvc, CSvc | CMethod, CMethod => true
  | _, _ => false
  end.

Section WfSlots.
  Variable wf : ckind -> elem -> bool.
  Fixpoint wf_slots (ks : list ckind) (ss : list (list elem)) {struct ss} : bool :=
    match ss, ks with
    | [], [] => true
    | l :: ss', k1 :: ks' => forallb (wf k1) l && wf_slots ks' ss'
    | _, _ => false
    end.
End WfSlots.

(* the element is what its position says, has exactly the child collections of its kind, and
   only kinds with options have any *)
Fixpoint wf_as (k : ckind) (e : elem) {struct e} : bool :=
  match e with
  | Elem k' _ o _ slots =>
    ckind_eqb k k' && (has_opts k || match o with None => true | Some _ => false end) &&
    wf_slots wf_as (schema k) slots
  end.

(* all proto objects of a tree *)
Definition uopt_addrs (u : uopt) : list addr := uopt_addr u :: map fst (uopt_parts u).
Definition opts_addrs (o : option opts) : list addr :=
  match o with None => [] | Some (a, _, us) => a :: flat_map uopt_addrs us end.
Fixpoint addrs_of (e : elem) : list addr :=
  match e with
  | Elem _ a o _ slots => a :: opts_addrs o ++ flat_map (flat_map addrs_of) slots
  end.

(* the content of a tree without the object addresses (what proto.Equal compares) *)
Definition no_addr : addr := (0%N, []).
Definition erase_uopt (u : uopt) : uopt :=
  match u with UOpt _ pl ps => UOpt no_addr pl (map (fun q => (no_addr, snd q)) ps) end.
Definition erase_opts (o : option opts) : option opts :=
  match o with None => None | Some (_, pl, us) => Some (no_addr, pl, map erase_uopt us) end.
Fixpoint erase (e : elem) : elem :=
  match e with
  | Elem k _ o pl slots => Elem k no_addr (erase_opts o) pl (map (map erase) slots)
  end.

(* an abstract heap of proto objects: the tree is stored in it when every object sits at its
   address with its own fields (payload) and the addresses of its children *)
Inductive cell :=
| CellElem (k : ckind) (o : option addr) (payload : N) (slots : list (list addr))
| CellOpts (payload : N) (us : list addr)
| CellUopt (payload : N) (parts : list addr)
| CellPart (payload : N).
Definition heap := addr -> option cell.
Definition elem_addr (e : elem) : addr := match e with Elem _ a _ _ _ => a end.

Definition stored_uopt (h : heap) (u : uopt) : Prop :=
  match u with
  | UOpt a pl ps => h a = Some (CellUopt pl (map fst ps)) /\ Forall (fun q => h (fst q) = Some (CellPart (snd q))) ps
  end.
Definition stored_opts (h : heap) (o : option opts) : Prop :=
  match o with
  | None => True
  | Some (a, pl, us) => h a = Some (CellOpts pl (map uopt_addr us)) /\ Forall (stored_uopt h) us
  end.
Section AllProp.
  Context {A : Type}.
  Variable P : A -> Prop.
  Fixpoint all_in (l : list A) : Prop := match l with [] => True | x :: tl => P x /\ all_in tl end.
  Fixpoint all_in2 (ss : list (list A)) : Prop := match ss with [] => True | l :: tl => all_in l /\ all_in2 tl end.
End AllProp.

Fixpoint stored (h : heap) (e : elem) {struct e} : Prop :=
  match e with
  | Elem k a o pl slots =>
    h a = Some (CellElem k (option_map (fun x => fst (fst x)) o) pl (map (map elem_addr) slots)) /\
    stored_opts h o /\ all_in2 (stored h) slots
  end.
(* a write to one object *)
Definition write (h : heap) (a : addr) (c : cell) : heap := fun b => if addr_eqb b a then Some c else h b.

(* every object of the tree was allocated before generation g *)
Definition older (g : N) (e : elem) : Prop := Forall (fun a => (fst a < g)%N) (addrs_of e).

(* ---------------------------------------------------------------- correspondence *)
(* the index of the observed original as an association list *)
Fixpoint assoc (l : list (key * node)) (k : key) : option node :=
  match l with
  | [] => None
  | (k', n) :: tl => if key_eqb k k' then Some n else assoc tl k
  end.

Definition opt_node_eqb (a b : option node) : bool :=
  match a, b with
  | Some x, Some y => N.eqb x y
  | None, None => true
  | _, _ => false
  end.

(* one observation: is the clone the repaired one, does the original have an index, its index,
   its placeholder, its tree, and for a list of positions the node the real clone returned
   (Result.Node / ExtensionsNode on the message at that position of the clone's proto) *)
Inductive clone_case :=
| CC (fixed : bool) (has_index : bool) (index : list (key * node)) (noast : option node) (tree : elem)
     (lookups : list (pos * option node)).

Definition clone_chk (c : clone_case) : bool :=
  match c with
  | CC fixed has_index index noast tree lookups =>
    let r := Result (Some 0%N) tree (if has_index then Some (assoc index) else None) noast in
    let r' := (if fixed then clone_fixed else clone) 1%N r in
    wf_as CFile tree &&
    forallb (fun pn =>
               match key_at (r_proto r') (fst pn) with
               | Some k => opt_node_eqb (node_of r' k) (snd pn)
               | None => false
               end) lookups
  end.
