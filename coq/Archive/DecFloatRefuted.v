(* C39 - refutations of the full statements for the PINNED code (Model/DecFloat.v with the tables as
   transcribed from the pinned float.go), by computed witnesses. Not used by the proofs about the
   repaired code: refuted_table_entry stops compiling as soon as pow5s[23] is corrected. *)
From Coq Require Import ZArith NArith List Bool Reals Lia Lra.
From Flocq Require Import Core.Core IEEE754.BinarySingleNaN.
From PV Require Import Model.DecFloatTables Model.DecFloat Proofs.DecFloat.
Import ListNotations.
Open Scope R_scope.

(* there is only one correctly rounded result *)
Lemma correctly_rounded_unique : forall neg x f g,
  correctly_rounded neg x f -> correctly_rounded neg x g -> f = g.
Proof.
  intros neg x f g. unfold correctly_rounded.
  destruct (Rlt_bool (Rabs (rnd x)) (bpow radix2 emax)).
  - intros (F1 & F2 & F3) (G1 & G2 & G3). apply B2R_Bsign_inj; congruence.
  - congruence.
Qed.

(* a base-10 Decimal on which the model and the reference reader differ is a counterexample *)
Lemma refute_by_reference : forall pf d, d_neg d = false -> d_bin d = false -> (d_mant d <> 0)%N ->
  bits_of (fst (float64_of pf d)) <> bits_of (ref_parse_float (pos_of (Z.of_N (d_mant d))) (d_e d)) ->
  ~ correctly_rounded (d_neg d) (value d) (fst (float64_of pf d)).
Proof.
  intros pf d Hn Hb Hw Hne C. apply Hne. f_equal.
  apply (correctly_rounded_unique (d_neg d) (value d)); auto.
  unfold value, abs_value, d_radix. rewrite Hn, Hb, <- (N_pos_of _ Hw).
  apply ref_parse_float_correct.
Qed.

Definition d_1e23 : decimal := {| d_neg := false; d_bin := false; d_mant := 1; d_exp := 24 |}.
Definition d_77em169 : decimal := {| d_neg := false; d_bin := false; d_mant := 77; d_exp := -167 |}.
Definition d_0p1 : decimal := {| d_neg := false; d_bin := false; d_mant := 1; d_exp := 0 |}.

(* 1e23: table entry pow5s[23] *)
Lemma refuted_table_entry : forall pf, ~ correctly_rounded (d_neg d_1e23) (value d_1e23) (fst (float64_of pf d_1e23)).
Proof.
  intros pf. apply refute_by_reference.
  - reflexivity.
  - reflexivity.
  - discriminate.
  - vm_compute. discriminate.
Qed.

(* 77e-169: three roundings *)
Lemma refuted_double_rounding : forall pf, ~ correctly_rounded (d_neg d_77em169) (value d_77em169) (fst (float64_of pf d_77em169)).
Proof.
  intros pf. apply refute_by_reference.
  - reflexivity.
  - reflexivity.
  - discriminate.
  - vm_compute. discriminate.
Qed.

Lemma B2R_of_B2SF : forall (f : f64) m e, B2SF f = SpecFloat.S754_finite false m e -> B2R f = IZR (Z.pos m) * bpow radix2 e.
Proof. intros f m e. destruct f; simpl; try discriminate. intros H. inversion H. reflexivity. Qed.

(* 0.1 is reported exact *)
Lemma refuted_exact_flag : forall pf, snd (float64_of pf d_0p1) = true /\ B2R (fst (float64_of pf d_0p1)) <> value d_0p1.
Proof.
  intros pf. split. vm_compute. reflexivity.
  rewrite (B2R_of_B2SF _ 7205759403792794 (-56)) by (vm_compute; reflexivity).
  unfold value, abs_value, d_radix, d_e, d_digits. cbn [d_neg d_bin d_mant d_exp d_0p1].
  change (0 - Zdigits radix10 (Z.of_N 1))%Z with (-1)%Z.
  change (bpow radix2 (-56)) with (/ 72057594037927936). change (bpow radix10 (-1)) with (/ 10).
  simpl IZR. lra.
Qed.
