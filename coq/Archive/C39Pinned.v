(* C39 - Decimal to float conversion is correctly rounded: statements for the code AS IT IS in the
   pinned tree. The full statements are false there (refutations below); the partial theorems hold
   on the stated guards. The full theorems for the repaired code are in Props/C39Fixed.v.
   Statements only; proofs are in Proofs/DecFloat.v and Proofs/DecFloatRefuted.v. *)
From Coq Require Import ZArith NArith List Bool Reals.
From Flocq Require Import Core.Core IEEE754.BinarySingleNaN.
From PV Require Import Model.DecFloatTables Model.DecFloat Proofs.DecFloat Archive.DecFloatRefuted.
Import ListNotations.

(* "converting it to a 64-bit float gives the nearest representable value, ties to even" is FALSE
   for the pinned code, whatever strconv.ParseFloat does: 77e-169 goes through three roundings *)
Theorem C39_float64_correctly_rounded_refuted :
  exists d : decimal, (d_mant d <> 0)%N /\
    forall pf, ~ correctly_rounded (d_neg d) (value d) (fst (float64_of pf d)).
Proof. exists d_77em169. split. discriminate. exact refuted_double_rounding. Qed.
Print Assumptions C39_float64_correctly_rounded_refuted.

(* ... and 1e23 is multiplied by table entry pow5s[23], which holds 5^7 *)
Theorem C39_float64_correctly_rounded_refuted_table_entry :
  forall pf, ~ correctly_rounded false (value d_1e23) (fst (float64_of pf d_1e23)).
Proof. exact refuted_table_entry. Qed.
Print Assumptions C39_float64_correctly_rounded_refuted_table_entry.

(* "the reported exactness is true only when no rounding happened" is FALSE: 0.1 is reported exact *)
Theorem C39_exact_flag_refuted :
  exists d : decimal, forall pf,
    snd (float64_of pf d) = true /\ B2R (fst (float64_of pf d)) <> value d.
Proof. exists d_0p1. exact refuted_exact_flag. Qed.
Print Assumptions C39_exact_flag_refuted.

(* on the guard (zero; uint64 mantissa without exponent; Clinger's fast path: base 10, mantissa <= 2^53,
   |exp| <= 22; base 2 with mantissa <= 2^53; base 10 with mantissa > 2^53) the result is the
   correctly rounded one, provided strconv.ParseFloat is correctly rounding *)
Theorem C39_float64_correctly_rounded_partial :
  forall pf, parse_float_correct pf ->
  forall d, pinned_guard d = true ->
    correctly_rounded (d_neg d) (value d) (fst (float64_of pf d)).
Proof. exact float64_correctly_rounded_partial_lemma. Qed.
Print Assumptions C39_float64_correctly_rounded_partial.

(* the exact flag is sound where no scaling happens *)
Theorem C39_exact_flag_sound_partial :
  forall pf d, pinned_exact_guard d = true ->
    snd (float64_of pf d) = true -> B2R (fst (float64_of pf d)) = value d.
Proof. exact exact_flag_sound_partial_lemma. Qed.
Print Assumptions C39_exact_flag_sound_partial.

(* the assumption on strconv.ParseFloat is satisfiable: the reference reader (exact integer
   arithmetic, one rounding) meets it, so the partial theorem is not vacuous in pf *)
Theorem C39_parse_float_assumption_realisable : parse_float_correct ref_parse_float.
Proof. exact ref_parse_float_correct. Qed.
Print Assumptions C39_parse_float_assumption_realisable.

(* non-vacuity: 3134.5 (mantissa 31345, d.ddd exponent 4, so e = -1) is inside the guard, and the
   model yields the binary64 for 3134.5 for it *)
Example C39_nonvacuous :
  let d := {| d_neg := false; d_bin := false; d_mant := 31345; d_exp := 4 |} in
  pinned_guard d = true /\ d_e d = (-1)%Z /\
  bits_of (fst (float64_of ref_parse_float d)) = 4659111253468250112%N.
Proof. vm_compute. repeat split; reflexivity. Qed.
