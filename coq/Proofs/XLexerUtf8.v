(* Proofs about Model/XLexer.v, part A: UTF-8 decoding as the lexer sees it (peek / pop), validity of
   the text, and why the cursor stays on rune boundaries. *)
From Coq Require Import List NArith ZArith Bool Lia ZifyBool ZifyN ZifyNat.
From PV Require Import Model.XLexer.
Import ListNotations.

Local Open Scope nat_scope.

(* ========================================================================================== *)
(* A. UTF-8                                                                                     *)
(* ========================================================================================== *)

Lemma in_rng_spec lo hi b : in_rng lo hi b = true <-> (lo <= b /\ b <= hi)%N.
Proof. unfold in_rng. rewrite andb_true_iff, !N.leb_le. tauto. Qed.

Ltac split_ifs :=
  repeat match goal with
         | |- context [if ?c then _ else _] => let E := fresh "E" in destruct c eqn:E
         end.

Ltac rl_solve := unfold rune_len, valid_rune; repeat split; split_ifs; lia.

(* what a successful decode guarantees: width within the text, RuneLen agrees with the width,
   the rune is a valid one *)
Lemma decode_spec s r w :
  decode_rune s = Some (r, w) ->
  1 <= w /\ w <= length s /\ rune_len r = Z.of_nat w /\ (0 <= r)%Z /\ valid_rune r = true.
Proof.
  unfold decode_rune. destruct s as [|b0 t]; [discriminate|].
  destruct (N.ltb b0 128) eqn:E1.
  { intros H; inversion H; subst; clear H. apply N.ltb_lt in E1.
    cbn [length]. rl_solve. }
  destruct (N.ltb b0 194) eqn:E2; [discriminate|].
  apply N.ltb_ge in E1. apply N.ltb_ge in E2.
  destruct (N.ltb b0 224) eqn:E3.
  { apply N.ltb_lt in E3. destruct t as [|b1 t]; [discriminate|].
    destruct (in_rng 128 191 b1) eqn:R1; [|discriminate]. apply in_rng_spec in R1.
    intros H; inversion H; subst; clear H. cbn [length]. rl_solve. }
  apply N.ltb_ge in E3.
  destruct (N.ltb b0 240) eqn:E4.
  { apply N.ltb_lt in E4. destruct t as [|b1 [|b2 t]]; try discriminate.
    destruct (in_rng _ _ b1 && in_rng 128 191 b2) eqn:R; [|discriminate].
    apply andb_true_iff in R. destruct R as [R1 R2]. apply in_rng_spec in R1. apply in_rng_spec in R2.
    intros H; inversion H; subst; clear H. cbn [length].
    destruct (N.eqb b0 224) eqn:Ea; destruct (N.eqb b0 237) eqn:Eb; rl_solve. }
  apply N.ltb_ge in E4.
  destruct (N.ltb b0 245) eqn:E5; [|discriminate].
  apply N.ltb_lt in E5. destruct t as [|b1 [|b2 [|b3 t]]]; try discriminate.
  destruct (in_rng _ _ b1 && in_rng 128 191 b2 && in_rng 128 191 b3) eqn:R; [|discriminate].
  apply andb_true_iff in R. destruct R as [R R3]. apply andb_true_iff in R. destruct R as [R1 R2].
  apply in_rng_spec in R1. apply in_rng_spec in R2. apply in_rng_spec in R3.
  intros H; inversion H; subst; clear H. cbn [length].
  destruct (N.eqb b0 240) eqn:Ea; destruct (N.eqb b0 244) eqn:Eb; rl_solve.
Qed.

(* the bytes after the first one of a decoded rune are continuation bytes *)
Lemma decode_cont s r w i :
  decode_rune s = Some (r, w) -> 1 <= i -> i < w -> (128 <= nth i s 0)%N.
Proof.
  unfold decode_rune. destruct s as [|b0 t]; [discriminate|].
  destruct (N.ltb b0 128). { intros H; inversion H; subst. lia. }
  destruct (N.ltb b0 194); [discriminate|].
  destruct (N.ltb b0 224).
  { destruct t as [|b1 t]; [discriminate|].
    destruct (in_rng 128 191 b1) eqn:R1; [|discriminate]. apply in_rng_spec in R1.
    intros H; inversion H; subst; clear H. intros H1 H2.
    assert (i = 1) by lia. subst. cbn. lia. }
  destruct (N.ltb b0 240).
  { destruct t as [|b1 [|b2 t]]; try discriminate.
    destruct (in_rng _ _ b1 && in_rng 128 191 b2) eqn:R; [|discriminate].
    apply andb_true_iff in R. destruct R as [R1 R2]. apply in_rng_spec in R1. apply in_rng_spec in R2.
    intros H; inversion H; subst; clear H. intros H1 H2.
    assert (i = 1 \/ i = 2) as [-> | ->] by lia; cbn; [|lia].
    destruct (N.eqb b0 224); lia. }
  destruct (N.ltb b0 245); [|discriminate].
  destruct t as [|b1 [|b2 [|b3 t]]]; try discriminate.
  destruct (in_rng _ _ b1 && in_rng 128 191 b2 && in_rng 128 191 b3) eqn:R; [|discriminate].
  apply andb_true_iff in R. destruct R as [R R3]. apply andb_true_iff in R. destruct R as [R1 R2].
  apply in_rng_spec in R1. apply in_rng_spec in R2. apply in_rng_spec in R3.
  intros H; inversion H; subst; clear H. intros H1 H2.
  assert (i = 1 \/ i = 2 \/ i = 3) as [-> | [-> | ->]] by lia; cbn; try lia.
  destruct (N.eqb b0 240); lia.
Qed.

Lemma decode_ascii b t : (b < 128)%N -> decode_rune (b :: t) = Some (Z.of_N b, 1).
Proof. intros H. unfold decode_rune. apply N.ltb_lt in H. now rewrite H. Qed.

(* the text is a sequence of decodable runes *)
Inductive Valid : list N -> Prop :=
| V_nil : Valid []
| V_cons s r w : decode_rune s = Some (r, w) -> Valid (skipn w s) -> Valid s.

Lemma Valid_inv s : Valid s -> s <> [] ->
  exists r w, decode_rune s = Some (r, w) /\ Valid (skipn w s).
Proof.
  intros H Hn. inversion H; subst; [congruence|]. eauto.
Qed.

(* the workhorse: what peek and pop see on a valid non-empty remainder *)
Lemma Valid_peek s : Valid s -> s <> [] ->
  exists r w, decode_rune s = Some (r, w) /\ peek s = r /\ pop_len s = w /\ 1 <= w /\ w <= length s
              /\ Valid (skipn w s) /\ (0 <= r)%Z /\ rune_len r = Z.of_nat w.
Proof.
  intros H Hn. destruct (Valid_inv s H Hn) as (r & w & Hd & Hv).
  destruct (decode_spec _ _ _ Hd) as (H1 & H2 & H3 & H4 & H5).
  exists r, w. unfold pop_len, peek. rewrite Hd.
  repeat split; auto. destruct (Z.eqb_spec r (-1)); [lia|]. rewrite H3. lia.
Qed.

Lemma peek_nil : peek [] = (-1)%Z.
Proof. reflexivity. Qed.
Lemma pop_len_nil : pop_len [] = 0.
Proof. reflexivity. Qed.

Lemma skipn_skipn {A} (a b : nat) (l : list A) : skipn a (skipn b l) = skipn (b + a) l.
Proof.
  revert l. induction b as [|b IH]; intros l; [reflexivity|].
  destruct l; cbn [skipn plus]; [now rewrite skipn_nil| apply IH].
Qed.

Lemma nth_skipn {A} (n i : nat) (l : list A) d : nth i (skipn n l) d = nth (n + i) l d.
Proof.
  revert l. induction n as [|n IH]; intros l; [reflexivity|].
  destruct l; cbn [skipn plus nth]; [now destruct i| apply IH].
Qed.

(* after an ASCII byte the text is again at a rune boundary *)
Lemma Valid_after_ascii s : Valid s -> forall n, n < length s -> (nth n s 0 < 128)%N -> Valid (skipn (S n) s).
Proof.
  induction 1 as [|s r w Hd Hv IH]; intros n Hn Hb; [cbn in Hn; lia|].
  destruct (decode_spec _ _ _ Hd) as (H1 & H2 & _).
  destruct (Nat.lt_ge_cases n w) as [Hlt|Hge].
  - (* the byte lies inside this rune: it must be its first byte, and the rune is one byte wide *)
    destruct (Nat.eq_dec n 0) as [->|Hn0].
    + destruct s as [|b0 t]; [cbn in Hn; lia|]. cbn [nth] in Hb.
      rewrite (decode_ascii b0 t Hb) in Hd. inversion Hd; subst. exact Hv.
    + pose proof (decode_cont _ _ _ n Hd ltac:(lia) Hlt). lia.
  - replace (S n) with (w + S (n - w)) by lia. rewrite <- skipn_skipn.
    apply IH.
    + rewrite skipn_length. lia.
    + rewrite nth_skipn. now replace (w + (n - w)) with n by lia.
Qed.

Lemma is_prefix_spec p s : is_prefix p s = true <-> firstn (length p) s = p /\ length p <= length s.
Proof.
  revert s. induction p as [|a p IH]; intros s; cbn [is_prefix length firstn].
  - split; [intros _; split; [reflexivity|lia]|reflexivity].
  - destruct s as [|b s]; cbn [length firstn].
    + split; [discriminate|intros [_ H]; lia].
    + rewrite andb_true_iff, N.eqb_eq, IH. split.
      * intros [-> [H1 H2]]. rewrite H1. split; [reflexivity|lia].
      * intros [H1 H2]. inversion H1; subst. rewrite H3. repeat split; auto. lia.
Qed.

Lemma is_prefix_nth p s i : is_prefix p s = true -> i < length p -> nth i s 0%N = nth i p 0%N.
Proof.
  revert s i. induction p as [|a p IH]; intros s i H Hi; [cbn in Hi; lia|].
  destruct s as [|b s]; [discriminate|]. cbn [is_prefix] in H.
  apply andb_true_iff in H. destruct H as [H1 H2]. apply N.eqb_eq in H1. subst.
  destruct i; [reflexivity|]. cbn [nth]. apply IH; [exact H2|cbn in Hi; lia].
Qed.

Definition ascii (p : list N) : Prop := Forall (fun b => (b < 128)%N) p.

(* skipping an ASCII word that is a prefix of the text keeps it valid *)
Lemma Valid_skip_prefix s p : Valid s -> is_prefix p s = true -> ascii p -> Valid (skipn (length p) s).
Proof.
  intros Hv Hp Ha. destruct p as [|a p'] eqn:E; [exact Hv|]. rewrite <- E in *.
  assert (Hl : 1 <= length p) by (subst; cbn; lia).
  pose proof Hp as Hp'. apply is_prefix_spec in Hp'. destruct Hp' as [_ Hle].
  replace (length p) with (S (length p - 1)) by lia.
  apply Valid_after_ascii; [exact Hv|lia|].
  rewrite (is_prefix_nth p s _ Hp) by lia.
  unfold ascii in Ha. rewrite Forall_forall in Ha. apply Ha. apply nth_In. lia.
Qed.

Lemma Valid_skip_ascii_run s n :
  Valid s -> n <= length s -> (forall i, i < n -> (nth i s 0 < 128)%N) -> Valid (skipn n s).
Proof.
  intros Hv Hn Hb. destruct n as [|n]; [exact Hv|].
  apply Valid_after_ascii; [exact Hv|lia|apply Hb; lia].
Qed.
