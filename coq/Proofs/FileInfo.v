(* Proofs about the model of the stable AST's position machinery (Model/FileInfo.v). *)
From Coq Require Import List NArith Bool Lia ZifyBool ZifyN ZifyNat Arith Sorted.
From PV Require Import Model.Utf8 Model.Lines Model.FileInfo Proofs.Utf8 Proofs.Lines.
Import ListNotations.
Open Scope nat_scope.

Definition upto (off : nat) (l : list nat) : list nat := filter (fun x => x <=? off) l.
Definition all_nl (rs : list (nat * N)) : list nat :=
  map (fun p => S (fst p)) (filter (fun p => (snd p =? 10)%N) rs).

(* ---- which newlines the lexer records: exactly those consumed outside string literals ---- *)
Lemma lex_step_records fx st c :
  snd (lex_step fx st c) = (c =? 10)%N && (fx || negb (in_string st)).
Proof.
  destruct (c =? 10)%N eqn:E.
  - apply N.eqb_eq in E. subst c.
    destruct st, fx; cbn [lex_step in_string negb orb andb];
    unfold top_step, str_step, block_step;
    repeat match goal with
           | |- context [if ?b then _ else _] => destruct b eqn:?
           end; cbn [snd andb]; try reflexivity; try discriminate.
  - destruct st; cbn [lex_step in_string negb orb andb];
    unfold top_step, str_step, block_step; rewrite ?E, ?andb_false_r;
    repeat match goal with
           | |- context [if ?b then _ else _] => destruct b eqn:?
           end; cbn [snd andb]; try reflexivity; try discriminate.
Qed.

Lemma upto_cons off x l : upto off (x :: l) = if x <=? off then x :: upto off l else upto off l.
Proof. reflexivity. Qed.

Lemma all_nl_cons i c rest : all_nl ((i, c) :: rest) = if (c =? 10)%N then S i :: all_nl rest else all_nl rest.
Proof. unfold all_nl. cbn [filter snd]. destruct (c =? 10)%N; reflexivity. Qed.

Lemma scan_fixed st rs : scan true st rs = all_nl rs.
Proof.
  revert st. induction rs as [|[i c] rest IH]; intros st; [reflexivity|].
  cbn [scan]. pose proof (lex_step_records true st c) as H.
  destruct (lex_step true st c) as [st' rec]. cbn [snd orb] in H. rewrite andb_true_r in H. subst rec.
  rewrite all_nl_cons. destruct (c =? 10)%N; now rewrite IH.
Qed.

(* recorded + missed = all newlines, counted up to any offset *)
Lemma scan_partition off st rs :
  length (upto off (scan false st rs)) + length (upto off (strlit_newlines st rs)) = length (upto off (all_nl rs)).
Proof.
  revert st. induction rs as [|[i c] rest IH]; intros st; [reflexivity|].
  cbn [scan strlit_newlines]. pose proof (lex_step_records false st c) as H.
  destruct (lex_step false st c) as [st' rec]. cbn [snd fst orb] in *. subst rec.
  rewrite all_nl_cons. specialize (IH st').
  destruct (c =? 10)%N; cbn [andb]; [|rewrite andb_false_r; exact IH].
  destruct (in_string st); cbn [negb andb]; rewrite !upto_cons;
  destruct (S i <=? off); cbn [length]; lia.
Qed.

Lemma scan_no_missed off st rs : upto off (strlit_newlines st rs) = [] ->
  upto off (scan false st rs) = upto off (all_nl rs).
Proof.
  revert st. induction rs as [|[i c] rest IH]; intros st Hm; [reflexivity|].
  cbn [scan strlit_newlines] in *. pose proof (lex_step_records false st c) as H.
  destruct (lex_step false st c) as [st' rec]. cbn [snd fst orb] in *. subst rec.
  rewrite all_nl_cons. specialize (IH st').
  destruct (c =? 10)%N; cbn [andb] in *; [|rewrite andb_false_r in Hm; now apply IH].
  destruct (in_string st); cbn [negb andb] in *; rewrite ?upto_cons in *.
  - destruct (S i <=? off); [discriminate|]. now apply IH.
  - destruct (S i <=? off); [f_equal|]; now apply IH.
Qed.

Lemma nth_firstn_N (l : list N) : forall n i d, i < n -> nth i (firstn n l) d = nth i l d.
Proof.
  induction l as [|x l IH]; intros n i d H; [now rewrite firstn_nil|].
  destruct n; [lia|]. destruct i; [reflexivity|]. cbn [firstn nth]. apply IH. lia.
Qed.

(* the newline runes of the range loop are the newline bytes *)
Lemma all_nl_range : forall n s pos, length s = n -> all_nl (range_from s 0 pos) = nl_after_from pos s.
Proof.
  induction n as [n IH] using lt_wf_ind. intros s pos Hn.
  destruct s as [|c t]; [reflexivity|].
  assert (Hs : c :: t <> []) by discriminate.
  pose proof (rune_size_pos _ Hs) as Hp. pose proof (rune_size_le (c :: t)) as Hle.
  rewrite range_from_unfold by assumption. set (sz := rune_size (c :: t)) in *.
  rewrite all_nl_cons.
  rewrite (IH (length (skipn sz (c :: t)))); [|rewrite skipn_length; subst n; lia|reflexivity].
  replace (nl_after_from pos (c :: t)) with (nl_after_from pos (firstn sz (c :: t) ++ skipn sz (c :: t)))
    by now rewrite firstn_skipn.
  rewrite nl_after_from_app, firstn_length_le by lia.
  destruct (N.lt_ge_cases c 128) as [Hc|Hc].
  - assert (Hd := decode_rune_ascii c t Hc). unfold sz, rune_size. rewrite Hd. cbn [fst snd firstn nl_after_from is_nl].
    unfold is_nl. destruct (c =? 10)%N; reflexivity.
  - pose proof (decode_rune_high c t Hc) as Hr.
    replace (fst (decode_rune (c :: t)) =? 10)%N with false by lia.
    rewrite (nl_after_from_no_nl (firstn sz (c :: t)) pos); [reflexivity|].
    intros x Hx. apply In_nth with (d := 0%N) in Hx. destruct Hx as (j & Hj & <-).
    rewrite firstn_length_le in Hj by lia. rewrite nth_firstn_N by lia.
    destruct (Nat.le_gt_cases 2 sz) as [H2|H1].
    + pose proof (multibyte_high (c :: t) j H2 Hj). lia.
    + assert (j = 0) as -> by lia. cbn [nth]. lia.
Qed.

(* ---- the table is strictly increasing (so AddLine never refuses an offset and sort.Search applies) ---- *)
Lemma scan_in fx st rs x : In x (scan fx st rs) -> exists p, In p rs /\ x = S (fst p).
Proof.
  revert st. induction rs as [|[i c] rest IH]; intros st H; [destruct H|].
  cbn [scan] in H. destruct (lex_step fx st c) as [st' rec]. destruct rec.
  - destruct H as [<-|H]; [exists (i, c); split; [now left|reflexivity]|].
    destruct (IH _ H) as (p & Hp & ->). exists p. split; [now right|reflexivity].
  - destruct (IH _ H) as (p & Hp & ->). exists p. split; [now right|reflexivity].
Qed.

Lemma scan_sorted fx rs : StronglySorted (fun a b : nat * N => fst a < fst b) rs ->
  forall st, StronglySorted lt (scan fx st rs).
Proof.
  induction 1 as [|[i c] rest Hs IH Hf]; intros st; [constructor|].
  cbn [scan]. destruct (lex_step fx st c) as [st' rec]. destruct rec; [|apply IH].
  constructor; [apply IH|]. apply Forall_forall. intros x Hx.
  destruct (scan_in _ _ _ _ Hx) as (p & Hp & ->). rewrite Forall_forall in Hf. specialize (Hf p Hp). cbn [fst] in Hf. lia.
Qed.

Lemma table_sorted fx data : StronglySorted lt (0 :: scan fx LTop (range data)).
Proof.
  constructor; [apply scan_sorted, range_from_idx|].
  apply Forall_forall. intros x Hx. destruct (scan_in _ _ _ _ Hx) as (p & _ & ->). lia.
Qed.

Lemma lex_lines_sorted data : StronglySorted lt (lex_lines data).
Proof. apply table_sorted. Qed.

(* ---- entries up to an offset ---- *)
Lemma upto_le off l x : In x (upto off l) -> x <= off.
Proof. unfold upto. intros H. apply filter_In in H. destruct H as [_ H]. lia. Qed.

Lemma upto_all_gt off l : Forall (fun y => off < y) l -> upto off l = [].
Proof.
  induction 1 as [|y l Hy Hl IH]; [reflexivity|]. rewrite upto_cons. replace (y <=? off) with false by lia. exact IH.
Qed.

Lemma sorted_upto_prefix off l : StronglySorted lt l ->
  exists rest, l = upto off l ++ rest /\ Forall (fun y => off < y) rest.
Proof.
  induction 1 as [|x l Hs IH Hf]; [exists []; split; [reflexivity|constructor]|].
  rewrite upto_cons. destruct (x <=? off) eqn:E.
  - destruct IH as (rest & Hl & Hr). exists rest. split; [cbn [app]; now rewrite <- Hl|assumption].
  - assert (Forall (fun y => off < y) l) as Hgt by (eapply Forall_impl; [|exact Hf]; cbn; intros; lia).
    rewrite (upto_all_gt off l Hgt). exists (x :: l). split; [reflexivity|]. constructor; [lia|assumption].
Qed.

Lemma search_gt_prefix pre : forall rest off i, Forall (fun y => y <= off) pre -> Forall (fun y => off < y) rest ->
  search_gt (pre ++ rest) off i = i + length pre.
Proof.
  induction pre as [|y pre IH]; intros rest off i Hp Hr.
  - cbn [app length]. destruct rest as [|z rest]; [cbn; lia|]. inversion Hr; subst. cbn [search_gt].
    replace (off <? z) with true by lia. lia.
  - inversion Hp; subst. cbn [app search_gt length]. replace (off <? y) with false by lia.
    rewrite IH by assumption. lia.
Qed.

Lemma upto_forall off l : Forall (fun y => y <= off) (upto off l).
Proof. apply Forall_forall. intros x Hx. now apply upto_le in Hx. Qed.

(* FileInfo.SourcePos on a strictly increasing table that starts with 0 *)
Lemma nth_error_last (l : list nat) : forall x, nth_error (x :: l) (length l) = Some (last (x :: l) 0).
Proof.
  induction l as [|y l IH]; intros x; [reflexivity|].
  cbn [length nth_error]. rewrite IH. destruct l; reflexivity.
Qed.

Lemma source_pos_split x pre rest data off :
  Forall (fun y => y <= off) (x :: pre) -> Forall (fun y => off < y) rest ->
  source_pos ((x :: pre) ++ rest) data off =
  if length data <? off then None
  else Some (length (x :: pre), col_loop (slice data (last (x :: pre) 0) off) 0 + 1).
Proof.
  intros Hp Hr. unfold source_pos. rewrite search_gt_prefix by assumption.
  cbn [Nat.add length]. rewrite nth_error_app1 by (cbn [length]; lia).
  rewrite nth_error_last. reflexivity.
Qed.

Lemma source_pos_sorted t data off : StronglySorted lt (0 :: t) ->
  source_pos (0 :: t) data off =
  if length data <? off then None
  else Some (length (upto off (0 :: t)),
             col_loop (slice data (last (upto off (0 :: t)) 0) off) 0 + 1).
Proof.
  intros Hs. destruct (sorted_upto_prefix off (0 :: t) Hs) as (rest & Hl & Hr).
  assert (Hu : upto off (0 :: t) = 0 :: upto off t) by reflexivity.
  transitivity (source_pos (upto off (0 :: t) ++ rest) data off); [now rewrite <- Hl|].
  rewrite Hu. apply source_pos_split; [|assumption]. rewrite <- Hu. apply upto_forall.
Qed.

(* ---- the entries of the true table up to an offset ---- *)
Lemma upto_nl_after s : forall pos off, pos <= off ->
  upto off (nl_after_from pos s) = nl_after_from pos (firstn (off - pos) s).
Proof.
  induction s as [|c t IH]; intros pos off H; [now rewrite firstn_nil|].
  destruct (off - pos) as [|m] eqn:E.
  - cbn [firstn]. change (nl_after_from pos []) with (@nil nat).
    apply upto_all_gt, Forall_forall. intros x Hx.
    apply nl_after_from_bounds in Hx. lia.
  - cbn [firstn nl_after_from]. destruct (is_nl c).
    + rewrite upto_cons. replace (S pos <=? off) with true by lia. f_equal.
      rewrite IH by lia. now replace (off - S pos) with m by lia.
    + rewrite IH by lia. now replace (off - S pos) with m by lia.
Qed.

Lemma upto_true_table data off :
  upto off (0 :: nl_after data) = 0 :: nl_after (firstn off data).
Proof.
  rewrite upto_cons. cbn [Nat.leb]. f_equal. unfold nl_after.
  rewrite upto_nl_after by lia. now rewrite Nat.sub_0_r.
Qed.

Lemma last_cons_0 (l : list nat) : last (0 :: l) 0 = last l 0.
Proof. destruct l; reflexivity. Qed.

(* ---- the line table of the pinned lexer ---- *)
Theorem line_table_exact_lemma : forall data off,
  length (upto off (lex_lines data)) + length (upto off (missed_newlines data))
  = 1 + count_nl (firstn off data).
Proof.
  intros data off. unfold lex_lines, missed_newlines. rewrite upto_cons. cbn [Nat.leb length].
  pose proof (scan_partition off LTop (range data)) as H.
  unfold range in *. rewrite (all_nl_range (length data) data 0 eq_refl) in H.
  fold (nl_after data) in H.
  assert (length (upto off (nl_after data)) = count_nl (firstn off data)) as Hc.
  { unfold nl_after. rewrite upto_nl_after by lia. now rewrite Nat.sub_0_r, nl_after_from_length. }
  lia.
Qed.

Lemma lex_lines_upto data off : upto off (missed_newlines data) = [] ->
  upto off (lex_lines data) = 0 :: nl_after (firstn off data).
Proof.
  intros H. unfold lex_lines, missed_newlines in *. rewrite upto_cons. cbn [Nat.leb]. f_equal.
  rewrite scan_no_missed by assumption. unfold range.
  rewrite (all_nl_range (length data) data 0 eq_refl). unfold nl_after.
  rewrite upto_nl_after by lia. now rewrite Nat.sub_0_r.
Qed.

Theorem source_pos_in_range_lemma : forall data off, off <= length data ->
  exists l c, source_pos (lex_lines data) data off = Some (l, c).
Proof.
  intros data off H. unfold lex_lines. rewrite source_pos_sorted by apply table_sorted.
  replace (length data <? off) with false by lia. eauto.
Qed.

(* the reported line, exactly: one plus the newlines before the offset minus those swallowed by string literals *)
Theorem line_exact_lemma : forall data off l c,
  source_pos (lex_lines data) data off = Some (l, c) ->
  l + length (upto off (missed_newlines data)) = 1 + count_nl (firstn off data).
Proof.
  intros data off l c H. unfold lex_lines in H. rewrite source_pos_sorted in H by apply table_sorted.
  destruct (length data <? off); [discriminate|]. injection H as <- <-.
  apply line_table_exact_lemma.
Qed.

Theorem line_partial_lemma : forall data off l c,
  upto off (missed_newlines data) = [] ->
  source_pos (lex_lines data) data off = Some (l, c) ->
  l = 1 + count_nl (firstn off data).
Proof.
  intros data off l c Hm H. apply line_exact_lemma in H. rewrite Hm in H. cbn [length] in H. lia.
Qed.

Theorem col_partial_lemma : forall data off,
  off <= length data -> upto off (missed_newlines data) = [] ->
  source_pos (lex_lines data) data off
  = Some (1 + count_nl (firstn off data), 1 + col_loop (slice data (line_start data off) off) 0).
Proof.
  intros data off Hle Hm. pose proof (lex_lines_upto data off Hm) as Hu.
  unfold lex_lines in *. rewrite source_pos_sorted by apply table_sorted.
  replace (length data <? off) with false by lia. rewrite Hu. cbn [length].
  rewrite last_cons_0. unfold line_start, nl_after. rewrite nl_after_from_length. f_equal. f_equal. lia.
Qed.

Theorem line_refuted_lemma :
  exists data off l c, off <= length data /\ source_pos (lex_lines data) data off = Some (l, c) /\
                       l <> 1 + count_nl (firstn off data).
Proof.
  exists [34; 10]%N, 2, 1, 3. split; [cbn; lia|]. split; [vm_compute; reflexivity|vm_compute; lia].
Qed.

(* ---- the repaired lexer records every newline ---- *)
Theorem fixed_line_table_lemma : forall data, lex_lines_fixed data = 0 :: nl_after data.
Proof.
  intros data. unfold lex_lines_fixed. rewrite scan_fixed. unfold range.
  now rewrite (all_nl_range (length data) data 0 eq_refl).
Qed.

Theorem fixed_source_pos_lemma : forall data off, off <= length data ->
  source_pos (lex_lines_fixed data) data off
  = Some (1 + count_nl (firstn off data), 1 + col_loop (slice data (line_start data off) off) 0).
Proof.
  intros data off Hle. unfold lex_lines_fixed. rewrite source_pos_sorted by apply table_sorted.
  replace (length data <? off) with false by lia.
  pose proof (fixed_line_table_lemma data) as Ht. unfold lex_lines_fixed in Ht. rewrite Ht.
  rewrite upto_true_table. cbn [length]. rewrite last_cons_0.
  unfold line_start, nl_after. rewrite nl_after_from_length. f_equal. f_equal. lia.
Qed.

(* ---- positions computed while the table is still being built (error positions): entries beyond the
   offset do not matter ---- *)
Lemma search_gt_le l : forall off i, search_gt l off i <= i + length l.
Proof.
  induction l as [|y l IH]; intros off i; [cbn; lia|]. cbn [search_gt length].
  destruct (off <? y); [lia|]. specialize (IH off (S i)). lia.
Qed.

Lemma search_gt_app_gt pre : forall rest off i, Forall (fun y => off < y) rest ->
  search_gt (pre ++ rest) off i = search_gt pre off i.
Proof.
  induction pre as [|y pre IH]; intros rest off i Hr.
  - cbn [app search_gt]. destruct rest as [|z rest]; [reflexivity|]. inversion Hr; subst.
    cbn [search_gt]. now replace (off <? z) with true by lia.
  - cbn [app search_gt]. destruct (off <? y); [reflexivity|]. now apply IH.
Qed.

Theorem partial_table_lemma : forall pre rest data off,
  Forall (fun y => off < y) rest ->
  source_pos (pre ++ rest) data off = source_pos pre data off.
Proof.
  intros pre rest data off Hr. unfold source_pos. rewrite search_gt_app_gt by assumption.
  pose proof (search_gt_le pre off 0) as Hle.
  destruct (search_gt pre off 0) as [|l0]; [reflexivity|].
  rewrite nth_error_app1 by lia. reflexivity.
Qed.

(* ---- SourcePos is monotone in the offset; spans start no later than they end ---- *)
Lemma col_loop_app a : forall b c, col_loop (a ++ b) c = col_loop b (col_loop a c).
Proof. induction a as [|x a IH]; intros b c; [reflexivity|]. cbn [app col_loop]. apply IH. Qed.

Lemma col_loop_ge bs : forall c, c <= col_loop bs c.
Proof.
  induction bs as [|b bs IH]; intros c; [cbn; lia|]. cbn [col_loop].
  pose proof (Nat.mod_upper_bound c 8 ltac:(lia)).
  destruct (b =? 9)%N; [|destruct (rune_start b)];
  match goal with |- _ <= col_loop bs ?x => specialize (IH x) end; lia.
Qed.

Lemma upto_upto o1 o2 l : o1 <= o2 -> upto o1 (upto o2 l) = upto o1 l.
Proof.
  intros H. induction l as [|x l IH]; [reflexivity|]. rewrite !upto_cons.
  destruct (x <=? o2) eqn:E2.
  - rewrite upto_cons. destruct (x <=? o1); now rewrite IH.
  - replace (x <=? o1) with false by lia. exact IH.
Qed.

Lemma upto_length_le off l : length (upto off l) <= length l.
Proof.
  induction l as [|x l IH]; [cbn; lia|]. rewrite upto_cons. destruct (x <=? off); cbn [length]; lia.
Qed.

Lemma skipn_skipn_N (l : list N) : forall a b, skipn a (skipn b l) = skipn (a + b) l.
Proof.
  induction l as [|x l IH]; intros a b; [now rewrite !skipn_nil|].
  destruct b; [now rewrite Nat.add_0_r|]. rewrite Nat.add_succ_r. cbn [skipn]. apply IH.
Qed.

Lemma firstn_split_N (l : list N) : forall a b, firstn (a + b) l = firstn a l ++ firstn b (skipn a l).
Proof.
  induction l as [|x l IH]; intros a b; [now rewrite !firstn_nil, skipn_nil, firstn_nil|].
  destruct a; [reflexivity|]. cbn [Nat.add firstn skipn app]. now rewrite IH.
Qed.

Lemma slice_split (data : list N) s o1 o2 : s <= o1 -> o1 <= o2 -> o2 <= length data ->
  slice data s o2 = slice data s o1 ++ slice data o1 o2.
Proof.
  intros H1 H2 H3. unfold slice.
  replace (o2 - s) with ((o1 - s) + (o2 - o1)) by lia.
  rewrite firstn_split_N, skipn_skipn_N. now replace (o1 - s + s) with o1 by lia.
Qed.

Lemma last_upto_le off l : last (upto off l) 0 <= off.
Proof.
  destruct (upto off l) as [|x r] eqn:E; [cbn; lia|].
  apply (upto_le off l). rewrite E.
  destruct (@exists_last _ (x :: r) ltac:(discriminate)) as (l' & a & ->).
  rewrite last_last. apply in_or_app. right. now left.
Qed.

Lemma upto_full off l : length (upto off l) = length l -> upto off l = l.
Proof.
  induction l as [|x l IH]; [reflexivity|]. rewrite upto_cons. destruct (x <=? off); cbn [length]; intros H.
  - f_equal. apply IH. lia.
  - pose proof (upto_length_le off l). lia.
Qed.

Lemma source_pos_mono t data o1 o2 p1 p2 : StronglySorted lt (0 :: t) -> o1 <= o2 ->
  source_pos (0 :: t) data o1 = Some p1 -> source_pos (0 :: t) data o2 = Some p2 -> pos_le p1 p2.
Proof.
  intros Hs Ho H1 H2. rewrite source_pos_sorted in H1, H2 by assumption.
  remember (0 :: t) as T eqn:HT. clear HT Hs t.
  destruct (length data <? o2) eqn:E2; [discriminate|].
  destruct (length data <? o1) eqn:E1; [discriminate|].
  injection H1 as <-. injection H2 as <-. unfold pos_le. cbn [fst snd].
  pose proof (upto_upto o1 o2 T Ho) as Hu.
  pose proof (upto_length_le o1 (upto o2 T)) as Hl. rewrite Hu in Hl.
  destruct (Nat.eq_dec (length (upto o1 T)) (length (upto o2 T))) as [Heq|Hne]; [right|left; lia].
  split; [assumption|].
  rewrite <- Hu in Heq. apply upto_full in Heq. rewrite Hu in Heq. rewrite Heq.
  pose proof (last_upto_le o1 T) as Hlast. rewrite Heq in Hlast.
  rewrite (slice_split data _ o1 o2) by lia. rewrite col_loop_app.
  pose proof (col_loop_ge (slice data o1 o2) (col_loop (slice data (last (upto o2 T) 0) o1) 0)). lia.
Qed.

Theorem span_start_le_end_sorted_lemma : forall t data i1 i2 s e,
  StronglySorted lt (0 :: t) -> fst i1 <= fst i2 ->
  item_start (0 :: t) data i1 = Some s -> node_end (0 :: t) data i2 = Some e -> pos_le s e.
Proof.
  intros t data [o1 l1] [o2 l2] s e Hs Ho H1 H2. unfold item_start, node_end in *. cbn [fst snd] in *.
  destruct (source_pos (0 :: t) data (if 0 <? l2 then o2 + (l2 - 1) else o2)) as [[l c]|] eqn:E; [|discriminate].
  injection H2 as <-.
  assert (pos_le s (l, c)) as Hle.
  { eapply (source_pos_mono t data o1); [eassumption| |eassumption|eassumption]. destruct (0 <? l2); lia. }
  unfold pos_le in *. cbn [fst snd] in *. destruct (0 <? l2); lia.
Qed.

Theorem comment_span_sorted_lemma : forall t data i s e,
  StronglySorted lt (0 :: t) -> 1 <= snd i ->
  item_start (0 :: t) data i = Some s -> comment_end (0 :: t) data i = Some e -> pos_le s e.
Proof.
  intros t data [o l] s e Hs Hl H1 H2. unfold item_start, comment_end in *. cbn [fst snd] in *.
  eapply (source_pos_mono t data o); [eassumption| |eassumption|eassumption]. lia.
Qed.

Theorem span_start_le_end_lemma : forall data i1 i2 s e,
  fst i1 <= fst i2 ->
  item_start (lex_lines data) data i1 = Some s -> node_end (lex_lines data) data i2 = Some e -> pos_le s e.
Proof. intros data i1 i2 s e. apply span_start_le_end_sorted_lemma, table_sorted. Qed.

(* ---- counting rune-start bytes is counting characters, on valid UTF-8 ---- *)
Lemma col_loop_cont bs : forall c, Forall (fun b => (128 <= b <= 191)%N) bs -> col_loop bs c = c.
Proof.
  induction bs as [|b bs IH]; intros c H; [reflexivity|]. inversion H; subst. cbn [col_loop].
  replace (b =? 9)%N with false by lia. unfold rune_start.
  replace ((128 <=? b)%N && (b <? 192)%N) with true by lia. cbn [negb]. now apply IH.
Qed.

Definition col_chars_from (rs : list (nat * N)) (c : nat) : nat :=
  fold_left (fun col p => if (snd p =? 9)%N then col + (8 - col mod 8) else col + 1) rs c.

Lemma col_counts_characters_from : forall bs, valid_utf8 bs -> forall pos c,
  col_loop bs c = col_chars_from (range_from bs 0 pos) c.
Proof.
  induction 1 as [|s Hs Hv Hrest IH]; intros pos c; [reflexivity|].
  rewrite range_from_unfold by assumption. unfold col_chars_from. cbn [fold_left snd]. fold (col_chars_from).
  change (fold_left _ ?l ?a) with (col_chars_from l a).
  pose proof (rune_size_pos s Hs) as Hp. pose proof (rune_size_le s) as Hle.
  rewrite <- (firstn_skipn (rune_size s) s) at 1. rewrite col_loop_app, (IH (pos + rune_size s)). f_equal.
  destruct s as [|b t]; [congruence|].
  destruct (N.lt_ge_cases b 128) as [Hb|Hb].
  - pose proof (decode_rune_ascii b t Hb) as Hd. unfold rune_size. rewrite Hd. cbn [fst snd firstn col_loop].
    unfold rune_start. replace ((128 <=? b)%N && (b <? 192)%N) with false by lia. cbn [negb].
    destruct (b =? 9)%N; reflexivity.
  - pose proof (decode_rune_high b t Hb) as Hr.
    replace (fst (decode_rune (b :: t)) =? 9)%N with false by lia.
    destruct (Nat.le_gt_cases 2 (rune_size (b :: t))) as [H2|H1].
    + pose proof (multibyte_lead (b :: t) H2) as Hlead. cbn [nth] in Hlead.
      destruct (rune_size (b :: t)) as [|n] eqn:En; [lia|]. cbn [firstn col_loop].
      replace (b =? 9)%N with false by lia. unfold rune_start at 1.
      replace ((128 <=? b)%N && (b <? 192)%N) with false by lia. cbn [negb].
      apply col_loop_cont. apply Forall_forall. intros x Hx.
      apply In_nth with (d := 0%N) in Hx. destruct Hx as (j & Hj & <-).
      rewrite firstn_length in Hj. rewrite nth_firstn_N by lia.
      pose proof (multibyte_cont (b :: t) (S j) ltac:(lia) ltac:(lia)) as Hc. cbn [nth] in Hc. exact Hc.
    + exfalso. apply Hv. assert (rune_size (b :: t) = 1) as H1' by lia. split; [|assumption].
      (* a one-byte rune starting with a non-ASCII byte is a decoding error *)
      clear -Hb H1'. unfold rune_size, decode_rune in *.
      destruct (first_byte_cases b) as [[E H]|[[E _]|(sz & lo & hi & E & Hsz & _)]]; rewrite E in *; [lia|reflexivity|].
      destruct Hsz as [-> | [-> | ->]]; cbn [Nat.leb] in *;
      repeat match goal with
             | H : context [if ?c then _ else _] |- _ => destruct c
             end; cbn [snd fst] in *; try reflexivity; try discriminate.
Qed.

Theorem col_counts_characters_lemma : forall bs, valid_utf8 bs -> col_loop bs 0 = col_chars (range bs).
Proof. intros bs H. apply (col_counts_characters_from bs H 0 0). Qed.

(* non-vacuity: a text with a string literal holding a two-byte character, a newline and a tab;
   the offset is after the tab on line 2 *)
Example source_pos_example :
  upto 6 (missed_newlines [34; 195; 169; 34; 10; 9; 120]%N) = [] /\
  lex_lines [34; 195; 169; 34; 10; 9; 120]%N = [0; 5] /\
  source_pos (lex_lines [34; 195; 169; 34; 10; 9; 120]%N) [34; 195; 169; 34; 10; 9; 120]%N 6 = Some (2, 9) /\
  source_pos (lex_lines [34; 195; 169; 34; 10; 9; 120]%N) [34; 195; 169; 34; 10; 9; 120]%N 3 = Some (1, 3).
Proof. vm_compute. repeat split. Qed.

(* the smallest witnesses of the defect, as computed by the model of the pinned lexer *)
Lemma refuted_witnesses :
  lex_lines [34; 10]%N = [0] /\ missed_newlines [34; 10]%N = [2] /\
  source_pos (lex_lines [34; 10]%N) [34; 10]%N 2 = Some (1, 3) /\
  lex_lines_fixed [34; 10]%N = [0; 2] /\
  source_pos (lex_lines_fixed [34; 10]%N) [34; 10]%N 2 = Some (2, 1).
Proof. vm_compute. repeat split. Qed.

(* ---- NodeInfo.End is the position just after the last character ---- *)
Lemma upto_succ_notin off l : ~ In (S off) l -> upto (S off) l = upto off l.
Proof.
  induction l as [|x l IH]; intros H; [reflexivity|]. rewrite !upto_cons.
  assert (x <> S off) by (intros ->; apply H; now left).
  assert (~ In (S off) l) by (intros Hi; apply H; now right).
  replace (x <=? S off) with (x <=? off) by lia. now rewrite IH.
Qed.

Lemma slice_one (data : list N) : forall o, o < length data -> slice data o (S o) = [nth o data 0%N].
Proof.
  unfold slice. intros o H. replace (S o - o) with 1 by lia. revert o H.
  induction data as [|b data IH]; intros o H; [cbn [length] in H; lia|].
  destruct o as [|o]; [reflexivity|]. cbn [skipn nth]. apply IH. cbn [length] in H. lia.
Qed.

Theorem node_end_after_last_char_lemma : forall t data o len,
  StronglySorted lt (0 :: t) -> 0 < len -> o + len <= length data ->
  ~ In (o + len) (0 :: t) ->
  nth (o + len - 1) data 0%N <> 9%N -> rune_start (nth (o + len - 1) data 0%N) = true ->
  node_end (0 :: t) data (o, len) = source_pos (0 :: t) data (o + len).
Proof.
  intros t data o len Hs Hl Hd Hn H9 Hr. unfold node_end.
  replace (0 <? len) with true by lia.
  remember (o + (len - 1)) as off eqn:Eo.
  replace (o + len) with (S off) in * by lia. replace (S off - 1) with off in * by lia.
  rewrite !source_pos_sorted by assumption.
  replace (length data <? off) with false by lia. replace (length data <? S off) with false by lia.
  rewrite (upto_succ_notin off _ Hn).
  pose proof (last_upto_le off (0 :: t)) as Hlast.
  rewrite (slice_split data _ off (S off)) by lia.
  rewrite col_loop_app, slice_one by lia. cbn [col_loop].
  replace (nth off data 0%N =? 9)%N with false by lia. rewrite Hr.
  f_equal. f_equal. lia.
Qed.

(* on the table of the repaired lexer: no entry at o + len unless the last byte is a newline *)
Lemma nl_after_from_in s : forall pos x, In x (nl_after_from pos s) -> nth (x - 1 - pos) s 0%N = 10%N.
Proof.
  induction s as [|c s IH]; intros pos x H; [destruct H|]. cbn [nl_after_from] in H.
  unfold is_nl in H. destruct (c =? 10)%N eqn:E.
  - destruct H as [<-|H].
    + replace (S pos - 1 - pos) with 0 by lia. cbn [nth]. lia.
    + pose proof (nl_after_from_bounds _ _ _ H). specialize (IH _ _ H).
      replace (x - 1 - pos) with (S (x - 1 - S pos)) by lia. exact IH.
  - pose proof (nl_after_from_bounds _ _ _ H). specialize (IH _ _ H).
    replace (x - 1 - pos) with (S (x - 1 - S pos)) by lia. exact IH.
Qed.

Theorem fixed_node_end_lemma : forall data o len,
  0 < len -> o + len <= length data ->
  (nth (o + len - 1) data 0 < 128)%N -> nth (o + len - 1) data 0%N <> 9%N -> nth (o + len - 1) data 0%N <> 10%N ->
  node_end (lex_lines_fixed data) data (o, len)
  = Some (1 + count_nl (firstn (o + len) data), 1 + col_loop (slice data (line_start data (o + len)) (o + len)) 0).
Proof.
  intros data o len Hl Hd Ha H9 H10.
  rewrite <- fixed_source_pos_lemma by assumption.
  rewrite fixed_line_table_lemma. apply node_end_after_last_char_lemma; try assumption.
  - rewrite <- fixed_line_table_lemma. apply table_sorted.
  - intros [H|H]; [lia|]. apply nl_after_from_in in H. apply H10. rewrite <- H. f_equal. lia.
  - unfold rune_start. lia.
Qed.

(* non-vacuity: a quoted string holding a raw tab, at column 1: the closing quote is at column 9, the end at 10 *)
Example node_end_example :
  node_end (lex_lines_fixed [34; 9; 34]%N) [34; 9; 34]%N (0, 3) = Some (1, 10) /\
  node_end (lex_lines_fixed [32; 34; 195; 169; 9; 34; 59]%N) [32; 34; 195; 169; 9; 34; 59]%N (1, 5) = Some (1, 10).
Proof. vm_compute. split; reflexivity. Qed.
