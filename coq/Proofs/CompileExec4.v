(* Corollaries of the executor invariants: every run can be completed and takes a bounded number
   of steps; the verdict does not depend on parallelism, request order or schedule; faults are
   contained. *)
From Coq Require Import List Arith Bool Lia.
From PV Require Import Model.CompileExec Proofs.CompileExec1 Proofs.CompileExec2 Proofs.CompileExec3.
Import ListNotations.

Definition max_deg (g : graph) : nat :=
  fold_right (fun f a => Nat.max (length (imports g f)) a) 0 (seq 0 (nfiles g)).

Lemma max_deg_bound g : wf_graph g -> forall f, length (imports g f) <= max_deg g.
Proof.
  intros wfg f. destruct (le_lt_dec (nfiles g) f) as [Hle|Hlt].
  - destruct (imports g f) as [|d l] eqn:E; [cbn; lia|].
    destruct (wfg f d) as [A _]; [rewrite E; left; reflexivity|lia].
  - unfold max_deg. assert (In f (seq 0 (nfiles g))) as Hin by (apply in_seq; lia).
    induction (seq 0 (nfiles g)) as [|a l IH]; [destruct Hin|]. cbn.
    destruct Hin as [->|Hin]; [lia|]. specialize (IH Hin). lia.
Qed.

Section Exec4.
Variable g : graph.
Hypothesis wfg : wf_graph g.

(* the number of steps any schedule can take from the initial state is bounded by the measure *)
Theorem compile_steps_bounded par req : (forall x, In x req -> x < nfiles g) ->
  forall sched, steps_taken g sched (init par req) <= measure g (max_deg g) (init par req).
Proof.
  intros Hreq sched. apply (steps_bounded g wfg (max_deg g) (max_deg_bound g wfg) par req Hreq).
  apply reach_init.
Qed.

(* from every reachable state the compilation can be driven to a final state (no deadlock) *)
Theorem compile_can_finish par req : 1 <= par -> (forall x, In x req -> x < nfiles g) ->
  forall s, reach g par req s -> exists sched, final g (run g sched s) = true.
Proof.
  intros Hpar Hreq.
  assert (forall n s, measure g (max_deg g) s < n -> reach g par req s ->
                      exists sched, final g (run g sched s) = true) as Hind.
  { induction n as [|n IH]; intros s Hm Hr; [lia|].
    destruct (final g s) eqn:Ef; [exists []; exact Ef|].
    destruct (no_deadlock g wfg par Hpar req Hreq s Hr Ef) as (f & s' & Hs).
    pose proof (step_measure g wfg (max_deg g) (max_deg_bound g wfg) s f s'
                  (reach_inv1 g wfg par req s Hreq Hr) Hs) as Hlt.
    destruct (IH s' ltac:(lia) (reach_step g par req s f s' Hr Hs)) as (sched & Hfin).
    exists (f :: sched). cbn [run]. rewrite Hs. exact Hfin. }
  intros s Hr. eapply Hind; [apply Nat.lt_succ_diag_r|assumption].
Qed.

(* the verdict depends only on the set of requested files and the graph: not on the number of
   permits, not on the order of the request, not on the schedule *)
Theorem verdict_confluent par par' req req' s s' :
  1 <= par -> 1 <= par' ->
  (forall x, In x req -> x < nfiles g) -> (forall x, In x req <-> In x req') ->
  reach g par req s -> reach g par' req' s' -> final g s = true -> final g s' = true ->
  verdict s req = verdict s' req'.
Proof.
  intros Hp Hp' Hreq Hsame Hr Hr' Hf Hf'.
  assert (Hreq' : forall x, In x req' -> x < nfiles g) by (intros x Hx; apply Hreq; apply Hsame; assumption).
  assert (Hrf : forall x, reachable_from_req g req x <-> reachable_from_req g req' x).
  { intros x. unfold reachable_from_req. split; intros [A|(r & A & B)].
    - left. apply Hsame. assumption.
    - right. exists r. split; [apply Hsame; assumption|assumption].
    - left. apply Hsame. assumption.
    - right. exists r. split; [apply Hsame; assumption|assumption]. }
  destruct (verdict s req) eqn:E; destruct (verdict s' req') eqn:E'; try reflexivity.
  - pose proof (success_implies_clean g wfg par req Hreq s Hr E) as Hclean.
    rewrite <- E'. symmetry. apply (clean_implies_success g wfg par' req' Hreq' s' Hr' Hf').
    intros x Hx. apply Hclean. apply Hrf. assumption.
  - pose proof (success_implies_clean g wfg par' req' Hreq' s' Hr' E') as Hclean.
    rewrite <- E. apply (clean_implies_success g wfg par req Hreq s Hr Hf).
    intros x Hx. apply Hclean. apply Hrf. assumption.
Qed.

(* on success every file reachable from the request was compiled, with every schedule *)
Theorem success_outputs_all_reachable par req s :
  (forall x, In x req -> x < nfiles g) -> reach g par req s -> verdict s req = true ->
  forall x, reachable_from_req g req x -> tpc (tasks s x) = PDone None.
Proof.
  intros Hreq Hr Hv x Hx. destruct (reach_inv2 g wfg par req Hreq s Hr) as [_ Hi2].
  unfold verdict in Hv. rewrite forallb_forall in Hv.
  assert (forall r, In r req -> tpc (tasks s r) = PDone None) as Hroot.
  { intros r Hr'. specialize (Hv r Hr').
    destruct (tpc (tasks s r)) as [| | | | | | | | | | | |[e|]]; try discriminate. reflexivity. }
  destruct Hx as [Hx|(r & Hr' & Hp)]; [apply Hroot; assumption|].
  apply (ok_closed g req s Hi2 r x Hp). apply Hroot. assumption.
Qed.

(* a fault anywhere in the reachable part makes the compilation fail, whatever the schedule *)
Theorem faults_contained par req s :
  (forall x, In x req -> x < nfiles g) -> reach g par req s ->
  (exists x, reachable_from_req g req x /\ (rres g x <> ROk \/ lres g x = false)) ->
  verdict s req = false.
Proof.
  intros Hreq Hr (x & Hx & Hfault). destruct (verdict s req) eqn:E; [|reflexivity].
  destruct (success_implies_clean g wfg par req Hreq s Hr E x Hx) as (A & B & _).
  destruct Hfault; congruence.
Qed.

(* a resolver panic surfaces as the PanicError of that file, never as success or another error *)
Theorem panic_surfaces par req s f r :
  (forall x, In x req -> x < nfiles g) -> reach g par req s ->
  rres g f = RPanic -> tpc (tasks s f) = PDone r -> r = Some FPanic.
Proof.
  intros Hreq Hr Hp Hd. destruct (reach_inv2 g wfg par req Hreq s Hr) as [_ [Ht _]].
  pose proof (i2_res _ _ _ _ (Ht f)) as Hrs. rewrite Hd in Hrs.
  destruct r as [[| | |sq d|d]|]; try reflexivity; try congruence.
  destruct Hrs. congruence.
Qed.

End Exec4.
