(* Proofs about Model/Visibility.v: resolveInFile finds exactly what is defined in the visible set,
   and terminates on every graph (cycles through public imports included). *)
From Coq Require Import List NArith ZArith Bool Arith Lia Relations.
Import ListNotations.
From PV Require Import Model.Visibility.

Lemma memN_In x l : memN x l = true <-> In x l.
Proof.
  induction l as [|y l IH]; cbn [memN In]; [split; [discriminate|tauto]|].
  rewrite orb_true_iff, IH, N.eqb_eq. split; intros [H|H]; auto.
Qed.

Lemma memN_false x l : memN x l = false <-> ~ In x l.
Proof. rewrite <- memN_In. destruct (memN x l); split; congruence. Qed.

Lemma memN_app x a b : memN x (a ++ b) = memN x a || memN x b.
Proof. induction a as [|y a IH]; cbn [app memN]; [reflexivity|]. now rewrite IH, orb_assoc. Qed.

Lemma find_file_some G p f : find_file G p = Some f -> In f G /\ vf_path f = p.
Proof.
  induction G as [|g G IH]; cbn [find_file]; [discriminate|].
  destruct (N.eqb (vf_path g) p) eqn:E.
  - intros H. injection H as <-. apply N.eqb_eq in E. split; [now left|assumption].
  - intros H. apply IH in H. destruct H. split; [now right|assumption].
Qed.

Lemma find_file_none G p : find_file G p = None -> ~ In p (map vf_path G).
Proof.
  induction G as [|g G IH]; cbn [find_file map In]; [tauto|].
  destruct (N.eqb (vf_path g) p) eqn:E; [discriminate|]. apply N.eqb_neq in E. intros H [H1|H1]; [contradiction|now apply IH].
Qed.

Lemma find_file_nodup G f : nodupN (map vf_path G) = true -> In f G -> find_file G (vf_path f) = Some f.
Proof.
  induction G as [|g G IH]; cbn [map nodupN find_file]; [contradiction|].
  intros H [->|Hin].
  - now rewrite N.eqb_refl.
  - apply andb_true_iff in H. destruct H as [H1 H2]. apply negb_true_iff, memN_false in H1.
    destruct (N.eqb (vf_path g) (vf_path f)) eqn:E; [|now apply IH].
    apply N.eqb_eq in E. exfalso. apply H1. rewrite E. now apply in_map.
Qed.

(* graph_ok as facts *)
Record gok (G : graph) : Prop := {
  gok_self : forall f, In f G -> find_file G (vf_path f) = Some f;
  gok_closed : forall f p pub, In f G -> In (p, pub) (vf_imports f) -> exists g, find_file G p = Some g }.

Lemma graph_ok_gok G : graph_ok G = true -> gok G.
Proof.
  unfold graph_ok. intros H. apply andb_true_iff in H. destruct H as [H1 H2]. constructor.
  - intros f Hf. now apply find_file_nodup.
  - intros f p pub Hf Hp. rewrite forallb_forall in H2. specialize (H2 f Hf). rewrite forallb_forall in H2.
    specialize (H2 (p, pub) Hp). cbn [fst] in H2. destruct (find_file G p); [eauto|discriminate].
Qed.

Lemma filter_len_le {A} (p : A -> bool) l : (length (filter p l) <= length l)%nat.
Proof. induction l as [|x l IH]; cbn [filter length]; [lia|]. destruct (p x); cbn [length]; lia. Qed.

Section Visit.
  Variable G : graph.
  Variable fn : vfile -> option N.
  Hypothesis OK : gok G.

  (* the loop over the imports, as a function of its own *)
  Fixpoint iloop (fuel' : nat) (po : bool) (checked' : list N) (imps : list (N * bool)) : vres :=
    match imps with
    | [] => VNotFound
    | (p, isPublic) :: r =>
      if po && negb isPublic then iloop fuel' po checked' r
      else match find_file G p with
           | None => VPanic
           | Some g =>
             match visit G fn fuel' true checked' g with
             | VNotFound => iloop fuel' po checked' r
             | other => other
             end
           end
    end.

  Lemma visit_S fuel' po checked f :
    visit G fn (S fuel') po checked f =
    if memN (vf_path f) checked then VNotFound
    else match fn f with
         | Some e => VFound (vf_path f) e
         | None => iloop fuel' po (checked ++ [vf_path f]) (vf_imports f)
         end.
  Proof.
    cbn [visit]. destruct (memN (vf_path f) checked); [reflexivity|]. destruct (fn f); [reflexivity|].
    induction (vf_imports f) as [|[p b] r IH]; cbn [iloop]; [reflexivity|].
    destruct (po && negb b); [exact IH|]. destruct (find_file G p); [|reflexivity].
    destruct (visit G fn fuel' true (checked ++ [vf_path f]) v); try reflexivity. exact IH.
  Qed.

  Definition fnp (q : N) : option N := match find_file G q with Some g => fn g | None => None end.
  Definition edge_po (po : bool) (a d : N) : Prop := if po then pub_edge G a d else direct_import G a d.

  Lemma pub_direct a d : pub_edge G a d -> direct_import G a d.
  Proof. intros (f & Hf & Hi). exists f, true. auto. Qed.

  (* ---- soundness: whatever is found is defined in a file of the visible set ---- *)
  Lemma iloop_found fuel' po checked' imps p e : iloop fuel' po checked' imps = VFound p e ->
    exists q pub g, In (q, pub) imps /\ (po = true -> pub = true) /\ find_file G q = Some g /\
                    visit G fn fuel' true checked' g = VFound p e.
  Proof.
    induction imps as [|[q b] r IH]; cbn [iloop]; [discriminate|].
    destruct (po && negb b) eqn:Eb.
    - intros H. destruct (IH H) as (q' & pub & g & Hin & Hp & Hf & Hv). exists q', pub, g. repeat split; auto. now right.
    - destruct (find_file G q) as [g|] eqn:Ef; [|discriminate].
      destruct (visit G fn fuel' true checked' g) eqn:Ev; intros H; try discriminate.
      + injection H as <- <-. exists q, b, g. repeat split; auto; [now left|].
        intros ->. cbn [andb] in Eb. now apply negb_false_iff in Eb.
      + destruct (IH H) as (q' & pub & g' & Hin & Hp & Hf & Hv). exists q', pub, g'. repeat split; auto. now right.
  Qed.

  Lemma visit_sound : forall fuel po checked f p e,
    find_file G (vf_path f) = Some f -> visit G fn fuel po checked f = VFound p e ->
    exists g, find_file G p = Some g /\ fn g = Some e /\
              (p = vf_path f \/ exists d, edge_po po (vf_path f) d /\ pub_closure G d p).
  Proof.
    induction fuel as [|fuel IH]; intros po checked f p e Hf; [discriminate|]. rewrite visit_S.
    destruct (memN (vf_path f) checked); [discriminate|]. destruct (fn f) as [e0|] eqn:Efn.
    - intros H. injection H as <- <-. exists f. auto.
    - intros H. apply iloop_found in H. destruct H as (q & pub & g' & Hin & Hp & Hfq & Hv).
      pose proof (find_file_some G q g' Hfq) as [Hg' Hpath]. subst q.
      destruct (IH true _ g' p e Hfq Hv) as (g & Hg & Hfn & Hr).
      exists g. repeat split; auto. right. exists (vf_path g'). split.
      + unfold edge_po. destruct po.
        * rewrite (Hp eq_refl) in Hin. exists f. auto.
        * exists f, pub. auto.
      + destruct Hr as [->|(d & Hd & Hr)].
        * apply reach_refl. intros [].
        * apply reach_step with (q := d); [intros []|exact Hd|exact Hr].
  Qed.

  (* ---- completeness: NotFound means nothing in the visible set defines it ---- *)
  Lemma reroot S b c : reach G S b c -> forall a,
    reach G (S ++ [a]) b c \/ (c = a \/ exists b', pub_edge G a b' /\ reach G (S ++ [a]) b' c).
  Proof.
    induction 1 as [p Hp|p q r Hp He Hr IH]; intros a.
    - destruct (N.eq_dec p a) as [->|Hne]; [right; now left|]. left. apply reach_refl.
      intros Hin. apply in_app_or in Hin. destruct Hin as [Hin|[Hin|[]]]; [contradiction|now subst].
    - destruct (IH a) as [IH1|IH2]; [|now right].
      destruct (N.eq_dec p a) as [->|Hne]; [right; right; eauto|]. left.
      apply reach_step with (q := q); [|assumption|assumption].
      intros Hin. apply in_app_or in Hin. destruct Hin as [Hin|[Hin|[]]]; [contradiction|now subst].
  Qed.

  Lemma reroot_self S a c : reach G S a c -> c = a \/ exists b', pub_edge G a b' /\ reach G (S ++ [a]) b' c.
  Proof.
    intros H. destruct (reroot S a c H a) as [H1|H1]; [|exact H1]. exfalso.
    assert (X : In a (S ++ [a])) by (apply in_or_app; right; now left).
    inversion H1; subst; contradiction.
  Qed.

  Lemma iloop_notfound fuel' po checked' imps : iloop fuel' po checked' imps = VNotFound ->
    forall q pub, In (q, pub) imps -> (po = true -> pub = true) ->
    exists g, find_file G q = Some g /\ visit G fn fuel' true checked' g = VNotFound.
  Proof.
    induction imps as [|[q0 b] r IH]; cbn [iloop]; [intros _ q pub []|].
    destruct (po && negb b) eqn:Eb.
    - intros H q pub [Heq|Hin] Hp; [|now apply (IH H q pub)]. injection Heq as -> ->.
      destruct po; [|discriminate]. rewrite (Hp eq_refl) in Eb. discriminate.
    - destruct (find_file G q0) as [g|] eqn:Ef; [|discriminate].
      destruct (visit G fn fuel' true checked' g) eqn:Ev; intros H; try discriminate.
      intros q pub [Heq|Hin] Hp; [|now apply (IH H q pub)]. injection Heq as -> ->. eauto.
  Qed.

  Lemma visit_complete : forall fuel po checked f,
    find_file G (vf_path f) = Some f -> ~ In (vf_path f) checked ->
    visit G fn fuel po checked f = VNotFound ->
    fn f = None /\
    forall q, edge_po po (vf_path f) q -> forall g, reach G (checked ++ [vf_path f]) q g -> fnp g = None.
  Proof.
    induction fuel as [|fuel IH]; intros po checked f Hf Hnc; [discriminate|]. rewrite visit_S.
    apply memN_false in Hnc. rewrite Hnc. destruct (fn f) as [e0|] eqn:Efn; [discriminate|].
    intros H. split; [reflexivity|]. intros q Hq g Hr.
    assert (Himp : exists pub, In (q, pub) (vf_imports f) /\ (po = true -> pub = true)).
    { unfold edge_po in Hq. destruct po.
      - destruct Hq as (f0 & Hf0 & Hin). rewrite Hf in Hf0. injection Hf0 as <-. exists true. auto.
      - destruct Hq as (f0 & pub & Hf0 & Hin). rewrite Hf in Hf0. injection Hf0 as <-. exists pub. split; [assumption|discriminate]. }
    destruct Himp as (pub & Hin & Hp).
    destruct (iloop_notfound _ _ _ _ H q pub Hin Hp) as (g' & Hfq & Hv).
    pose proof (find_file_some G q g' Hfq) as [Hg' Hpath]. subst q.
    assert (Hnq : ~ In (vf_path g') (checked ++ [vf_path f])) by (inversion Hr; assumption).
    destruct (IH true _ g' Hfq Hnq Hv) as [Hfn Hrest].
    destruct (reroot_self _ _ _ Hr) as [->|(b' & Hb' & Hr')].
    - unfold fnp. now rewrite Hfq.
    - now apply (Hrest b' Hb' g).
  Qed.

  (* ---- termination: the files not yet on the checked list are the measure ---- *)
  Definition remaining (checked : list N) : nat :=
    length (filter (fun g => negb (memN (vf_path g) checked)) G).

  Lemma filter_decr (L : list vfile) checked f : In f L -> memN (vf_path f) checked = false ->
    (length (filter (fun g => negb (memN (vf_path g) (checked ++ [vf_path f]))) L)
     < length (filter (fun g => negb (memN (vf_path g) checked)) L))%nat.
  Proof.
    assert (Le : forall L', (length (filter (fun g => negb (memN (vf_path g) (checked ++ [vf_path f]))) L')
                             <= length (filter (fun g => negb (memN (vf_path g) checked)) L'))%nat).
    { induction L' as [|g L' IH]; cbn [filter]; [lia|]. rewrite memN_app.
      destruct (memN (vf_path g) checked); cbn [orb negb]; [exact IH|].
      destruct (memN (vf_path g) [vf_path f]); cbn [negb length]; lia. }
    induction L as [|g L IH]; [contradiction|]. intros [->|Hin] Hm; cbn [filter].
    - rewrite memN_app, Hm. cbn [memN orb]. rewrite N.eqb_refl. cbn [orb negb length]. specialize (Le L). lia.
    - specialize (IH Hin Hm). rewrite memN_app.
      destruct (memN (vf_path g) checked); cbn [orb negb]; [exact IH|].
      destruct (memN (vf_path g) [vf_path f]); cbn [negb length]; lia.
  Qed.

  Definition normal (r : vres) : Prop := r <> VPanic /\ r <> VOutOfFuel.

  Lemma visit_total : forall fuel po checked f, In f G -> (remaining checked < fuel)%nat ->
    normal (visit G fn fuel po checked f).
  Proof.
    induction fuel as [|fuel IH]; intros po checked f Hf Hfuel; [lia|]. rewrite visit_S.
    destruct (memN (vf_path f) checked) eqn:Em; [split; discriminate|].
    destruct (fn f); [split; discriminate|].
    assert (Hrem : (remaining (checked ++ [vf_path f]) < fuel)%nat).
    { pose proof (filter_decr G checked f Hf Em). unfold remaining in *. lia. }
    assert (Hsub : forall imps, incl imps (vf_imports f) -> normal (iloop fuel po (checked ++ [vf_path f]) imps)).
    { induction imps as [|[q b] r IHr]; intros Hincl; cbn [iloop]; [split; discriminate|].
      assert (Hr : incl r (vf_imports f)) by (intros x Hx; apply Hincl; now right).
      destruct (po && negb b); [now apply IHr|].
      destruct (gok_closed G OK f q b Hf (Hincl _ (or_introl eq_refl))) as (g & Hg). rewrite Hg.
      pose proof (find_file_some G q g Hg) as [HgG _].
      pose proof (IH true (checked ++ [vf_path f]) g HgG Hrem) as [N1 N2].
      destruct (visit G fn fuel true (checked ++ [vf_path f]) g); try (split; discriminate); [now apply IHr|contradiction|contradiction]. }
    apply Hsub. apply incl_refl.
  Qed.

  Lemma remaining_le checked : (remaining checked <= length G)%nat.
  Proof. unfold remaining. apply filter_len_le. Qed.

  (* more fuel never changes an answer *)
  Lemma visit_mono : forall fuel po checked f r, visit G fn fuel po checked f = r -> r <> VOutOfFuel ->
    forall fuel2, (fuel <= fuel2)%nat -> visit G fn fuel2 po checked f = r.
  Proof.
    induction fuel as [|fuel IH]; intros po checked f r H Hr fuel2 Hle; [cbn in H; congruence|].
    destruct fuel2 as [|fuel2]; [lia|]. rewrite visit_S in *.
    destruct (memN (vf_path f) checked); [assumption|]. destruct (fn f); [assumption|].
    revert H. generalize (vf_imports f). induction l as [|[q b] l IHl]; cbn [iloop]; [auto|].
    destruct (po && negb b); [exact IHl|]. destruct (find_file G q) as [g|]; [|auto].
    destruct (visit G fn fuel true (checked ++ [vf_path f]) g) eqn:Ev; intros H.
    - rewrite (IH true _ g _ Ev) by (discriminate || lia). assumption.
    - rewrite (IH true _ g _ Ev) by (discriminate || lia). now apply IHl.
    - rewrite (IH true _ g _ Ev) by (discriminate || lia). assumption.
    - congruence.
  Qed.
End Visit.

(* ------------------------------------------------------------------ the theorems *)
Lemma resolveInFile_terminates_lemma G fn po checked f fuel :
  graph_ok G = true -> In f G -> (length G < fuel)%nat ->
  visit G fn fuel po checked f <> VOutOfFuel /\ visit G fn fuel po checked f <> VPanic /\
  visit G fn fuel po checked f = visit G fn (S (length G)) po checked f.
Proof.
  intros H Hf Hfuel. apply graph_ok_gok in H.
  pose proof (remaining_le G checked) as Hr.
  destruct (visit_total G fn H fuel po checked f Hf ltac:(lia)) as [N1 N2].
  destruct (visit_total G fn H (S (length G)) po checked f Hf ltac:(lia)) as [N3 N4].
  repeat split; try assumption.
  apply (visit_mono G fn (S (length G))); [reflexivity|assumption|lia].
Qed.

Lemma find_sound_lemma G f q p e : graph_ok G = true -> In f G -> resolver_find G f q = VFound p e ->
  exists g, In g G /\ vf_path g = p /\ visible G (vf_path f) p /\ query_fn q g = Some e.
Proof.
  intros H Hf Hr. apply graph_ok_gok in H. unfold resolver_find in Hr.
  destruct (visit_sound G (query_fn q) _ _ _ f p e (gok_self G H f Hf) Hr) as (g & Hg & Hfn & Hv).
  pose proof (find_file_some G p g Hg) as [HgG Hp]. exists g. repeat split; auto.
Qed.

Lemma find_total_lemma G f q : graph_ok G = true -> In f G ->
  resolver_find G f q = VNotFound \/ exists p e, resolver_find G f q = VFound p e.
Proof.
  intros H Hf. apply graph_ok_gok in H. unfold resolver_find.
  pose proof (remaining_le G []) as Hr.
  destruct (visit_total G (query_fn q) H (S (length G)) false [] f Hf ltac:(lia)) as [N1 N2].
  destruct (visit G (query_fn q) (S (length G)) false [] f); eauto; contradiction.
Qed.

Lemma find_iff_visible_lemma G f q : graph_ok G = true -> In f G ->
  ((exists p e, resolver_find G f q = VFound p e) <->
   (exists g, In g G /\ visible G (vf_path f) (vf_path g) /\ query_fn q g <> None)).
Proof.
  intros H Hf. split.
  - intros (p & e & Hr). destruct (find_sound_lemma G f q p e H Hf Hr) as (g & HgG & Hp & Hv & Hfn).
    exists g. subst p. repeat split; auto. congruence.
  - intros (g & HgG & Hv & Hfn). destruct (find_total_lemma G f q H Hf) as [Hnf|Hfound]; [|assumption].
    exfalso. apply Hfn. pose proof (graph_ok_gok G H) as OK. unfold resolver_find in Hnf.
    destruct (visit_complete G (query_fn q) _ false [] f (gok_self G OK f Hf) (fun x => x) Hnf) as [Hself Hrest].
    assert (Hfnp : forall g0, In g0 G -> fnp G (query_fn q) (vf_path g0) = query_fn q g0).
    { intros g0 Hg0. unfold fnp. now rewrite (gok_self G OK g0 Hg0). }
    destruct Hv as [Heq|(d & Hd & Hc)].
    + assert (g = f).
      { pose proof (gok_self G OK g HgG) as E1. pose proof (gok_self G OK f Hf) as E2. rewrite Heq in E1. congruence. }
      now subst.
    + rewrite <- (Hfnp g HgG). cbn [app] in Hrest.
      destruct (reroot G [] d (vf_path g) Hc (vf_path f)) as [H1|[H1|(b' & Hb' & H1)]].
      * now apply (Hrest d Hd).
      * assert (g = f).
        { pose proof (gok_self G OK g HgG) as E1. pose proof (gok_self G OK f Hf) as E2. rewrite H1 in E1. congruence. }
        subst. now rewrite (Hfnp f Hf).
      * apply (Hrest b'); [|exact H1]. cbn [edge_po]. now apply pub_direct.
Qed.

(* ---- the IsWeak flag of an import is irrelevant: clearing it everywhere changes no answer ---- *)
Lemma find_file_unweak G p : find_file (unweak G) p = option_map unweak_file (find_file G p).
Proof.
  induction G as [|g G IH]; cbn [unweak map find_file option_map]; [reflexivity|].
  cbn [unweak_file vf_path]. destruct (N.eqb (vf_path g) p); [reflexivity|exact IH].
Qed.

Lemma visit_unweak G q : forall fuel po checked f,
  visit (unweak G) (query_fn q) fuel po checked (unweak_file f) = visit G (query_fn q) fuel po checked f.
Proof.
  induction fuel as [|fuel IH]; intros po checked f; [reflexivity|].
  rewrite !visit_S.
  assert (Eq : query_fn q (unweak_file f) = query_fn q f) by (destruct q; reflexivity). rewrite Eq.
  cbn [unweak_file vf_path vf_imports].
  destruct (memN (vf_path f) checked); [reflexivity|].
  destruct (query_fn q f); [reflexivity|].
  induction (vf_imports f) as [|[p b] r IHr]; cbn [iloop]; [reflexivity|].
  destruct (po && negb b); [exact IHr|].
  rewrite find_file_unweak. destruct (find_file G p) as [g|]; cbn [option_map]; [|reflexivity].
  rewrite IH. destruct (visit G (query_fn q) fuel true (checked ++ [vf_path f]) g); try reflexivity. exact IHr.
Qed.

Lemma weak_flag_irrelevant_lemma G f q : resolver_find (unweak G) (unweak_file f) q = resolver_find G f q.
Proof. unfold resolver_find, unweak. rewrite map_length. apply visit_unweak. Qed.

(* the public closure is the reflexive-transitive closure of the public-import relation *)
Lemma pub_closure_rt G a b : pub_closure G a b <-> clos_refl_trans_1n N (pub_edge G) a b.
Proof.
  unfold pub_closure. split.
  - induction 1 as [p _|p q r _ He _ IH]; [constructor|econstructor; eassumption].
  - induction 1 as [p|p q r He _ IH]; [apply reach_refl; intros []|eapply reach_step; [intros []|eassumption|assumption]].
Qed.

(* ---- an example with a cycle through public imports:
   0 imports 1 (import weak); 1 publicly imports 2; 2 imports 1 (public, weak flag set too) and 3 (weak, not public).
   file 2 defines name 5 and extension (9, 100) named 6; file 3 defines name 7 ---- *)
Definition ex_G : graph :=
  [mkV 0 [(1, false)] [] [] [1]; mkV 1 [(2, true)] [4] [] []; mkV 2 [(1, true); (3, false)] [5] [(9, 100%Z, 6)] [1; 3];
   mkV 3 [] [7] [] []]%N.

Lemma visibility_example :
  graph_ok ex_G = true /\
  resolver_find ex_G (mkV 0 [(1, false)] [] [] [1])%N (QName 5) = VFound 2 5 /\
  resolver_find ex_G (mkV 0 [(1, false)] [] [] [1])%N (QName 7) = VNotFound /\
  resolver_find ex_G (mkV 0 [(1, false)] [] [] [1])%N (QExt 9 100) = VFound 2 6 /\
  resolver_find ex_G (mkV 0 [(1, false)] [] [] [1])%N (QPath 3) = VNotFound /\
  resolver_find ex_G (mkV 2 [(1, true); (3, false)] [5] [(9, 100%Z, 6)] [1; 3])%N (QPath 3) = VFound 3 3.
Proof. repeat split; vm_compute; reflexivity. Qed.
