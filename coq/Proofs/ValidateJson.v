(* F2 - JSON names of the fields of one message.
     json_compliant_iff           with JSON support mandatory (proto3, editions) validateFieldJSONNames
                                  reports no error iff the default JSON names are pairwise distinct
                                  and the effective JSON names are pairwise distinct
     protoc_json_compliant_iff    the same for protoc's CheckFieldJsonNameUniqueness
     json_go_eq_protoc_compliant  hence the two verdicts agree in proto3 and editions files
     json_go_stricter_proto2      in proto2 files the Go code rejects a superset (documented divergence),
                                  with the witness of linker_test.go *)
From Coq Require Import List NArith ZArith Bool Lia Arith.
From PV Require Import Model.MiniProto Model.Lower Model.Validate Model.ValiditySpec Model.ProtocDescriptor.
From PV Require Import Proofs.LowerNames.
Import ListNotations.

Definition dflt (f : dfield) : name := json_name (df_name f).

Lemma assoc_name_some {A} n (l : list (name * A)) : (exists v, assoc_name n l = Some v) <-> In n (map fst l).
Proof.
  induction l as [|[m v] r IH]; cbn; [split; [intros [v H]; discriminate|tauto]|].
  destruct (name_eqb n m) eqn:E.
  - apply name_eqb_eq in E. subst. split; [intros _; now left|intros _; eauto].
  - rewrite IH. split; [intros H; now right|intros [H|H]; [|assumption]]. subst. rewrite (proj2 (name_eqb_eq n n) eq_refl) in E. discriminate.
Qed.

Lemma assoc_name_in {A} n (l : list (name * A)) v : assoc_name n l = Some v -> In (n, v) l.
Proof.
  induction l as [|[m w] r IH]; cbn; [discriminate|]. destruct (name_eqb n m) eqn:E.
  - apply name_eqb_eq in E. subst. intros H. injection H as ->. now left.
  - intros H. right. now apply IH.
Qed.

Lemma assoc_name_none {A} n (l : list (name * A)) : assoc_name n l = None <-> ~ In n (map fst l).
Proof.
  rewrite <- assoc_name_some. destruct (assoc_name n l); split; intros H; try congruence.
  - exfalso. apply H. eauto.
  - intros [v Hv]. discriminate.
Qed.

(* ---- pass 1: default names only ---- *)
Lemma json_loop_default compliant : forall fs seen,
  json_loop compliant false seen fs = [] <->
  NoDup (map dflt fs) /\ forall f, In f fs -> ~ In (dflt f) (map fst seen).
Proof.
  induction fs as [|fd r IH]; intros seen; cbn [json_loop map].
  - split; [intros _; split; [constructor|intros f []]|reflexivity].
  - cbn [andb]. fold (dflt fd). destruct (assoc_name (dflt fd) seen) as [ec|] eqn:E.
    + cbn [negb orb app]. split; [discriminate|]. intros [_ H]. exfalso. apply (H fd); [now left|].
      apply assoc_name_some. eauto.
    + rewrite IH. apply assoc_name_none in E. cbn [map fst]. split.
      * intros [Hnd Hall]. split.
        -- constructor; [|assumption]. intros Hin. apply in_map_iff in Hin as (f & Hf & Hin). apply (Hall f Hin). left. now symmetry.
        -- intros f [<-|Hf]; [assumption|]. intros Hin. apply (Hall f Hf). now right.
      * intros [Hnd Hall]. inversion Hnd as [|? ? Hnotin Hnd']; subst. split; [assumption|].
        intros f Hf [Heq|Hin]; [apply Hnotin; apply in_map_iff; exists f; split; [now symmetry|assumption]|].
        apply (Hall f); [now right|assumption].
Qed.

(* ---- pass 2: effective names ---- *)
Definition go_custom (fd : dfield) : bool := negb (name_eqb (df_json fd) (dflt fd)) || has_custom_json fd.

Lemma go_key fd : (if go_custom fd then (df_json fd, true) else (dflt fd, false)) = (df_json fd, go_custom fd).
Proof.
  unfold go_custom. destruct (name_eqb (df_json fd) (dflt fd)) eqn:E; cbn.
  - apply name_eqb_eq in E. destruct (has_custom_json fd); [reflexivity|now rewrite E].
  - reflexivity.
Qed.

(* every non-custom holder in [seen] holds the default name of an earlier field *)
Definition seen_inv (seen : list (name * bool)) (prev : list dfield) : Prop :=
  forall k, In (k, false) seen -> exists g, In g prev /\ k = dflt g.

Lemma json_loop_custom : forall fs seen prev,
  NoDup (map dflt (prev ++ fs)) -> seen_inv seen prev ->
  (json_loop true true seen fs = [] <->
   NoDup (map df_json fs) /\ forall f, In f fs -> ~ In (df_json f) (map fst seen)).
Proof.
  induction fs as [|fd r IH]; intros seen prev Hnd Hinv; cbn [json_loop map].
  - split; [intros _; split; [constructor|intros f []]|reflexivity].
  - cbn [andb]. fold (dflt fd). fold (go_custom fd). rewrite go_key.
    destruct (assoc_name (df_json fd) seen) as [ec|] eqn:E.
    + (* a holder exists: the conflict is reported, or both are non-custom, which the distinct defaults exclude *)
      split; [|intros [_ H]; exfalso; apply (H fd); [now left|apply assoc_name_some; eauto]].
      intros H. exfalso. apply app_eq_nil in H. destruct H as [H _].
      destruct (go_custom fd) eqn:Ec; [discriminate|]. destruct ec; [discriminate|]. cbn in H. clear H.
      apply assoc_name_in in E. destruct (Hinv _ E) as (g & Hg & Hk).
      assert (Hj : df_json fd = dflt fd).
      { unfold go_custom in Ec. apply orb_false_iff in Ec. destruct Ec as [Ec _]. apply negb_false_iff in Ec. now apply name_eqb_eq. }
      rewrite map_app in Hnd. apply NoDup_remove_2 in Hnd. apply Hnd. rewrite in_app_iff. left.
      apply in_map_iff. exists g. split; [congruence|assumption].
    + apply assoc_name_none in E.
      rewrite (IH ((df_json fd, go_custom fd) :: seen) (prev ++ [fd])).
      * cbn [map fst]. split.
        -- intros [Hn Hall]. split.
           ++ constructor; [|assumption]. intros Hin. apply in_map_iff in Hin as (f & Hf & Hin). apply (Hall f Hin). left. now symmetry.
           ++ intros f [<-|Hf]; [assumption|]. intros Hin. apply (Hall f Hf). now right.
        -- intros [Hn Hall]. inversion Hn as [|? ? Hnotin Hn']; subst. split; [assumption|].
           intros f Hf [Heq|Hin]; [apply Hnotin; apply in_map_iff; exists f; split; [now symmetry|assumption]|].
           apply (Hall f); [now right|assumption].
      * now rewrite <- app_assoc.
      * intros k [Hk|Hk].
        -- injection Hk as <- Hc. exists fd. split; [apply in_app_iff; right; now left|].
           unfold go_custom in Hc. apply orb_false_iff in Hc. destruct Hc as [Hc _]. apply negb_false_iff in Hc. now apply name_eqb_eq.
        -- destruct (Hinv k Hk) as (g & Hg & ->). exists g. split; [apply in_app_iff; now left|reflexivity].
Qed.

Lemma flat_map_bool_nil (l : list bool) :
  flat_map (fun b : bool => if b then [EJsonConflict] else []) l = [] <-> forall b, In b l -> b = false.
Proof.
  induction l as [|b r IH]; cbn; [split; [intros _ b []|reflexivity]|].
  destruct b; cbn.
  - split; [discriminate|intros H; specialize (H true (or_introl eq_refl)); discriminate].
  - rewrite IH. split; [intros H b [<-|Hb]; auto|intros H b Hb; apply H; now right].
Qed.

(* with compliant = true every reported conflict is an error *)
Lemma json_loop_all_true useCustom : forall fs seen b, In b (json_loop true useCustom seen fs) -> b = true.
Proof.
  induction fs as [|fd r IH]; intros seen b H; cbn [json_loop] in H; [destruct H|].
  destruct (if useCustom && (negb (name_eqb (df_json fd) (json_name (df_name fd))) || has_custom_json fd)
            then (df_json fd, true) else (json_name (df_name fd), false)) as [nm custom].
  destruct (assoc_name nm seen) as [ec|].
  - apply in_app_iff in H. destruct H as [H|H]; [|now apply IH in H].
    destruct (negb useCustom || custom || ec); [|destruct H]. destruct H as [<-|[]]. reflexivity.
  - now apply IH in H.
Qed.

Theorem json_compliant_iff_lemma : forall fs,
  json_conflict_errs true fs = [] <-> json_names_ok_compliant (map dflt fs) (map df_json fs).
Proof.
  intros fs. unfold json_conflict_errs, json_names_ok_compliant. rewrite flat_map_bool_nil.
  assert (Hall : (forall b, In b (json_loop true false [] fs ++ json_loop true true [] fs) -> b = false)
                 <-> json_loop true false [] fs = [] /\ json_loop true true [] fs = []).
  { split.
    - intros H. split.
      + destruct (json_loop true false [] fs) as [|b l] eqn:E; [reflexivity|]. exfalso.
        assert (Hb : b = true) by (apply (json_loop_all_true false fs [] b); rewrite E; now left).
        specialize (H b (or_introl eq_refl)). congruence.
      + destruct (json_loop true true [] fs) as [|b l] eqn:E; [reflexivity|]. exfalso.
        assert (Hb : b = true) by (apply (json_loop_all_true true fs [] b); rewrite E; now left).
        assert (Hin : In b (json_loop true false [] fs ++ b :: l)) by (apply in_app_iff; right; now left).
        specialize (H b Hin). congruence.
    - intros [-> ->] b []. }
  rewrite Hall, json_loop_default. clear Hall. split.
  - intros [[Hnd _] H2]. split; [assumption|].
    apply (json_loop_custom fs [] []) in H2; [tauto|assumption|intros k []].
  - intros [Hnd Hj]. split; [split; [assumption|intros f _ []]|].
    apply (json_loop_custom fs [] []); [assumption|intros k []|]. split; [assumption|intros f _ []].
Qed.

(* ------------------------------------------------------------------------------------------ *)
(* protoc's algorithm *)
Lemma assoc_nm_eq {A} n (l : list (name * A)) : assoc_nm n l = assoc_name n l.
Proof. induction l as [|[m v] r IH]; cbn; [reflexivity|]. now rewrite IH. Qed.

Definition jname (f : jfield) : name := fst (fst f).
Definition jjson (f : jfield) : name := snd (fst f).
Definition jgiven (f : jfield) : bool := snd f.
Definition jdflt (f : jfield) : name := to_json_name (jname f).
(* a field without a json_name option carries its default JSON name *)
Definition jwf (f : jfield) : Prop := jgiven f = false -> jjson f = jdflt f.

Lemma protoc_loop_default compliant : forall fs seen,
  protoc_json_loop to_json_name compliant false seen fs = [] <->
  NoDup (map jdflt fs) /\ forall f, In f fs -> ~ In (jdflt f) (map fst seen).
Proof.
  induction fs as [|[[nm js] given] r IH]; intros seen; cbn [protoc_json_loop map].
  - split; [intros _; split; [constructor|intros f []]|reflexivity].
  - cbn [andb]. change (to_json_name nm) with (jdflt (nm, js, given)). set (fd := (nm, js, given)) in *.
    rewrite assoc_nm_eq. destruct (assoc_name (jdflt fd) seen) as [ec|] eqn:E.
    + cbn [negb orb andb app]. split; [discriminate|]. intros [_ H]. exfalso. apply (H fd); [now left|].
      apply assoc_name_some. eauto.
    + rewrite IH. apply assoc_name_none in E. cbn [map fst]. split.
      * intros [Hnd Hall]. split.
        -- constructor; [|assumption]. intros Hin. apply in_map_iff in Hin as (f & Hf & Hin). apply (Hall f Hin). left. now symmetry.
        -- intros f [<-|Hf]; [assumption|]. intros Hin. apply (Hall f Hf). now right.
      * intros [Hnd Hall]. inversion Hnd as [|? ? Hnotin Hnd']; subst. split; [assumption|].
        intros f Hf [Heq|Hin]; [apply Hnotin; apply in_map_iff; exists f; split; [now symmetry|assumption]|].
        apply (Hall f); [now right|assumption].
Qed.

Definition pcustom (f : jfield) : bool := jgiven f && negb (name_eqb (jjson f) (jdflt f)).

Lemma protoc_custom_eq f : protoc_custom to_json_name f = pcustom f.
Proof. destruct f as [[nm js] given]. reflexivity. Qed.

Lemma protoc_key f : jwf f -> (if pcustom f then jjson f else jdflt f) = jjson f.
Proof.
  unfold pcustom, jwf. intros Hwf. destruct (jgiven f); cbn.
  - destruct (name_eqb (jjson f) (jdflt f)) eqn:E; cbn; [apply name_eqb_eq in E; now rewrite E|reflexivity].
  - now rewrite Hwf.
Qed.

Definition pseen_inv (seen : list (name * bool)) (prev : list jfield) : Prop :=
  forall k, In (k, false) seen -> exists g, In g prev /\ k = jdflt g.

Lemma protoc_loop_custom : forall fs seen prev,
  Forall jwf fs -> NoDup (map jdflt (prev ++ fs)) -> pseen_inv seen prev ->
  (protoc_json_loop to_json_name true true seen fs = [] <->
   NoDup (map jjson fs) /\ forall f, In f fs -> ~ In (jjson f) (map fst seen)).
Proof.
  induction fs as [|fd r IH]; intros seen prev Hwf Hnd Hinv; cbn [protoc_json_loop map].
  - split; [intros _; split; [constructor|intros f []]|reflexivity].
  - inversion Hwf as [|? ? Hwfd Hwfr]; subst. destruct fd as [[nm js] given] eqn:Efd. rewrite <- Efd in *.
    cbn [andb]. change (protoc_custom to_json_name (nm, js, given)) with (pcustom (nm, js, given)).
    change js with (jjson (nm, js, given)). change (to_json_name nm) with (jdflt (nm, js, given)). rewrite <- Efd.
    rewrite !protoc_custom_eq, (protoc_key fd Hwfd), assoc_nm_eq.
    destruct (assoc_name (jjson fd) seen) as [ec|] eqn:E.
    + split; [|intros [_ H]; exfalso; apply (H fd); [now left|apply assoc_name_some; eauto]].
      intros H. exfalso. apply app_eq_nil in H. destruct H as [H _].
      destruct (pcustom fd) eqn:Ec; [discriminate|]. destruct ec; [discriminate|]. clear H.
      apply assoc_name_in in E. destruct (Hinv _ E) as (g & Hg & Hk).
      assert (Hj : jjson fd = jdflt fd).
      { unfold pcustom in Ec. destruct (jgiven fd) eqn:Eg; [|now apply Hwfd].
        cbn in Ec. apply negb_false_iff in Ec. now apply name_eqb_eq. }
      rewrite map_app in Hnd. apply NoDup_remove_2 in Hnd. apply Hnd. rewrite in_app_iff. left.
      apply in_map_iff. exists g. split; [congruence|assumption].
    + apply assoc_name_none in E.
      rewrite (IH ((jjson fd, pcustom fd) :: seen) (prev ++ [fd])).
      * cbn [map fst]. split.
        -- intros [Hn Hall]. split.
           ++ constructor; [|assumption]. intros Hin. apply in_map_iff in Hin as (f & Hf & Hin). apply (Hall f Hin). left. now symmetry.
           ++ intros f [<-|Hf]; [assumption|]. intros Hin. apply (Hall f Hf). now right.
        -- intros [Hn Hall]. inversion Hn as [|? ? Hnotin Hn']; subst. split; [assumption|].
           intros f Hf [Heq|Hin]; [apply Hnotin; apply in_map_iff; exists f; split; [now symmetry|assumption]|].
           apply (Hall f); [now right|assumption].
      * assumption.
      * now rewrite <- app_assoc.
      * intros k [Hk|Hk].
        -- injection Hk as <- Hc. exists fd. split; [apply in_app_iff; right; now left|].
           unfold pcustom in Hc. destruct (jgiven fd) eqn:Eg; [|now apply Hwfd].
           cbn in Hc. apply negb_false_iff in Hc. now apply name_eqb_eq.
        -- destruct (Hinv k Hk) as (g & Hg & ->). exists g. split; [apply in_app_iff; now left|reflexivity].
Qed.

Lemma protoc_loop_all_true useCustom : forall fs seen b,
  In b (protoc_json_loop to_json_name true useCustom seen fs) -> b = true.
Proof.
  induction fs as [|[[nm js] given] r IH]; intros seen b H; cbn [protoc_json_loop] in H; [destruct H|].
  destruct (assoc_nm _ seen) as [ec|].
  - apply in_app_iff in H. destruct H as [H|H]; [|now apply IH in H].
    destruct (useCustom && negb _ && negb ec); [destruct H|]. destruct H as [<-|[]]. reflexivity.
  - now apply IH in H.
Qed.

Lemma filter_id_nil (l : list bool) : filter (fun b => b) l = [] <-> forall b, In b l -> b = false.
Proof.
  induction l as [|b r IH]; cbn; [split; [intros _ b []|reflexivity]|]. destruct b.
  - split; [discriminate|intros H; specialize (H true (or_introl eq_refl)); discriminate].
  - rewrite IH. split; [intros H b [<-|Hb]; auto|intros H b Hb; apply H; now right].
Qed.

Theorem protoc_json_compliant_iff_lemma : forall fs, Forall jwf fs ->
  (protoc_json_errors to_json_name true fs = [] <-> json_names_ok_compliant (map jdflt fs) (map jjson fs)).
Proof.
  intros fs Hwf. unfold protoc_json_errors, json_names_ok_compliant. rewrite filter_id_nil.
  set (A := protoc_json_loop to_json_name true false [] fs). set (B := protoc_json_loop to_json_name true true [] fs).
  assert (Hall : (forall b, In b (A ++ B) -> b = false) <-> A = [] /\ B = []).
  { split.
    - intros H. split.
      + destruct A as [|b l] eqn:E; [reflexivity|]. exfalso.
        assert (Hb : b = true) by (apply (protoc_loop_all_true false fs [] b); fold A; rewrite E; now left).
        specialize (H b (or_introl eq_refl)). congruence.
      + destruct B as [|b l] eqn:E; [reflexivity|]. exfalso.
        assert (Hb : b = true) by (apply (protoc_loop_all_true true fs [] b); fold B; rewrite E; now left).
        assert (Hin : In b (A ++ b :: l)) by (apply in_app_iff; right; now left).
        specialize (H b Hin). congruence.
    - intros [-> ->] b []. }
  rewrite Hall. unfold A, B. rewrite protoc_loop_default. clear Hall. split.
  - intros [[Hnd _] H2]. split; [assumption|].
    apply (protoc_loop_custom fs [] []) in H2; [tauto|assumption|assumption|intros k []].
  - intros [Hnd Hj]. split; [split; [assumption|intros f _ []]|].
    apply (protoc_loop_custom fs [] []); [assumption|assumption|intros k []|]. split; [assumption|intros f _ []].
Qed.


(* json_go_eq_protoc: in proto3 and editions files the Go check and protoc's check give the same verdict *)
Theorem json_go_eq_protoc_compliant_lemma : forall fs,
  Forall (fun fd => has_custom_json fd = false -> df_json fd = json_name (df_name fd)) fs ->
  (json_conflict_errs true fs = [] <-> protoc_json_errors to_json_name true (map jf_of fs) = []).
Proof.
  intros fs Hwf. rewrite json_compliant_iff_lemma, protoc_json_compliant_iff_lemma.
  - rewrite !map_map.
    assert (Heq : map dflt fs = map (fun x => jdflt (jf_of x)) fs).
    { apply map_ext. intros f. apply json_name_eq_protoc_lemma. }
    rewrite Heq. reflexivity.
  - rewrite Forall_forall in *. intros f Hf. apply in_map_iff in Hf as (fd & <- & Hfd).
    unfold jwf, jf_of, jgiven, jjson, jdflt, jname. cbn [fst snd]. intros Hg. rewrite (Hwf fd Hfd Hg).
    apply json_name_eq_protoc_lemma.
Qed.

(* the documented divergence (linker_test.go failure_json_name_custom_and_default_proto2): in a
   proto2 file, field foo with json_name fooBar and field foo_bar: Go rejects, protoc only warns *)
Definition ex_foo : dfield :=
  mkDField [102;111;111]%N 1 (Some DOptional) (Some (DScalar SString)) None None [102;111;111;66;97;114]%N None false None
           [(OJsonName, VStr [102;111;111;66;97;114]%N)] FromField.
Definition ex_foo_bar : dfield :=
  mkDField [102;111;111;95;98;97;114]%N 2 (Some DOptional) (Some (DScalar SString)) None None [102;111;111;66;97;114]%N None false None
           [] FromField.

Theorem json_go_stricter_proto2_lemma :
  json_conflict_errs false [ex_foo; ex_foo_bar] = [EJsonConflict] /\
  protoc_json_errors to_json_name false (map jf_of [ex_foo; ex_foo_bar]) = [].
Proof. split; vm_compute; reflexivity. Qed.
