(* The step programs of Model/Symbols.v (part 4), run alone, compute what the sequential model
   (part 2) computes, up to the representation of the store (tables that read alike). *)
From Coq Require Import List NArith ZArith Bool Lia.
From PV Require Import Common.Corr Model.Symbols Proofs.Symbols.
Import ListNotations.

Definition teq (T1 T2 : table) : Prop := forall q, get_node T1 q = get_node T2 q.

Lemma teq_refl T : teq T T.
Proof. intros q; reflexivity. Qed.

Lemma teq_set T1 T2 p nd : teq T1 T2 -> teq (set_node T1 p nd) (set_node T2 p nd).
Proof. intros H q. rewrite !get_node_set. destruct (name_eqb q p); [reflexivity|apply H]. Qed.

Lemma run_seq_bind {A B : Type} (m : prog A) (g : A -> prog B) : forall T,
  run_seq (bind m g) T = let '(T', r) := run_seq m T in run_seq (g r) T'.
Proof.
  induction m as [r|p k IH|p k IH|p k IH|p k IH|p f k IH|p f u k IH|p c k IH]; intros T; cbn [bind run_seq]; auto.
Qed.

(* a program simulates a function of the table *)
Definition sim {R : Type} (P : prog R) (F : table -> table * R) : Prop :=
  forall T1 T2, teq T1 T2 ->
    teq (fst (run_seq P T1)) (fst (F T2)) /\ snd (run_seq P T1) = snd (F T2).

Lemma sim_bind {A B : Type} (P : prog A) (F : table -> table * A) (k : A -> prog B) (G : A -> table -> table * B) :
  sim P F -> (forall r, sim (k r) (G r)) ->
  sim (bind P k) (fun T => let '(T', r) := F T in G r T').
Proof.
  intros HP Hk T1 T2 HT. rewrite run_seq_bind. destruct (HP T1 T2 HT) as [H1 H2].
  destruct (run_seq P T1) as [Ta ra]. destruct (F T2) as [Tb rb]. cbn [fst snd] in *. subst rb.
  exact (Hk ra Ta Tb H1).
Qed.

Lemma sim_ret {R : Type} (r : R) : sim (Ret r) (fun T => (T, r)).
Proof. intros T1 T2 H. cbn. auto. Qed.

Lemma sim_ext {R : Type} (P : prog R) (F F' : table -> table * R) :
  (forall T, F T = F' T) -> sim P F -> sim P F'.
Proof. intros HE H T1 T2 HT. rewrite <- HE. exact (H T1 T2 HT). Qed.

Lemma sim_import_package cur o p :
  sim (import_package_prog cur o p) (fun T => import_package T cur o p).
Proof.
  intros T1 T2 HT. unfold import_package_prog, import_package. cbn [run_seq proj n_symbols].
  rewrite (HT cur). destruct (sym_find p (n_symbols (get_node T2 cur))) as [e|] eqn:Es.
  - destruct (e_pkg e); cbn [run_seq proj n_children fst snd]; rewrite ?(HT cur); auto.
  - cbn [run_seq proj n_symbols]. rewrite (HT cur), Es. cbn [run_seq fst snd]. split; [|reflexivity].
    intros q. rewrite !get_node_set. destruct (name_eqb q p); [reflexivity|].
    destruct (name_eqb q cur) eqn:Eq; [|apply HT].
    rewrite name_eqb_refl, (HT cur). reflexivity.
Qed.

Lemma sim_import_packages_loop o ps : forall cur,
  sim (import_packages_loop_prog o cur ps) (fun T => import_packages_loop T o cur ps).
Proof.
  induction ps as [|p ps IH]; intros cur; cbn [import_packages_loop_prog import_packages_loop].
  - apply sim_ret.
  - eapply sim_ext; [|apply sim_bind with
        (F := fun T => import_package T cur o p)
        (G := fun x T' => match x with
                          | PkgOk (Some c) => import_packages_loop T' o c ps
                          | other => (T', other)
                          end); [apply sim_import_package|]].
    + intros T. cbn beta. destruct (import_package T cur o p) as [T' [[c|]|e]]; reflexivity.
    + intros [[c|]|e]; [apply IH|apply sim_ret|apply sim_ret].
Qed.

Lemma sim_get_package_loop ex ps : forall cur,
  sim (get_package_loop_prog cur ps ex) (fun T => (T, get_package_loop T cur ps ex)).
Proof.
  induction ps as [|p ps IH]; intros cur; cbn [get_package_loop_prog get_package_loop].
  - apply sim_ret.
  - intros T1 T2 HT. cbn [run_seq proj n_children]. rewrite (HT cur).
    destruct (mem_name p (n_children (get_node T2 cur))).
    + apply IH. exact HT.
    + cbn. auto.
Qed.

Lemma run_seq_commit_loop {R : Type} p fid syms (k : prog R) : forall T,
  run_seq (fold_right (fun x k0 => Wr p FSymbols (fun nd => add_symbol nd x (mkEntry fid false)) k0) k syms) T
  = run_seq k (fold_left (fun T x => set_node T p (add_symbol (get_node T p) x (mkEntry fid false))) syms T).
Proof.
  induction syms as [|x r IH]; intros T; cbn [fold_right fold_left run_seq]; [reflexivity|].
  rewrite IH. reflexivity.
Qed.

Lemma commit_loop_node p fid syms : forall T,
  get_node (fold_left (fun T x => set_node T p (add_symbol (get_node T p) x (mkEntry fid false))) syms T) p
  = commit_syms (get_node T p) fid syms
  /\ forall q, name_eqb q p = false ->
       get_node (fold_left (fun T x => set_node T p (add_symbol (get_node T p) x (mkEntry fid false))) syms T) q
       = get_node T q.
Proof.
  unfold commit_syms. induction syms as [|x r IH]; intros T; cbn [fold_left]; [auto|].
  destruct (IH (set_node T p (add_symbol (get_node T p) x (mkEntry fid false)))) as [I1 I2]. split.
  - rewrite I1, get_node_set_same. reflexivity.
  - intros q Hq. rewrite (I2 q Hq), get_node_set, Hq. reflexivity.
Qed.

Lemma sim_import_file p fid syms :
  sim (import_file_prog p fid syms)
      (fun T => let '(T', b, r) := import_file_node T p fid syms in (T', (b, r))).
Proof.
  intros T1 T2 HT. unfold import_file_prog, import_file_node. cbn [run_seq proj n_files].
  rewrite (HT p). destruct (mem_N fid (n_files (get_node T2 p))); [cbn; auto|].
  cbn [run_seq proj n_symbols]. rewrite (HT p).
  destruct (check_syms syms (n_symbols (get_node T2 p))); [cbn; auto|].
  rewrite run_seq_commit_loop. cbn [run_seq fst snd]. split; [|reflexivity].
  destruct (commit_loop_node p fid syms T1) as [C1 C2].
  intros q. rewrite !get_node_set. destruct (name_eqb q p) eqn:Eq.
  - rewrite C1, (HT p). reflexivity.
  - rewrite (C2 q Eq). apply HT.
Qed.

Lemma sim_add_ext_node p m t o :
  sim (add_ext_node_prog p m t o) (fun T => add_ext_node T p m t o).
Proof.
  intros T1 T2 HT. unfold add_ext_node_prog, add_ext_node. cbn [run_seq proj n_exts].
  rewrite (HT p). destruct (ext_find m t (n_exts (get_node T2 p))); cbn [run_seq fst snd]; [auto|].
  split; [|reflexivity]. rewrite (HT p). apply teq_set. exact HT.
Qed.

Lemma sim_add_extension pkg m t o :
  sim (add_extension_prog pkg m t o) (fun T => add_extension T pkg m t o).
Proof.
  unfold add_extension_prog, add_extension.
  destruct (negb (name_eqb pkg []) && negb (proper_prefix pkg m)); [apply sim_ret|].
  eapply sim_ext; [|apply sim_bind with
      (F := fun T => (T, get_package_loop T [] (prefixes pkg) true))
      (G := fun x T' => match x with
                        | None => (T', Err ENoPkg)
                        | Some p => add_ext_node T' p m t o
                        end); [apply sim_get_package_loop|]].
  - intros T. cbn beta. unfold get_package. destruct (get_package_loop T [] (prefixes pkg) true); reflexivity.
  - intros [p|]; [apply sim_add_ext_node|apply sim_ret].
Qed.

Lemma sim_add_exts o exts : sim (add_exts_prog o exts) (fun T => add_exts T o exts).
Proof.
  induction exts as [|[[pkg m] t] r IH]; cbn [add_exts_prog add_exts]; [apply sim_ret|].
  eapply sim_ext; [|apply sim_bind with
      (F := fun T => add_extension T pkg m t o)
      (G := fun x T' => match x with Ok => add_exts T' o r | other => (T', other) end); [apply sim_add_extension|]].
  - intros T. cbn beta. destruct (add_extension T pkg m t o) as [T' [|e]]; reflexivity.
  - intros [|e]; [exact IH|apply sim_ret].
Qed.

Lemma sim_check_exts exts : forall seen,
  sim (check_exts_prog exts seen) (fun T => (T, check_exts T exts seen)).
Proof.
  induction exts as [|[[pkg m] t] r IH]; intros seen; cbn [check_exts_prog check_exts]; [apply sim_ret|].
  destruct (negb (name_eqb pkg []) && negb (proper_prefix pkg m)); [apply sim_ret|].
  eapply sim_ext; [|apply sim_bind with
      (F := fun T => (T, get_package_loop T [] (prefixes pkg) true))
      (G := fun x T' => match x with
                        | None => (T', Some ENoPkg)
                        | Some p =>
                          if seen_ext m t seen then (T', Some (EExt m t))
                          else match ext_find m t (n_exts (get_node T' p)) with
                               | Some _ => (T', Some (EExt m t))
                               | None => (T', check_exts T' r ((m, t) :: seen))
                               end
                        end); [apply sim_get_package_loop|]].
  - intros T. cbn beta. unfold get_package.
    destruct (get_package_loop T [] (prefixes pkg) true) as [p|]; [|reflexivity].
    destruct (seen_ext m t seen); [reflexivity|].
    destruct (ext_find m t (n_exts (get_node T p))); reflexivity.
  - intros [p|]; [|apply sim_ret]. cbn beta iota.
    destruct (seen_ext m t seen); [apply sim_ret|].
    intros T1 T2 HT. cbn [run_seq proj n_exts]. rewrite (HT p).
    destruct (ext_find m t (n_exts (get_node T2 p))); [cbn; auto|]. apply IH. exact HT.
Qed.

Definition deps_list_prog (impp : file -> prog res) : list file -> prog res :=
  fix go (ds : list file) : prog res :=
    match ds with
    | [] => Ret Ok
    | d :: r => bind (impp d) (fun y => match y with Ok => go r | other => Ret other end)
    end.

Definition import_rest_prog (fx : bool) (p : name) (fid : N) (syms : list name)
           (exts : list (name * name * Z)) (DP : prog res) : prog res :=
  bind DP (fun y =>
    match y with
    | Err e => Ret (Err e)
    | Ok =>
      bind (if fx then check_exts_prog exts [] else Ret None) (fun c =>
        match c with
        | Some e => RLock p (Rd p FFiles (fun nf2 => RUnlock p
                      (if mem_N fid (n_files nf2) then Ret Ok else Ret (Err e))))
        | None =>
          bind (import_file_prog p fid syms) (fun z =>
            match z with
            | (_, Err e) => Ret (Err e)
            | (false, Ok) => Ret Ok
            | (true, Ok) => add_exts_prog fid exts
            end)
        end)
    end).

Definition import_rest (fx : bool) (p : name) (fid : N) (syms : list name)
           (exts : list (name * name * Z)) (DF : table -> table * res) (T1 : table) : table * res :=
  match DF T1 with
  | (T2, Err e) => (T2, Err e)
  | (T2, Ok) =>
    match (if fx then check_exts T2 exts [] else None) with
    | Some e => if mem_N fid (n_files (get_node T2 p)) then (T2, Ok) else (T2, Err e)
    | None =>
      match import_file_node T2 p fid syms with
      | (T3, _, Err e) => (T3, Err e)
      | (T3, false, Ok) => (T3, Ok)
      | (T3, true, Ok) => add_exts T3 fid exts
      end
    end
  end.

Lemma sim_import_rest fx p fid syms exts DP DF :
  sim DP DF -> sim (import_rest_prog fx p fid syms exts DP) (import_rest fx p fid syms exts DF).
Proof.
  intros HD. unfold import_rest_prog, import_rest.
  eapply sim_ext; [|apply sim_bind with
      (F := DF)
      (G := fun y T2 =>
              match y with
              | Err e => (T2, Err e)
              | Ok =>
                match (if fx then check_exts T2 exts [] else None) with
                | Some e => if mem_N fid (n_files (get_node T2 p)) then (T2, Ok) else (T2, Err e)
                | None =>
                  match import_file_node T2 p fid syms with
                  | (T3, _, Err e) => (T3, Err e)
                  | (T3, false, Ok) => (T3, Ok)
                  | (T3, true, Ok) => add_exts T3 fid exts
                  end
                end
              end); [exact HD|]].
  - intros T. cbn beta. destruct (DF T) as [T2 [|e]]; reflexivity.
  - intros [|e]; [|apply sim_ret].
    eapply sim_ext; [|apply sim_bind with
        (F := fun T => (T, if fx then check_exts T exts [] else None))
        (G := fun c T2 =>
                match c with
                | Some e => if mem_N fid (n_files (get_node T2 p)) then (T2, Ok) else (T2, Err e)
                | None =>
                  match import_file_node T2 p fid syms with
                  | (T3, _, Err e) => (T3, Err e)
                  | (T3, false, Ok) => (T3, Ok)
                  | (T3, true, Ok) => add_exts T3 fid exts
                  end
                end)].
    + intros T. cbn beta. reflexivity.
    + destruct fx; [apply sim_check_exts|apply sim_ret].
    + intros [e|].
      * intros T1 T2 HT. cbn [run_seq proj n_files]. rewrite (HT p).
        destruct (mem_N fid (n_files (get_node T2 p))); cbn; auto.
      * eapply sim_ext; [|apply sim_bind with
            (F := fun T => let '(T', b, r) := import_file_node T p fid syms in (T', (b, r)))
            (G := fun z T3 =>
                    match z with
                    | (_, Err e) => (T3, Err e)
                    | (false, Ok) => (T3, Ok)
                    | (true, Ok) => add_exts T3 fid exts
                    end); [apply sim_import_file|]].
        -- intros T. cbn beta. destruct (import_file_node T p fid syms) as [[T3 [|]] [|e3]]; reflexivity.
        -- intros [[|] [|e]]; try apply sim_ret. apply sim_add_exts.
Qed.

Lemma import_prog_gen_unfold fx fid pkg deps syms exts :
  import_prog_gen fx (File fid pkg deps syms exts) =
  bind (import_packages_prog fid pkg) (fun x =>
    match x with
    | PkgErr e => Ret (Err e)
    | PkgOk None => Ret Ok
    | PkgOk (Some p) =>
      RLock p (Rd p FFiles (fun nf => RUnlock p
        (if mem_N fid (n_files nf) then Ret Ok
         else import_rest_prog fx p fid syms exts (deps_list_prog (import_prog_gen fx) deps))))
    end).
Proof. reflexivity. Qed.

Lemma sim_import fx : forall f, sim (import_prog_gen fx f) (import_gen fx f).
Proof.
  induction f as [fid pkg deps syms exts IHd] using file_ind2.
  eapply sim_ext; [intros T; symmetry; apply import_gen_unfold|]. unfold import_body.
  rewrite import_prog_gen_unfold.
  eapply sim_ext; [|apply sim_bind with
      (F := fun T => import_packages_loop T fid [] (prefixes pkg))
      (G := fun x T1 =>
              match x with
              | PkgErr e => (T1, Err e)
              | PkgOk None => (T1, Ok)
              | PkgOk (Some p) =>
                if mem_N fid (n_files (get_node T1 p)) then (T1, Ok)
                else import_rest fx p fid syms exts (import_list (import_gen fx) deps) T1
              end); [apply sim_import_packages_loop|]].
  { intros T. cbn beta. unfold import_packages, import_rest.
    destruct (import_packages_loop T fid [] (prefixes pkg)) as [T1 [[p|]|e]]; reflexivity. }
  intros [[p|]|e]; [|apply sim_ret|apply sim_ret].
  intros T1 T2 HT. cbn [run_seq proj n_files]. rewrite (HT p).
  destruct (mem_N fid (n_files (get_node T2 p))); [cbn; auto|].
  apply sim_import_rest; [|exact HT].
  induction IHd as [|d ds Hd _ IH]; [apply sim_ret|].
  change (deps_list_prog (import_prog_gen fx) (d :: ds)) with
    (bind (import_prog_gen fx d) (fun y => match y with Ok => deps_list_prog (import_prog_gen fx) ds | other => Ret other end)).
  cbn [import_list].
  eapply sim_ext; [|apply sim_bind with
      (F := import_gen fx d)
      (G := fun y T' => match y with Ok => import_list (import_gen fx) ds T' | other => (T', other) end);
      [exact Hd|]].
  - intros T. cbn beta. destruct (import_gen fx d T) as [T' [|e]]; reflexivity.
  - intros [|e]; [exact IH|apply sim_ret].
Qed.

(* run alone from the same table, the program of Import returns what the sequential model
   returns and leaves a table that reads alike at every node *)
Lemma seq_refines_lemma fx f T :
  teq (fst (run_seq (import_prog_gen fx f) T)) (fst (import_gen fx f T)) /\
  snd (run_seq (import_prog_gen fx f) T) = snd (import_gen fx f T).
Proof. apply sim_import. apply teq_refl. Qed.
