(* Proofs about Model/XLexer.v, part F: the configuration of parser.Parse (Model/XLexerTables.v) is
   well-formed: keyword strings are non-empty ASCII with unique ids (a sweep over the finite
   table), XID_Start is included in XID_Continue (a decision procedure over the two range tables),
   and no class contains -1.  Then the theorems of part E are instantiated. *)
From Coq Require Import List NArith ZArith Bool Lia ZifyBool ZifyN ZifyNat.
From PV Require Import Model.XLexer Model.XLexerTables Proofs.XLexerUtf8 Proofs.XLexerScan Proofs.XLexerStep
  Proofs.XLexerLoop Proofs.XLexer.
Import ListNotations.

Local Open Scope nat_scope.

(* ---------- range tables ---------- *)
Lemma in_ranges_sound tbl r : in_ranges tbl r = true -> exists lo hi, In (lo, hi) tbl /\ (lo <= r <= hi)%Z.
Proof.
  induction tbl as [|[lo hi] t IH]; cbn [in_ranges]; [discriminate|].
  destruct (Z.ltb_spec r lo); [discriminate|].
  destruct (Z.leb_spec r hi).
  - intros _. exists lo, hi. split; [now left|lia].
  - intros H1. destruct (IH H1) as (a & b & Hin & Hr). exists a, b. split; [now right|exact Hr].
Qed.

(* the whole interval [lo, hi] is accepted by in_ranges tbl *)
Fixpoint covers (tbl : list (Z * Z)) (lo hi : Z) : bool :=
  match tbl with
  | [] => false
  | (l, h) :: t =>
    if (lo <? l)%Z then false
    else if (hi <=? h)%Z then true
    else if (h <? lo)%Z then covers t lo hi
    else false
  end.

Lemma covers_sound tbl lo hi : covers tbl lo hi = true -> forall r, (lo <= r <= hi)%Z -> in_ranges tbl r = true.
Proof.
  induction tbl as [|[l h] t IH]; cbn [covers in_ranges]; [discriminate|].
  destruct (Z.ltb_spec lo l); [discriminate|].
  destruct (Z.leb_spec hi h).
  - intros _ r Hr. destruct (Z.ltb_spec r l); [lia|]. destruct (Z.leb_spec r h); [reflexivity|lia].
  - destruct (Z.ltb_spec h lo); [|discriminate]. intros Hc r Hr.
    destruct (Z.ltb_spec r l); [lia|]. destruct (Z.leb_spec r h); [lia|]. now apply IH.
Qed.

Definition ranges_subset (a b : list (Z * Z)) : bool := forallb (fun '(lo, hi) => covers b lo hi) a.

Lemma ranges_subset_sound a b : ranges_subset a b = true ->
  forall r, in_ranges a r = true -> in_ranges b r = true.
Proof.
  intros Hs r Hr. destruct (in_ranges_sound a r Hr) as (lo & hi & Hin & Hb).
  unfold ranges_subset in Hs. rewrite forallb_forall in Hs. specialize (Hs _ Hin). cbn in Hs.
  now apply (covers_sound b lo hi).
Qed.

(* ---------- the keyword table ---------- *)
Definition kw_ok (tbl : list kwent) (k : kwent) : bool :=
  (k_brk k || negb (Nat.eqb (length (k_str k)) 0))
  && forallb (fun b => N.ltb b 128) (k_str k)
  && match find (fun k' => N.eqb (k_id k') (k_id k)) tbl with
     | Some k' => (if list_eq_dec N.eq_dec (k_str k') (k_str k) then true else false) && N.eqb (k_act k') (k_act k)
                  && Bool.eqb (k_word k') (k_word k) && Bool.eqb (k_brk k') (k_brk k)
                  && N.eqb (k_left k') (k_left k) && N.eqb (k_right k') (k_right k) && N.eqb (k_fused k') (k_fused k)
                  && N.eqb (k_id k') (k_id k)
     | None => false
     end.

Lemma kw_ok_sound tbl k : kw_ok tbl k = true ->
  (k_brk k = false -> k_str k <> []) /\ ascii (k_str k)
  /\ find (fun k' => N.eqb (k_id k') (k_id k)) tbl = Some k.
Proof.
  unfold kw_ok. rewrite !andb_true_iff. intros [[H1 H2] H3]. split; [|split].
  - intros Hb E. rewrite Hb, E in H1. discriminate.
  - unfold ascii. apply Forall_forall. rewrite forallb_forall in H2. intros b Hb. apply N.ltb_lt. now apply H2.
  - destruct (find _ tbl) as [k'|]; [|discriminate].
    rewrite !andb_true_iff in H3. destruct H3 as [[[[[[[E1 E2] E3] E4] E5] E6] E7] E8].
    destruct (list_eq_dec N.eq_dec (k_str k') (k_str k)) as [Es|]; [|discriminate].
    apply N.eqb_eq in E2, E5, E6, E7, E8. apply Bool.eqb_prop in E3, E4.
    destruct k', k. cbn in *. subst. reflexivity.
Qed.

Lemma parser_kw_table_ok : forallb (kw_ok kw_table) kw_table = true.
Proof. vm_compute. reflexivity. Qed.

Lemma parser_xid_subset : ranges_subset tbl_xids tbl_xidc = true.
Proof. vm_compute. reflexivity. Qed.

Theorem parser_cfg_wf : wf_cfg parser_cfg.
Proof.
  pose proof parser_kw_table_ok as Hk. rewrite forallb_forall in Hk.
  constructor.
  - intros k Hin. destruct (kw_ok_sound _ _ (Hk k Hin)) as (A & _). exact A.
  - intros k Hin. destruct (kw_ok_sound _ _ (Hk k Hin)) as (_ & A & _). exact A.
  - intros k Hin. destruct (kw_ok_sound _ _ (Hk k Hin)) as (_ & _ & A). exact A.
  - intros r. apply (ranges_subset_sound _ _ parser_xid_subset).
  - vm_compute. reflexivity.
  - vm_compute. reflexivity.
Qed.

(* ---------- the theorems for the configuration of parser.Parse ---------- *)
Definition pcfg := parser_cfg.

Theorem tokens_tile_lemma_repaired s : prelude_ok pcfg s ->
  exists ts ds, xlex pcfg repaired s = XDone ts ds /\ concat (map (text_of s) ts) = s /\ contiguous ts.
Proof.
  intros Hp.
  destruct (xlex_total_lemma pcfg repaired parser_cfg_wf s Hp (or_introl eq_refl)) as (st & ts0 & ds0 & Hf & _).
  destruct (tokens_tile_lemma pcfg repaired parser_cfg_wf s st Hf) as (ts & ds & Hx & Hc & Hiff).
  exists ts, ds. split; [exact Hx|]. split; [|exact Hc]. apply Hiff. left. reflexivity.
Qed.

Theorem tokens_tile_partial_lemma s st : final_state pcfg as_is s = Some st ->
  exists ts ds, xlex pcfg as_is s = XDone ts ds /\ contiguous ts
    /\ (concat (map (text_of s) ts) = s <-> ((bad st <= 0)%Z \/ unclosed pcfg st <> [])).
Proof.
  intros Hf. destruct (tokens_tile_lemma pcfg as_is parser_cfg_wf s st Hf) as (ts & ds & Hx & Hc & Hiff).
  exists ts, ds. split; [exact Hx|]. split; [exact Hc|]. rewrite Hiff. unfold tiles. cbn [fix_flush as_is].
  split; [intros [?|?]; [discriminate|assumption]|intros ?; now right].
Qed.

Theorem final_state_partial_lemma s : prelude_ok pcfg s -> last_byte s <> Some 92%N ->
  exists st, final_state pcfg as_is s = Some st.
Proof.
  intros Hp Hl. destruct (xlex_total_lemma pcfg as_is parser_cfg_wf s Hp (or_intror Hl)) as (st & _ & _ & Hf & _).
  eauto.
Qed.

Theorem tokens_tile_refuted_lemma :
  exists s ts ds, prelude_ok pcfg s /\ xlex pcfg as_is s = XDone ts ds /\ concat (map (text_of s) ts) <> s.
Proof.
  exists [94%N], [], []. split; [exists false; vm_compute; reflexivity|].
  split; [vm_compute; reflexivity|]. cbn. discriminate.
Qed.

Definition no_panic (r : xres) : Prop :=
  match r with XICE _ _ => False | XFuel => False | _ => True end.

Theorem xlex_total_lemma_repaired s : no_panic (xlex pcfg repaired s).
Proof.
  destruct (xlex pcfg repaired s) as [d|ts ds|ts ds|] eqn:E; cbn; auto.
  - destruct (xlex_ice_lemma pcfg repaired parser_cfg_wf s ts ds E) as [F _]. discriminate.
  - now apply (xlex_never_fuel_lemma pcfg repaired parser_cfg_wf s).
Qed.

Theorem xlex_total_partial_lemma s : last_byte s <> Some 92%N -> no_panic (xlex pcfg as_is s).
Proof.
  intros Hl. destruct (xlex pcfg as_is s) as [d|ts ds|ts ds|] eqn:E; cbn; auto.
  - destruct (xlex_ice_lemma pcfg as_is parser_cfg_wf s ts ds E) as [_ L]. congruence.
  - now apply (xlex_never_fuel_lemma pcfg as_is parser_cfg_wf s).
Qed.

Theorem xlex_total_refuted_lemma :
  exists s ts ds, prelude_ok pcfg s /\ xlex pcfg as_is s = XICE ts ds.
Proof.
  exists [34%N; 92%N]. eexists. eexists. split; [exists false; vm_compute; reflexivity|].
  vm_compute. reflexivity.
Qed.

Theorem xlex_fuel_lemma V s : xlex pcfg V s <> XFuel.
Proof. apply (xlex_never_fuel_lemma pcfg V parser_cfg_wf). Qed.

Theorem xlex_spans_in_file_lemma V s : in_file s (xlex pcfg V s).
Proof. apply (xlex_spans_lemma pcfg V parser_cfg_wf). Qed.

Theorem prelude_reject_reports_error_lemma V s d : xlex pcfg V s = XReject d ->
  d_level d = L_Error /\ diag_in (length s) d.
Proof. apply (prelude_reject_lemma pcfg V parser_cfg_wf). Qed.

(* the verdict of parser.Parse as written is not the specification: a lone warning fails the
   parse, a lone ICE passes it *)
Theorem verdict_spec_refuted_lemma :
  (Forall known_level [L_Warning] /\ verdict_as_is [L_Warning] = false
     /\ forall l, In l [L_Warning] -> ~ error_or_worse l)
  /\ (Forall known_level [L_ICE] /\ verdict_as_is [L_ICE] = true /\ error_or_worse L_ICE).
Proof.
  split.
  - split; [constructor; [right; right; left; reflexivity|constructor]|]. split; [reflexivity|].
    intros l [<-|[]] [H|H]; discriminate.
  - split; [constructor; [left; reflexivity|constructor]|]. split; [reflexivity|]. now left.
Qed.

(* non-vacuity: a small file through the repaired model *)
Example xlex_example :
  prelude_ok pcfg [97; 123; 34; 120; 34; 125; 32; 94]%N
  /\ xlex pcfg repaired [97; 123; 34; 120; 34; 125; 32; 94]%N
     = XDone [ {| o_kind := 3; o_start := 0; o_end := 1; o_kw := 0; o_off := 0 |};
               {| o_kind := 6; o_start := 1; o_end := 2; o_kw := 133; o_off := 2 |};
               {| o_kind := 4; o_start := 2; o_end := 5; o_kw := 0; o_off := 0 |};
               {| o_kind := 6; o_start := 5; o_end := 6; o_kw := 133; o_off := -2 |};
               {| o_kind := 1; o_start := 6; o_end := 7; o_kw := 0; o_off := 0 |};
               {| o_kind := 0; o_start := 7; o_end := 8; o_kw := 0; o_off := 0 |} ]
             [ {| d_level := 2; d_class := DUnrecognized; d_spans := [(7, 8)] |} ].
Proof. split; [exists false; vm_compute; reflexivity|vm_compute; reflexivity]. Qed.
