From Coq Require Import List NArith Bool Lia.
From PV Require Import Common.Bytes Model.Escape.
Import ListNotations.
Open Scope N_scope.

(* The finite fact about each of the 256 byte values that drives both round-trip proofs:
   the escape of c has one of three shapes, each of which one decoder step turns back into c. *)
Definition esc_shape_ok (c : N) : bool :=
  match escape_byte c with
  | [x] => (x =? c) && negb (x =? 92) && negb (x =? 34) && negb (x =? 0) && negb (x =? 10) && (x <? 128)
  | [b; e] => (b =? 92) && negb ((e =? 120) || (e =? 88)) && negb (is_octal e)
              && negb (e =? 117) && negb (e =? 85)
              && (match simple_escape e with Some v => v =? c | None => false end)
              && (match rt_simple e with Some v => v =? c | None => false end)
  | [b; d1; d2; d3] => (b =? 92) && is_octal d1 && is_octal d2 && is_octal d3
              && (parse_digits 8 [d1; d2; d3] =? c) && negb (255 <? c)
              && negb ((d1 =? 120) || (d1 =? 88))
              && (match rt_simple d1 with None => true | Some _ => false end)
  | _ => false
  end.

Lemma esc_shape_sweep : forallb esc_shape_ok all_bytes = true.
Proof. vm_compute. reflexivity. Qed.

Lemma esc_shape c : c < 256 -> esc_shape_ok c = true.
Proof. apply sweep_bytes, esc_shape_sweep. Qed.

Ltac split_andb H :=
  repeat match type of H with
         | (_ && _) = true => let H1 := fresh H in apply andb_prop in H; destruct H as [H H1]
         end.

(* chunk lemma: one loop iteration decodes one escaped byte, whatever follows *)
Lemma unescape_step_escape c t :
  c < 256 ->
  exists x xs, escape_byte c ++ t = x :: xs /\ unescape_step x xs = ([c], t).
Proof.
  intros Hc. pose proof (esc_shape c Hc) as H. unfold esc_shape_ok in H.
  destruct (escape_byte c) as [|x [|e [|d2 [|d3 [|? ?]]]]]; try discriminate.
  - (* one printable byte *)
    rewrite !andb_true_iff in H. destruct H as [[[[[Hx H92] _] _] _] _]. apply N.eqb_eq in Hx. subst x.
    exists c, t. split; [reflexivity|].
    unfold unescape_step. destruct t as [|e r2]; [reflexivity|]. rewrite H92. reflexivity.
  - (* backslash + simple escape *)
    rewrite !andb_true_iff in H. destruct H as [[[[[[Hx Hxx] Hoct] Hu] HU] Hs] _].
    apply N.eqb_eq in Hx. subst x.
    exists 92, (e :: t). split; [reflexivity|].
    unfold unescape_step.
    apply negb_true_iff in Hxx, Hoct, Hu, HU.
    change (92 =? 92) with true. cbn [negb].
    rewrite Hxx, Hoct, Hu, HU.
    destruct (simple_escape e) as [v|]; [|discriminate]. apply N.eqb_eq in Hs. subst v. reflexivity.
  - (* three-digit octal escape *)
    rewrite !andb_true_iff in H. destruct H as [[[[[[[Hx Ho1] Ho2] Ho3] Hv] Hle] Hxx] _].
    apply N.eqb_eq in Hx. subst x. rename e into d1.
    exists 92, (d1 :: d2 :: d3 :: t). split; [reflexivity|].
    unfold unescape_step. change (92 =? 92) with true. cbn [negb].
    apply negb_true_iff in Hxx. rewrite Hxx, Ho1.
    cbn [match_prefix]. rewrite Ho2, Ho3. cbn [firstn skipn].
    apply N.eqb_eq in Hv. rewrite Hv. apply negb_true_iff in Hle. rewrite Hle. reflexivity.
Qed.

Lemma escape_byte_nonempty c : escape_byte c <> [].
Proof.
  unfold escape_byte.
  repeat match goal with |- (if ?b then _ else _) <> _ => destruct b end; discriminate.
Qed.

Lemma escape_byte_length c : (1 <= length (escape_byte c))%nat.
Proof. pose proof (escape_byte_nonempty c). destruct (escape_byte c); [congruence|simpl; lia]. Qed.

Lemma unescape_fuel_escape b : Bytes b ->
  forall fuel, (length (escape_bytes b) <= fuel)%nat ->
  unescape_fuel fuel (escape_bytes b) = Some b.
Proof.
  induction 1 as [|c b Hc Hb IH]; intros fuel Hf.
  - destruct fuel; reflexivity.
  - cbn [escape_bytes flat_map] in *. fold (escape_bytes b) in *.
    destruct (unescape_step_escape c (escape_bytes b) Hc) as (x & xs & Hx & Hstep).
    rewrite Hx. rewrite Hx in Hf. destruct fuel as [|fuel]; [cbn in Hf; lia|].
    cbn [unescape_fuel]. rewrite Hstep.
    rewrite IH; [reflexivity|].
    assert (length (x :: xs) = length (escape_byte c) + length (escape_bytes b))%nat as Hl
        by (rewrite <- Hx; apply app_length).
    pose proof (escape_byte_length c). cbn [length] in Hf, Hl. lia.
Qed.

Theorem unescape_escape_lemma : forall b, Bytes b -> unescape (escape_bytes b) = Some b.
Proof. intros b Hb. apply unescape_fuel_escape; [assumption|lia]. Qed.

(* fuel = length always suffices: unescape never runs out of fuel, on any input *)
Lemma unescape_step_shrinks c rest : (length (snd (unescape_step c rest)) <= length rest)%nat.
Proof.
  unfold unescape_step. destruct rest as [|e r2]; [simpl; lia|].
  repeat match goal with
         | |- context [if ?b then _ else _] => destruct b
         | |- context [match match_prefix ?a ?b ?c with _ => _ end] => destruct (match_prefix a b c)
         | |- context [match simple_escape ?e with _ => _ end] => destruct (simple_escape e)
         end; cbn [snd length]; try rewrite skipn_length; try lia.
  all: cbn [skipn length]; try rewrite skipn_length; try lia.
Qed.

Lemma unescape_fuel_total : forall fuel s, (length s <= fuel)%nat -> unescape_fuel fuel s <> None.
Proof.
  induction fuel as [|fuel IH]; intros s Hf.
  - destruct s; [discriminate|simpl in Hf; lia].
  - destruct s as [|c rest]; [discriminate|].
    cbn [unescape_fuel]. pose proof (unescape_step_shrinks c rest) as Hs.
    destruct (unescape_step c rest) as [chunk rem]. cbn [snd] in Hs.
    assert (unescape_fuel fuel rem <> None) as Hr by (apply IH; simpl in Hf; lia).
    destruct (unescape_fuel fuel rem); [discriminate|congruence].
Qed.

Theorem unescape_total_lemma : forall s, unescape s <> None.
Proof. intros s. apply unescape_fuel_total. lia. Qed.

(* ---- the Go runtime's decoder ---- *)
Lemma rt_chunk c t fuel :
  c < 256 -> (length (escape_byte c ++ t) <= fuel)%nat ->
  exists fuel', (length t <= fuel')%nat /\
    rt_unescape_fuel fuel (escape_byte c ++ t) = rt_map (cons c) (rt_unescape_fuel fuel' t).
Proof.
  intros Hc Hf. pose proof (esc_shape c Hc) as H. unfold esc_shape_ok in H.
  destruct (escape_byte c) as [|x [|e [|d2 [|d3 [|? ?]]]]]; try discriminate.
  - rewrite !andb_true_iff in H. destruct H as [[[[[Hx H92] H34] H0] H10] H128].
    apply N.eqb_eq in Hx. subst x.
    destruct fuel as [|fuel]; [simpl in Hf; lia|]. exists fuel. split; [simpl in Hf; lia|].
    cbn [app rt_unescape_fuel].
    apply negb_true_iff in H34, H0, H10. apply N.ltb_lt in H128.
    replace (128 <=? c) with false by (symmetry; apply N.leb_gt; assumption).
    rewrite H0, H10, H34. cbn [orb]. rewrite H92. reflexivity.
  - rewrite !andb_true_iff in H. destruct H as [[[[[[Hx _] _] _] _] _] Hs].
    apply N.eqb_eq in Hx. subst x.
    destruct fuel as [|fuel]; [simpl in Hf; lia|]. exists fuel. split; [simpl in Hf; lia|].
    cbn [app rt_unescape_fuel]. change (128 <=? 92) with false.
    change ((92 =? 0) || (92 =? 10)) with false. change (92 =? 34) with false.
    change (negb (92 =? 92)) with false. cbn iota.
    destruct (rt_simple e) as [v|]; [|discriminate]. apply N.eqb_eq in Hs. subst v. reflexivity.
  - rewrite !andb_true_iff in H. destruct H as [[[[[[[Hx Ho1] Ho2] Ho3] Hv] Hle] _] Hs].
    apply N.eqb_eq in Hx. subst x. rename e into d1.
    destruct fuel as [|fuel]; [simpl in Hf; lia|]. exists fuel. split; [simpl in Hf; lia|].
    cbn [app rt_unescape_fuel]. change (128 <=? 92) with false.
    change ((92 =? 0) || (92 =? 10)) with false. change (92 =? 34) with false.
    change (negb (92 =? 92)) with false. cbn iota.
    destruct (rt_simple d1); [discriminate|]. rewrite Ho1.
    cbn [match_prefix]. rewrite Ho2, Ho3. cbn [firstn skipn].
    apply N.eqb_eq in Hv. rewrite Hv. apply negb_true_iff in Hle. rewrite Hle. reflexivity.
Qed.

Lemma rt_unescape_fuel_escape b : Bytes b ->
  forall fuel, (length (escape_bytes b) <= fuel)%nat ->
  rt_unescape_fuel fuel (escape_bytes b) = RtOk b.
Proof.
  induction 1 as [|c b Hc Hb IH]; intros fuel Hf.
  - destruct fuel; reflexivity.
  - cbn [escape_bytes flat_map] in *. fold (escape_bytes b) in *.
    destruct (rt_chunk c (escape_bytes b) fuel Hc Hf) as (fuel' & Hf' & ->).
    rewrite IH by assumption. reflexivity.
Qed.

Theorem runtime_unescape_escape_lemma : forall b, Bytes b -> rt_unescape (escape_bytes b) = RtOk b.
Proof. intros b Hb. apply rt_unescape_fuel_escape; [assumption|lia]. Qed.

(* escaped text is printable ASCII *)
Definition printable (x : N) : bool := (32 <=? x) && (x <? 127).

Lemma escape_byte_printable_sweep : forallb (fun c => forallb printable (escape_byte c)) all_bytes = true.
Proof. vm_compute. reflexivity. Qed.

Theorem escape_is_printable_ascii_lemma :
  forall b, Bytes b -> forallb printable (escape_bytes b) = true.
Proof.
  induction 1 as [|c b Hc Hb IH]; [reflexivity|].
  cbn [escape_bytes flat_map]. rewrite forallb_app. fold (escape_bytes b). rewrite IH, andb_true_r.
  exact (sweep_bytes _ escape_byte_printable_sweep c Hc).
Qed.

(* non-vacuity: a concrete byte string that exercises every shape *)
Example escape_example :
  Bytes [0; 10; 34; 65; 92; 200; 255] /\
  escape_bytes [0; 10; 34; 65; 92; 200; 255]
  = [92;48;48;48; 92;110; 92;34; 65; 92;92; 92;51;49;48; 92;51;55;55].
Proof. split; [repeat constructor|vm_compute; reflexivity]. Qed.

(* distinct byte strings never get the same escaped default value *)
Theorem escape_injective_lemma : forall a b, Bytes a -> Bytes b -> escape_bytes a = escape_bytes b -> a = b.
Proof.
  intros a b Ha Hb E. pose proof (unescape_escape_lemma a Ha) as H1. pose proof (unescape_escape_lemma b Hb) as H2.
  rewrite E in H1. rewrite H1 in H2. injection H2 as H. exact H.
Qed.
