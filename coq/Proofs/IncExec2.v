(* Incremental executor model: the memoization invariant.  Every pending result has a live leader,
   completed results are never replaced or altered while they are in the map, everything a caller
   was handed points to a completed result, one leader election per key between evictions. *)
From Coq Require Import List Arith Bool NArith Lia.
From PV Require Import Model.IncExec Proofs.IncExec1.
Import ListNotations.

(* pcs of a thread that owns a pending result *)
Definition leaderpc (p : pc) : bool :=
  match p with
  | PAcquire | PBody _ | PEdges _ _ | PStart _ _ _ | PCall _ _ | PJoinRel _ | PJoin _ | PJoinAcq _
  | PRelease _ | PClose _ => true
  | _ => false
  end.

(* the pending result a non-leader is looking at *)
Definition waiting_on (p : pc) : option nat :=
  match p with
  | RCheck o _ _ | RCycW o _ | RCycR o | RRel o | RWait o | RAcq o | RReload o => Some o
  | _ => None
  end.
Definition woken (p : pc) : bool := match p with RAcq _ | RReload _ => true | _ => false end.

Definition res_ok (s : state) (run : nat) (d : key) (r : dres) : Prop :=
  match r with
  | DVal v ch => exists o, tmap s d = TRes o /\ oclosed (objs s o) = true /\ oval (objs s o) = v /\
                           ch = Nat.eqb (orun (objs s o)) run
  | DCyc _ => True
  | DNil => False
  end.
Definition cres_ok (s : state) (d : key) (c : cres) : Prop :=
  match c with
  | CV v => exists o, tmap s d = TRes o /\ oclosed (objs s o) = true /\ oval (objs s o) = v
  | CC => True
  | CN => False
  end.

(* the Resolve call whose results are in tslots, and how many calls have been accumulated in tacc *)
Definition cg (p : pc) (k : option key) (gs : list (list key)) : option (list key) :=
  match p with
  | PEdges g _ | PStart g _ _ | PCall g _ | PJoinRel g | PJoin g | PJoinAcq g => nth_error gs g
  | PBody (S g) => nth_error gs g
  | PRelease _ => match k with None => nth_error gs 0 | Some _ => None end
  | _ => None
  end.
Definition ai (p : pc) (gs : list (list key)) : option nat :=
  match p with
  | PEdges g _ | PStart g _ _ | PCall g _ | PJoinRel g | PJoin g | PJoinAcq g | PBody g => Some g
  | PRelease _ | PClose _ => Some (length gs)
  | _ => None
  end.
Definition cur_group (w : world) (s : state) (id : nat) : option (list key) :=
  cg (tpc (thr s id)) (tkey (thr s id)) (groups w s id).
Definition acc_index (w : world) (s : state) (id : nat) : option nat :=
  ai (tpc (thr s id)) (groups w s id).
Definition acc0pc (p : pc) : bool := rpc p || match p with PAcquire => true | _ => false end.

Lemma firstn_S_nth {A} (l : list A) i d : nth_error l i = Some d -> firstn (S i) l = firstn i l ++ [d].
Proof.
  revert i. induction l as [|a l IH]; intros [|i] H; cbn in *; try discriminate.
  - inversion H. reflexivity.
  - rewrite (IH i H). reflexivity.
Qed.
Lemma Forall2_nth {A B} (P : A -> B -> Prop) la lb : length la = length lb ->
  (forall i a b, nth_error la i = Some a -> nth_error lb i = Some b -> P a b) -> Forall2 P la lb.
Proof.
  revert lb. induction la as [|a la IH]; intros [|b lb] Hl H; cbn in Hl; try discriminate; constructor.
  - apply (H 0); reflexivity.
  - apply IH; [lia|]. intros i a' b' Ha Hb. apply (H (S i)); assumption.
Qed.

Definition filled_from (p : pc) (i : nat) : Prop :=
  match p with
  | PStart _ j false => j <= i
  | PCall _ false => 1 <= i
  | PJoinAcq _ => True
  | _ => False
  end.

Lemma Forall2_imp {A B} (P Q : A -> B -> Prop) la lb :
  (forall a b, P a b -> Q a b) -> Forall2 P la lb -> Forall2 Q la lb.
Proof. intros H. induction 1; constructor; auto. Qed.

Lemma acc_extend s gs g grp acc (slots : list (option dres)) run :
  nth_error gs g = Some grp -> Forall2 (cres_ok s) (concat (firstn g gs)) acc ->
  length slots = length grp ->
  (forall i, i < length slots -> nth_error slots i <> Some None) ->
  (forall i d r, nth_error grp i = Some d -> nth_error slots i = Some (Some r) -> res_ok s run d r) ->
  Forall2 (cres_ok s) (concat (firstn (S g) gs)) (acc ++ map to_cres slots).
Proof.
  intros Hg Ha Hl Hf Hr. rewrite (firstn_S_nth _ _ _ Hg), concat_app. cbn [concat]. rewrite app_nil_r.
  apply Forall2_app; [assumption|]. apply Forall2_nth; [rewrite map_length; lia|].
  intros i d c Hd Hc. rewrite nth_error_map in Hc.
  destruct (nth_error slots i) as [[r|]|] eqn:Es; cbn in Hc; try discriminate.
  - inversion Hc; subst c. specialize (Hr i d r Hd Es). destruct r as [v ch| |]; cbn in *; auto.
    destruct Hr as (o & H1 & H2 & H3 & _). exists o. auto.
  - exfalso. apply (Hf i); [apply nth_error_Some; congruence|assumption].
Qed.

Section Inv2.
Variable w : world.

Record thread2 (s : state) (id : nat) : Prop := {
  u_leader : forall k, tkey (thr s id) = Some k -> leaderpc (tpc (thr s id)) = true ->
             tmap s k = TRes (tobj (thr s id)) /\ oclosed (objs s (tobj (thr s id))) = false;
  u_waiter : forall d o, tkey (thr s id) = Some d -> waiting_on (tpc (thr s id)) = Some o ->
             tmap s d = TRes o /\ (woken (tpc (thr s id)) = true -> oclosed (objs s o) = true);
  u_return : forall d r, tkey (thr s id) = Some d -> tpc (thr s id) = PReturn r -> res_ok s (trun (thr s id)) d r;
  u_slots : forall grp i d r, cur_group w s id = Some grp -> nth_error grp i = Some d ->
            nth_error (tslots (thr s id)) i = Some (Some r) -> res_ok s (trun (thr s id)) d r;
  u_acc : forall g, acc_index w s id = Some g ->
          Forall2 (cres_ok s) (concat (firstn g (groups w s id))) (tacc (thr s id));
  u_canc : tcanc (thr s id) = false;
  u_acc0 : acc0pc (tpc (thr s id)) = true -> tacc (thr s id) = [];
  u_cycr : forall o, tpc (thr s id) = RCycR o -> ocyc (objs s o) <> None \/ oclosed (objs s o) = true;
  u_load2 : forall d, tkey (thr s id) = Some d -> tpc (thr s id) = RLoad2 -> exists o, tmap s d = TRes o;
  u_filled : forall i, i < length (tslots (thr s id)) -> filled_from (tpc (thr s id)) i ->
             nth_error (tslots (thr s id)) i <> Some None;
  u_bodyg : forall g, tpc (thr s id) = PBody g -> g <= length (groups w s id)
}.

Record inv2 (s : state) : Prop := {
  j_thr : forall id, id < nthr s -> thread2 s id;
  j_bound : forall k o, tmap s k = TRes o -> o < nobj s;
  j_leader : forall k o, tmap s k = TRes o -> oclosed (objs s o) = false ->
             exists id, id < nthr s /\ tkey (thr s id) = Some k /\ leaderpc (tpc (thr s id)) = true /\ tobj (thr s id) = o;
  j_nexec : forall k, nexec s k = match tmap s k with TRes _ => 1 | _ => 0 end;
  j_ocanc : forall k o, tmap s k = TRes o -> oclosed (objs s o) = true -> ocanc (objs s o) = false;
  j_inj : forall k k' o, tmap s k = TRes o -> tmap s k' = TRes o -> k = k';
  j_uniq : forall a b k, a < nthr s -> b < nthr s -> tkey (thr s a) = Some k -> tkey (thr s b) = Some k ->
           leaderpc (tpc (thr s a)) = true -> leaderpc (tpc (thr s b)) = true -> a = b
}.

Variable par : nat.
Hypothesis Hnp : forall k, wpanic w k = None.

(* what a step does to the task map and the result objects *)
Lemma step_mem s id e : inv1 w par s -> id < nthr s -> step_local w s id = Some e ->
  let t := thr s id in
  (e_tmap e = None /\ e_obj e = None /\ e_lead e = None) \/
  (exists k, tkey t = Some k /\ tpc t = RCas /\ (forall o, tmap s k <> TRes o) /\
     e_tmap e = Some (k, TRes (nobj s)) /\ e_obj e = Some (nobj s, new_obj) /\ e_lead e = Some k /\
     tobj (e_self e) = nobj s /\ leaderpc (tpc (e_self e)) = true) \/
  (exists d, tmap s d = TAbsent /\ e_tmap e = Some (d, TNil) /\ e_obj e = None /\ e_lead e = None) \/
  (exists o path, tpc t = RCycW o path /\ e_tmap e = None /\ e_lead e = None /\
     e_obj e = Some (o, {| oclosed := oclosed (objs s o); oval := oval (objs s o); orun := orun (objs s o);
                           ocanc := ocanc (objs s o); ocyc := Some path |})) \/
  (exists k, tkey t = Some k /\ tpc t = PClose MDone /\ e_tmap e = None /\ e_lead e = None /\
     e_obj e = Some (tobj t, {| oclosed := true; oval := wcomp w (inp s k) k (tacc t); orun := trun t;
                                ocanc := tcanc t; ocyc := None |}) /\
     tpc (e_self e) = PReturn (DVal (wcomp w (inp s k) k (tacc t)) true)).
Proof.
  intros Hi Hid H. pose proof (i_thr _ _ _ Hi id Hid) as Ht.
  pose proof (cancelled_false w par s (thr s id) Hi) as Hc.
  pose proof (t_hold _ _ _ Ht) as Hh. unfold hexp in Hh. pose proof (t_synconly _ _ _ Ht) as Hso.
  pose proof (t_mode _ _ _ Ht) as Hmo.
  cbv zeta.
  local_cases H; rewrite ?Epc in *; cbn [hpc] in Hh;
    rewrite ?after_resolve_nc by assumption;
    rewrite ?do_release_hold by (rewrite Hh; first [reflexivity | cbn; apply Hso; reflexivity]);
    try (left; cbn; repeat split; reflexivity).
  all: try (specialize (Hmo _ (or_intror eq_refl)); discriminate).
  all: try match goal with Hb : wfix w && cancelled _ _ = true |- _ =>
                rewrite Hc, andb_false_r in Hb; discriminate end.
  all: try (right; left; eexists; cbn; repeat split; try reflexivity; try eassumption; intros o' F; congruence).
  all: try (right; right; left; eexists; cbn; repeat split; try reflexivity; eassumption).
  all: try (right; right; right; left; do 2 eexists; cbn; repeat split; reflexivity).
  all: try (right; right; right; right; eexists; cbn; repeat split; try reflexivity; eassumption).
Qed.

Definition same_obj (a b : robj) : Prop :=
  oclosed a = oclosed b /\ oval a = oval b /\ orun a = orun b /\ ocanc a = ocanc b.

Lemma mem_stable s id e p : inv1 w par s -> inv2 s -> id < nthr s -> step_local w s id = Some e ->
  let s' := apply_eff s id e p in
  (forall k o, tmap s k = TRes o -> tmap s' k = TRes o) /\
  (forall k o, tmap s k = TRes o -> oclosed (objs s o) = true -> same_obj (objs s' o) (objs s o)) /\
  (forall k o, tmap s k = TRes o -> oclosed (objs s o) = false ->
     same_obj (objs s' o) (objs s o) \/
     (tpc (thr s id) = PClose MDone /\ tkey (thr s id) = Some k /\ tobj (thr s id) = o /\ oclosed (objs s' o) = true)) /\
  (forall k o, tmap s' k = TRes o ->
     tmap s k = TRes o \/ (tpc (thr s id) = RCas /\ tkey (thr s id) = Some k /\ o = nobj s /\
                            (forall o', tmap s k <> TRes o') /\ objs s' o = new_obj /\ nobj s' = S (nobj s))) /\
  nobj s <= nobj s' /\ inp s' = inp s /\ roots s' = roots s /\
  (forall k o, tmap s k = TRes o -> ocyc (objs s o) <> None -> ocyc (objs s' o) <> None \/ oclosed (objs s' o) = true).
Proof.
  intros Hi Hj Hid Hl. pose proof (j_thr _ Hj id Hid) as Hu.
  destruct (step_mem s id e Hi Hid Hl) as [(A & B & C)|[(k0 & A1 & A2 & A3 & A4 & A5 & A6 & A7 & A8)|[(d & A1 & A2 & A3 & A4)|[(o0 & path & A1 & A2 & A3 & A4)|(k0 & A1 & A2 & A3 & A4 & A5 & A6)]]]];
    cbv zeta; unfold apply_eff; cbn [tmap objs nobj inp roots].
  - rewrite A, B. repeat split; auto; try (intros; left; repeat split; reflexivity); try (intros; left; assumption).
  - rewrite A4, A5. rewrite Nat.eqb_refl.
    assert (Hne : forall k o, tmap s k = TRes o -> k <> k0 /\ o <> nobj s).
    { intros k o H. split; [intros ->; eapply A3; eassumption|]. pose proof (j_bound _ Hj k o H). lia. }
    repeat split; auto.
    all: try solve [intros k o H; try intros Hc; destruct (Hne k o H); rewrite ?upd_other by assumption;
                    first [assumption|reflexivity|left; repeat split; reflexivity|left; assumption]].
    all: try solve [destruct (Hne k o H); rewrite ?upd_other by assumption; reflexivity].
    intros k o H. unfold upd in H. destruct (Nat.eqb k k0) eqn:Ek.
    + apply Nat.eqb_eq in Ek. subst k. inversion H; subst o. right. rewrite upd_same. repeat split; auto.
    + left. assumption.
  - rewrite A2, A3.
    assert (Hne : forall k o, tmap s k = TRes o -> k <> d) by (intros k o H ->; congruence).
    repeat split; auto; try (intros; left; repeat split; reflexivity); try (intros; left; assumption).
    + intros k o H. rewrite upd_other by (eapply Hne; eassumption). assumption.
    + intros k o H. unfold upd in H. destruct (Nat.eqb k d); [discriminate|]. left. assumption.
  - rewrite A2, A4.
    assert (Hsame : forall o, same_obj (upd (objs s) o0
               {| oclosed := oclosed (objs s o0); oval := oval (objs s o0); orun := orun (objs s o0);
                  ocanc := ocanc (objs s o0); ocyc := Some path |} o) (objs s o)).
    { intros o. unfold upd. destruct (Nat.eqb o o0) eqn:E; [apply Nat.eqb_eq in E; subst|]; repeat split; reflexivity. }
    repeat split; auto; try apply Hsame; try (intros; left; apply Hsame); try (intros; left; assumption).
    + destruct (Nat.eqb o0 (nobj s)); lia.
    + intros k o H Hc. left. unfold upd. destruct (Nat.eqb o o0) eqn:E; [cbn; discriminate|assumption].
  - rewrite A3, A5.
    destruct (u_leader _ _ Hu k0 A1 ltac:(rewrite A2; reflexivity)) as [L1 L2].
    repeat split; auto; try (intros; left; assumption).
    all: try solve [rewrite upd_other; [reflexivity|]; intros ->; congruence].
    + intros k o H Hc. destruct (Nat.eq_dec o (tobj (thr s id))) as [->|Hno].
      * right. rewrite upd_same. assert (k = k0) as -> by (eapply (j_inj _ Hj); eassumption). repeat split; auto.
      * left. rewrite upd_other by assumption. repeat split; reflexivity.
    + destruct (Nat.eqb (tobj (thr s id)) (nobj s)); lia.
    + intros k o H Hc. destruct (Nat.eq_dec o (tobj (thr s id))) as [->|Hno].
      * right. rewrite upd_same. reflexivity.
      * left. rewrite upd_other by assumption. assumption.
Qed.

Lemma res_ok_stable s s' run d r :
  (forall k o, tmap s k = TRes o -> tmap s' k = TRes o) ->
  (forall k o, tmap s k = TRes o -> oclosed (objs s o) = true -> same_obj (objs s' o) (objs s o)) ->
  res_ok s run d r -> res_ok s' run d r.
Proof.
  intros Ha Hb. destruct r as [v ch| |]; cbn; auto.
  intros (o & H1 & H2 & H3 & H4). destruct (Hb _ _ H1 H2) as (B1 & B2 & B3 & B4).
  exists o. rewrite B1, B2, B3. auto.
Qed.
Lemma cres_ok_stable s s' d c :
  (forall k o, tmap s k = TRes o -> tmap s' k = TRes o) ->
  (forall k o, tmap s k = TRes o -> oclosed (objs s o) = true -> same_obj (objs s' o) (objs s o)) ->
  cres_ok s d c -> cres_ok s' d c.
Proof.
  intros Ha Hb. destruct c as [v| |]; cbn; auto.
  intros (o & H1 & H2 & H3). destruct (Hb _ _ H1 H2) as (B1 & B2 & B3 & B4).
  exists o. rewrite B1, B2. auto.
Qed.

(* the stepping thread: leader / waiter / return facts in the new state *)
Lemma step_self2a s id e p : inv1 w par s -> inv2 s -> id < nthr s -> step_local w s id = Some e ->
  let s' := apply_eff s id e p in let t' := e_self e in
  (forall k, tkey t' = Some k -> leaderpc (tpc t') = true ->
     tmap s' k = TRes (tobj t') /\ oclosed (objs s' (tobj t')) = false) /\
  (forall d o, tkey t' = Some d -> waiting_on (tpc t') = Some o ->
     tmap s' d = TRes o /\ (woken (tpc t') = true -> oclosed (objs s' o) = true)) /\
  (forall d r, tkey t' = Some d -> tpc t' = PReturn r -> res_ok s' (trun t') d r) /\
  (forall o, tpc t' = RCycR o -> ocyc (objs s' o) <> None \/ oclosed (objs s' o) = true) /\
  (forall d, tkey t' = Some d -> tpc t' = RLoad2 -> exists o, tmap s' d = TRes o).
Proof.
  intros Hi Hj Hid H. pose proof (i_thr _ _ _ Hi id Hid) as Ht. pose proof (j_thr _ Hj id Hid) as Hu.
  pose proof (cancelled_false w par s (thr s id) Hi) as Hc.
  pose proof (t_hold _ _ _ Ht) as Hh. unfold hexp in Hh. pose proof (t_synconly _ _ _ Ht) as Hso.
  pose proof (t_mode _ _ _ Ht) as Hmo.
  destruct (step_self_id w s id e H) as (Ia & Ib & Ic & Id & Ie).
  destruct (step_self_struct w par s id e Hi Hid H) as (Sa & _).
  cbv zeta. destruct (tkey (thr s id)) as [k|] eqn:Hk.
  2:{ destruct (Sa eq_refl) as (Q1 & Q2 & Q3). rewrite Ib.
      repeat split; try (intros; discriminate). intros o Ho. rewrite Ho in Q1. discriminate. }
  pose proof (u_leader _ _ Hu k Hk) as Ul. pose proof (fun o => u_waiter _ _ Hu k o Hk) as Uw.
  pose proof (fun r => u_return _ _ Hu k r Hk) as Ur.
  pose proof (u_cycr _ _ Hu) as Uc. pose proof (u_load2 _ _ Hu k Hk) as U2.
  rewrite Ib. clear Ia Ib Ic Id Ie Sa.
  local_cases H; rewrite ?Epc in *; cbn [hpc] in Hh;
    rewrite ?after_resolve_nc by assumption;
    rewrite ?do_release_hold by (rewrite Hh; first [reflexivity | cbn; apply Hso; reflexivity]);
    unfold apply_eff;
    cbn [e_self e_tmap e_obj E Esem tmap objs set_pc set_pc_hold set_pc_slots set_pc_obj set_pc_pub set_pc_disc leave_resolve
         tpc tkey tobj trun leaderpc waiting_on woken] in *.
  all: try (specialize (Hmo _ (or_intror eq_refl)); discriminate).
  all: try match goal with Hb : wfix w && cancelled _ _ = true |- _ =>
                rewrite Hc, andb_false_r in Hb; discriminate end.
  all: repeat split; try (intros; discriminate); try (intros; congruence).
  all: intros.
  all: repeat match goal with Hx : Some _ = Some _ |- _ => inversion Hx; clear Hx; subst end.
  all: repeat match goal with Hx : PReturn _ = PReturn _ |- _ => inversion Hx; clear Hx; subst end.
  all: repeat match goal with Hx : RCycR _ = RCycR _ |- _ => inversion Hx; clear Hx; subst end.
  all: try solve [apply (Ul eq_refl)].
  all: try solve [apply (Uw _ eq_refl)].
  all: try solve [apply (proj2 (Uw _ eq_refl)); reflexivity].
  all: try solve [rewrite upd_same; reflexivity].
  all: try assumption.
  all: cbn [res_ok val_of]; try exact I; cbn [tmap objs].
  all: try solve [destruct (U2 eq_refl) as [o' Ho']; congruence].
  all: try solve [eexists; eassumption].
  all: try solve [left; rewrite upd_same; cbn; discriminate].
  all: try solve [rewrite Hc, orb_false_r in *; assumption].
  all: try solve [destruct (Uw _ eq_refl) as [W1 W2]; specialize (W2 eq_refl); congruence].
  all: try solve [eexists; cbn [tmap objs]; repeat split; try eassumption; reflexivity].
  - destruct (Uc _ eq_refl) as [F|C]; [congruence|]. exists o. repeat split; try assumption. apply (Uw _ eq_refl).
  - destruct (Uw _ eq_refl) as [W1 W2]. specialize (W2 eq_refl).
    match goal with Hx : tmap s d = TRes ?o1 |- _ => assert (o1 = o) by congruence; subst end.
    exists o. repeat split; assumption.
  - destruct (Ul eq_refl) as [L1 L2]. rewrite upd_other; [assumption|]. intros ->. congruence.
  - destruct (Ul eq_refl) as [L1 L2]. exists (tobj (thr s id)). rewrite upd_same. cbn.
    rewrite Nat.eqb_refl. repeat split; auto.
Qed.

Lemma step_self2b s id e p : inv1 w par s -> inv2 s -> id < nthr s -> step_local w s id = Some e ->
  let s' := apply_eff s id e p in let t' := e_self e in let gs := groups w s id in
  (forall grp i d r, cg (tpc t') (tkey t') gs = Some grp -> nth_error grp i = Some d ->
     nth_error (tslots t') i = Some (Some r) -> res_ok s' (trun t') d r) /\
  (forall g, ai (tpc t') gs = Some g -> Forall2 (cres_ok s') (concat (firstn g gs)) (tacc t')) /\
  tcanc t' = false /\
  (forall g, tpc t' = PBody g -> g <= length gs) /\
  (forall i, i < length (tslots t') -> filled_from (tpc t') i -> nth_error (tslots t') i <> Some None) /\
  (acc0pc (tpc t') = true -> tacc t' = []).
Proof.
  intros Hi Hj Hid H. pose proof (i_thr _ _ _ Hi id Hid) as Ht. pose proof (j_thr _ Hj id Hid) as Hu.
  destruct (mem_stable s id e p Hi Hj Hid H) as (Ma & Mb & _).
  pose proof (cancelled_false w par s (thr s id) Hi) as Hc.
  pose proof (t_hold _ _ _ Ht) as Hh. unfold hexp in Hh. pose proof (t_synconly _ _ _ Ht) as Hso.
  pose proof (t_mode _ _ _ Ht) as Hmo.
  set (s' := apply_eff s id e p) in *.
  assert (Us : forall grp i d r, cg (tpc (thr s id)) (tkey (thr s id)) (groups w s id) = Some grp ->
             nth_error grp i = Some d -> nth_error (tslots (thr s id)) i = Some (Some r) ->
             res_ok s' (trun (thr s id)) d r).
  { intros grp i d r A B C. eapply res_ok_stable; [exact Ma|exact Mb|]. eapply (u_slots _ _ Hu); eassumption. }
  assert (Ua : forall g, ai (tpc (thr s id)) (groups w s id) = Some g ->
             Forall2 (cres_ok s') (concat (firstn g (groups w s id))) (tacc (thr s id))).
  { intros g A. eapply Forall2_imp; [|eapply (u_acc _ _ Hu); exact A].
    intros d c. apply cres_ok_stable; assumption. }
  pose proof (u_canc _ _ Hu) as Ucn. pose proof (u_bodyg _ _ Hu) as Ub. pose proof (u_filled _ _ Hu) as Uf.
  pose proof (t_slots _ _ _ Ht) as Tsl. pose proof (t_start _ _ _ Ht) as Tst. pose proof (t_edges _ _ _ Ht) as Ted.
  destruct (step_self_id w s id e H) as (Ia & Ib & Ic & Id & Ie).
  pose proof (u_acc0 _ _ Hu) as U0.
  assert (Hgl : tkey (thr s id) = None -> length (groups w s id) <= 1).
  { intros Hk. unfold groups. rewrite Hk. destruct (find _ (roots s)); cbn; lia. }
  cbv zeta. rewrite Ia, Ib. clear Ia Ib Ic Id Ie. clearbody s'.
  local_cases H; rewrite ?Epc in *; cbn [hpc] in Hh;
    rewrite ?after_resolve_nc by assumption;
    rewrite ?do_release_hold by (rewrite Hh; first [reflexivity | cbn; apply Hso; reflexivity]);
    cbn [e_self E Esem set_pc set_pc_hold set_pc_slots set_pc_obj set_pc_pub set_pc_disc leave_resolve
         tpc tslots tacc tcanc cg ai filled_from rpc] in *.
  all: try (specialize (Hmo _ (or_intror eq_refl)); discriminate).
  all: try match goal with Hb : panics_at _ _ _ _ = true |- _ => rewrite (panics_at_false w Hnp) in Hb; discriminate end.
  all: repeat split; try assumption; try (intros; discriminate); try (intros; contradiction).
  all: try solve [intros g' Hg'; inversion Hg'; subst; rewrite (U0 eq_refl); constructor].
  all: try solve [intros g' Hg'; inversion Hg'; subst; lia].
  all: try solve [intros g' Hg'; inversion Hg'; subst;
                  match goal with Hn : nth_error _ ?g = Some _ |- _ => apply nth_error_Some; congruence end].
  all: try solve [intros; apply U0; reflexivity].
  all: try solve [intros g' Hg'; inversion Hg'; subst; destruct (Tsl _ eq_refl) as (grp' & Hg1 & Hg2);
                  apply nth_error_Some; congruence].
  - (* fresh slots *)
    intros grp i d r _ _ Hn. exfalso. destruct (le_lt_dec (length l) i) as [Hle|Hlt].
    + assert (nth_error (repeat (@None dres) (length l)) i = None) as E by (apply nth_error_None; rewrite repeat_length; lia).
      congruence.
    + rewrite nth_error_repeat in Hn by assumption. discriminate.
  - (* the root leaves Execute: its slots are those of its only Resolve call *)
    destruct (tkey (thr s id)) as [k|] eqn:Hk; [intros; discriminate|].
    apply nth_error_None in Heqo. specialize (Ub _ eq_refl). specialize (Hgl eq_refl).
    destruct g as [|[|g]]; try lia.
    + intros grp i d r Hg. assert (length (groups w s id) = 0) by lia.
      destruct (groups w s id); [discriminate|cbn in *; lia].
    + intros grp i d r Hg. apply Us. assumption.
  - intros g0 Hg0. inversion Hg0; subst g0. apply nth_error_None in Heqo. specialize (Ub _ eq_refl).
    assert (g = length (groups w s id)) as <- by lia. apply Ua. reflexivity.
  - intros i0 Hi0 Hle. destruct (Tsl _ eq_refl) as (grp' & Hg1 & Hg2). rewrite Heqo in Hg1. inversion Hg1; subst. lia.
  - intros g0 Hg0. inversion Hg0; subst g0. destruct (Tsl _ eq_refl) as (grp' & Hg1 & Hg2).
    eapply acc_extend; try eassumption; [apply Ua; reflexivity| |intros i d r Hd Hr; eapply Us; eassumption].
    intros i Hi'. apply Uf; [assumption|lia].
  - intros grp i d0 r Hg Hd Hn. destruct (Nat.eq_dec i n) as [->|Hin].
    + destruct (Tst _ _ _ eq_refl) as [_ Hlen]. rewrite set_slot_same in Hn by lia. inversion Hn; subst r.
      rewrite Heqo in Hg. inversion Hg; subst grp. rewrite Heqo0 in Hd. inversion Hd; subst d0.
      eapply res_ok_stable; [exact Ma|exact Mb|].
      destruct (tmap s k) as [| |o] eqn:Etm; try discriminate. destruct (oclosed (objs s o)) eqn:Ecl; [|discriminate].
      inversion Heqo1; subst d. cbn. exists o. repeat split; auto.
    + rewrite set_slot_other in Hn by assumption. eapply Us; eassumption.
  - intros i Hi' Hfl. rewrite set_slot_length in Hi'. destruct nw; [contradiction|].
    destruct (Nat.eq_dec i n) as [->|Hin].
    + rewrite set_slot_same by assumption. discriminate.
    + rewrite set_slot_other by assumption. apply Uf; [assumption|lia].
  - intros g0 Hg0. inversion Hg0; subst g0. destruct (Tsl _ eq_refl) as (grp' & Hg1 & Hg2).
    eapply acc_extend; try eassumption; [apply Ua; reflexivity| |intros i d' r Hd Hr; eapply Us; eassumption].
    intros i Hi'. destruct i as [|i]; [rewrite Heqo; discriminate|]. apply Uf; [assumption|lia].
  - intros i Hi' _ Hn. eapply slots_full_nth; eassumption.
  - intros g0 Hg0. inversion Hg0; subst g0. destruct (Tsl _ eq_refl) as (grp' & Hg1 & Hg2).
    eapply acc_extend; try eassumption; [apply Ua; reflexivity| |intros i d' r Hd Hr; eapply Us; eassumption].
    intros i Hi'. apply Uf; [assumption|exact I].
Qed.

(* how leadership of the stepping thread changes *)
Lemma leader_step s id e : inv1 w par s -> id < nthr s -> step_local w s id = Some e ->
  (leaderpc (tpc (thr s id)) = true -> (forall m, tpc (thr s id) <> PClose m) ->
     tkey (thr s id) <> None -> leaderpc (tpc (e_self e)) = true /\ tobj (e_self e) = tobj (thr s id)) /\
  (leaderpc (tpc (e_self e)) = true -> leaderpc (tpc (thr s id)) = true \/ tpc (thr s id) = RCas).
Proof.
  intros Hi Hid H. pose proof (i_thr _ _ _ Hi id Hid) as Ht.
  pose proof (cancelled_false w par s (thr s id) Hi) as Hc.
  pose proof (t_hold _ _ _ Ht) as Hh. unfold hexp in Hh. pose proof (t_synconly _ _ _ Ht) as Hso.
  local_cases H; rewrite ?Epc in *; cbn [hpc] in Hh;
    rewrite ?after_resolve_nc by assumption;
    rewrite ?do_release_hold by (rewrite Hh; first [reflexivity | cbn; apply Hso; reflexivity]);
    cbn; split; intros; try discriminate; try (split; reflexivity); auto; try congruence.
  all: try (exfalso; eapply H0; reflexivity).
Qed.


Lemma thr_after s id e p : inv1 w par s -> id < nthr s -> step_local w s id = Some e ->
  let s' := apply_eff s id e p in
  thr s' id = e_self e /\
  (forall x, x < nthr s -> x <> id ->
     thr s' x = thr s x \/
     (exists hi r h, tpc (thr s id) = PReturn r /\ thost (thr s id) = Some (x, hi) /\
                     thr s' x = slot_write (thr s x) hi r h)) /\
  (nthr s' = nthr s \/
   (nthr s' = S (nthr s) /\ exists j d sy h, thr s' (nthr s) = child_of s id j d sy h)).
Proof.
  intros Hi Hid Hl. cbv zeta.
  destruct (step_kinds w s id e Hl) as [[A B]|[(r & hp & hi & A1 & A2 & A3 & A4 & A5 & A6 & _)|(g & j & nw & grp & d & A1 & A2 & A3 & A4 & A5 & A6 & A7 & _)]];
    unfold apply_eff; cbn [thr nthr].
  - rewrite A, B. cbn [apply_slot]. split; [apply upd_same|]. split; [|left; reflexivity].
    intros x Hx Hxi. left. apply upd_other. assumption.
  - rewrite A3, A4. cbn [apply_slot].
    pose proof (i_thr _ _ _ Hi id Hid) as Htid.
    assert (Hk : tkey (thr s id) <> None).
    { intros Hk. destruct (t_root _ _ _ Htid Hk) as (_ & _ & _ & _ & R & _). eapply R; eassumption. }
    destruct (t_host _ _ _ Htid Hk ltac:(rewrite A1; reflexivity)) as [(hp' & hi' & g & grp & d & H1 & H2 & _)].
    rewrite A2 in H1. inversion H1; subst hp' hi'.
    split; [rewrite upd_other by lia; apply upd_same|]. split; [|left; reflexivity].
    intros x Hx Hxi. destruct (Nat.eq_dec x hp) as [->|Hxh].
    + right. exists hi, r, (if tsync (thr s id) then Some (thold (thr s id)) else None).
      repeat split; try assumption. rewrite upd_same. rewrite upd_other by lia. reflexivity.
    + left. rewrite !upd_other by assumption. reflexivity.
  - rewrite A4, A5. cbn [apply_slot]. split; [rewrite upd_other by lia; apply upd_same|]. split.
    + intros x Hx Hxi. left. rewrite !upd_other by lia. reflexivity.
    + right. split; [reflexivity|]. do 4 eexists. apply upd_same.
Qed.


Lemma pclose_obj s id e p k : inv1 w par s -> tkey (thr s id) = Some k -> tpc (thr s id) = PClose MDone ->
  step_local w s id = Some e ->
  oclosed (objs (apply_eff s id e p) (tobj (thr s id))) = true /\
  ocanc (objs (apply_eff s id e p) (tobj (thr s id))) = tcanc (thr s id).
Proof.
  intros Hi Hk Hpc Hl. pose proof (cancelled_false w par s (thr s id) Hi) as Hc.
  unfold step_local in Hl. cbv zeta in Hl. rewrite Hpc, Hk, Hc, andb_false_r in Hl. inversion Hl; subst e.
  unfold apply_eff. cbn. rewrite upd_same. split; reflexivity.
Qed.

Lemma rcas_win s id e k : inv1 w par s -> id < nthr s -> tkey (thr s id) = Some k -> tpc (thr s id) = RCas ->
  (forall o, tmap s k <> TRes o) -> step_local w s id = Some e ->
  leaderpc (tpc (e_self e)) = true /\ tobj (e_self e) = nobj s.
Proof.
  intros Hi Hid Hk Hpc Hn Hl. pose proof (i_thr _ _ _ Hi id Hid) as Ht.
  pose proof (t_hold _ _ _ Ht) as Hh. unfold hexp in Hh. rewrite Hpc in Hh. cbn in Hh.
  unfold step_local in Hl. cbv zeta in Hl. rewrite Hpc, Hk in Hl.
  destruct (tmap s k) eqn:Et; [| |exfalso; eapply Hn; reflexivity]; inversion Hl; subst e; cbn;
    destruct (tsync (thr s id)); rewrite ?Hh; cbn; auto.
Qed.

Lemma inv2_step s id s1 : inv1 w par s -> inv2 s -> step w s id = Some s1 -> inv2 s1.
Proof.
  intros Hi Hj H. destruct (step_spec _ _ _ _ H) as (Hid & e & p & Hl & -> & Hp).
  set (s' := apply_eff s id e p).
  destruct (thr_after s id e p Hi Hid Hl) as (Tself & Toth & Tn). fold s' in Tself, Toth, Tn.
  destruct (mem_stable s id e p Hi Hj Hid Hl) as (Ma & Mb & Mc & Md & Mn & Minp & Mroots & Mcyc).
  fold s' in Ma, Mb, Mc, Md, Mn, Minp, Mroots, Mcyc.
  destruct (step_self2a s id e p Hi Hj Hid Hl) as (Sa1 & Sa2 & Sa3 & Sa4 & Sa5). fold s' in Sa1, Sa2, Sa3, Sa4, Sa5.
  destruct (step_self2b s id e p Hi Hj Hid Hl) as (Sb1 & Sb2 & Sb3 & Sb4 & Sb5 & Sb6). fold s' in Sb1, Sb2.
  destruct (step_self_id w s id e Hl) as (Ia & Ib & Ic & Id & Ie).
  destruct (leader_step s id e Hi Hid Hl) as (L1 & L2).
  pose proof (i_thr _ _ _ Hi id Hid) as Htid. pose proof (j_thr _ Hj id Hid) as Huid.
  assert (Hkey : forall x, x < nthr s -> tkey (thr s' x) = tkey (thr s x)).
  { intros x Hx. destruct (Nat.eq_dec x id) as [->|Hxi]; [rewrite Tself; assumption|].
    destruct (Toth x Hx Hxi) as [->|(hi & r & h & _ & _ & ->)]; reflexivity. }
  assert (Hgr : forall x, x < nthr s -> groups w s' x = groups w s x) by (intros x Hx; apply groups_eq; auto).
  assert (Hpco : forall x, x < nthr s -> x <> id -> tpc (thr s' x) = tpc (thr s x) /\ tobj (thr s' x) = tobj (thr s x) /\
                  trun (thr s' x) = trun (thr s x) /\ tacc (thr s' x) = tacc (thr s x) /\ tcanc (thr s' x) = tcanc (thr s x)).
  { intros x Hx Hxi. destruct (Toth x Hx Hxi) as [->|(hi & r & h & _ & _ & ->)]; repeat split; reflexivity. }
  assert (Hnth : nthr s <= nthr s') by (destruct Tn as [->|[-> _]]; lia).
  (* a thread that is neither the stepping one nor new *)
  assert (Hother : forall x, x < nthr s -> x <> id -> thread2 s' x).
  { intros x Hx Hxi. pose proof (j_thr _ Hj x Hx) as Hu. pose proof (i_thr _ _ _ Hi x Hx) as Htx.
    destruct (Hpco x Hx Hxi) as (P1 & P2 & P3 & P4 & P5).
    assert (Hres : forall d r, res_ok s (trun (thr s x)) d r -> res_ok s' (trun (thr s x)) d r)
      by (intros d r; apply res_ok_stable; assumption).
    constructor; unfold cur_group, acc_index; rewrite ?Hkey, ?Hgr, ?P1, ?P2, ?P3, ?P4, ?P5 by assumption;
      try apply Hu.
    - intros k Hk Hlp. destruct (u_leader _ _ Hu k Hk Hlp) as [A B]. split; [apply Ma; assumption|].
      destruct (Mc _ _ A B) as [(C1 & _)|(C1 & C2 & C3 & C4)]; [congruence|].
      exfalso. apply Hxi. apply (j_uniq _ Hj x id k); try assumption. rewrite C1. reflexivity.
    - intros d o Hk Hw. destruct (u_waiter _ _ Hu d o Hk Hw) as [A B]. split; [apply Ma; assumption|].
      intros Hwk. specialize (B Hwk). destruct (Mb _ _ A B) as (C1 & _). congruence.
    - intros d r Hk Hr. apply Hres. eapply (u_return _ _ Hu); eassumption.
    - intros grp i d r Hg Hd Hn.
      destruct (Toth x Hx Hxi) as [E|(hi & r0 & h & Q1 & Q2 & E)]; rewrite E in Hn.
      + apply Hres. eapply (u_slots _ _ Hu); eassumption.
      + cbn [slot_write tslots] in Hn. destruct (Nat.eq_dec i hi) as [->|Hih].
        * (* the slot just written: the value the callee returned *)
          assert (Hk : tkey (thr s id) <> None).
          { intros Hk. destruct (t_root _ _ _ Htid Hk) as (_ & _ & _ & _ & R & _). eapply R; eassumption. }
          destruct (t_host _ _ _ Htid Hk ltac:(rewrite Q1; reflexivity)) as [(hp' & hi' & g & grp' & d' & H1 & H2 & H3 & H4 & H5 & H6 & H7 & H8 & H9)].
          rewrite Q2 in H1. inversion H1; subst hp' hi'.
          rewrite set_slot_same in Hn by (apply nth_error_Some; congruence). inversion Hn; subst r0.
          assert (grp' = grp /\ d' = d) as [-> ->].
          { unfold cur_group in Hg. clear - Hg Hd H5 H6 H9.
            assert (cg (tpc (thr s x)) (tkey (thr s x)) (groups w s x) = Some grp') as Hg'.
            { destruct (tsync (thr s id)); [destruct H9 as [_ [nw E]]; rewrite E; exact H5|].
              destruct H9 as [_ E]. destruct (tpc (thr s x)); cbn in E; try contradiction; cbn.
              - destruct E as (-> & _). exact H5. - destruct E as (-> & _). exact H5.
              - subst. exact H5. - subst. exact H5. }
            rewrite Hg in Hg'. inversion Hg'; subst. split; [reflexivity|congruence]. }
          rewrite <- H3. eapply res_ok_stable; [exact Ma|exact Mb|]. eapply (u_return _ _ Huid); eassumption.
        * rewrite set_slot_other in Hn by assumption. apply Hres. eapply (u_slots _ _ Hu); eassumption.
    - intros g Hg. eapply Forall2_imp; [|eapply (u_acc _ _ Hu); exact Hg]. intros d c. apply cres_ok_stable; assumption.
    - intros o Ho. assert (Hk : tkey (thr s x) <> None).
      { intros Hk. destruct (t_root _ _ _ Htx Hk) as (_ & _ & R & _). rewrite Ho in R. discriminate. }
      destruct (tkey (thr s x)) as [d|] eqn:Ek; [|congruence].
      destruct (u_waiter _ _ Hu d o Ek ltac:(rewrite Ho; reflexivity)) as [A _].
      destruct (u_cycr _ _ Hu o Ho) as [C|C].
      + apply (Mcyc _ _ A C).
      + right. destruct (Mb _ _ A C) as (C1 & _). congruence.
    - intros d Hk Hpc2. destruct (u_load2 _ _ Hu d Hk Hpc2) as (o & A). exists o. apply Ma. assumption.
    - intros i Hi' Hf. destruct (Toth x Hx Hxi) as [E|(hi & r0 & h & Q1 & Q2 & E)]; rewrite E in *.
      + apply (u_filled _ _ Hu); assumption.
      + cbn [slot_write tslots] in *. rewrite set_slot_length in Hi'. destruct (Nat.eq_dec i hi) as [->|Hih].
        * rewrite set_slot_same by assumption. discriminate.
        * rewrite set_slot_other by assumption. apply (u_filled _ _ Hu); assumption. }
  constructor.
  - intros x Hx. destruct (le_lt_dec (nthr s) x) as [Hge|Hlt].
    + (* the new thread *)
      destruct Tn as [E|(E & j & d & sy & h & Hc)]; [lia|]. assert (x = nthr s) as -> by lia.
      constructor; unfold cur_group, acc_index; rewrite Hc; unfold child_of; cbn; try discriminate; try reflexivity;
        try (intros; discriminate); try (intros; lia); try (intros; constructor).
    + destruct (Nat.eq_dec x id) as [->|Hxi]; [|apply Hother; assumption].
      constructor; unfold cur_group, acc_index; rewrite ?Tself, ?Hgr by assumption; try assumption.
  - intros k o Hk. destruct (Md _ _ Hk) as [A|(_ & _ & -> & _ & _ & E)]; [pose proof (j_bound _ Hj _ _ A)|]; lia.
  - intros k o Hk Hcl. destruct (Md _ _ Hk) as [A|(A1 & A2 & A3 & A4 & A5 & A6)].
    + assert (Hcl0 : oclosed (objs s o) = false).
      { destruct (oclosed (objs s o)) eqn:E; [|reflexivity]. destruct (Mb _ _ A E) as (C1 & _). congruence. }
      destruct (j_leader _ Hj _ _ A Hcl0) as (l & Hl1 & Hl2 & Hl3 & Hl4).
      exists l. split; [lia|]. destruct (Nat.eq_dec l id) as [->|Hli].
      * rewrite Tself, Ib. split; [assumption|].
        assert (Hnc : forall m, tpc (thr s id) <> PClose m).
        { intros m Hm. pose proof (t_mode _ _ _ Htid m (or_intror Hm)) as ->.
          destruct (pclose_obj s id e p k Hi Hl2 Hm Hl) as [Hco _]. fold s' in Hco. congruence. }
        destruct (L1 Hl3 Hnc ltac:(congruence)) as [Q1 Q2]. split; [assumption|congruence].
      * destruct (Hpco l Hl1 Hli) as (P1 & P2 & _). rewrite Hkey, P1, P2 by assumption. auto.
    + exists id. rewrite Tself, Ib. split; [lia|]. split; [assumption|].
      destruct (rcas_win s id e k Hi Hid A2 A1 A4 Hl) as [Q1 Q2]. split; [assumption|congruence].
  - intros k. destruct (step_mem s id e Hi Hid Hl) as [(B1 & B2 & B3)|[(k0 & B1 & B2 & B3 & B4 & B5 & B6 & B7 & B8)|[(d & B0 & B1 & B2 & B3)|[(o0 & path & B0 & B1 & B3 & B2)|(k0 & B0 & B00 & B1 & B3 & B2 & _)]]]];
      unfold s', apply_eff; cbn [nexec tmap]; rewrite ?B1, ?B3, ?B4, ?B6; try apply (j_nexec _ Hj).
    + unfold upd. destruct (Nat.eqb k k0) eqn:Ek.
      * apply Nat.eqb_eq in Ek. subst k. rewrite (j_nexec _ Hj k0). destruct (tmap s k0) eqn:Et; try reflexivity. exfalso. eapply B3; reflexivity.
      * apply (j_nexec _ Hj).
    + unfold upd. destruct (Nat.eqb k d) eqn:Ek.
      * apply Nat.eqb_eq in Ek. subst k. rewrite (j_nexec _ Hj d), B0. reflexivity.
      * apply (j_nexec _ Hj).
  - intros k o Hk Hcl. destruct (Md _ _ Hk) as [A|(A1 & A2 & A3 & A4 & A5 & A6)].
    + destruct (oclosed (objs s o)) eqn:E.
      * destruct (Mb _ _ A E) as (_ & _ & _ & C4). rewrite C4. apply (j_ocanc _ Hj _ _ A E).
      * destruct (Mc _ _ A E) as [(C1 & _)|(C1 & C2 & C3 & C4)]; [congruence|].
        destruct (pclose_obj s id e p k Hi C2 C1 Hl) as [_ Hcn]. fold s' in Hcn. rewrite <- C3, Hcn. apply (u_canc _ _ Huid).
    + rewrite A5 in Hcl. discriminate.
  - intros k k' o Hk Hk'. destruct (Md _ _ Hk) as [A|(A1 & A2 & A3 & A4 & A5 & A6)]; destruct (Md _ _ Hk') as [A'|(A1' & A2' & A3' & A4' & A5' & A6')].
    + eapply (j_inj _ Hj); eassumption.
    + pose proof (j_bound _ Hj _ _ A). lia.
    + pose proof (j_bound _ Hj _ _ A'). lia.
    + congruence.
  - intros a b k Ha Hb Hka Hkb Hla Hlb.
    assert (Hnew : forall x, x < nthr s' -> leaderpc (tpc (thr s' x)) = true -> x < nthr s).
    { intros x Hx Hl'. destruct (le_lt_dec (nthr s) x) as [Hge|]; [|assumption].
      destruct Tn as [E|(E & j & d & sy & h & Hc)]; [lia|]. assert (x = nthr s) as -> by lia.
      rewrite Hc in Hl'. discriminate. }
    pose proof (Hnew a Ha Hla) as Ha'. pose proof (Hnew b Hb Hlb) as Hb'.
    rewrite Hkey in Hka, Hkb by assumption.
    assert (Hold : forall x, x < nthr s -> x <> id -> leaderpc (tpc (thr s' x)) = true -> leaderpc (tpc (thr s x)) = true).
    { intros x Hx Hxi Hl'. destruct (Hpco x Hx Hxi) as (P1 & _). congruence. }
    (* a thread that wins the CAS now is the only leader of its key *)
    assert (Hwin : forall x, x < nthr s -> tkey (thr s x) = Some k -> leaderpc (tpc (thr s x)) = true ->
                   tpc (thr s id) = RCas -> tkey (thr s id) = Some k -> leaderpc (tpc (e_self e)) = true -> False).
    { intros x Hx Hkx Hlx Hcas Hkid Hle. destruct (u_leader _ _ (j_thr _ Hj x Hx) k Hkx Hlx) as [A _].
      clear - Hl Hcas Hle A Hkid. unfold step_local in Hl. cbv zeta in Hl. rewrite Hcas, Hkid, A in Hl.
      inversion Hl; subst e. cbn in Hle. discriminate. }
    destruct (Nat.eq_dec a id) as [->|Hai]; destruct (Nat.eq_dec b id) as [->|Hbi]; try reflexivity.
    + rewrite Tself in Hla. exfalso. destruct (L2 Hla) as [Q|Q].
      * apply Hbi. apply (j_uniq _ Hj b id k); auto.
      * eapply (Hwin b); eauto.
    + rewrite Tself in Hlb. exfalso. destruct (L2 Hlb) as [Q|Q].
      * apply Hai. apply (j_uniq _ Hj a id k); auto.
      * eapply (Hwin a); eauto.
    + apply (j_uniq _ Hj a b k); auto.
Qed.


Lemma inv2_start_run s ks : inv1 w par s -> inv2 s -> inv2 (start_run s ks).
Proof.
  intros Hi Hj. set (s' := start_run s ks).
  assert (Hnew : thr s' (nthr s) = root_thread (S (nrun s))) by (unfold s', start_run; cbn; apply upd_same).
  assert (Hoth : forall x, x < nthr s -> thr s' x = thr s x) by (intros x Hx; unfold s', start_run; cbn; apply upd_other; lia).
  assert (Hgr : forall x, x < nthr s -> groups w s' x = groups w s x) by (intros; apply groups_start_run; assumption).
  constructor; try apply Hj.
  - intros x Hx. change (nthr s') with (S (nthr s)) in Hx. destruct (Nat.eq_dec x (nthr s)) as [->|Hxn].
    + constructor; unfold cur_group, acc_index; rewrite Hnew; cbn; try discriminate; try reflexivity;
        try (intros; discriminate); try (intros; lia); try (intros; contradiction).
    + assert (Hx' : x < nthr s) by lia. pose proof (j_thr _ Hj x Hx') as Hu.
      constructor; unfold cur_group, acc_index; rewrite ?Hoth, ?Hgr by assumption; apply Hu.
  - intros k o Hk Hc. destruct (j_leader _ Hj k o Hk Hc) as (l & L1 & L2 & L3 & L4).
    exists l. change (nthr s') with (S (nthr s)). rewrite Hoth by assumption. split; [lia|auto].
  - intros a b k Ha Hb Hka Hkb Hla Hlb. change (nthr s') with (S (nthr s)) in *.
    destruct (Nat.eq_dec a (nthr s)) as [->|Han]; [rewrite Hnew in Hka; discriminate|].
    destruct (Nat.eq_dec b (nthr s)) as [->|Hbn]; [rewrite Hnew in Hkb; discriminate|].
    rewrite Hoth in * by lia. apply (j_uniq _ Hj a b k); auto; lia.
Qed.

Lemma inv2_quiet s s' : inv2 s -> quiescent s = true ->
  thr s' = thr s -> nthr s' = nthr s -> objs s' = objs s -> nobj s' = nobj s ->
  (forall k, (tmap s' k = TAbsent /\ nexec s' k = 0) \/ (tmap s' k = tmap s k /\ nexec s' k = nexec s k)) ->
  inv2 s'.
Proof.
  intros Hj Hq Ht Hn Ho Hno Hm. pose proof (quiescent_ended s Hq) as He.
  assert (Hsub : forall k o, tmap s' k = TRes o -> tmap s k = TRes o).
  { intros k o Hk. destruct (Hm k) as [[A _]|[A _]]; congruence. }
  constructor.
  - intros x Hx. rewrite Hn in Hx. specialize (He x Hx).
    constructor; unfold cur_group, acc_index; rewrite Ht; destruct (tpc (thr s x)); try discriminate;
      cbn; try (intros; discriminate); try (intros; contradiction); try apply (j_thr _ Hj x Hx).
  - intros k o Hk. rewrite Hno. apply (j_bound _ Hj k o). auto.
  - intros k o Hk Hc. rewrite Ho in Hc. destruct (j_leader _ Hj k o (Hsub _ _ Hk) Hc) as (l & L1 & L2 & L3 & L4).
    specialize (He l L1). destruct (tpc (thr s l)); discriminate.
  - intros k. destruct (Hm k) as [[A B]|[A B]]; rewrite A, B; [reflexivity|apply (j_nexec _ Hj)].
  - intros k o Hk. rewrite Ho. apply (j_ocanc _ Hj k o). auto.
  - intros k k' o Hk Hk'. apply (j_inj _ Hj k k' o); auto.
  - intros a b k Ha _ _ _ Hla _. rewrite Hn in Ha. rewrite Ht in Hla. specialize (He a Ha).
    destruct (tpc (thr s a)); discriminate.
Qed.

Lemma inv2_event s e s' : inv1 w par s -> inv2 s -> do_event w s e = Some s' -> inv2 s'.
Proof.
  intros Hi Hj H. destruct e as [t|ks|ks|ks vs]; cbn [do_event] in H.
  - eapply inv2_step; eassumption.
  - destruct (forallb (fun k => Nat.ltb k (wn w)) ks); inversion H. apply inv2_start_run; assumption.
  - destruct (quiescent s) eqn:Hq; inversion H. eapply inv2_quiet; try eassumption; try reflexivity.
    intros k. unfold evict; cbn. destruct (memb k (evict_set w s ks)); auto.
  - destruct (quiescent s) eqn:Hq; inversion H. eapply inv2_quiet; try eassumption; try reflexivity.
    intros k. unfold evict; cbn. destruct (memb k _); auto.
Qed.

Lemma inv2_init inputs : inv2 (init par inputs).
Proof.
  constructor; cbn; try (intros; lia); try (intros; discriminate); try reflexivity.
Qed.

Lemma reach_inv2 inputs s : reach w par inputs s -> inv1 w par s /\ inv2 s.
Proof.
  induction 1 as [|s e s' Hr [IH1 IH2] He].
  - split; [apply inv1_init|apply inv2_init].
  - split; [eapply inv1_event; eassumption|eapply inv2_event; eassumption].
Qed.

(* ---- C33: at most one execution of a key between two evictions of it ---- *)
Theorem at_most_once inputs s k : reach w par inputs s -> nexec s k <= 1.
Proof.
  intros Hr. destruct (reach_inv2 _ _ Hr) as [_ Hj]. rewrite (j_nexec _ Hj k). destruct (tmap s k); lia.
Qed.

End Inv2.
