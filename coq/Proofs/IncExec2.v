(* Incremental executor model: the memoization invariant.  Every pending result has a live leader,
   completed results are never replaced or altered while they are in the map, everything a caller
   was handed points to a completed result, one leader election per key between evictions. *)
From Coq Require Import List Arith Bool NArith Lia.
From PV Require Import Model.IncExec Proofs.IncExec1.
Import ListNotations.

(* pcs of a thread that owns a pending result *)
Definition leaderpc (p : pc) : bool :=
  match p with
  | PAcquire | PBody _ | PEdges _ _ | PStart _ _ _ | PCall _ _ | PJoinRel _ | PJoin _ | PJoinAcq _
  | PRelease _ | PClose _ => true
  | _ => false
  end.

(* the pending result a non-leader is looking at *)
Definition waiting_on (p : pc) : option nat :=
  match p with
  | RCheck o _ _ | RCycW o _ | RCycR o | RRel o | RWait o | RAcq o | RReload o => Some o
  | _ => None
  end.
Definition woken (p : pc) : bool := match p with RAcq _ | RReload _ => true | _ => false end.

Definition res_ok (s : state) (run : nat) (d : key) (r : dres) : Prop :=
  match r with
  | DVal v ch => exists o, tmap s d = TRes o /\ oclosed (objs s o) = true /\ oval (objs s o) = v /\
                           ch = Nat.eqb (orun (objs s o)) run
  | DCyc _ => True
  | DNil => False
  end.
Definition cres_ok (s : state) (d : key) (c : cres) : Prop :=
  match c with
  | CV v => exists o, tmap s d = TRes o /\ oclosed (objs s o) = true /\ oval (objs s o) = v
  | CC => True
  | CN => False
  end.

(* the Resolve call whose results are in tslots, and how many calls have been accumulated in tacc *)
Definition cur_group (w : world) (s : state) (id : nat) : option (list key) :=
  match tpc (thr s id) with
  | PEdges g _ | PStart g _ _ | PCall g _ | PJoinRel g | PJoin g | PJoinAcq g => nth_error (groups w s id) g
  | PRelease _ =>
      match tkey (thr s id) with None => nth_error (groups w s id) 0 | Some _ => None end
  | _ => None
  end.
Definition acc_index (w : world) (s : state) (id : nat) : option nat :=
  match tpc (thr s id) with
  | PEdges g _ | PStart g _ _ | PCall g _ | PJoinRel g | PJoin g | PJoinAcq g | PBody g => Some g
  | PRelease _ | PClose _ => Some (length (groups w s id))
  | _ => None
  end.

Section Inv2.
Variable w : world.

Record thread2 (s : state) (id : nat) : Prop := {
  u_leader : forall k, tkey (thr s id) = Some k -> leaderpc (tpc (thr s id)) = true ->
             tmap s k = TRes (tobj (thr s id)) /\ oclosed (objs s (tobj (thr s id))) = false;
  u_waiter : forall d o, tkey (thr s id) = Some d -> waiting_on (tpc (thr s id)) = Some o ->
             tmap s d = TRes o /\ (woken (tpc (thr s id)) = true -> oclosed (objs s o) = true);
  u_return : forall d r, tkey (thr s id) = Some d -> tpc (thr s id) = PReturn r -> res_ok s (trun (thr s id)) d r;
  u_slots : forall grp i d r, cur_group w s id = Some grp -> nth_error grp i = Some d ->
            nth_error (tslots (thr s id)) i = Some (Some r) -> res_ok s (trun (thr s id)) d r;
  u_acc : forall g, acc_index w s id = Some g ->
          Forall2 (cres_ok s) (concat (firstn g (groups w s id))) (tacc (thr s id));
  u_canc : tcanc (thr s id) = false;
  u_bodyg : forall g, tpc (thr s id) = PBody g -> g <= length (groups w s id)
}.

Record inv2 (s : state) : Prop := {
  j_thr : forall id, id < nthr s -> thread2 s id;
  j_bound : forall k o, tmap s k = TRes o -> o < nobj s;
  j_leader : forall k o, tmap s k = TRes o -> oclosed (objs s o) = false ->
             exists id, id < nthr s /\ tkey (thr s id) = Some k /\ leaderpc (tpc (thr s id)) = true /\ tobj (thr s id) = o;
  j_nexec : forall k, nexec s k = match tmap s k with TRes _ => 1 | _ => 0 end;
  j_ocanc : forall k o, tmap s k = TRes o -> oclosed (objs s o) = true -> ocanc (objs s o) = false;
  j_inj : forall k k' o, tmap s k = TRes o -> tmap s k' = TRes o -> k = k';
  j_uniq : forall a b k, a < nthr s -> b < nthr s -> tkey (thr s a) = Some k -> tkey (thr s b) = Some k ->
           leaderpc (tpc (thr s a)) = true -> leaderpc (tpc (thr s b)) = true -> a = b
}.

Variable par : nat.
Hypothesis Hnp : forall k, wpanic w k = None.

(* what a step does to the task map and the result objects *)
Lemma step_mem s id e : inv1 w par s -> id < nthr s -> step_local w s id = Some e ->
  let t := thr s id in
  (e_tmap e = None /\ e_obj e = None /\ e_lead e = None) \/
  (exists k, tkey t = Some k /\ tpc t = RCas /\ (forall o, tmap s k <> TRes o) /\
     e_tmap e = Some (k, TRes (nobj s)) /\ e_obj e = Some (nobj s, new_obj) /\ e_lead e = Some k /\
     tobj (e_self e) = nobj s /\ leaderpc (tpc (e_self e)) = true) \/
  (exists d, tmap s d = TAbsent /\ e_tmap e = Some (d, TNil) /\ e_obj e = None /\ e_lead e = None) \/
  (exists o path, tpc t = RCycW o path /\ e_tmap e = None /\ e_lead e = None /\
     e_obj e = Some (o, {| oclosed := oclosed (objs s o); oval := oval (objs s o); orun := orun (objs s o);
                           ocanc := ocanc (objs s o); ocyc := Some path |})) \/
  (exists k, tkey t = Some k /\ tpc t = PClose MDone /\ e_tmap e = None /\ e_lead e = None /\
     e_obj e = Some (tobj t, {| oclosed := true; oval := wcomp w (inp s k) k (tacc t); orun := trun t;
                                ocanc := tcanc t; ocyc := None |}) /\
     tpc (e_self e) = PReturn (DVal (wcomp w (inp s k) k (tacc t)) true)).
Proof.
  intros Hi Hid H. pose proof (i_thr _ _ _ Hi id Hid) as Ht.
  pose proof (cancelled_false w par s (thr s id) Hi) as Hc.
  pose proof (t_hold _ _ _ Ht) as Hh. unfold hexp in Hh. pose proof (t_synconly _ _ _ Ht) as Hso.
  pose proof (t_mode _ _ _ Ht) as Hmo.
  cbv zeta.
  local_cases H; rewrite ?Epc in *; cbn [hpc] in Hh;
    rewrite ?after_resolve_nc by assumption;
    rewrite ?do_release_hold by (rewrite Hh; first [reflexivity | cbn; apply Hso; reflexivity]);
    try (left; cbn; repeat split; reflexivity).
  all: try (specialize (Hmo _ (or_intror eq_refl)); discriminate).
  all: try match goal with Hb : wfix w && cancelled _ _ = true |- _ =>
                rewrite Hc, andb_false_r in Hb; discriminate end.
  all: try (right; left; eexists; cbn; repeat split; try reflexivity; try eassumption; intros o' F; congruence).
  all: try (right; right; left; eexists; cbn; repeat split; try reflexivity; eassumption).
  all: try (right; right; right; left; do 2 eexists; cbn; repeat split; reflexivity).
  all: try (right; right; right; right; eexists; cbn; repeat split; try reflexivity; eassumption).
Qed.
End Inv2.
