(* Proofs about Model/UnusedImportsFixed.v (the marking rule after fixes/C19-exact-unused-imports.diff):
   with the repaired rule the warning is exact, for every file set whose lookups are answered
   consistently: warned iff not public and removable. *)
From Coq Require Import List NArith ZArith Bool Arith Lia.
Import ListNotations.
From PV Require Import Model.Visibility Model.Resolve Model.UnusedImports Model.UnusedImportsFixed
     Proofs.Visibility Proofs.UnusedImports.

Section Loop.
  Variable G : graph.
  Variable fn : vfile -> option N.
  Variable fuel : nat.
  Variable self : N.
  Variable gof : vres -> gres.

  (* the visit behind an import *)
  Definition via (pi : N * bool) : vres :=
    match find_file G (fst pi) with Some g => visit G fn fuel true [self] g | None => VNotFound end.

  Lemma provides_via pi : provides G fn fuel self pi = true -> exists a e, via pi = VFound a e.
  Proof.
    unfold provides, via. destruct (find_file G (fst pi)); [|discriminate].
    destruct (visit G fn fuel true [self] v); try discriminate. eauto.
  Qed.

  Lemma top_loop_r_fst imps : fst (top_loop_r G fn fuel self imps) = fst (top_loop G fn fuel self imps).
  Proof.
    induction imps as [|[p b] r IH]; cbn [top_loop_r top_loop]; [reflexivity|].
    destruct (find_file G p); [|reflexivity]. destruct (visit G fn fuel true [self] v); try reflexivity. exact IH.
  Qed.

  Lemma top_loop_r_none : forall imps, imports_normal G fn fuel self imps ->
    existsb (provides G fn fuel self) imps = false -> top_loop_r G fn fuel self imps = (VNotFound, None).
  Proof.
    induction imps as [|[p b] r IH]; intros Hn He; [reflexivity|].
    destruct (Hn p b (or_introl eq_refl)) as (g & Hg & N1 & N2).
    cbn [existsb] in He. apply orb_false_iff in He. destruct He as [H1 H2].
    unfold provides in H1. cbn [fst] in H1. rewrite Hg in H1. cbn [top_loop_r]. rewrite Hg.
    destruct (visit G fn fuel true [self] g) eqn:Ev; try contradiction; [discriminate|].
    apply IH; [now apply (imports_normal_tail _ _ _ _ _ _ Hn)|exact H2].
  Qed.

  (* a loop that has a provider returns the visit of one of its providers *)
  Lemma top_loop_r_some : forall imps, imports_normal G fn fuel self imps ->
    existsb (provides G fn fuel self) imps = true ->
    exists pj, In pj imps /\ provides G fn fuel self pj = true /\ fst (top_loop_r G fn fuel self imps) = via pj.
  Proof.
    induction imps as [|[p b] r IH]; intros Hn He; [discriminate|].
    destruct (Hn p b (or_introl eq_refl)) as (g & Hg & N1 & N2).
    cbn [existsb] in He. cbn [top_loop_r]. rewrite Hg.
    destruct (visit G fn fuel true [self] g) eqn:Ev; try contradiction.
    - exists (p, b). split; [now left|]. unfold provides, via. cbn [fst]. rewrite Hg, Ev. auto.
    - assert (Hp : provides G fn fuel self (p, b) = false) by (unfold provides; cbn [fst]; now rewrite Hg, Ev).
      rewrite Hp in He. cbn [orb] in He.
      destruct (IH (imports_normal_tail _ _ _ _ _ _ Hn) He) as (pj & Hin & Hpj & Hv).
      exists pj. split; [now right|auto].
  Qed.

  Lemma drop_notin i l : ~ In i (map fst l) -> drop i l = l.
  Proof.
    induction l as [|[p b] l IH]; cbn [map fst In]; intros H; [reflexivity|].
    cbn [drop filter fst]. destruct (N.eqb p i) eqn:E; [apply N.eqb_eq in E; tauto|].
    cbn [negb]. f_equal. apply IH. tauto.
  Qed.

  Lemma existsb_drop i l : existsb (provides G fn fuel self) l = false ->
    existsb (provides G fn fuel self) (drop i l) = false.
  Proof.
    induction l as [|x l IH]; [reflexivity|]. cbn [existsb drop filter]. intros H.
    apply orb_false_iff in H. destruct H as [H1 H2]. destruct (negb (N.eqb (fst x) i)); cbn [existsb].
    - rewrite H1. now apply IH.
    - now apply IH.
  Qed.

  (* L1: an import that is not marked can be taken out: the lookup is answered with the same element *)
  Lemma top_loop_r_drop_same i : forall imps, imports_normal G fn fuel self imps ->
    nodupN (map fst imps) = true -> (forall b, In (i, b) imps -> b = false) ->
    (forall pi pj, In pi imps -> In pj imps -> provides G fn fuel self pi = true ->
                   provides G fn fuel self pj = true -> gof (via pi) = gof (via pj)) ->
    snd (top_loop_r G fn fuel self imps) <> Some i ->
    gof (fst (top_loop_r G fn fuel self (drop i imps))) = gof (fst (top_loop_r G fn fuel self imps)).
  Proof.
    induction imps as [|[p b] r IH]; intros Hn Hd Hpub Hc Hm; [reflexivity|].
    assert (Hn' := imports_normal_tail _ _ _ _ _ _ Hn).
    cbn [map fst nodupN] in Hd. apply andb_true_iff in Hd. destruct Hd as [Hd1 Hd2].
    apply negb_true_iff, memN_false in Hd1.
    assert (Hpub' : forall b0, In (i, b0) r -> b0 = false) by (intros b0 H0; apply Hpub; now right).
    assert (Hc' : forall pi pj, In pi r -> In pj r -> provides G fn fuel self pi = true ->
                   provides G fn fuel self pj = true -> gof (via pi) = gof (via pj))
      by (intros pi pj H1 H2; apply Hc; now right).
    destruct (Hn p b (or_introl eq_refl)) as (g & Hg & N1 & N2).
    cbn [drop filter fst]. cbn [top_loop_r] in Hm |- *. rewrite Hg in Hm |- *.
    destruct (N.eqb p i) eqn:Epi; cbn [negb].
    - apply N.eqb_eq in Epi. subst p. fold (drop i r). rewrite (drop_notin i r Hd1).
      destruct (visit G fn fuel true [self] g) eqn:Ev; try contradiction.
      + rewrite (Hpub b (or_introl eq_refl)) in Hm. cbn [snd fst] in Hm |- *.
        destruct (existsb (provides G fn fuel self) r) eqn:Ex; [|congruence].
        destruct (top_loop_r_some r Hn' Ex) as (pj & Hin & Hpj & Hv). rewrite Hv.
        assert (Hvi : via (i, b) = VFound file elem) by (unfold via; cbn [fst]; now rewrite Hg).
        rewrite <- Hvi. apply Hc; [now right|now left|exact Hpj|].
        unfold provides. cbn [fst]. now rewrite Hg, Ev.
      + reflexivity.
    - cbn [top_loop_r]. rewrite Hg.
      destruct (visit G fn fuel true [self] g) eqn:Ev; try reflexivity.
      apply IH; assumption.
  Qed.

  (* L2: the marked import is the only provider: without it the lookup fails *)
  Lemma top_loop_r_marked i : forall imps, imports_normal G fn fuel self imps ->
    snd (top_loop_r G fn fuel self imps) = Some i ->
    fst (top_loop_r G fn fuel self (drop i imps)) = VNotFound /\
    exists a e, fst (top_loop_r G fn fuel self imps) = VFound a e.
  Proof.
    induction imps as [|[p b] r IH]; intros Hn Hm; [discriminate|].
    assert (Hn' := imports_normal_tail _ _ _ _ _ _ Hn).
    destruct (Hn p b (or_introl eq_refl)) as (g & Hg & N1 & N2).
    cbn [drop filter fst]. cbn [top_loop_r] in Hm |- *. rewrite Hg in Hm |- *.
    destruct (visit G fn fuel true [self] g) eqn:Ev; try contradiction.
    - cbn [snd fst] in Hm |- *. destruct b; [discriminate|].
      destruct (existsb (provides G fn fuel self) r) eqn:Ex; [discriminate|]. injection Hm as ->.
      rewrite N.eqb_refl. cbn [negb]. split; [|eauto].
      fold (drop i r). rewrite top_loop_r_none; [reflexivity|now apply imports_normal_drop|now apply existsb_drop].
    - destruct (IH Hn' Hm) as (H1 & H2). split; [|exact H2].
      destruct (negb (N.eqb p i)); [|exact H1]. cbn [top_loop_r]. rewrite Hg, Ev. exact H1.
  Qed.
End Loop.

(* ------------------------------------------------------------------ one lookup *)
Lemma providers_in W f m n pi : In pi (providers W f m n) <->
  (m <> QSelf /\ In pi (vf_imports f) /\
   provides (w_G W) (lookup_fn W m (qname m n)) (length (w_G W)) (vf_path f) pi = true).
Proof.
  destruct m; cbn [providers].
  - rewrite filter_In. split; [intros H; split; [discriminate|exact H]|intros [_ H]; exact H].
  - split; [intros []|intros [H _]; congruence].
  - rewrite filter_In. split; [intros H; split; [discriminate|exact H]|intros [_ H]; exact H].
Qed.

Definition cons_at (W : world) (f : vfile) (m : qmode) (n : name) : Prop :=
  forall pi pj, In pi (providers W f m n) -> In pj (providers W f m n) ->
                answer_via W f m n pi = answer_via W f m n pj.

Lemma answer_via_via W f m n pi :
  answer_via W f m n pi = gres_of W m n (via (w_G W) (lookup_fn W m (qname m n)) (length (w_G W)) (vf_path f) pi).
Proof. unfold answer_via, via. destruct (find_file (w_G W) (fst pi)); reflexivity. Qed.

Lemma ask_r_same W f i m n : graph_ok (w_G W) = true -> In f (w_G W) -> import_paths_distinct f ->
  In (i, false) (vf_imports f) -> cons_at W f m n -> snd (ask_r W f m n) <> Some i ->
  gres_of W m n (fst (ask_r W (remove_import i f) m n)) = gres_of W m n (fst (ask_r W f m n)).
Proof.
  intros HG Hf Hd Hin Hc Hm.
  assert (Hpub : forall b, In (i, b) (vf_imports f) -> b = false)
    by (intros b Hb; now apply (distinct_flag (vf_imports f) i b Hd Hin)).
  destruct m; cbn [ask_r] in *; try reflexivity.
  - unfold resolve_mark_r in *. rewrite (lookup_fn_path_only W QElem _ (remove_import i f) f eq_refl).
    destruct (lookup_fn W QElem (qname QElem n) f); [reflexivity|].
    cbn [remove_import vf_path vf_imports]. fold (drop i (vf_imports f)).
    apply (top_loop_r_drop_same (w_G W) _ (length (w_G W)) (vf_path f) (gres_of W QElem n) i); auto.
    + now apply imports_normal_ok.
    + intros pi pj H1 H2 P1 P2. rewrite <- !answer_via_via. apply Hc; apply providers_in; repeat split; auto; discriminate.
  - unfold resolve_mark_r in *. rewrite (lookup_fn_path_only W QDesc _ (remove_import i f) f eq_refl).
    destruct (lookup_fn W QDesc (qname QDesc n) f); [reflexivity|].
    cbn [remove_import vf_path vf_imports]. fold (drop i (vf_imports f)).
    apply (top_loop_r_drop_same (w_G W) _ (length (w_G W)) (vf_path f) (gres_of W QDesc n) i); auto.
    + now apply imports_normal_ok.
    + intros pi pj H1 H2 P1 P2. rewrite <- !answer_via_via. apply Hc; apply providers_in; repeat split; auto; discriminate.
Qed.

(* an answer found somewhere is an element or a sentinel, never nil *)
Lemma enc_some g e : enc g = Some e -> g <> GNil.
Proof. destruct g; [discriminate| |]; intros _ H; discriminate. Qed.

Lemma found_not_nil W f m n a e : graph_ok (w_G W) = true -> In f (w_G W) -> m <> QSelf ->
  fst (ask_r W f m n) = VFound a e -> gres_of W m n (VFound a e) <> GNil.
Proof.
  intros HG Hf Hm H. pose proof (graph_ok_gok _ HG) as OK.
  assert (Hv : visit (w_G W) (lookup_fn W m (qname m n)) (S (length (w_G W))) false [] f = VFound a e).
  { rewrite <- resolve_mark_fst_lemma. rewrite <- H. destruct m; try contradiction; cbn [ask_r];
      unfold resolve_mark_r, resolve_mark; destruct (lookup_fn W _ _ f); try reflexivity; symmetry; apply top_loop_r_fst. }
  destruct (visit_sound _ _ _ _ _ f a e (gok_self _ OK f Hf) Hv) as (g & Hg & Hfn & _).
  pose proof (find_file_some _ _ _ Hg) as [_ Hp]. unfold lookup_fn in Hfn. rewrite Hp in Hfn.
  cbn [gres_of]. destruct (tab_find (w_tab W) a) as [rf|]; [|discriminate]. now apply (enc_some _ e).
Qed.

Lemma ask_r_marked W f i m n : graph_ok (w_G W) = true -> In f (w_G W) ->
  snd (ask_r W f m n) = Some i ->
  gres_of W m n (fst (ask_r W (remove_import i f) m n)) = GNil /\
  gres_of W m n (fst (ask_r W f m n)) <> GNil.
Proof.
  intros HG Hf Hm.
  assert (Hns : m <> QSelf) by (intros ->; cbn [ask_r snd] in Hm; discriminate).
  assert (H : fst (ask_r W (remove_import i f) m n) = VNotFound /\ exists a e, fst (ask_r W f m n) = VFound a e).
  { destruct m; try contradiction; cbn [ask_r] in *; unfold resolve_mark_r in *;
      rewrite (lookup_fn_path_only W _ _ (remove_import i f) f eq_refl);
      destruct (lookup_fn W _ _ f); try discriminate;
      cbn [remove_import vf_path vf_imports]; fold (drop i (vf_imports f));
      apply top_loop_r_marked; auto; now apply imports_normal_ok. }
  destruct H as (H1 & a & e & H2). rewrite H1. split; [reflexivity|].
  rewrite H2. now apply (found_not_nil W f m n a e HG Hf Hns).
Qed.

(* ------------------------------------------------------------------ one reference *)
Lemma outcome_g_cons W m n v mk r tr :
  outcome_g W (r, mkEv m n v mk :: tr) = (r, (m, n, gres_of W m n v) :: snd (outcome_g W (r, tr))).
Proof. reflexivity. Qed.

Lemma run_r_unmarked W f i : graph_ok (w_G W) = true -> In f (w_G W) -> import_paths_distinct f ->
  In (i, false) (vf_imports f) ->
  forall p, consistent_along W f p -> ~ In i (marks_of (snd (run_r W f p))) ->
  outcome_g W (run_r W (remove_import i f) p) = outcome_g W (run_r W f p).
Proof.
  intros HG Hf Hd Hin. induction p as [r|m n k IH]; intros Hc Hm; [reflexivity|].
  cbn [consistent_along] in Hc. destruct Hc as [Hc1 Hc2].
  cbn [run_r snd] in Hm. rewrite marks_of_cons in Hm. cbn [ev_mark] in Hm.
  assert (Ha : gres_of W m n (fst (ask_r W (remove_import i f) m n)) = gres_of W m n (fst (ask_r W f m n))).
  { apply ask_r_same; auto. intros E. apply Hm. apply in_or_app. left. rewrite E. now left. }
  assert (Hm' : ~ In i (marks_of (snd (run_r W f (k (gres_of W m n (fst (ask_r W f m n))))))))
    by (intros H; apply Hm; apply in_or_app; now right).
  specialize (IH _ Hc2 Hm'). unfold outcome_g in *. cbn [run_r fst snd map ev_mode ev_name ev_res].
  rewrite Ha. injection IH as E1 E2. now rewrite E1, E2.
Qed.

Lemma run_r_marked W f i : graph_ok (w_G W) = true -> In f (w_G W) -> import_paths_distinct f ->
  In (i, false) (vf_imports f) ->
  forall p, consistent_along W f p -> In i (marks_of (snd (run_r W f p))) ->
  outcome_g W (run_r W (remove_import i f) p) <> outcome_g W (run_r W f p).
Proof.
  intros HG Hf Hd Hin. induction p as [r|m n k IH]; intros Hc Hm; [contradiction|].
  cbn [consistent_along] in Hc. destruct Hc as [Hc1 Hc2].
  cbn [run_r snd] in Hm. rewrite marks_of_cons in Hm. cbn [ev_mark] in Hm.
  destruct (option_eq_dec_N (snd (ask_r W f m n)) (Some i)) as [Em|Em].
  - destruct (ask_r_marked W f i m n HG Hf Em) as [H1 H2].
    unfold outcome_g. cbn [run_r fst snd map ev_mode ev_name ev_res]. intros E. apply H2. congruence.
  - assert (Ha : gres_of W m n (fst (ask_r W (remove_import i f) m n)) = gres_of W m n (fst (ask_r W f m n)))
      by (apply ask_r_same; auto).
    assert (Hm' : In i (marks_of (snd (run_r W f (k (gres_of W m n (fst (ask_r W f m n)))))))).
    { apply in_app_or in Hm. destruct Hm as [Hm|Hm]; [|exact Hm].
      destruct (snd (ask_r W f m n)) as [q|]; [|contradiction]. destruct Hm as [->|[]]. congruence. }
    specialize (IH _ Hc2 Hm'). unfold outcome_g in *. cbn [run_r fst snd map ev_mode ev_name ev_res].
    rewrite Ha. intros E. apply IH. injection E as E1 E2. now rewrite E1, E2.
Qed.

(* ------------------------------------------------------------------ the file *)
Lemma used_r_in W f refs i : In i (used_r W f refs) <-> exists p, In p refs /\ In i (marks_of (snd (run_r W f p))).
Proof. unfold used_r. rewrite in_flat_map. reflexivity. Qed.

Lemma warned_r_spec W f refs i :
  warned_r W f refs i <-> In (i, false) (vf_imports f) /\ ~ In i (used_r W f refs).
Proof.
  unfold warned_r, warned_list_r. rewrite in_map_iff. split.
  - intros ([p b] & E & Hin). cbn [fst] in E. subst p. apply filter_In in Hin. destruct Hin as [Hin Hc].
    cbn [fst snd] in Hc. apply andb_true_iff in Hc. destruct Hc as [Hu Hb].
    apply negb_true_iff in Hb. subst b. apply negb_true_iff, memN_false in Hu. auto.
  - intros [Hin Hu]. exists (i, false). split; [reflexivity|]. apply filter_In. split; [assumption|].
    cbn [fst snd]. apply memN_false in Hu. now rewrite Hu.
Qed.

Theorem unused_warning_iff_removable_repaired_lemma W f refs i :
  graph_ok (w_G W) = true -> In f (w_G W) -> import_paths_distinct f -> consistent W f refs ->
  (warned_r W f refs i <-> (In (i, false) (vf_imports f) /\ removable_r W f refs i)).
Proof.
  intros HG Hf Hd Hc. rewrite warned_r_spec. split; intros [Hin H]; split; try exact Hin.
  - intros p Hp. apply run_r_unmarked; auto. intros Hm. apply H. apply used_r_in. eauto.
  - intros Hu. apply used_r_in in Hu. destruct Hu as (p & Hp & Hm).
    apply (run_r_marked W f i HG Hf Hd Hin p (Hc p Hp) Hm). now apply H.
Qed.

Theorem needed_never_warned_repaired_lemma W f refs i :
  graph_ok (w_G W) = true -> In f (w_G W) -> import_paths_distinct f -> consistent W f refs ->
  (exists p, In p refs /\ fst (run_r W (remove_import i f) p) <> fst (run_r W f p)) ->
  ~ warned_r W f refs i.
Proof.
  intros HG Hf Hd Hc (p & Hp & Hne) Hw.
  apply (unused_warning_iff_removable_repaired_lemma W f refs i HG Hf Hd Hc) in Hw. destruct Hw as [_ Hr].
  apply Hne. specialize (Hr p Hp). unfold outcome_g in Hr. now injection Hr.
Qed.

(* the repaired rule agrees with the old one on what is found, and on the witness of the
   refutation it now reports both imports *)
Lemma resolve_mark_r_fst_lemma G fn f : fst (resolve_mark_r G fn f) = fst (resolve_mark G fn f).
Proof. unfold resolve_mark_r, resolve_mark. destruct (fn f); [reflexivity|]. apply top_loop_r_fst. Qed.

Lemma repaired_example :
  warned_list_r ex_W ex_f ex_refs = [1%N; 2%N] /\
  warned_list_r ex_W (remove_import 2 ex_f) ex_refs = [] /\
  graph_ok (w_G ex_W) = true.
Proof. repeat split; vm_compute; reflexivity. Qed.
