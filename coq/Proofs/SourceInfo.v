(* Proofs for property C23 (source code info is well-formed in every mode) over Model/FileInfo.v
   (positions), Model/Comments.v (makeSpan, comments, locations and the mode flags). *)
From Coq Require Import List NArith ZArith Bool Arith Lia Sorted.
From PV Require Import Common.Bytes Common.Corr Model.Utf8 Model.Lines Model.FileInfo Proofs.FileInfo
     Model.Lexer Model.Comments Model.ProtocComments Proofs.Comments.
Import ListNotations.
Open Scope nat_scope.

(* ================================================================ spans *)
(* a span as the descriptor holds it: three or four numbers, start no later than end, lines of the file *)
Definition span_ok (nlines : nat) (sp : list Z) : Prop :=
  match sp with
  | [l; c; ec] => (0 <= l < Z.of_nat nlines /\ 0 <= c <= ec)%Z
  | [l; c; el; ec] => (0 <= l /\ l < el /\ el < Z.of_nat nlines /\ 0 <= c /\ 0 <= ec)%Z
  | _ => False
  end.

Lemma source_pos_bounds t data off l c : StronglySorted lt (0 :: t) ->
  source_pos (0 :: t) data off = Some (l, c) -> 1 <= l <= length (0 :: t) /\ 1 <= c.
Proof.
  intros Hs H. rewrite (source_pos_sorted t data off Hs) in H.
  destruct (length data <? off); [discriminate|]. injection H as <- <-.
  pose proof (upto_length_le off (0 :: t)) as Hle.
  rewrite upto_cons in Hle. cbn [Nat.leb length] in Hle |- *. lia.
Qed.

Lemma make_span_ok nlines s e :
  1 <= fst s <= nlines -> 1 <= fst e <= nlines -> 1 <= snd s -> 1 <= snd e -> pos_le s e ->
  span_ok nlines (make_span s e).
Proof.
  intros Hs He Hcs Hce Hle. unfold make_span, span_ok.
  destruct (Nat.eqb_spec (fst s) (fst e)) as [E|E].
  - destruct Hle as [Hlt|[_ Hc]]; [lia|]. lia.
  - destruct Hle as [Hlt|[Heq _]]; [|contradiction]. lia.
Qed.

Theorem span_well_formed_lemma : forall t data i1 i2 s e,
  StronglySorted lt (0 :: t) -> fst i1 <= fst i2 ->
  item_start (0 :: t) data i1 = Some s -> node_end (0 :: t) data i2 = Some e ->
  span_ok (length (0 :: t)) (make_span s e).
Proof.
  intros t data i1 i2 s e Hs Hi H1 H2.
  pose proof (span_start_le_end_sorted_lemma t data i1 i2 s e Hs Hi H1 H2) as Hle.
  destruct s as [sl sc], e as [el ec].
  unfold item_start in H1. destruct (source_pos_bounds _ _ _ _ _ Hs H1) as [B1 B2].
  unfold node_end in H2. destruct i2 as [o len].
  destruct (source_pos (0 :: t) data (if 0 <? len then o + (len - 1) else o)) as [[l c]|] eqn:P; [|discriminate].
  destruct (source_pos_bounds _ _ _ _ _ Hs P) as [B3 B4].
  injection H2 as <- <-.
  apply make_span_ok; cbn [fst snd]; try lia; try assumption.
  destruct (0 <? len); lia.
Qed.

(* the line table the lexer records is such a table *)
Theorem span_well_formed_lexed_lemma : forall data i1 i2 s e,
  fst i1 <= fst i2 ->
  item_start (lex_lines data) data i1 = Some s -> node_end (lex_lines data) data i2 = Some e ->
  span_ok (length (lex_lines data)) (make_span s e).
Proof.
  intros data i1 i2 s e. pose proof (lex_lines_sorted data) as Hs. unfold lex_lines in *.
  apply span_well_formed_lemma. exact Hs.
Qed.

(* ================================================================ comments are text of the source *)
Definition texts (o : comments_out) : list (list N) :=
  let '(t, d, l) := o in (match t with Some x => [x] | None => [] end) ++ d ++ (match l with Some x => [x] | None => [] end).

Lemma set_field_u_some cf grp x : set_field_u cf grp = Some x -> x = flat_map (go_ctext cf) grp.
Proof.
  unfold set_field_u. destruct (nonempty grp); [|discriminate].
  destruct (fix_empty cf).
  - destruct (flat_map (go_ctext cf) grp); [discriminate|]. now intros [= <-].
  - now intros [= <-].
Qed.

(* every comment written to a location, in every mode, is the combination (combineComments) of a run of
   consecutive comments of the gap *)
Theorem comments_are_source_text_lemma : forall cf extra g x,
  In x (texts (go_attribution_mode cf extra g)) ->
  exists pre grp post, g_units g = pre ++ grp ++ post /\ x = flat_map (go_ctext cf) grp.
Proof.
  intros cf extra g x. rewrite go_attribution_out.
  pose proof (go_uroles_units cf extra g) as U. unfold all_units in U.
  destruct (go_uroles cf extra g) as [[t d] l]. cbn [fst snd] in U. unfold go_out, texts.
  rewrite !in_app_iff. intros [H|[H|H]].
  - destruct (set_field_u cf t) as [y|] eqn:E; [|destruct H]. destruct H as [<-|[]].
    exists [], t, (concat d ++ l). split; [now rewrite <- U|]. now apply set_field_u_some.
  - apply in_map_iff in H. destruct H as (grp & <- & Hin).
    apply in_split in Hin. destruct Hin as (d1 & d2 & ->).
    exists (t ++ concat d1), grp, (concat d2 ++ l). split; [|reflexivity].
    rewrite <- U. rewrite concat_app. cbn [concat]. rewrite <- !app_assoc. reflexivity.
  - destruct (set_field_u cf l) as [y|] eqn:E; [|destruct H]. destruct H as [<-|[]].
    exists (t ++ concat d), l, []. split; [rewrite <- U, app_nil_r, app_assoc; reflexivity|]. now apply set_field_u_some.
Qed.

(* ================================================================ the mode flags *)
Definition shape (o : loc) : bool * list Z * list Z := (o_opt o, o_path o, o_span o).

Lemma gen_req_shape cf extra gaps used r : shape (fst (gen_req cf extra gaps used r)) = (r_opt r, r_path r, r_span r).
Proof.
  unfold gen_req.
  assert (W : forall t d l, shape (fst (with_given used (r_opt r) (r_path r) (r_span r) t d l)) = (r_opt r, r_path r, r_span r)).
  { intros t d l. unfold with_given.
    destruct (match d with d0 :: _ => comment_used used d0 | [] => comment_used used l end) as [u1 used1].
    destruct u1; destruct (comment_used used1 t) as [u2 used2]; reflexivity. }
  destruct (go_roles cf extra (gap_at gaps (r_lead r))) as [[t1 d] l].
  destruct (go_roles cf extra (gap_at gaps (r_trail r))) as [[t d2] l2].
  destruct (r_kind r); [reflexivity| |apply W]. destruct extra; [apply W|reflexivity].
Qed.

(* with extraComments the same locations are generated: same paths, same spans, in the same order *)
Theorem extra_comments_same_locations_lemma : forall cf optlocs gaps rs used1 used2,
  map shape (gen_locs cf true optlocs gaps used1 rs) = map shape (gen_locs cf false optlocs gaps used2 rs).
Proof.
  intros cf optlocs gaps rs. induction rs as [|r rest IH]; intros used1 used2; cbn [gen_locs]; [reflexivity|].
  destruct (r_opt r && negb optlocs); [apply IH|].
  pose proof (gen_req_shape cf true gaps used1 r) as S1. pose proof (gen_req_shape cf false gaps used2 r) as S2.
  destruct (gen_req cf true gaps used1 r) as [o1 u1]. destruct (gen_req cf false gaps used2 r) as [o2 u2].
  cbn [map fst] in *. rewrite S1, S2. f_equal. apply IH.
Qed.

(* a location of the standard mode keeps its comments: every comment field is either unset or unchanged *)
Definition keeps (a b : loc) : Prop :=
  shape a = shape b /\ (o_trail a = [] \/ o_trail a = o_trail b) /\
  (o_det a = [] \/ o_det a = o_det b) /\ (o_lead a = [] \/ o_lead a = o_lead b).

(* a group without a label (inside a oneof): the field is generated without comments, its type (the
   keyword group, the first token) with newLoc, the message with newBlockLocWithComments.  With
   extraComments the comment before the group goes to the type location and the message loses it. *)
Definition refute_gaps : list gap :=
  [mkgap true 1 [mkunit false [32; 99]%N 1] NOther; mkgap true 0 [] NOther; mkgap true 1 [] NOther].
Definition refute_reqs : list req :=
  [mkreq KWithout false [4; 0; 2; 0]%Z [3; 2; 39]%Z 0 2;
   mkreq KPlain false [4; 0; 2; 0; 5]%Z [3; 2; 7]%Z 0 1;
   mkreq KFull false [4; 0; 3; 0]%Z [3; 2; 39]%Z 0 2].

Theorem extra_comments_only_add_refuted_lemma :
  exists cf gaps rs, ~ Forall2 keeps (gen_locs cf false false gaps [] rs) (gen_locs cf true false gaps [] rs).
Proof.
  exists cfg_pinned, refute_gaps, refute_reqs. intros H.
  assert (E : gen_locs cfg_pinned false false refute_gaps [] refute_reqs
              = [mkloc false [4; 0; 2; 0]%Z [3; 2; 39]%Z [] [] [];
                 mkloc false [4; 0; 2; 0; 5]%Z [3; 2; 7]%Z [] [] [];
                 mkloc false [4; 0; 3; 0]%Z [3; 2; 39]%Z [] [] [(0, 0)]]) by (vm_compute; reflexivity).
  assert (E2 : gen_locs cfg_pinned true false refute_gaps [] refute_reqs
              = [mkloc false [4; 0; 2; 0]%Z [3; 2; 39]%Z [] [] [];
                 mkloc false [4; 0; 2; 0; 5]%Z [3; 2; 7]%Z [] [] [(0, 0)];
                 mkloc false [4; 0; 3; 0]%Z [3; 2; 39]%Z [] [] []]) by (vm_compute; reflexivity).
  rewrite E, E2 in H.
  inversion H as [|? ? ? ? _ H1]; subst. inversion H1 as [|? ? ? ? _ H2]; subst. inversion H2 as [|? ? ? ? K _]; subst.
  destruct K as (_ & _ & _ & [K|K]); cbn in K; discriminate.
Qed.

(* extraOptionLocs only adds locations, all of them issued while walking an option value: the other
   locations are the same with and without the flag (here for standard comments: the locations inside
   option values are generated with newLoc, which takes no comments then) *)
Definition opt_plain (rs : list req) : Prop := Forall (fun r => r_opt r = true -> r_kind r <> KFull) rs.

Lemma gen_req_plain cf gaps used r : r_kind r <> KFull ->
  gen_req cf false gaps used r = (mkloc (r_opt r) (r_path r) (r_span r) [] [] [], used).
Proof. intros H. unfold gen_req. destruct (r_kind r); try reflexivity. congruence. Qed.

Theorem extra_option_locs_only_add_lemma : forall cf gaps rs used,
  opt_plain rs ->
  filter (fun o => negb (o_opt o)) (gen_locs cf false true gaps used rs) = gen_locs cf false false gaps used rs /\
  Forall (fun o => o_opt o = true -> o_trail o = [] /\ o_det o = [] /\ o_lead o = []) (gen_locs cf false true gaps used rs).
Proof.
  intros cf gaps rs. induction rs as [|r rest IH]; intros used Hp; cbn [gen_locs filter].
  - split; constructor.
  - inversion Hp as [|? ? Hr Hrest]; subst. rewrite andb_false_r. cbn [negb andb].
    destruct (r_opt r) eqn:O; cbn [andb].
    + rewrite (gen_req_plain cf gaps used r (Hr eq_refl)). cbn [filter o_opt]. rewrite O. cbn [negb].
      destruct (IH used Hrest) as [I1 I2]. split; [exact I1|]. constructor; [|exact I2].
      intros _. repeat split.
    + pose proof (gen_req_shape cf false gaps used r) as S. rewrite O in S.
      destruct (gen_req cf false gaps used r) as [o u'] eqn:G. cbn [fst] in S. unfold shape in S.
      injection S as So _ _. cbn [filter]. rewrite So. cbn [negb].
      destruct (IH u' Hrest) as [I1 I2]. split; [now rewrite I1|]. constructor; [|exact I2].
      rewrite So. discriminate.
Qed.

(* and for every mode: the paths and spans of the other locations do not depend on the flag *)
Theorem extra_option_locs_shapes_lemma : forall cf extra gaps rs used1 used2,
  map shape (filter (fun o => negb (o_opt o)) (gen_locs cf extra true gaps used1 rs))
  = map shape (gen_locs cf extra false gaps used2 rs).
Proof.
  intros cf extra gaps rs. induction rs as [|r rest IH]; intros used1 used2; cbn [gen_locs filter map]; [reflexivity|].
  rewrite andb_false_r. cbn [negb andb].
  pose proof (gen_req_shape cf extra gaps used1 r) as S1.
  destruct (gen_req cf extra gaps used1 r) as [o1 u1]. cbn [fst] in S1.
  assert (Ho : o_opt o1 = r_opt r) by (unfold shape in S1; now injection S1).
  destruct (r_opt r) eqn:O; cbn [andb filter].
  - rewrite Ho. cbn [negb]. apply IH.
  - rewrite Ho. cbn [negb map].
    pose proof (gen_req_shape cf extra gaps used2 r) as S2.
    destruct (gen_req cf extra gaps used2 r) as [o2 u2]. cbn [fst map] in *. rewrite S1, S2, O. f_equal. apply IH.
Qed.

(* ---- where it does hold ---- *)
(* the guard: the attribution inside a gap does not depend on the flag (it does only before a closing
   token on the line of the comment), and no location generated with newLoc starts at the first token, or
   ends at the last token, of a location generated with comments *)
Definition roles_stable (cf : cfg) (gaps : list gap) : Prop :=
  forall gi, go_roles cf true (gap_at gaps gi) = go_roles cf false (gap_at gaps gi).
Definition plain_apart (rs : list req) : Prop :=
  forall p f, In p rs -> In f rs -> r_kind p = KPlain -> r_kind f = KFull ->
              r_lead p <> r_lead f /\ r_trail p <> r_trail f.

Section OnlyAdd.
  Variable cf : cfg.
  Variable gaps : list gap.
  Variable rs0 : list req.
  Hypothesis Hstable : roles_stable cf gaps.
  Hypothesis Hapart : plain_apart rs0.

  (* keys that only the run with extraComments has marked: they belong to sides of newLoc locations *)
  Definition plain_key (x : cid) : Prop :=
    exists p, In p rs0 /\ r_kind p = KPlain /\
              (In x (lead_side cf true gaps (r_lead p)) \/ In x (trail_side cf true gaps (r_trail p))).

  Definition rel (uf ut : list cid) : Prop :=
    (forall x, In x uf -> In x ut) /\ (forall x, In x ut -> In x uf \/ plain_key x).

  Lemma lead_side_gap x gi : In x (lead_side cf true gaps gi) -> fst x = gi.
  Proof. intros H. apply (side_gap cf true gaps gi). rewrite in_app_iff. now right. Qed.
  Lemma trail_side_gap x gi : In x (trail_side cf true gaps gi) -> fst x = gi.
  Proof. intros H. apply (side_gap cf true gaps gi). rewrite in_app_iff. now left. Qed.
  Lemma lead_trail_disjoint x gi : In x (lead_side cf true gaps gi) -> In x (trail_side cf true gaps gi) -> False.
  Proof.
    intros Hl Ht. exact (nodup_app_disjoint _ _ (sides_nodup cf true gaps gi) x Ht Hl).
  Qed.

  (* a lookup for a side of a location with comments gives the same answer in both runs *)
  Lemma lookup_agree uf ut f S : rel uf ut -> In f rs0 -> r_kind f = KFull ->
    (S = lead_side cf true gaps (r_lead f) \/ S = trail_side cf true gaps (r_trail f)) ->
    fst (comment_used uf S) = fst (comment_used ut S) /\
    rel (snd (comment_used uf S)) (snd (comment_used ut S)).
  Proof.
    intros [R1 R2] Hf Kf HS. unfold comment_used. destruct S as [|c r]; [split; [reflexivity|split; assumption]|].
    destruct (existsb (cid_eqb c) uf) eqn:Ef.
    - apply used_in in Ef. assert (Et : existsb (cid_eqb c) ut = true) by (apply used_in; auto).
      rewrite Et. split; [reflexivity|split; assumption].
    - assert (Et : existsb (cid_eqb c) ut = false).
      { destruct (existsb (cid_eqb c) ut) eqn:Et; [|reflexivity]. exfalso.
        apply used_in in Et. destruct (R2 c Et) as [Hc|(p & Hp & Kp & Hside)].
        - apply used_in in Hc. congruence.
        - destruct (Hapart p f Hp Hf Kp Kf) as [A1 A2].
          assert (Hin : In c (c :: r)) by now left.
          destruct HS as [HS|HS]; rewrite HS in Hin.
          + pose proof (lead_side_gap _ _ Hin) as G1. destruct Hside as [Hs|Hs].
            * apply lead_side_gap in Hs. congruence.
            * pose proof (trail_side_gap _ _ Hs) as G2.
              assert (E : r_trail p = r_lead f) by congruence. rewrite E in Hs.
              exact (lead_trail_disjoint _ _ Hin Hs).
          + pose proof (trail_side_gap _ _ Hin) as G1. destruct Hside as [Hs|Hs].
            * pose proof (lead_side_gap _ _ Hs) as G2.
              assert (E : r_lead p = r_trail f) by congruence. rewrite E in Hs.
              exact (lead_trail_disjoint _ _ Hs Hin).
            * apply trail_side_gap in Hs. congruence. }
      rewrite Et. cbn [fst snd]. split; [reflexivity|]. split.
      + intros x [<-|Hx]; [now left|right; auto].
      + intros x [<-|Hx]; [left; now left|]. destruct (R2 x Hx) as [H|H]; [left; now right|now right].
  Qed.

  Lemma gen_full_agree uf ut f : rel uf ut -> In f rs0 -> r_kind f = KFull ->
    fst (gen_req cf true gaps ut f) = fst (gen_req cf false gaps uf f) /\
    rel (snd (gen_req cf false gaps uf f)) (snd (gen_req cf true gaps ut f)).
  Proof.
    intros R Hf Kf. unfold gen_req. rewrite Kf.
    rewrite <- !Hstable.
    pose proof (go_roles_nonnil cf true (gap_at gaps (r_lead f))) as Hn.
    pose proof (lookup_agree uf ut f (lead_side cf true gaps (r_lead f)) R Hf Kf (or_introl eq_refl)) as L1.
    unfold lead_side in L1.
    destruct (go_roles cf true (gap_at gaps (r_lead f))) as [[t1 d] l]. cbn [fst snd] in Hn.
    assert (EL : forall u, (match map (ids (r_lead f)) d with d0 :: _ => comment_used u d0 | [] => comment_used u (ids (r_lead f) l) end)
                           = comment_used u (concat (map (ids (r_lead f)) d) ++ ids (r_lead f) l)).
    { intros u. destruct d as [|g0 d']; [reflexivity|]. cbn [map]. apply comment_used_head.
      inversion Hn as [|? ? H0 _]; subst. unfold ids. destruct g0; [now elim H0|discriminate]. }
    pose proof (fun ufx utx R' => lookup_agree ufx utx f (trail_side cf true gaps (r_trail f)) R' Hf Kf (or_intror eq_refl)) as L2.
    unfold trail_side in L2.
    destruct (go_roles cf true (gap_at gaps (r_trail f))) as [[t d2] l2].
    unfold with_given. rewrite !EL.
    destruct L1 as [L1a L1b].
    destruct (comment_used uf (concat (map (ids (r_lead f)) d) ++ ids (r_lead f) l)) as [a1 uf1].
    destruct (comment_used ut (concat (map (ids (r_lead f)) d) ++ ids (r_lead f) l)) as [b1 ut1].
    cbn [fst snd] in L1a, L1b. subst b1.
    destruct (L2 uf1 ut1 L1b) as [L2a L2b].
    destruct (comment_used uf1 (ids (r_trail f) t)) as [a2 uf2].
    destruct (comment_used ut1 (ids (r_trail f) t)) as [b2 ut2].
    cbn [fst snd] in L2a, L2b. subst b2.
    destruct a1; cbn [fst snd]; split; try reflexivity; exact L2b.
  Qed.

  Lemma gen_plain_rel uf ut p : rel uf ut -> In p rs0 -> r_kind p = KPlain ->
    rel uf (snd (gen_req cf true gaps ut p)).
  Proof.
    intros [R1 R2] Hp Kp. unfold gen_req. rewrite Kp.
    pose proof (go_roles_nonnil cf true (gap_at gaps (r_lead p))) as Hn.
    assert (LS : forall x, In x (concat (map (ids (r_lead p)) (snd (fst (go_roles cf true (gap_at gaps (r_lead p))))))
                               ++ ids (r_lead p) (snd (go_roles cf true (gap_at gaps (r_lead p))))) -> plain_key x).
    { intros x Hx. exists p. repeat split; try assumption. left. unfold lead_side.
      destruct (go_roles cf true (gap_at gaps (r_lead p))) as [[? ?] ?]. exact Hx. }
    assert (TS : forall x, In x (ids (r_trail p) (fst (fst (go_roles cf true (gap_at gaps (r_trail p)))))) -> plain_key x).
    { intros x Hx. exists p. repeat split; try assumption. right. unfold trail_side.
      destruct (go_roles cf true (gap_at gaps (r_trail p))) as [[? ?] ?]. exact Hx. }
    destruct (go_roles cf true (gap_at gaps (r_lead p))) as [[t1 d] l]. cbn [fst snd] in *.
    destruct (go_roles cf true (gap_at gaps (r_trail p))) as [[t d2] l2]. cbn [fst snd] in *.
    unfold with_given.
    assert (K1 : forall u S, (forall x, In x S -> plain_key x) -> rel uf u -> rel uf (snd (comment_used u S))).
    { intros u S HSk [A1 A2]. unfold comment_used. destruct S as [|c r]; [split; assumption|].
      destruct (existsb (cid_eqb c) u); [split; assumption|]. cbn [snd]. split.
      - intros x Hx. right. auto.
      - intros x [<-|Hx]; [right; apply HSk; now left|auto]. }
    assert (E1 : rel uf (snd (match map (ids (r_lead p)) d with
                              | d0 :: _ => comment_used ut d0
                              | [] => comment_used ut (ids (r_lead p) l) end))).
    { destruct d as [|g0 d']; cbn [map].
      - apply K1; [|split; assumption]. intros x Hx. apply LS. cbn [map concat app]. exact Hx.
      - apply K1; [|split; assumption]. intros x Hx. apply LS. cbn [map concat]. rewrite !in_app_iff. left. now left. }
    destruct (match map (ids (r_lead p)) d with
              | d0 :: _ => comment_used ut d0
              | [] => comment_used ut (ids (r_lead p) l) end) as [u1 ut1].
    cbn [snd] in E1.
    pose proof (K1 ut1 (ids (r_trail p) t) TS E1) as E2.
    destruct u1; destruct (comment_used ut1 (ids (r_trail p) t)) as [u2 ut2]; exact E2.
  Qed.

  Lemma only_add_suffix optlocs rs : (forall r, In r rs -> In r rs0) -> forall uf ut, rel uf ut ->
    Forall2 keeps (gen_locs cf false optlocs gaps uf rs) (gen_locs cf true optlocs gaps ut rs).
  Proof.
    induction rs as [|r rest IH]; intros Hsub uf ut R; cbn [gen_locs]; [constructor|].
    assert (Hr : In r rs0) by (apply Hsub; now left).
    assert (Hrest : forall r', In r' rest -> In r' rs0) by (intros r' H'; apply Hsub; now right).
    destruct (r_opt r && negb optlocs); [now apply IH|].
    destruct (r_kind r) eqn:K.
    - unfold gen_req. rewrite K. constructor; [|now apply IH].
      unfold keeps, shape. cbn. repeat split; now left.
    - pose proof (gen_plain_rel uf ut r R Hr K) as R'.
      pose proof (gen_req_shape cf true gaps ut r) as S.
      destruct (gen_req cf true gaps ut r) as [o ut']. cbn [fst snd] in *.
      unfold gen_req at 1. rewrite K. constructor; [|now apply IH].
      unfold keeps. rewrite S. unfold shape. cbn. repeat split; now left.
    - destruct (gen_full_agree uf ut r R Hr K) as [E R'].
      destruct (gen_req cf true gaps ut r) as [o ut']. destruct (gen_req cf false gaps uf r) as [o' uf'].
      cbn [fst snd] in *. subst o'. constructor; [|now apply IH].
      unfold keeps. repeat split; now right.
  Qed.
End OnlyAdd.

Theorem extra_comments_only_add_partial_lemma : forall cf optlocs gaps rs,
  roles_stable cf gaps -> plain_apart rs ->
  Forall2 keeps (gen_locs cf false optlocs gaps [] rs) (gen_locs cf true optlocs gaps [] rs).
Proof.
  intros cf optlocs gaps rs Hs Ha.
  apply (only_add_suffix cf gaps rs Hs Ha optlocs rs (fun r H => H) [] []).
  split; [intros x []|intros x []].
Qed.

(* the boolean form used by the correspondence check *)
Lemma span_okb_iff n sp : span_okb n sp = true <-> span_ok n sp.
Proof.
  unfold span_okb, span_ok.
  destruct sp as [|l [|c [|x [|y [|z r]]]]]; try (split; [discriminate|intros []]).
  - rewrite !andb_true_iff, !Z.leb_le, Z.ltb_lt. lia.
  - rewrite !andb_true_iff, !Z.leb_le, !Z.ltb_lt. lia.
Qed.

(* ================================================================ the comments of a gap occur in its bytes *)
Definition delim (blk : bool) : list N := if blk then [47; 42]%N else [47; 47]%N.

Lemma gap_tokens_in fuel : forall bs ts blk text,
  gap_tokens fuel bs = Some ts -> In (TCm blk text) ts ->
  exists a b, bs = a ++ delim blk ++ text ++ b.
Proof.
  induction fuel as [|f IH]; intros bs ts blk text H Hin; cbn [gap_tokens] in H.
  - destruct bs; [injection H as <-; destruct Hin|discriminate].
  - destruct bs as [|c r]; [injection H as <-; destruct Hin|].
    destruct (c =? 10)%N.
    { destruct (gap_tokens f r) as [ts'|] eqn:G; [|discriminate]. injection H as <-.
      destruct Hin as [Hd|Hin]; [discriminate|].
      destruct (IH r ts' blk text G Hin) as (a & b & ->). exists (c :: a), b. reflexivity. }
    destruct (is_ws c).
    { destruct (IH r ts blk text H Hin) as (a & b & ->). exists (c :: a), b. reflexivity. }
    destruct (N.eqb_spec c 47) as [->|_]; [|discriminate].
    destruct r as [|d r2]; [discriminate|].
    destruct (N.eqb_spec d 47) as [->|_].
    { destruct (scan_line_comment r2) as [m| |]; try discriminate.
      destruct (gap_tokens f (skipn m r2)) as [ts'|] eqn:G; [|discriminate]. injection H as <-.
      destruct Hin as [Hd|Hin].
      - injection Hd as <- <-. exists [], (skipn m r2). cbn [app delim]. now rewrite firstn_skipn.
      - destruct (IH _ ts' blk text G Hin) as (a & b & E).
        exists (47%N :: 47%N :: firstn m r2 ++ a), b. cbn [app]. rewrite <- app_assoc, <- E. now rewrite firstn_skipn. }
    destruct (N.eqb_spec d 42) as [->|_]; [|discriminate].
    destruct (scan_block_comment r2) as [m| |]; try discriminate.
    destruct (gap_tokens f (skipn m r2)) as [ts'|] eqn:G; [|discriminate]. injection H as <-.
    destruct Hin as [Hd|Hin].
    + injection Hd as <- <-. exists [], (skipn (m - 2) r2). cbn [app delim]. now rewrite firstn_skipn.
    + destruct (IH _ ts' blk text G Hin) as (a & b & E).
      exists (47%N :: 42%N :: firstn m r2 ++ a), b. cbn [app]. rewrite <- app_assoc, <- E. now rewrite firstn_skipn.
Qed.

Lemma leading_nls_suffix ts : forall x, In x (snd (leading_nls ts)) -> In x ts.
Proof.
  induction ts as [|t r IH]; intros x H; cbn [leading_nls] in H; [exact H|].
  destruct t; [|exact H].
  destruct (leading_nls r) as [n r'] eqn:E. cbn [snd] in *. right. now apply IH.
Qed.

Lemma units_of_in fuel : forall ts u, In u (units_of fuel ts) -> In (TCm (u_blk u) (u_text u)) ts.
Proof.
  induction fuel as [|f IH]; intros ts u H; cbn [units_of] in H; [destruct H|].
  destruct ts as [|t r]; [destruct H|].
  destruct t as [|blk text].
  - right. now apply IH.
  - pose proof (leading_nls_suffix r) as Hs. destruct (leading_nls r) as [n r'] eqn:E. cbn [snd] in Hs.
    destruct H as [<-|H]; [now left|]. right. apply Hs. now apply IH.
Qed.

(* every comment of the gap, delimiter included, is a piece of the bytes between the two tokens *)
Theorem gap_units_in_source_lemma : forall prev bs next g u,
  gap_of_bytes prev bs next = Some g -> In u (g_units g) ->
  exists a b, bs = a ++ delim (u_blk u) ++ u_text u ++ b.
Proof.
  intros prev bs next g u H Hu. unfold gap_of_bytes in H.
  destruct (gap_tokens (length bs) bs) as [ts|] eqn:G; [|discriminate].
  pose proof (leading_nls_suffix ts) as Hs.
  destruct (leading_nls ts) as [pre r] eqn:E. injection H as <-. cbn [g_units snd] in *.
  apply (gap_tokens_in _ _ _ _ _ G). apply Hs. now apply units_of_in in Hu.
Qed.
