(* C39 - proofs about the pinned model of Decimal.Float64 (Model/DecFloat.v):
   the reference reader realises the assumption made on strconv.ParseFloat; Clinger's fast path
   (fast10_correct); the partial theorems on the guard where the pinned code is right; the
   refutations live in Proofs/DecFloatRefuted.v. The lemmas are reused by
   Proofs/DecFloatFixed.v for the repaired code. *)
From Coq Require Import ZArith NArith List Bool Reals Lia Lra.
From Flocq Require Import Core.Core IEEE754.BinarySingleNaN.
From PV Require Import Model.DecFloatTables Model.DecFloat.
Import ListNotations.
Open Scope R_scope.


Notation fx := (SpecFloat.fexp prec emax).
#[global] Instance fx_valid : Valid_exp fx := fexp_correct prec emax Hprec.

Lemma fx_eq : forall k, fx k = Z.max (k - 53) (-1074).
Proof. intros k. reflexivity. Qed.

Lemma rnd_generic : forall x, generic_format radix2 fx x -> rnd x = x.
Proof. intros x H. unfold rnd. apply round_generic; auto with typeclass_instances. Qed.

Lemma rnd_0 : rnd 0 = 0.
Proof. unfold rnd. apply round_0. auto with typeclass_instances. Qed.

Lemma generic_rnd : forall x, generic_format radix2 fx (rnd x).
Proof. intros x. unfold rnd. apply generic_format_round; auto with typeclass_instances. Qed.

Lemma rnd_opp : forall x, rnd (- x) = - rnd x.
Proof. intros x. unfold rnd. apply round_NE_opp. Qed.

(* powers of two in range are representable *)
Lemma generic_bpow : forall k, (-1074 <= k)%Z -> generic_format radix2 fx (bpow radix2 k).
Proof.
  intros k Hk. apply generic_format_bpow. rewrite fx_eq. lia.
Qed.

(* an integer of at most 53 bits (or 2^53 itself) scaled by a power of two that does not go
   below the smallest subnormal is representable *)
Lemma generic_int_scaled : forall q e, (Z.abs q <= 2 ^ 53)%Z -> (-1074 <= e)%Z ->
  generic_format radix2 fx (IZR q * bpow radix2 e).
Proof.
  intros q e Hq He.
  destruct (Z.eq_dec (Z.abs q) (2 ^ 53)) as [E|NE].
  - assert (Hq' : q = (2 ^ 53)%Z \/ q = (- 2 ^ 53)%Z) by lia.
    assert (Hb : IZR (2 ^ 53) * bpow radix2 e = bpow radix2 (53 + e)).
    { rewrite bpow_plus. f_equal. }
    destruct Hq' as [-> | ->].
    + rewrite Hb. apply generic_bpow. lia.
    + rewrite opp_IZR, Ropp_mult_distr_l_reverse, Hb. apply generic_format_opp. apply generic_bpow. lia.
  - change fx with (FLT_exp (-1074) 53). apply generic_format_FLT.
    exists (Float radix2 q e); simpl.
    + unfold F2R; simpl. reflexivity.
    + change (Zpower radix2 53) with (2 ^ 53)%Z. lia.
    + exact He.
Qed.

Lemma rnd_lt_emax : forall x k, (-1074 <= k < 1024)%Z -> Rabs x <= bpow radix2 k -> Rabs (rnd x) < bpow radix2 emax.
Proof.
  intros x k Hk Hx.
  apply Rle_lt_trans with (bpow radix2 k).
  - unfold rnd. apply abs_round_le_generic; auto with typeclass_instances. apply generic_bpow. lia.
  - apply bpow_lt. unfold emax. lia.
Qed.

(* scaling by a power of two commutes with rounding as long as both sides stay normal *)
Lemma rnd_scale : forall x e, (-1021 <= mag radix2 x)%Z -> (-1021 <= mag radix2 x + e)%Z ->
  rnd (x * bpow radix2 e) = rnd x * bpow radix2 e.
Proof.
  intros x e H1 H2.
  destruct (Req_dec x 0) as [-> | Hx].
  - now rewrite Rmult_0_l, rnd_0, Rmult_0_l.
  - unfold rnd, round, F2R; simpl.
    assert (Hc : cexp radix2 fx (x * bpow radix2 e) = (cexp radix2 fx x + e)%Z).
    { unfold cexp. rewrite mag_mult_bpow by exact Hx. rewrite !fx_eq. lia. }
    assert (Hs : scaled_mantissa radix2 fx (x * bpow radix2 e) = scaled_mantissa radix2 fx x).
    { unfold scaled_mantissa. rewrite Hc. rewrite Rmult_assoc, <- bpow_plus. f_equal. f_equal. lia. }
    rewrite Hc, Hs, bpow_plus. ring.
Qed.


Lemma B2SF_inf : forall (f : f64) s, B2SF f = binary_overflow prec emax NE s -> f = B754_infinity s.
Proof.
  intros f s H. unfold binary_overflow in H. simpl in H.
  destruct f; simpl in H; try discriminate. now inversion H.
Qed.

(* negation preserves correct rounding *)
Lemma correctly_rounded_opp : forall x f, correctly_rounded false x f -> correctly_rounded true (- x) (f_neg f).
Proof.
  intros x f. unfold correctly_rounded. rewrite rnd_opp, Rabs_Ropp.
  destruct (Rlt_bool (Rabs (rnd x)) (bpow radix2 emax)).
  - intros (Hf & Hr & Hs). unfold f_neg. rewrite is_finite_Bopp, B2R_Bopp, Hr. repeat split; auto.
    rewrite Bsign_Bopp. now rewrite Hs. destruct f; simpl in *; congruence.
  - intros ->. reflexivity.
Qed.

(* float64(z) for an integer z *)
Lemma of_Z_correct : forall z, (0 <= z)%Z -> correctly_rounded false (IZR z) (of_Z z).
Proof.
  intros z Hz. unfold correctly_rounded, of_Z.
  generalize (binary_normalize_correct prec emax Hprec Hmax NE z 0 false).
  cbv zeta. replace (F2R {| Fnum := z; Fexp := 0 |}) with (IZR z) by (unfold F2R; simpl; ring).
  change (round radix2 fx (round_mode NE)) with rnd.
  destruct (Rlt_bool (Rabs (rnd (IZR z))) (bpow radix2 emax)).
  - intros (H1 & H2 & H3). repeat split; auto. rewrite H3.
    destruct (Rcompare_spec (IZR z) 0) as [H|H|H]; auto.
    apply (IZR_le 0) in Hz. lra.
  - intros H. apply B2SF_inf in H. rewrite H. f_equal.
    apply Rlt_bool_false. now apply (IZR_le 0).
Qed.

Lemma correctly_rounded_finite : forall neg x f, Rabs (rnd x) < bpow radix2 emax ->
  correctly_rounded neg x f -> is_finite f = true /\ B2R f = rnd x /\ Bsign f = neg.
Proof. intros neg x f H. unfold correctly_rounded. now rewrite Rlt_bool_true. Qed.

Lemma correctly_rounded_intro : forall neg x f, Rabs (rnd x) < bpow radix2 emax ->
  is_finite f = true -> B2R f = rnd x -> Bsign f = neg -> correctly_rounded neg x f.
Proof. intros neg x f H. unfold correctly_rounded. now rewrite Rlt_bool_true. Qed.

(* float64(w) for 0 <= w <= 2^53 is w itself *)
Lemma of_Z_exact : forall z, (0 <= z <= 2 ^ 53)%Z ->
  is_finite (of_Z z) = true /\ B2R (of_Z z) = IZR z /\ Bsign (of_Z z) = false.
Proof.
  intros z Hz.
  assert (G : generic_format radix2 fx (IZR z)).
  { replace (IZR z) with (IZR z * bpow radix2 0) by (simpl; ring). apply generic_int_scaled; lia. }
  assert (B : Rabs (rnd (IZR z)) < bpow radix2 emax).
  { apply rnd_lt_emax with 53%Z. lia. rewrite <- abs_IZR. change (bpow radix2 53) with (IZR (2 ^ 53)). apply IZR_le. lia. }
  destruct (correctly_rounded_finite _ _ _ B (of_Z_correct z (proj1 Hz))) as (H1 & H2 & H3).
  rewrite (rnd_generic _ G) in H2. auto.
Qed.

(* the reference decimal reader satisfies what is assumed of strconv.ParseFloat *)
Lemma ref_parse_float_correct : parse_float_correct ref_parse_float.
Proof.
  intros m e. unfold ref_parse_float.
  destruct (Z.leb_spec 0 e) as [He|He].
  - replace (IZR (Z.pos m) * bpow radix10 e) with (IZR (Z.pos m * 10 ^ e)).
    + apply of_Z_correct. apply Z.mul_nonneg_nonneg. lia. apply Z.pow_nonneg. lia.
    + rewrite mult_IZR. f_equal. change 10%Z with (radix_val radix10). now apply IZR_Zpower.
  - unfold correctly_rounded, div_round.
    assert (P : (0 < 10 ^ (- e))%Z) by (apply Z.pow_pos_nonneg; lia).
    destruct (10 ^ (- e))%Z as [|p|p] eqn:E; try lia. simpl pos_of.
    destruct (Bdiv_correct_aux prec emax Hprec Hmax NE false m 0 false p 0) as (V & H).
    revert H. cbv zeta.
    replace (F2R {| Fnum := SpecFloat.cond_Zopp false (Z.pos m); Fexp := 0 |} /
             F2R {| Fnum := SpecFloat.cond_Zopp false (Z.pos p); Fexp := 0 |})
      with (IZR (Z.pos m) * bpow radix10 e).
    2:{ unfold F2R; simpl SpecFloat.cond_Zopp; simpl Fnum; simpl Fexp. simpl bpow. rewrite !Rmult_1_r.
        unfold Rdiv. f_equal. rewrite <- E. replace e with (- - e)%Z at 1 by lia. rewrite bpow_opp. f_equal.
        change 10%Z with (radix_val radix10). rewrite IZR_Zpower; auto. lia. }
    change (round radix2 fx (round_mode NE)) with rnd.
    destruct (Rlt_bool (Rabs (rnd (IZR (Z.pos m) * bpow radix10 e))) (bpow radix2 emax)).
    + intros (H1 & H2 & H3). rewrite is_finite_SF2B, B2R_SF2B, Bsign_SF2B. auto.
    + intros H. apply B2SF_inf. rewrite B2SF_SF2B. exact H.
Qed.


Lemma finite_not_nan : forall f : f64, is_finite f = true -> is_nan f = false.
Proof. intros f; destruct f; simpl; congruence. Qed.

Lemma f_mul_correct : forall a b : f64, is_finite a = true -> is_finite b = true ->
  Bsign a = false -> Bsign b = false ->
  Rabs (rnd (B2R a * B2R b)) < bpow radix2 emax ->
  is_finite (f_mul a b) = true /\ B2R (f_mul a b) = rnd (B2R a * B2R b) /\ Bsign (f_mul a b) = false.
Proof.
  intros a b Fa Fb Sa Sb Hb. unfold f_mul.
  generalize (Bmult_correct prec emax Hprec Hmax NE a b).
  change (round radix2 fx (round_mode NE)) with rnd.
  rewrite Rlt_bool_true by exact Hb. rewrite Fa, Fb, Sa, Sb. simpl.
  intros (H1 & H2 & H3). repeat split; auto. apply H3. now apply finite_not_nan.
Qed.

Lemma f_div_correct : forall a b : f64, is_finite a = true -> B2R b <> 0 ->
  Bsign a = false -> Bsign b = false ->
  Rabs (rnd (B2R a / B2R b)) < bpow radix2 emax ->
  is_finite (f_div a b) = true /\ B2R (f_div a b) = rnd (B2R a / B2R b) /\ Bsign (f_div a b) = false.
Proof.
  intros a b Fa Nb Sa Sb Hb. unfold f_div.
  generalize (Bdiv_correct prec emax Hprec Hmax NE a b Nb).
  change (round radix2 fx (round_mode NE)) with rnd.
  rewrite Rlt_bool_true by exact Hb. rewrite Fa, Sa, Sb. simpl.
  intros (H1 & H2 & H3). repeat split; auto. apply H3. now apply finite_not_nan.
Qed.

Lemma f_ldexp_correct : forall (a : f64) e, is_finite a = true ->
  Rabs (rnd (B2R a * bpow radix2 e)) < bpow radix2 emax ->
  is_finite (f_ldexp a e) = true /\ B2R (f_ldexp a e) = rnd (B2R a * bpow radix2 e) /\ Bsign (f_ldexp a e) = Bsign a.
Proof.
  intros a e Fa Hb. unfold f_ldexp.
  generalize (Bldexp_correct prec emax Hprec Hmax NE a e).
  change (round radix2 fx (round_mode NE)) with rnd.
  rewrite Rlt_bool_true by exact Hb. rewrite Fa. intros (H1 & H2 & H3). repeat split; auto.
Qed.

(* ---- the table entries Clinger's argument needs, checked on the transcribed tables ---- *)
Definition entry_is (f : f64) (v : Z) : bool :=
  match f with
  | B754_finite false m e _ => if (0 <=? e)%Z then (Z.pos m * 2 ^ e =? v)%Z else (Z.pos m =? v * 2 ^ (- e))%Z
  | _ => false
  end.

Lemma entry_is_correct : forall f v, entry_is f v = true ->
  is_finite f = true /\ B2R f = IZR v /\ Bsign f = false.
Proof.
  intros f v. destruct f as [s|s| |s m e B]; cbn [entry_is]; try discriminate.
  destruct s; try discriminate. intros H. cbn [is_finite B2R Bsign]. repeat split; auto.
  unfold F2R; cbn [Fnum Fexp SpecFloat.cond_Zopp].
  destruct (Z.leb_spec 0 e) as [He|He].
  - apply Z.eqb_eq in H. rewrite <- H, mult_IZR. f_equal.
    change 2%Z with (radix_val radix2). now rewrite IZR_Zpower.
  - apply Z.eqb_eq in H. rewrite H, mult_IZR, Rmult_assoc.
    change 2%Z with (radix_val radix2). rewrite IZR_Zpower by lia. rewrite <- bpow_plus.
    replace (- e + e)%Z with 0%Z by lia. simpl. ring.
Qed.

Definition clinger_tables_ok : bool :=
  forallb (fun k => entry_is (tab pow5s (Z.of_nat k)) (5 ^ Z.of_nat k)) (seq 0 23)
  && entry_is (tab pow5s32 0) 1 && entry_is (tab pow5s32neg 0) 1.

Lemma clinger_tables_ok_true : clinger_tables_ok = true.
Proof. vm_compute. reflexivity. Qed.

Lemma pow5s_entry : forall k, (0 <= k <= 22)%Z ->
  is_finite (tab pow5s k) = true /\ B2R (tab pow5s k) = IZR (5 ^ k) /\ Bsign (tab pow5s k) = false.
Proof.
  intros k Hk. apply entry_is_correct.
  generalize clinger_tables_ok_true. unfold clinger_tables_ok. rewrite !andb_true_iff.
  intros ((H & _) & _). rewrite forallb_forall in H.
  specialize (H (Z.to_nat k)). rewrite Z2Nat.id in H by lia. apply H.
  apply in_seq. lia.
Qed.

Lemma pow5s32_entry0 :
  is_finite (tab pow5s32 0) = true /\ B2R (tab pow5s32 0) = 1 /\ Bsign (tab pow5s32 0) = false.
Proof.
  apply (entry_is_correct _ 1). generalize clinger_tables_ok_true. unfold clinger_tables_ok.
  rewrite !andb_true_iff. tauto.
Qed.

Lemma pow5s32neg_entry0 :
  is_finite (tab pow5s32neg 0) = true /\ B2R (tab pow5s32neg 0) = 1 /\ Bsign (tab pow5s32neg 0) = false.
Proof.
  apply (entry_is_correct _ 1). generalize clinger_tables_ok_true. unfold clinger_tables_ok.
  rewrite !andb_true_iff. tauto.
Qed.


Lemma bpow10_pos : forall e, (0 <= e)%Z -> bpow radix10 e = IZR (5 ^ e) * bpow radix2 e.
Proof.
  intros e He. change 2%Z with (radix_val radix2).
  rewrite <- (IZR_Zpower radix10), <- (IZR_Zpower radix2) by exact He.
  rewrite <- mult_IZR. f_equal. change (radix_val radix10) with (5 * 2)%Z.
  change (radix_val radix2) with 2%Z. now rewrite Z.pow_mul_l.
Qed.

Lemma bpow10_neg : forall k, (0 <= k)%Z -> bpow radix10 (- k) = / IZR (5 ^ k) * bpow radix2 (- k).
Proof.
  intros k Hk. rewrite !bpow_opp, bpow10_pos by exact Hk.
  rewrite Rinv_mult. reflexivity.
Qed.

Lemma pow5_bounds : forall k, (0 <= k <= 22)%Z -> (1 <= 5 ^ k <= 2 ^ 52)%Z.
Proof.
  intros k Hk. split.
  - assert (0 < 5 ^ k)%Z by (apply Z.pow_pos_nonneg; lia). lia.
  - apply Z.le_trans with (5 ^ 22)%Z. apply Z.pow_le_mono_r; lia. vm_compute. discriminate.
Qed.

Lemma IZR_2pow : forall k, (0 <= k)%Z -> IZR (2 ^ k) = bpow radix2 k.
Proof. intros k Hk. change 2%Z with (radix_val radix2). now apply IZR_Zpower. Qed.

(* Clinger's fast path: one exactly representable mantissa, one exactly representable power of
   five, ONE rounding (the product or the quotient), then an exact scaling by a power of two *)
Lemma fast10_correct : forall w e, (1 <= w <= 2 ^ 53)%Z -> (-22 <= e <= 22)%Z -> e <> 0%Z ->
  let x := IZR w * bpow radix10 e in
  let f := f_ldexp (pow5 (of_Z w) e) e in
  Rabs (rnd x) < bpow radix2 emax /\ is_finite f = true /\ B2R f = rnd x /\ Bsign f = false.
Proof.
  intros w e Hw He Hne x f.
  destruct (of_Z_exact w) as (Fv & Rv & Sv); [lia|].
  assert (Wpos : 1 <= IZR w) by (apply (IZR_le 1); lia).
  assert (Wle : IZR w <= bpow radix2 53) by (rewrite <- IZR_2pow by lia; apply IZR_le; lia).
  destruct (Z_lt_le_dec 0 e) as [Hpos|Hneg].
  - (* e > 0 : v * pow5s32[0] * pow5s[e] *)
    assert (P : pow5 (of_Z w) e = f_mul (f_mul (of_Z w) (tab pow5s32 0)) (tab pow5s e)).
    { unfold pow5. replace ((0 <=? e)%Z && (e <=? 309)%Z) with true
        by (symmetry; apply andb_true_iff; split; apply Z.leb_le; lia).
      rewrite Z.div_small, Z.mod_small by lia. reflexivity. }
    destruct pow5s32_entry0 as (F1 & R1 & S1).
    destruct (pow5s_entry e) as (F5 & R5 & S5); [lia|].
    destruct (pow5_bounds e) as (P5a & P5b); [lia|].
    assert (P5a' : 1 <= IZR (5 ^ e)) by (apply (IZR_le 1); lia).
    assert (P5b' : IZR (5 ^ e) <= bpow radix2 52) by (rewrite <- IZR_2pow by lia; apply IZR_le; lia).
    (* v * 1 *)
    destruct (f_mul_correct (of_Z w) (tab pow5s32 0) Fv F1 Sv S1) as (Fa & Ra & Sa).
    { rewrite R1, Rmult_1_r, rnd_generic by apply generic_format_B2R. apply abs_B2R_lt_emax. }
    rewrite R1, Rmult_1_r, rnd_generic in Ra by apply generic_format_B2R. rewrite Rv in Ra.
    (* (v * 1) * 5^e : the one rounding *)
    set (y := IZR w * IZR (5 ^ e)).
    assert (Y1 : 1 <= y) by (unfold y; nra).
    assert (Y2 : y <= bpow radix2 105).
    { unfold y. replace (bpow radix2 105) with (bpow radix2 53 * bpow radix2 52) by (rewrite <- bpow_plus; reflexivity). nra. }
    destruct (f_mul_correct _ (tab pow5s e) Fa F5 Sa S5) as (Fb & Rb & Sb).
    { rewrite Ra, R5. fold y. apply rnd_lt_emax with 105%Z. lia. rewrite Rabs_pos_eq by lra. exact Y2. }
    rewrite Ra, R5 in Rb. fold y in Rb.
    (* Ldexp: exact *)
    assert (X : x = y * bpow radix2 e).
    { unfold x, y. rewrite bpow10_pos by lia. ring. }
    assert (My : (1 <= mag radix2 y)%Z).
    { apply mag_ge_bpow. simpl. rewrite Rabs_pos_eq by lra. exact Y1. }
    assert (S : rnd x = rnd y * bpow radix2 e).
    { rewrite X. apply rnd_scale; lia. }
    assert (Bx : Rabs (rnd x) < bpow radix2 emax).
    { apply rnd_lt_emax with 127%Z. lia. rewrite X, Rabs_pos_eq.
      - replace (bpow radix2 127) with (bpow radix2 105 * bpow radix2 22) by (rewrite <- bpow_plus; reflexivity).
        assert (bpow radix2 e <= bpow radix2 22) by (apply bpow_le; lia).
        assert (0 < bpow radix2 e) by apply bpow_gt_0. nra.
      - assert (0 < bpow radix2 e) by apply bpow_gt_0. nra. }
    split; [exact Bx|].
    unfold f. rewrite P.
    destruct (f_ldexp_correct _ e Fb) as (Fc & Rc & Sc).
    { rewrite Rb, <- S, rnd_generic by apply generic_rnd. exact Bx. }
    rewrite Rb, <- S, rnd_generic in Rc by apply generic_rnd. rewrite Sb in Sc. auto.
  - (* e < 0 : v * pow5s32neg[0] / pow5s[-e] *)
    set (k := (- e)%Z).
    assert (P : pow5 (of_Z w) e = f_div (f_mul (of_Z w) (tab pow5s32neg 0)) (tab pow5s k)).
    { unfold pow5. replace ((0 <=? e)%Z && (e <=? 309)%Z) with false
        by (symmetry; apply andb_false_iff; left; apply Z.leb_gt; lia).
      replace ((-324 <=? e)%Z && (e <=? 0)%Z) with true
        by (symmetry; apply andb_true_iff; split; apply Z.leb_le; lia).
      fold k. rewrite Z.div_small, Z.mod_small by (unfold k; lia). reflexivity. }
    destruct pow5s32neg_entry0 as (F1 & R1 & S1).
    destruct (pow5s_entry k) as (F5 & R5 & S5); [unfold k; lia|].
    destruct (pow5_bounds k) as (P5a & P5b); [unfold k; lia|].
    assert (P5a' : 1 <= IZR (5 ^ k)) by (apply (IZR_le 1); lia).
    assert (P5b' : IZR (5 ^ k) <= bpow radix2 52) by (rewrite <- IZR_2pow by lia; apply IZR_le; lia).
    destruct (f_mul_correct (of_Z w) (tab pow5s32neg 0) Fv F1 Sv S1) as (Fa & Ra & Sa).
    { rewrite R1, Rmult_1_r, rnd_generic by apply generic_format_B2R. apply abs_B2R_lt_emax. }
    rewrite R1, Rmult_1_r, rnd_generic in Ra by apply generic_format_B2R. rewrite Rv in Ra.
    set (y := IZR w / IZR (5 ^ k)).
    assert (I5 : 0 < / IZR (5 ^ k) <= 1).
    { split. apply Rinv_0_lt_compat; lra. rewrite <- Rinv_1. apply Rinv_le_contravar; lra. }
    assert (I5' : bpow radix2 (-52) <= / IZR (5 ^ k)).
    { change (bpow radix2 (-52)) with (/ bpow radix2 52). apply Rinv_le_contravar; lra. }
    assert (Y1 : bpow radix2 (-52) <= y) by (unfold y, Rdiv; nra).
    assert (Y2 : y <= bpow radix2 53) by (unfold y, Rdiv; nra).
    assert (Y0 : 0 < y) by (assert (0 < bpow radix2 (-52)) by apply bpow_gt_0; lra).
    destruct (f_div_correct _ (tab pow5s k) Fa) as (Fb & Rb & Sb); auto.
    { rewrite R5. lra. }
    { rewrite Ra, R5. apply rnd_lt_emax with 53%Z. lia. fold y. rewrite Rabs_pos_eq by lra. exact Y2. }
    rewrite Ra, R5 in Rb. fold y in Rb.
    assert (X : x = y * bpow radix2 e).
    { unfold x, y. replace e with (- k)%Z by (unfold k; lia). rewrite bpow10_neg by (unfold k; lia).
      unfold Rdiv. ring. }
    assert (My : (-51 <= mag radix2 y)%Z).
    { apply mag_ge_bpow. rewrite Rabs_pos_eq by lra. exact Y1. }
    assert (S : rnd x = rnd y * bpow radix2 e).
    { rewrite X. apply rnd_scale; lia. }
    assert (Bx : Rabs (rnd x) < bpow radix2 emax).
    { apply rnd_lt_emax with 53%Z. lia. rewrite X, Rabs_pos_eq.
      - assert (bpow radix2 e <= 1) by (change 1 with (bpow radix2 0); apply bpow_le; lia).
        assert (0 < bpow radix2 e) by apply bpow_gt_0. nra.
      - assert (0 < bpow radix2 e) by apply bpow_gt_0. nra. }
    split; [exact Bx|].
    unfold f. rewrite P.
    destruct (f_ldexp_correct _ e Fb) as (Fc & Rc & Sc).
    { rewrite Rb, <- S, rnd_generic by apply generic_rnd. exact Bx. }
    rewrite Rb, <- S, rnd_generic in Rc by apply generic_rnd. rewrite Sb in Sc. auto.
Qed.


Lemma correctly_rounded_zero : correctly_rounded false 0 f_pzero.
Proof.
  apply correctly_rounded_intro; try reflexivity.
  - rewrite rnd_0, Rabs_R0. apply bpow_gt_0.
  - now rewrite rnd_0.
Qed.

(* the sign is applied after the switch *)
Lemma sign_wrap : forall d v, correctly_rounded false (abs_value d) v ->
  correctly_rounded (d_neg d) (value d) (if d_neg d then f_neg v else v).
Proof.
  intros d v H. unfold value. destruct (d_neg d); auto. now apply correctly_rounded_opp.
Qed.

(* math.Ldexp of an exactly converted mantissa: one rounding, overflow to +Inf *)
Lemma ldexp_of_small_mant : forall w e, (1 <= w <= 2 ^ 53)%Z ->
  correctly_rounded false (IZR w * bpow radix2 e) (f_ldexp (of_Z w) e).
Proof.
  intros w e Hw. destruct (of_Z_exact w) as (Fv & Rv & Sv); [lia|].
  unfold correctly_rounded, f_ldexp.
  generalize (Bldexp_correct prec emax Hprec Hmax NE (of_Z w) e).
  change (round radix2 fx (round_mode NE)) with rnd. rewrite Rv, Fv, Sv.
  destruct (Rlt_bool (Rabs (rnd (IZR w * bpow radix2 e))) (bpow radix2 emax)).
  - intros (H1 & H2 & H3). auto.
  - intros H. now apply B2SF_inf.
Qed.

Lemma N_pos_of : forall w : N, (w <> 0)%N -> Z.pos (pos_of (Z.of_N w)) = Z.of_N w.
Proof. intros w H. destruct w; simpl; congruence. Qed.

Section Pinned.
Variable pf : positive -> Z -> f64.
Hypothesis pf_ok : parse_float_correct pf.

Lemma slow_dec_correct : forall d, d_bin d = false -> (d_mant d <> 0)%N ->
  correctly_rounded false (abs_value d) (slow pf d).
Proof.
  intros d Hb Hw. unfold slow, abs_value, d_radix. rewrite Hb.
  rewrite <- (N_pos_of _ Hw). apply pf_ok.
Qed.

(* the partial theorem: on the guard the pinned code rounds correctly *)
Theorem float64_correctly_rounded_partial_lemma : forall d, pinned_guard d = true ->
  correctly_rounded (d_neg d) (value d) (fst (float64_of pf d)).
Proof.
  intros d G. unfold float64_of.
  destruct (float64_abs pf d) as (v, ex) eqn:A. cbn [fst]. apply sign_wrap.
  revert A G. unfold float64_abs, pinned_guard, max_mant64.
  destruct (N.eqb_spec (d_mant d) 0) as [W0|W0].
  { intros A _. inversion A. unfold abs_value. rewrite W0. simpl IZR. rewrite Rmult_0_l.
    apply correctly_rounded_zero. }
  cbn [orb].
  assert (Wpos : (1 <= Z.of_N (d_mant d))%Z) by lia.
  destruct (N.ltb_spec (d_mant d) (2 ^ 64)) as [W64|W64]; cbn [andb orb].
  - destruct (Z.eqb_spec (d_e d) 0) as [E0|E0]; cbn [orb].
    { intros A _. inversion A. unfold abs_value. rewrite E0. simpl bpow. rewrite Rmult_1_r.
      apply of_Z_correct. lia. }
    destruct (N.leb_spec (d_mant d) (2 ^ 53)) as [W53|W53].
    + assert (W53' : (Z.of_N (d_mant d) <= 2 ^ 53)%Z) by (change (2 ^ 53)%Z with (Z.of_N (2 ^ 53)); lia).
      replace (2 ^ 53 <? d_mant d)%N with false by (symmetry; apply N.ltb_ge; exact W53).
      rewrite !andb_false_r, !andb_true_r, !orb_false_r.
      destruct (d_bin d) eqn:B; cbn [negb andb orb].
      * intros A _. inversion A. unfold abs_value, d_radix. rewrite B.
        apply ldexp_of_small_mant. lia.
      * intros A G. inversion A. rewrite orb_false_r in G. apply andb_true_iff in G. destruct G as (G1 & G2).
        apply Z.leb_le in G1. apply Z.leb_le in G2.
        destruct (fast10_correct (Z.of_N (d_mant d)) (d_e d)) as (K0 & K1 & K2 & K3); [lia|lia|exact E0|].
        unfold abs_value, d_radix. rewrite B. apply correctly_rounded_intro; auto.
    + replace (2 ^ 53 <? d_mant d)%N with true by (symmetry; apply N.ltb_lt; exact W53).
      rewrite !andb_false_r, !andb_true_r. cbn [orb].
      destruct (d_bin d) eqn:B; cbn [negb orb]; [discriminate|].
      intros A _. inversion A. now apply slow_dec_correct.
  - assert (W53 : (2 ^ 53 < d_mant d)%N).
    { apply N.lt_le_trans with (2 ^ 64)%N; [reflexivity | exact W64]. }
    replace (d_mant d <=? 2 ^ 53)%N with false by (symmetry; apply N.leb_gt; exact W53).
    replace (2 ^ 53 <? d_mant d)%N with true by (symmetry; apply N.ltb_lt; exact W53).
    rewrite !andb_false_r, !andb_true_r. cbn [orb].
    destruct (d_bin d) eqn:B; cbn [negb orb]; [discriminate|].
    intros A _. inversion A. now apply slow_dec_correct.
Qed.

(* the exact flag is sound when there is no scaling at all *)
Theorem exact_flag_sound_partial_lemma : forall d, pinned_exact_guard d = true ->
  snd (float64_of pf d) = true -> B2R (fst (float64_of pf d)) = value d.
Proof.
  intros d G. unfold float64_of.
  destruct (float64_abs pf d) as (v, ex) eqn:A. cbn [fst snd]. intros E.
  apply andb_true_iff in E. destruct E as (E1 & E2). subst ex.
  assert (K : B2R v = abs_value d).
  { revert A G. unfold float64_abs, pinned_exact_guard, max_mant64.
    destruct (N.eqb_spec (d_mant d) 0) as [W0|W0].
    { intros A _. inversion A. unfold abs_value. rewrite W0. simpl. ring. }
    cbn [orb].
    destruct (N.ltb_spec (d_mant d) (2 ^ 64)) as [W64|W64]; [|discriminate].
    destruct (Z.eqb_spec (d_e d) 0) as [E0|E0]; cbn [orb].
    - destruct (N.leb_spec (d_mant d) (2 ^ 53)) as [W53|W53]; intros A _; inversion A.
      assert (W53' : (Z.of_N (d_mant d) <= 2 ^ 53)%Z) by (change (2 ^ 53)%Z with (Z.of_N (2 ^ 53)); lia).
      destruct (of_Z_exact (Z.of_N (d_mant d))) as (_ & R & _); [lia|].
      unfold of_uint64, abs_value. rewrite R, E0. simpl. ring.
    - destruct (N.leb_spec (d_mant d) (2 ^ 53)) as [W53|W53].
      + replace (2 ^ 53 <? d_mant d)%N with false by (symmetry; apply N.ltb_ge; exact W53). discriminate.
      + intros A _. inversion A. }
  unfold value. destruct (d_neg d); auto. unfold f_neg. rewrite B2R_Bopp, K. reflexivity.
Qed.

End Pinned.
