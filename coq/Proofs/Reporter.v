(* Invariants of the reporter.Handler model (Model/Reporter.v) over all schedules, and the lemmas
   behind the C08 theorems. *)
From Coq Require Import List Arith Bool Lia.
From PV Require Import Model.Reporter.
Import ListNotations.

Lemma upd_same {A} (m : nat -> A) k v : upd m k v k = v.
Proof. unfold upd. now rewrite Nat.eqb_refl. Qed.

Lemma upd_other {A} (m : nat -> A) k v x : x <> k -> upd m k v x = m x.
Proof. intros H. unfold upd. apply Nat.eqb_neq in H. now rewrite H. Qed.

Lemma chain_nonzero par fuel : forall h x, In x (chain par fuel h) -> x <> 0.
Proof.
  induction fuel as [|f IH]; intros h x Hx; cbn [chain] in Hx; [destruct Hx|].
  destruct h as [|h']; [destruct Hx|]. destruct Hx as [<-|Hx]; [discriminate|].
  eapply IH; eassumption.
Qed.

(* fuel h is enough: any two sufficient amounts of fuel give the same chain *)
Lemma chain_fuel_irrelevant par : forall f1 f2 h, h <= f1 -> h <= f2 -> chain par f1 h = chain par f2 h.
Proof.
  induction f1 as [|f1 IH]; intros f2 h H1 H2.
  - assert (h = 0) by lia. subst. destruct f2; reflexivity.
  - destruct h as [|h']; [destruct f2; reflexivity|].
    destruct f2 as [|f2]; [lia|]. cbn [chain]. f_equal. apply IH; lia.
Qed.

Lemma chain_fuel_enough par fuel h : h <= fuel -> chain par fuel h = chain par h h.
Proof. intros H. apply chain_fuel_irrelevant; lia. Qed.

Lemma chain_head par h : h <> 0 -> exists l, chain par h h = h :: l.
Proof. destruct h as [|h']; [congruence|]. intros _. cbn [chain]. eexists. reflexivity. Qed.

Ltac sim :=
  cbn [hs mu ncalls rlog handled plain_seen hcount threads with_thread with_mu with_h with_call
       with_rlog with_handled with_plain with_hcount tpc prog tlog set_pc complete
       eh epos etag esnap herr hreported] in *.

Ltac step_cases H :=
  unfold step in H; cbv zeta in H;
  match type of H with context [tpc (threads ?s ?t)] => destruct (tpc (threads s t)) eqn:Epc end;
  repeat match type of H with
         | context [match ?x with _ => _ end] => destruct x eqn:?
         end; try discriminate; inversion H; subst; clear H.

Section Rep.
Variable cfg : config.

Inductive reach : state -> Prop :=
| reach_init : reach (init cfg)
| reach_step s t s' : reach s -> step cfg s t = Some s' -> reach s'.

Lemma run_reach sched : forall s, reach s -> reach (run cfg sched s).
Proof.
  induction sched as [|t rest IH]; intros s Hs; cbn [run]; [assumption|].
  destruct (step cfg s t) eqn:E; [apply IH; eapply reach_step; eassumption|apply IH; assumption].
Qed.

Lemma run_app a : forall b s, run cfg (a ++ b) s = run cfg b (run cfg a s).
Proof.
  induction a as [|t a IH]; intros b s; cbn [run app]; [reflexivity|].
  destruct (step cfg s t); apply IH.
Qed.

Lemma run_op_reach fuel t : forall s, reach s -> reach (run_op cfg fuel t s).
Proof.
  induction fuel as [|f IH]; intros s Hs; cbn [run_op]; [assumption|].
  destruct (step cfg s t) as [s'|] eqn:E; [|assumption].
  assert (reach s') by (eapply reach_step; eassumption).
  destruct (Nat.ltb _ _); [assumption|apply IH; assumption].
Qed.

Lemma run_order_reach fuel order : forall s, reach s -> reach (run_order cfg fuel order s).
Proof.
  induction order as [|t rest IH]; intros s Hs; cbn [run_order]; [assumption|].
  apply IH. apply run_op_reach. assumption.
Qed.

Definition root_err (s : state) : option error := herr (hs s 0).

(* ---- frame facts of a step ---- *)
Lemma step_other s t s' x : step cfg s t = Some s' -> x <> t -> threads s' x = threads s x.
Proof. intros H Hx. step_cases H; sim; apply upd_other; assumption. Qed.

Lemma mu_free_none s : mu_free s = true <-> mu s = None.
Proof. unfold mu_free. destruct (mu s); split; congruence. Qed.

(* how a step moves the mutex and the stepping thread in and out of the critical section *)
Lemma step_mu s t s' : step cfg s t = Some s' ->
  let c := in_critical (tpc (threads s t)) in
  let c' := in_critical (tpc (threads s' t)) in
  (mu s' = mu s /\ c' = c) \/
  (mu s = None /\ mu s' = Some t /\ c = false /\ c' = true) \/
  (mu s' = None /\ c = true /\ c' = false).
Proof.
  intros H. step_cases H; sim; rewrite ?upd_same; sim; cbn [in_critical];
    try (left; split; reflexivity);
    try (right; left; repeat split; try reflexivity; apply mu_free_none; assumption);
    try (right; right; repeat split; reflexivity).
Qed.

(* ---- the invariant ---- *)
Definition call_ok (s : state) (c : ecall) : Prop := forall e, esnap c = Some e -> root_err s = Some e.

Definition pc_inv (s : state) (p : pc) : Prop :=
  match p with
  | PIdle => True
  | PLock c => call_ok s c
  | PCheck c => call_ok s c
  | PInRep c idx => root_err s = None /\ hreported (hs s 0) = true /\ epos c = true /\ esnap c = None /\
                    1 <= handled s
  | PUnlock c ret => root_err s = ret /\ call_ok s c /\ (epos c = false -> ret <> None) /\ 1 <= handled s
  | PUnwind c path ret =>
    (forall e, ret = Some e -> root_err s = Some e) /\ (forall e, esnap c = Some e -> ret = Some e) /\
    (epos c = false -> ret <> None) /\ 1 <= handled s /\
    exists done, path_of cfg (eh c) = done ++ path /\ forall h, In h done -> 1 <= hcount s h
  | PInWarn _ => True
  | PWUnlock => True
  end.

Definition is_abort_call (c : rcall) (e : error) : Prop := exists tag, c = CErr tag (Some e).

Record inv (s : state) : Prop := {
  inv_mu : forall t, mu s = Some t <-> in_critical (tpc (threads s t)) = true;
  inv_pc : forall t, pc_inv s (tpc (threads s t));
  inv_log : forall t c ret, In (LErr c ret) (tlog (threads s t)) ->
            (forall e, esnap c = Some e -> ret = Some e) /\ 1 <= handled s /\
            (forall h, In h (path_of cfg (eh c)) -> 1 <= hcount s h);
  inv_sub : forall h e, h <> 0 -> herr (hs s h) = Some e -> root_err s = Some e;
  inv_calls : 1 <= ncalls s -> hreported (hs s 0) = true;
  inv_handled0 : handled s = 0 -> hs s 0 = h_init;
  inv_handled1 : 1 <= handled s -> hreported (hs s 0) = true \/ root_err s <> None;
  inv_origin : forall e, root_err s = Some e -> (exists c, In c (rlog s) /\ is_abort_call c e) \/ plain_seen s = true;
  inv_hcount0 : forall h, h <> 0 -> hcount s h = 0 -> hs s h = h_init;
  inv_hcount1 : forall h, h <> 0 -> 1 <= hcount s h -> hreported (hs s h) = true \/ herr (hs s h) <> None
}.

Lemma inv_init : inv (init cfg).
Proof.
  constructor; unfold init, root_err; cbn; intros; try reflexivity; try lia; try discriminate; try tauto.
  split; intros; discriminate.
Qed.

Lemma path_nonzero h x : In x (path_of cfg h) -> x <> 0.
Proof. unfold path_of. rewrite <- in_rev. apply chain_nonzero. Qed.

(* a thread outside the critical section does not touch the root handler or the call counter *)
Lemma step_noncrit_root s t s' : inv s -> step cfg s t = Some s' ->
  in_critical (tpc (threads s t)) = false -> hs s' 0 = hs s 0 /\ ncalls s' = ncalls s /\ handled s' = handled s.
Proof.
  intros I H Hc. pose proof (inv_pc _ I t) as P.
  step_cases H; sim; try rewrite Epc in *; cbn [in_critical] in Hc; try discriminate; auto.
  cbn [pc_inv] in P. destruct P as (_ & _ & _ & _ & done & Hp & _).
  rewrite upd_other; [auto|]. intros <-.
  apply (path_nonzero (eh c) 0); [|reflexivity]. rewrite Hp. apply in_or_app. right. left. reflexivity.
Qed.

(* the latch: once the root err is set it never changes *)
Lemma latch_step s t s' e : inv s -> step cfg s t = Some s' -> root_err s = Some e -> root_err s' = Some e.
Proof.
  intros I H He. pose proof (inv_pc _ I t) as P. unfold root_err in *.
  step_cases H; sim; try rewrite Epc in *; cbn [pc_inv] in P; rewrite ?upd_same; sim; try assumption; try congruence.
  - destruct P as (P & _). unfold root_err in P. congruence.
  - destruct P as (_ & _ & _ & _ & done & Hp & _).
    rewrite upd_other; [assumption|]. intros <-.
    apply (path_nonzero (eh c) 0); [|reflexivity]. rewrite Hp. apply in_or_app. right. left. reflexivity.
Qed.

Lemma hcount_mono s t s' h : step cfg s t = Some s' -> hcount s h <= hcount s' h.
Proof.
  intros H. step_cases H; sim; try lia.
  unfold upd. destruct (Nat.eqb_spec h n) as [->|Hne]; lia.
Qed.

Lemma handled_mono s t s' : step cfg s t = Some s' -> handled s <= handled s'.
Proof. intros H. step_cases H; sim; lia. Qed.

Lemma hcount_mono' s t s' h : step cfg s t = Some s' -> 1 <= hcount s h -> 1 <= hcount s' h.
Proof. intros H. pose proof (hcount_mono _ _ _ h H). lia. Qed.

(* pc_inv of a thread outside the critical section only needs the latch and the counters *)
Lemma pc_inv_stable s s' p : in_critical p = false ->
  (forall e, root_err s = Some e -> root_err s' = Some e) -> handled s <= handled s' ->
  (forall h, hcount s h <= hcount s' h) ->
  pc_inv s p -> pc_inv s' p.
Proof.
  intros Hc Hl Hh Hk P. destruct p; cbn [in_critical] in Hc; try discriminate; cbn [pc_inv] in *; try exact I.
  - intros e He. apply Hl, P, He.
  - destruct P as (A & B & C & D & done & Hp & Hd). repeat split; try assumption.
    + intros e He. apply Hl, A, He.
    + lia.
    + exists done. split; [assumption|]. intros h Hin. specialize (Hd h Hin). specialize (Hk h). lia.
Qed.

Lemma pc_inv_frame s s' p :
  hs s' 0 = hs s 0 -> handled s' = handled s -> (forall h, hcount s h <= hcount s' h) ->
  pc_inv s p -> pc_inv s' p.
Proof.
  intros Hr Hh Hk P. unfold pc_inv, call_ok, root_err in *. rewrite Hr, Hh.
  destruct p; try assumption.
  destruct P as (A & B & C & D & done & Hp & Hd). repeat split; try assumption.
  exists done. split; [assumption|]. intros h Hin. specialize (Hd h Hin). specialize (Hk h). lia.
Qed.

Lemma inv_mu_step s t s' : inv s -> step cfg s t = Some s' ->
  forall x, mu s' = Some x <-> in_critical (tpc (threads s' x)) = true.
Proof.
  intros I H x. pose proof (step_mu _ _ _ H) as M. cbv zeta in M.
  pose proof (inv_mu _ I) as Imu.
  destruct (Nat.eq_dec x t) as [->|Hx].
  - destruct M as [(M1 & M2)|[(M1 & M2 & M3 & M4)|(M1 & M2 & M3)]].
    + rewrite M1, M2. apply Imu.
    + rewrite M2, M4. split; reflexivity.
    + rewrite M1, M3. split; discriminate.
  - rewrite (step_other _ _ _ x H Hx).
    destruct M as [(M1 & M2)|[(M1 & M2 & M3 & M4)|(M1 & M2 & M3)]].
    + rewrite M1. apply Imu.
    + rewrite M2. split.
      * intros E. inversion E. congruence.
      * intros E. apply Imu in E. congruence.
    + rewrite M1. split; [discriminate|].
      intros E. apply Imu in E. apply Imu in M2. congruence.
Qed.

(* the stepping thread re-establishes its own pc invariant *)
Lemma inv_pc_self s t s' : inv s -> step cfg s t = Some s' -> pc_inv s' (tpc (threads s' t)).
Proof.
  intros I H. pose proof (inv_pc _ I t) as P. pose proof (inv_handled1 _ I) as H1.
  step_cases H; sim; try rewrite Epc in *; cbn [pc_inv] in P; rewrite ?upd_same; sim; cbn [pc_inv];
    unfold call_ok, root_err in *; sim; rewrite ?upd_same; sim; try exact I0; try exact P.
  - (* invoke *) intros e He. exact He.
  - (* check, latched *) repeat split; try assumption; try lia. congruence.
  - (* check, positional: enters the reporter *)
    repeat split; try assumption; try lia.
    destruct (esnap c) eqn:Es; [|reflexivity]. specialize (P _ eq_refl). congruence.
  - (* check, plain *)
    repeat split; try lia; try congruence. intros e He. specialize (P _ He). congruence.
  - (* reporter returns *)
    destruct P as (A & B & C & D & E). repeat split; try assumption; try congruence.
  - (* unlock *)
    destruct P as (A & B & C & D). repeat split; try assumption.
    + intros e He. congruence.
    + intros e He. specialize (B _ He). congruence.
    + exists []. split; [reflexivity|]. intros h [].
  - exact Logic.I.
  - (* unwind one level *)
    destruct P as (A & B & C & D & done & Hp & Hd).
    assert (Hn0 : n <> 0).
    { apply (path_nonzero (eh c)). rewrite Hp. apply in_or_app. right. left. reflexivity. }
    rewrite upd_other by congruence.
    repeat split; try assumption.
    exists (done ++ [n]). split; [rewrite <- app_assoc; exact Hp|].
    intros h Hin. apply in_app_or in Hin. unfold upd. destruct (Nat.eqb_spec h n) as [->|Hne]; [lia|].
    destruct Hin as [Hin|[<-|[]]]; [apply Hd; assumption|congruence].
Qed.

Lemma inv_step s t s' : inv s -> step cfg s t = Some s' -> inv s'.
Proof.
  intros I H.
  pose proof (inv_mu_step _ _ _ I H) as Hmu.
  pose proof (fun e => latch_step _ _ _ e I H) as Hlatch.
  pose proof (handled_mono _ _ _ H) as Hhm.
  pose proof (fun h => hcount_mono _ _ _ h H) as Hkm.
  constructor.
  - exact Hmu.
  - (* pc invariants *)
    intros x. destruct (Nat.eq_dec x t) as [->|Hx]; [eapply inv_pc_self; eassumption|].
    rewrite (step_other _ _ _ x H Hx). pose proof (inv_pc _ I x) as P.
    destruct (in_critical (tpc (threads s x))) eqn:Cx.
    + (* x holds the mutex, so t is outside the critical section and leaves the root alone *)
      assert (Ct : in_critical (tpc (threads s t)) = false).
      { destruct (in_critical (tpc (threads s t))) eqn:Ct; [|reflexivity].
        apply (inv_mu _ I) in Cx. apply (inv_mu _ I) in Ct. congruence. }
      destruct (step_noncrit_root _ _ _ I H Ct) as (R1 & R2 & R3).
      eapply pc_inv_frame; eassumption.
    + eapply pc_inv_stable; eassumption.
  - (* completed HandleError calls *)
    intros x c ret Hin.
    assert (Hold : forall c ret, In (LErr c ret) (tlog (threads s x)) ->
              (forall e, esnap c = Some e -> ret = Some e) /\ 1 <= handled s' /\
              (forall h, In h (path_of cfg (eh c)) -> 1 <= hcount s' h)).
    { intros c0 r0 Hi. destruct (inv_log _ I x c0 r0 Hi) as (A & B & C). split; [assumption|]. split; [lia|].
      intros h Hh. specialize (C h Hh). specialize (Hkm h). lia. }
    destruct (Nat.eq_dec x t) as [->|Hx]; [|rewrite (step_other _ _ _ x H Hx) in Hin; apply Hold; assumption].
    pose proof (inv_pc _ I t) as P.
    step_cases H; sim; try rewrite Epc in *; cbn [pc_inv] in P; rewrite upd_same in Hin; sim;
      try (apply Hold; assumption).
    + destruct Hin as [E|Hin]; [discriminate|apply Hold; assumption].
    + destruct Hin as [E|Hin]; [discriminate|apply Hold; assumption].
    + destruct Hin as [E|Hin]; [|apply Hold; assumption]. inversion E; subst.
      destruct P as (A & B & C & D & done & Hp & Hd). split; [assumption|]. split; [assumption|].
      intros h Hh. apply Hd. rewrite Hp, app_nil_r in Hh. assumption.
    + destruct Hin as [E|Hin]; [discriminate|apply Hold; assumption].
  - (* sub-handlers only ever hold the latched root error *)
    intros h e Hh He. pose proof (inv_pc _ I t) as P. pose proof (inv_sub _ I) as S.
    unfold root_err in *.
    step_cases H; sim; try rewrite Epc in *; cbn [pc_inv] in P; unfold root_err in *;
      rewrite ?upd_same; try rewrite (upd_other _ 0 _ h Hh) in He; sim;
      try (eapply S; eassumption).
    + (* check positional: root err stays None *) specialize (S _ _ Hh He). congruence.
    + (* check plain *) specialize (S _ _ Hh He). congruence.
    + (* reporter returns *) destruct P as (A & _). specialize (S _ _ Hh He). congruence.
    + (* unwind *)
      destruct P as (A & B & C & D & done & Hp & Hd).
      assert (Hn0 : n <> 0).
      { apply (path_nonzero (eh c)). rewrite Hp. apply in_or_app. right. left. reflexivity. }
      rewrite upd_other by congruence.
      unfold upd in He. destruct (Nat.eqb_spec h n) as [->|Hne]; sim; [apply A; assumption|eapply S; eassumption].
  - (* a reporter call implies errsReported *)
    intros Hn. pose proof (inv_calls _ I) as C. pose proof (inv_pc _ I t) as P.
    step_cases H; sim; try rewrite Epc in *; cbn [pc_inv] in P; rewrite ?upd_same; sim; try (apply C; assumption); try reflexivity.
    + destruct P as (_ & B & _). assumption.
    + destruct P as (_ & _ & _ & _ & done & Hp & _).
      rewrite upd_other; [apply C; assumption|]. intros E. symmetry in E. revert E.
      apply (path_nonzero (eh c)). rewrite Hp. apply in_or_app. right. left. reflexivity.
  - (* nothing handled: root untouched *)
    intros H0. pose proof (inv_handled0 _ I) as Z. pose proof (inv_pc _ I t) as P.
    step_cases H; sim; try rewrite Epc in *; cbn [pc_inv] in P; try (apply Z; assumption); try lia.
    + destruct P as (_ & _ & _ & _ & D). lia.
    + destruct P as (_ & _ & _ & D & _). lia.
  - (* something handled: the root shows it *)
    intros Hge. pose proof (inv_handled1 _ I) as Z. pose proof (inv_pc _ I t) as P. unfold root_err in *.
    step_cases H; sim; try rewrite Epc in *; cbn [pc_inv] in P; rewrite ?upd_same; sim; try (apply Z; assumption);
      try (left; reflexivity); try (right; congruence).
    + right. congruence.
    + destruct P as (_ & B & _). left. assumption.
    + destruct P as (_ & _ & _ & D & done & Hp & _).
      rewrite upd_other; [apply Z; assumption|]. intros E. symmetry in E. revert E.
      apply (path_nonzero (eh c)). rewrite Hp. apply in_or_app. right. left. reflexivity.
  - (* where a latched error comes from *)
    intros e He. pose proof (inv_origin _ I) as O. pose proof (inv_pc _ I t) as P. unfold root_err in *.
    step_cases H; sim; try rewrite Epc in *; cbn [pc_inv] in P; rewrite ?upd_same in He; sim;
      try (apply O; assumption); try discriminate.
    + right. reflexivity.
    + left. exists (CErr (etag c) (Some e)). split; [left; congruence|]. exists (etag c). reflexivity.
    + destruct P as (_ & _ & _ & _ & done & Hp & _).
      rewrite upd_other in He.
      * apply O; assumption.
      * intros E. symmetry in E. revert E.
        apply (path_nonzero (eh c)). rewrite Hp. apply in_or_app. right. left. reflexivity.
    + destruct (O _ He) as [(c0 & Hc0 & Hab)|Hp]; [|right; assumption].
      left. exists c0. split; [right; assumption|assumption].
  - (* a sub-handler nobody reported through is untouched *)
    intros h Hh H0. pose proof (inv_hcount0 _ I h Hh) as Z.
    step_cases H; sim; try rewrite (upd_other _ 0 _ h Hh); try (apply Z; assumption).
    unfold upd in *. destruct (Nat.eqb_spec h n) as [->|Hne]; [lia|apply Z; assumption].
  - (* a sub-handler somebody reported through shows it *)
    intros h Hh Hge. pose proof (inv_hcount1 _ I h Hh) as Z. pose proof (inv_pc _ I t) as P.
    step_cases H; sim; try rewrite Epc in *; cbn [pc_inv] in P; try rewrite (upd_other _ 0 _ h Hh);
      try (apply Z; assumption).
    destruct P as (A & B & C & D & done & Hp & Hd).
    unfold upd in *. destruct (Nat.eqb_spec h n) as [->|Hne]; sim; [|apply Z; assumption].
    destruct (epos c) eqn:Ep.
    + left. apply orb_true_r.
    + right. apply C. reflexivity.
Qed.

Lemma reach_inv s : reach s -> inv s.
Proof. induction 1 as [|s t s' Hr IH Hs]; [apply inv_init|eapply inv_step; eassumption]. Qed.

End Rep.
