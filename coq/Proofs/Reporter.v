(* Invariants of the reporter.Handler model (Model/Reporter.v) over all schedules, and the lemmas
   behind the C08 theorems. *)
From Coq Require Import List Arith Bool Lia.
From PV Require Import Model.Reporter.
Import ListNotations.

Lemma upd_same {A} (m : nat -> A) k v : upd m k v k = v.
Proof. unfold upd. now rewrite Nat.eqb_refl. Qed.

Lemma upd_other {A} (m : nat -> A) k v x : x <> k -> upd m k v x = m x.
Proof. intros H. unfold upd. apply Nat.eqb_neq in H. now rewrite H. Qed.

Lemma chain_nonzero par fuel : forall h x, In x (chain par fuel h) -> x <> 0.
Proof.
  induction fuel as [|f IH]; intros h x Hx; cbn [chain] in Hx; [destruct Hx|].
  destruct h as [|h']; [destruct Hx|]. destruct Hx as [<-|Hx]; [discriminate|].
  eapply IH; eassumption.
Qed.

(* fuel h is enough: any two sufficient amounts of fuel give the same chain *)
Lemma chain_fuel_irrelevant par : forall f1 f2 h, h <= f1 -> h <= f2 -> chain par f1 h = chain par f2 h.
Proof.
  induction f1 as [|f1 IH]; intros f2 h H1 H2.
  - assert (h = 0) by lia. subst. destruct f2; reflexivity.
  - destruct h as [|h']; [destruct f2; reflexivity|].
    destruct f2 as [|f2]; [lia|]. cbn [chain]. f_equal. apply IH; lia.
Qed.

Lemma chain_fuel_enough par fuel h : h <= fuel -> chain par fuel h = chain par h h.
Proof. intros H. apply chain_fuel_irrelevant; lia. Qed.

Lemma chain_head par h : h <> 0 -> exists l, chain par h h = h :: l.
Proof. destruct h as [|h']; [congruence|]. intros _. cbn [chain]. eexists. reflexivity. Qed.

Ltac sim :=
  cbn [hs mu ncalls rlog handled plain_seen hcount threads with_thread with_mu with_h with_call
       with_rlog with_handled with_plain with_hcount tpc prog tlog set_pc complete
       eh epos etag esnap herr hreported] in *.

Ltac step_cases H :=
  unfold step in H; cbv zeta in H;
  match type of H with context [tpc (threads ?s ?t)] => destruct (tpc (threads s t)) eqn:Epc end;
  repeat match type of H with
         | context [match ?x with _ => _ end] => destruct x eqn:?
         end; try discriminate; inversion H; subst; clear H.

Section Rep.
Variable cfg : config.

Inductive reach : state -> Prop :=
| reach_init : reach (init cfg)
| reach_step s t s' : reach s -> step cfg s t = Some s' -> reach s'.

Lemma run_reach sched : forall s, reach s -> reach (run cfg sched s).
Proof.
  induction sched as [|t rest IH]; intros s Hs; cbn [run]; [assumption|].
  destruct (step cfg s t) eqn:E; [apply IH; eapply reach_step; eassumption|apply IH; assumption].
Qed.

Lemma run_app a : forall b s, run cfg (a ++ b) s = run cfg b (run cfg a s).
Proof.
  induction a as [|t a IH]; intros b s; cbn [run app]; [reflexivity|].
  destruct (step cfg s t); apply IH.
Qed.

Lemma run_op_reach fuel t : forall s, reach s -> reach (run_op cfg fuel t s).
Proof.
  induction fuel as [|f IH]; intros s Hs; cbn [run_op]; [assumption|].
  destruct (step cfg s t) as [s'|] eqn:E; [|assumption].
  assert (reach s') by (eapply reach_step; eassumption).
  destruct (Nat.ltb _ _); [assumption|apply IH; assumption].
Qed.

Lemma run_order_reach fuel order : forall s, reach s -> reach (run_order cfg fuel order s).
Proof.
  induction order as [|t rest IH]; intros s Hs; cbn [run_order]; [assumption|].
  apply IH. apply run_op_reach. assumption.
Qed.

Lemma run_order_init_reach fuel order : reach (run_order cfg fuel order (init cfg)).
Proof. apply run_order_reach. constructor. Qed.

Definition root_err (s : state) : option error := herr (hs s 0).

(* ---- frame facts of a step ---- *)
Lemma step_other s t s' x : step cfg s t = Some s' -> x <> t -> threads s' x = threads s x.
Proof. intros H Hx. step_cases H; sim; apply upd_other; assumption. Qed.

Lemma mu_free_none s : mu_free s = true <-> mu s = None.
Proof. unfold mu_free. destruct (mu s); split; congruence. Qed.

(* how a step moves the mutex and the stepping thread in and out of the critical section *)
Lemma step_mu s t s' : step cfg s t = Some s' ->
  let c := in_critical (tpc (threads s t)) in
  let c' := in_critical (tpc (threads s' t)) in
  (mu s' = mu s /\ c' = c) \/
  (mu s = None /\ mu s' = Some t /\ c = false /\ c' = true) \/
  (mu s' = None /\ c = true /\ c' = false).
Proof.
  intros H. step_cases H; sim; rewrite ?upd_same; sim; cbn [in_critical];
    try (left; split; reflexivity);
    try (right; left; repeat split; try reflexivity; apply mu_free_none; assumption);
    try (right; right; repeat split; reflexivity).
Qed.

(* ---- the invariant ---- *)
Definition call_ok (s : state) (c : ecall) : Prop := forall e, esnap c = Some e -> root_err s = Some e.

Definition pc_inv (s : state) (p : pc) : Prop :=
  match p with
  | PIdle => True
  | PLock c => call_ok s c
  | PCheck c => call_ok s c
  | PInRep c idx => root_err s = None /\ hreported (hs s 0) = true /\ epos c = true /\ esnap c = None /\
                    1 <= handled s
  | PUnlock c ret => root_err s = ret /\ call_ok s c /\ (epos c = false -> ret <> None) /\ 1 <= handled s
  | PUnwind c path ret =>
    (forall e, ret = Some e -> root_err s = Some e) /\ (forall e, esnap c = Some e -> ret = Some e) /\
    (epos c = false -> ret <> None) /\ 1 <= handled s /\
    exists done, path_of cfg (eh c) = done ++ path /\ forall h, In h done -> 1 <= hcount s h
  | PInWarn _ => True
  | PWUnlock => True
  end.

Definition is_abort_call (c : rcall) (e : error) : Prop := exists tag, c = CErr tag (Some e).

Record inv (s : state) : Prop := {
  inv_mu : forall t, mu s = Some t <-> in_critical (tpc (threads s t)) = true;
  inv_pc : forall t, pc_inv s (tpc (threads s t));
  inv_log : forall t c ret, In (LErr c ret) (tlog (threads s t)) ->
            (forall e, esnap c = Some e -> ret = Some e) /\ 1 <= handled s /\
            (forall h, In h (path_of cfg (eh c)) -> 1 <= hcount s h);
  inv_sub : forall h e, h <> 0 -> herr (hs s h) = Some e -> root_err s = Some e;
  inv_calls : 1 <= ncalls s -> hreported (hs s 0) = true;
  inv_handled0 : handled s = 0 -> hs s 0 = h_init;
  inv_handled1 : 1 <= handled s -> hreported (hs s 0) = true \/ root_err s <> None;
  inv_origin : forall e, root_err s = Some e -> (exists c, In c (rlog s) /\ is_abort_call c e) \/ plain_seen s = true;
  inv_hcount0 : forall h, h <> 0 -> hcount s h = 0 -> hs s h = h_init;
  inv_hcount1 : forall h, h <> 0 -> 1 <= hcount s h -> hreported (hs s h) = true \/ herr (hs s h) <> None
}.

Lemma inv_init : inv (init cfg).
Proof.
  constructor; unfold init, root_err; cbn; intros; try reflexivity; try lia; try discriminate; try tauto.
  split; intros; discriminate.
Qed.

Lemma path_nonzero h x : In x (path_of cfg h) -> x <> 0.
Proof. unfold path_of. rewrite <- in_rev. apply chain_nonzero. Qed.

Lemma unwind_nonzero s c n l ret : pc_inv s (PUnwind c (n :: l) ret) -> n <> 0.
Proof.
  cbn [pc_inv]. intros (_ & _ & _ & _ & done & Hp & _).
  apply (path_nonzero (eh c)). rewrite Hp. apply in_or_app. right. left. reflexivity.
Qed.

(* a thread outside the critical section does not touch the root handler or the call counter *)
Lemma step_noncrit_root s t s' : inv s -> step cfg s t = Some s' ->
  in_critical (tpc (threads s t)) = false -> hs s' 0 = hs s 0 /\ ncalls s' = ncalls s /\ handled s' = handled s.
Proof.
  intros I H Hc. pose proof (inv_pc _ I t) as P.
  step_cases H; sim; try rewrite Epc in *; cbn [in_critical] in Hc; try discriminate; auto.
  cbn [pc_inv] in P. destruct P as (_ & _ & _ & _ & done & Hp & _).
  rewrite upd_other; [auto|]. intros <-.
  apply (path_nonzero (eh c) 0); [|reflexivity]. rewrite Hp. apply in_or_app. right. left. reflexivity.
Qed.

(* the latch: once the root err is set it never changes *)
Lemma latch_step s t s' e : inv s -> step cfg s t = Some s' -> root_err s = Some e -> root_err s' = Some e.
Proof.
  intros I H He. pose proof (inv_pc _ I t) as P. unfold root_err in *.
  step_cases H; sim; try rewrite Epc in *; cbn [pc_inv] in P; rewrite ?upd_same; sim; try assumption; try congruence.
  - destruct P as (P & _). unfold root_err in P. congruence.
  - destruct P as (_ & _ & _ & _ & done & Hp & _).
    rewrite upd_other; [assumption|]. intros <-.
    apply (path_nonzero (eh c) 0); [|reflexivity]. rewrite Hp. apply in_or_app. right. left. reflexivity.
Qed.

Lemma hcount_mono s t s' h : step cfg s t = Some s' -> hcount s h <= hcount s' h.
Proof.
  intros H. step_cases H; sim; try lia.
  unfold upd. destruct (Nat.eqb_spec h n) as [->|Hne]; lia.
Qed.

Lemma handled_mono s t s' : step cfg s t = Some s' -> handled s <= handled s'.
Proof. intros H. step_cases H; sim; lia. Qed.

Lemma hcount_mono' s t s' h : step cfg s t = Some s' -> 1 <= hcount s h -> 1 <= hcount s' h.
Proof. intros H. pose proof (hcount_mono _ _ _ h H). lia. Qed.

(* pc_inv of a thread outside the critical section only needs the latch and the counters *)
Lemma pc_inv_stable s s' p : in_critical p = false ->
  (forall e, root_err s = Some e -> root_err s' = Some e) -> handled s <= handled s' ->
  (forall h, hcount s h <= hcount s' h) ->
  pc_inv s p -> pc_inv s' p.
Proof.
  intros Hc Hl Hh Hk P. destruct p; cbn [in_critical] in Hc; try discriminate; cbn [pc_inv] in *; try exact I.
  - intros e He. apply Hl, P, He.
  - destruct P as (A & B & C & D & done & Hp & Hd). repeat split; try assumption.
    + intros e He. apply Hl, A, He.
    + lia.
    + exists done. split; [assumption|]. intros h Hin. specialize (Hd h Hin). specialize (Hk h). lia.
Qed.

Lemma pc_inv_frame s s' p :
  hs s' 0 = hs s 0 -> handled s' = handled s -> (forall h, hcount s h <= hcount s' h) ->
  pc_inv s p -> pc_inv s' p.
Proof.
  intros Hr Hh Hk P. unfold pc_inv, call_ok, root_err in *. rewrite Hr, Hh.
  destruct p; try assumption.
  destruct P as (A & B & C & D & done & Hp & Hd). repeat split; try assumption.
  exists done. split; [assumption|]. intros h Hin. specialize (Hd h Hin). specialize (Hk h). lia.
Qed.

Lemma inv_mu_step s t s' : inv s -> step cfg s t = Some s' ->
  forall x, mu s' = Some x <-> in_critical (tpc (threads s' x)) = true.
Proof.
  intros I H x. pose proof (step_mu _ _ _ H) as M. cbv zeta in M.
  pose proof (inv_mu _ I) as Imu.
  destruct (Nat.eq_dec x t) as [->|Hx].
  - destruct M as [(M1 & M2)|[(M1 & M2 & M3 & M4)|(M1 & M2 & M3)]].
    + rewrite M1, M2. apply Imu.
    + rewrite M2, M4. split; reflexivity.
    + rewrite M1, M3. split; discriminate.
  - rewrite (step_other _ _ _ x H Hx).
    destruct M as [(M1 & M2)|[(M1 & M2 & M3 & M4)|(M1 & M2 & M3)]].
    + rewrite M1. apply Imu.
    + rewrite M2. split.
      * intros E. inversion E. congruence.
      * intros E. apply Imu in E. congruence.
    + rewrite M1. split; [discriminate|].
      intros E. apply Imu in E. apply Imu in M2. congruence.
Qed.

(* the stepping thread re-establishes its own pc invariant *)
Lemma inv_pc_self s t s' : inv s -> step cfg s t = Some s' -> pc_inv s' (tpc (threads s' t)).
Proof.
  intros I H. pose proof (inv_pc _ I t) as P. pose proof (inv_handled1 _ I) as H1.
  step_cases H; sim; try rewrite Epc in *; cbn [pc_inv] in P; rewrite ?upd_same; sim; cbn [pc_inv];
    unfold call_ok, root_err in *; sim; rewrite ?upd_same; sim; try exact I0; try exact P.
  - (* invoke *) intros e He. exact He.
  - (* check, latched *) repeat split; try assumption; try lia. congruence.
  - (* check, positional: enters the reporter *)
    repeat split; try assumption; try lia.
    destruct (esnap c) eqn:Es; [|reflexivity]. specialize (P _ eq_refl). congruence.
  - (* check, plain *)
    repeat split; try lia; try congruence. intros e He. specialize (P _ He). congruence.
  - (* reporter returns *)
    destruct P as (A & B & C & D & E). repeat split; try assumption; try congruence.
  - (* unlock *)
    destruct P as (A & B & C & D). repeat split; try assumption.
    + intros e He. congruence.
    + intros e He. specialize (B _ He). congruence.
    + exists []. split; [reflexivity|]. intros h [].
  - exact Logic.I.
  - (* unwind one level *)
    destruct P as (A & B & C & D & done & Hp & Hd).
    assert (Hn0 : n <> 0).
    { apply (path_nonzero (eh c)). rewrite Hp. apply in_or_app. right. left. reflexivity. }
    rewrite upd_other by congruence.
    repeat split; try assumption.
    exists (done ++ [n]). split; [rewrite <- app_assoc; exact Hp|].
    intros h Hin. apply in_app_or in Hin. unfold upd. destruct (Nat.eqb_spec h n) as [->|Hne]; [lia|].
    destruct Hin as [Hin|[<-|[]]]; [apply Hd; assumption|congruence].
Qed.

Lemma inv_step s t s' : inv s -> step cfg s t = Some s' -> inv s'.
Proof.
  intros I H.
  pose proof (inv_mu_step _ _ _ I H) as Hmu.
  pose proof (fun e => latch_step _ _ _ e I H) as Hlatch.
  pose proof (handled_mono _ _ _ H) as Hhm.
  pose proof (fun h => hcount_mono _ _ _ h H) as Hkm.
  constructor.
  - exact Hmu.
  - (* pc invariants *)
    intros x. destruct (Nat.eq_dec x t) as [->|Hx]; [eapply inv_pc_self; eassumption|].
    rewrite (step_other _ _ _ x H Hx). pose proof (inv_pc _ I x) as P.
    destruct (in_critical (tpc (threads s x))) eqn:Cx.
    + (* x holds the mutex, so t is outside the critical section and leaves the root alone *)
      assert (Ct : in_critical (tpc (threads s t)) = false).
      { destruct (in_critical (tpc (threads s t))) eqn:Ct; [|reflexivity].
        apply (inv_mu _ I) in Cx. apply (inv_mu _ I) in Ct. congruence. }
      destruct (step_noncrit_root _ _ _ I H Ct) as (R1 & R2 & R3).
      eapply pc_inv_frame; eassumption.
    + eapply pc_inv_stable; eassumption.
  - (* completed HandleError calls *)
    intros x c ret Hin.
    assert (Hold : forall c ret, In (LErr c ret) (tlog (threads s x)) ->
              (forall e, esnap c = Some e -> ret = Some e) /\ 1 <= handled s' /\
              (forall h, In h (path_of cfg (eh c)) -> 1 <= hcount s' h)).
    { intros c0 r0 Hi. destruct (inv_log _ I x c0 r0 Hi) as (A & B & C). split; [assumption|]. split; [lia|].
      intros h Hh. specialize (C h Hh). specialize (Hkm h). lia. }
    destruct (Nat.eq_dec x t) as [->|Hx]; [|rewrite (step_other _ _ _ x H Hx) in Hin; apply Hold; assumption].
    pose proof (inv_pc _ I t) as P.
    step_cases H; sim; try rewrite Epc in *; cbn [pc_inv] in P; rewrite upd_same in Hin; sim;
      try (apply Hold; assumption).
    + destruct Hin as [E|Hin]; [discriminate|apply Hold; assumption].
    + destruct Hin as [E|Hin]; [discriminate|apply Hold; assumption].
    + destruct Hin as [E|Hin]; [|apply Hold; assumption]. inversion E; subst.
      destruct P as (A & B & C & D & done & Hp & Hd). split; [assumption|]. split; [assumption|].
      intros h Hh. apply Hd. rewrite Hp, app_nil_r in Hh. assumption.
    + destruct Hin as [E|Hin]; [discriminate|apply Hold; assumption].
  - (* sub-handlers only ever hold the latched root error *)
    intros h e Hh He. pose proof (inv_pc _ I t) as P. pose proof (inv_sub _ I) as S.
    unfold root_err in *.
    step_cases H; sim; try rewrite Epc in *; cbn [pc_inv] in P; unfold root_err in *;
      rewrite ?upd_same; try rewrite (upd_other _ 0 _ h Hh) in He; sim;
      try (eapply S; eassumption).
    + (* check positional: root err stays None *) specialize (S _ _ Hh He). congruence.
    + (* check plain *) specialize (S _ _ Hh He). congruence.
    + (* reporter returns *) destruct P as (A & _). specialize (S _ _ Hh He). congruence.
    + (* unwind *)
      destruct P as (A & B & C & D & done & Hp & Hd).
      assert (Hn0 : n <> 0).
      { apply (path_nonzero (eh c)). rewrite Hp. apply in_or_app. right. left. reflexivity. }
      rewrite upd_other by congruence.
      unfold upd in He. destruct (Nat.eqb_spec h n) as [->|Hne]; sim; [apply A; assumption|exact (S _ _ Hh He)].
  - (* a reporter call implies errsReported *)
    intros Hn. pose proof (inv_calls _ I) as C. pose proof (inv_pc _ I t) as P.
    step_cases H; sim; try rewrite Epc in *; cbn [pc_inv] in P; rewrite ?upd_same; sim; try (apply C; assumption); try reflexivity.
    pose proof (unwind_nonzero _ _ _ _ _ P) as Hn0.
    rewrite upd_other by congruence. apply C; assumption.
  - (* nothing handled: root untouched *)
    intros H0. pose proof (inv_handled0 _ I) as Z. pose proof (inv_pc _ I t) as P.
    step_cases H; sim; try rewrite Epc in *; cbn [pc_inv] in P; try (apply Z; assumption); try lia.
  - (* something handled: the root shows it *)
    intros Hge. pose proof (inv_handled1 _ I) as Z. pose proof (inv_pc _ I t) as P. unfold root_err in *.
    step_cases H; sim; try rewrite Epc in *; cbn [pc_inv] in P; rewrite ?upd_same; sim; try (apply Z; assumption);
      try (left; reflexivity); try (right; congruence).
    + destruct P as (_ & B & _). left. assumption.
    + pose proof (unwind_nonzero _ _ _ _ _ P) as Hn0.
      rewrite upd_other by congruence. apply Z; assumption.
  - (* where a latched error comes from *)
    intros e He. pose proof (inv_origin _ I) as O. pose proof (inv_pc _ I t) as P. unfold root_err in *.
    step_cases H; sim; try rewrite Epc in *; cbn [pc_inv] in P; rewrite ?upd_same in He; sim;
      try (apply O; assumption); try discriminate.
    + apply O. congruence.
    + right. reflexivity.
    + left. exists (CErr (etag c) (Some e)). split; [left; congruence|]. exists (etag c). reflexivity.
    + pose proof (unwind_nonzero _ _ _ _ _ P) as Hn0.
      rewrite upd_other in He by congruence. apply O; assumption.
    + destruct (O _ He) as [(c0 & Hc0 & Hab)|Hp]; [|right; assumption].
      left. exists c0. split; [right; assumption|assumption].
  - (* a sub-handler nobody reported through is untouched *)
    intros h Hh H0. pose proof (inv_hcount0 _ I h Hh) as Z.
    step_cases H; sim; try rewrite (upd_other _ 0 _ h Hh); try (apply Z; assumption).
    unfold upd in *. destruct (Nat.eqb_spec h n) as [->|Hne]; [lia|apply Z; assumption].
  - (* a sub-handler somebody reported through shows it *)
    intros h Hh Hge. pose proof (inv_hcount1 _ I h Hh) as Z. pose proof (inv_pc _ I t) as P.
    step_cases H; sim; try rewrite Epc in *; cbn [pc_inv] in P; try rewrite (upd_other _ 0 _ h Hh);
      try (apply Z; assumption).
    destruct P as (A & B & C & D & done & Hp & Hd).
    unfold upd in *. destruct (Nat.eqb_spec h n) as [->|Hne]; sim; [|apply Z; assumption].
    destruct (epos c) eqn:Ep.
    + left. apply orb_true_r.
    + right. apply C. reflexivity.
Qed.

Lemma reach_inv s : reach s -> inv s.
Proof. induction 1 as [|s t s' Hr IH Hs]; [apply inv_init|eapply inv_step; eassumption]. Qed.


Lemma init_reach_run sched : reach (run cfg sched (init cfg)).
Proof. apply run_reach. constructor. Qed.

Lemma in_reporter_critical p : in_reporter p = true -> in_critical p = true.
Proof. destruct p; cbn; congruence. Qed.

(* ---- C08: the user's reporter is never entered concurrently ---- *)
Theorem reporter_mutex_lemma : forall sched t1,
  let s := run cfg sched (init cfg) in
  in_reporter (tpc (threads s t1)) = true ->
  mu s = Some t1 /\ forall t2, in_critical (tpc (threads s t2)) = true -> t2 = t1.
Proof.
  intros sched t1 s H. pose proof (reach_inv _ (init_reach_run sched)) as Iv. fold s in Iv.
  apply in_reporter_critical in H. apply (inv_mu _ Iv) in H. split; [assumption|].
  intros t2 H2. apply (inv_mu _ Iv) in H2. congruence.
Qed.

(* ---- C08: the abort latch ---- *)
Lemma error_result_latched h e : herr h = Some e -> error_result h = Some e.
Proof. unfold error_result. intros ->. rewrite andb_false_r. reflexivity. Qed.

Lemma latched_no_call s t s' e : root_err s = Some e -> step cfg s t = Some s' -> ncalls s' = ncalls s.
Proof. unfold root_err. intros He H. step_cases H; sim; try reflexivity; try congruence. Qed.

Lemma latch_run sched : forall s e, reach s -> root_err s = Some e ->
  root_err (run cfg sched s) = Some e /\ ncalls (run cfg sched s) = ncalls s.
Proof.
  induction sched as [|t rest IH]; intros s e Hr He; cbn [run]; [split; [assumption|reflexivity]|].
  destruct (step cfg s t) as [s'|] eqn:E; [|apply IH; assumption].
  assert (Hr' : reach s') by (eapply reach_step; eassumption).
  pose proof (latch_step _ _ _ e (reach_inv _ Hr) E He) as He'.
  destruct (IH s' e Hr' He') as (A & B). split; [assumption|].
  rewrite B. eapply latched_no_call; eassumption.
Qed.

Theorem abort_latches_lemma : forall sched1,
  let s1 := run cfg sched1 (init cfg) in
  (forall t c idx e, tpc (threads s1 t) = PInRep c idx -> rep cfg idx (etag c) = Some e ->
     exists s', step cfg s1 t = Some s' /\ root_err s' = Some e /\ tpc (threads s' t) = PUnlock c (Some e)) /\
  (forall e, root_err s1 = Some e -> forall sched2,
     let s2 := run cfg sched2 s1 in
     root_err s2 = Some e /\ error_result (hs s2 0) = Some e /\ ncalls s2 = ncalls s1 /\
  (forall t c idx, tpc (threads s2 t) <> PInRep c idx)).
Proof.
  intros sched1 s1. split.
  - intros t c idx e Hpc Hrep. unfold step. rewrite Hpc. cbv zeta. eexists. split; [reflexivity|].
    unfold root_err. sim. rewrite !upd_same. sim. rewrite Hrep. split; reflexivity.
  - intros e He sched2 s2.
    assert (Hr1 : reach s1) by apply init_reach_run.
    destruct (latch_run sched2 s1 e Hr1 He) as (A & B). fold s2 in A, B.
    split; [assumption|]. split; [apply error_result_latched; exact A|]. split; [assumption|].
    intros t c idx Hpc.
    assert (Hr2 : reach s2) by (apply run_reach; assumption).
    pose proof (inv_pc _ (reach_inv _ Hr2) t) as P. rewrite Hpc in P. cbn [pc_inv] in P.
    destruct P as (P & _). congruence.
Qed.

(* every HandleError call made when the root err was already e returns e; what the ghost esnap is; what a
   root Error() / ReporterError() logs *)
Theorem later_calls_lemma : forall sched t,
  let s := run cfg sched (init cfg) in
  (forall c ret e, In (LErr c ret) (tlog (threads s t)) -> esnap c = Some e -> ret = Some e) /\
  (forall h pos tag rest s', tpc (threads s t) = PIdle -> prog (threads s t) = OErr h pos tag :: rest ->
     step cfg s t = Some s' ->
     tpc (threads s' t) = PLock {| eh := h; epos := pos; etag := tag; esnap := root_err s |}) /\
  (forall rest s', tpc (threads s t) = PIdle -> prog (threads s t) = OError 0 :: rest ->
     step cfg s t = Some s' ->
     tlog (threads s' t) = LRead 0 true (error_result (hs s 0)) :: tlog (threads s t)) /\
  (forall rest s', tpc (threads s t) = PIdle -> prog (threads s t) = ORepError 0 :: rest ->
     step cfg s t = Some s' ->
     tlog (threads s' t) = LRead 0 false (root_err s) :: tlog (threads s t)).
Proof.
  intros sched t s. pose proof (reach_inv _ (init_reach_run sched)) as Iv. fold s in Iv.
  split; [|split; [|split]].
  - intros c ret e Hin He. destruct (inv_log _ Iv t c ret Hin) as (A & _). apply A. assumption.
  - intros h pos tag rest s' Hpc Hprog H. unfold step in H. rewrite Hpc, Hprog in H. cbv zeta in H.
    inversion H; subst. sim. rewrite upd_same. reflexivity.
  - intros rest s' Hpc Hprog H. unfold step in H. rewrite Hpc, Hprog in H. cbv zeta in H.
    destruct (Nat.eqb 0 0 && negb (mu_free s)); [discriminate|]. inversion H; subst. sim. rewrite upd_same. reflexivity.
  - intros rest s' Hpc Hprog H. unfold step in H. rewrite Hpc, Hprog in H. cbv zeta in H.
    destruct (Nat.eqb 0 0 && negb (mu_free s)); [discriminate|]. inversion H; subst. sim. rewrite upd_same. reflexivity.
Qed.

(* ---- C08: accepted errors give ErrInvalidSource ---- *)
Theorem accept_all_invalid_source_lemma : forall sched,
  let s := run cfg sched (init cfg) in
  1 <= ncalls s -> plain_seen s = false -> (forall tag e, ~ In (CErr tag (Some e)) (rlog s)) ->
  error_result (hs s 0) = Some EInvalidSource.
Proof.
  intros sched s Hn Hp Hall. pose proof (reach_inv _ (init_reach_run sched)) as Iv. fold s in Iv.
  pose proof (inv_calls _ Iv Hn) as Hrep.
  destruct (root_err s) as [e|] eqn:He.
  - destruct (inv_origin _ Iv e He) as [(c & Hin & tag & ->)|Hps]; [|congruence].
    exfalso. eapply Hall; eassumption.
  - unfold error_result. unfold root_err in He. rewrite Hrep, He. reflexivity.
Qed.

(* static form: a reporter that never returns an error, programs without plain errors *)
Definition pc_call (p : pc) : option ecall :=
  match p with
  | PLock c | PCheck c | PInRep c _ | PUnlock c _ | PUnwind c _ _ => Some c
  | _ => None
  end.

Record inv2 (s : state) : Prop := {
  i2_prog : forall t, exists pre, progs cfg t = pre ++ prog (threads s t);
  i2_call : forall t c, pc_call (tpc (threads s t)) = Some c ->
            exists rest, prog (threads s t) = OErr (eh c) (epos c) (etag c) :: rest;
  i2_plain : plain_seen s = true -> exists t h tag, In (OErr h false tag) (progs cfg t);
  i2_rlog : forall tag e, In (CErr tag (Some e)) (rlog s) -> exists idx, rep cfg idx tag = Some e
}.

Lemma inv2_init : inv2 (init cfg).
Proof.
  constructor; cbn; intros; try discriminate; try tauto. exists []. reflexivity.
Qed.

Lemma suffix_tl {A} (l pre : list A) (r : list A) : l = pre ++ r -> exists pre', l = pre' ++ tl r.
Proof.
  intros ->. destruct r as [|x r]; [exists pre; reflexivity|]. exists (pre ++ [x]). rewrite <- app_assoc. reflexivity.
Qed.

Lemma inv2_step s t s' : inv2 s -> step cfg s t = Some s' -> inv2 s'.
Proof.
  intros J H. constructor.
  - intros x. destruct (i2_prog _ J x) as (pre & Hp).
    destruct (Nat.eq_dec x t) as [->|Hx]; [|rewrite (step_other _ _ _ x H Hx); eauto].
    step_cases H; sim; rewrite upd_same; sim;
      try match goal with E : prog _ = _ |- _ => rewrite E end; eauto; eapply suffix_tl; eassumption.
  - intros x c Hc. destruct (Nat.eq_dec x t) as [->|Hx]; [|rewrite (step_other _ _ _ x H Hx) in *; apply (i2_call _ J); assumption].
    pose proof (i2_call _ J t) as K.
    step_cases H; sim; rewrite upd_same in *; sim; rewrite ?Epc in K; cbn [pc_call] in *; try discriminate;
      try (inversion Hc; subst; sim; eauto; fail); try (apply K; assumption).
  - intros Hp. pose proof (i2_plain _ J) as K. pose proof (i2_call _ J t) as C. pose proof (i2_prog _ J t) as (pre & Hpre).
    step_cases H; sim; try (apply K; assumption).
    try rewrite Epc in C. cbn [pc_call] in C. destruct (C _ eq_refl) as (rest & Hr). exists t, (eh c), (etag c).
    rewrite Hpre, Hr. apply in_or_app. right. left. congruence.
  - intros tag e Hin. pose proof (i2_rlog _ J) as K.
    step_cases H; sim; try (apply K; assumption).
    + destruct Hin as [E|Hin]; [|apply K; assumption]. inversion E; subst. eauto.
    + destruct Hin as [E|Hin]; [discriminate|apply K; assumption].
Qed.

Lemma reach_inv2 s : reach s -> inv2 s.
Proof. induction 1 as [|s t s' Hr IH Hs]; [apply inv2_init|eapply inv2_step; eassumption]. Qed.

Theorem never_abort_invalid_source_lemma :
  (forall idx tag, rep cfg idx tag = None) ->
  (forall t h tag, ~ In (OErr h false tag) (progs cfg t)) ->
  forall sched, let s := run cfg sched (init cfg) in
  1 <= ncalls s -> error_result (hs s 0) = Some EInvalidSource.
Proof.
  intros Hrep Hplain sched s Hn. pose proof (reach_inv2 _ (init_reach_run sched)) as J. fold s in J.
  apply accept_all_invalid_source_lemma; [assumption| |].
  - destruct (plain_seen s) eqn:E; [|exact E]. destruct (i2_plain _ J E) as (t & h & tag & Hin).
    exfalso. eapply Hplain; eassumption.
  - intros tag e Hin. destruct (i2_rlog _ J _ _ Hin) as (idx & Hi). rewrite Hrep in Hi. discriminate.
Qed.

(* ---- C08: warnings are inert ---- *)
Theorem warnings_inert_lemma : forall s t s',
  at_warning (threads s t) = true -> step cfg s t = Some s' ->
  hs s' = hs s /\ ncalls s' = ncalls s /\ handled s' = handled s /\ plain_seen s' = plain_seen s /\
  hcount s' = hcount s /\ (forall h, error_result (hs s' h) = error_result (hs s h)) /\
  (forall x, x <> t -> threads s' x = threads s x) /\
  (tlog (threads s' t) = tlog (threads s t) \/ tlog (threads s' t) = LWarn :: tlog (threads s t)) /\
  (rlog s' = rlog s \/ exists tag, rlog s' = CWarn tag :: rlog s).
Proof.
  intros s t s' Hw H.
  unfold at_warning in Hw.
  step_cases H; try discriminate; sim; rewrite ?upd_same; sim;
    repeat split; try reflexivity; try (intros x Hx; apply upd_other; assumption); eauto.
Qed.

(* ---- C08: success iff no error ---- *)
Lemma error_result_none h : error_result h = None <-> herr h = None /\ hreported h = false.
Proof.
  unfold error_result. destruct h as [e r]; cbn. destruct r, e; cbn; split; try intros (A & B); try congruence; auto.
Qed.

Lemma path_of_self h : h <> 0 -> In h (path_of cfg h).
Proof.
  intros Hh. unfold path_of. rewrite <- in_rev. destruct (chain_head (parent cfg) h Hh) as (l & ->). left. reflexivity.
Qed.

Theorem success_iff_no_error_lemma : forall sched,
  let s := run cfg sched (init cfg) in
  (error_result (hs s 0) = None <-> handled s = 0) /\
  (forall h, h <> 0 -> (error_result (hs s h) = None <-> hcount s h = 0)) /\
  (forall t c ret, In (LErr c ret) (tlog (threads s t)) ->
     error_result (hs s 0) <> None /\ (eh c <> 0 -> error_result (hs s (eh c)) <> None)).
Proof.
  intros sched s. pose proof (reach_inv _ (init_reach_run sched)) as Iv. fold s in Iv.
  assert (R0 : error_result (hs s 0) = None <-> handled s = 0).
  { split.
    - intros E. apply error_result_none in E. destruct E as (A & B).
      destruct (handled s) eqn:Hh; [reflexivity|]. exfalso.
      destruct (inv_handled1 _ Iv) as [C|C]; [lia|congruence|]. apply C. exact A.
    - intros E. rewrite (inv_handled0 _ Iv E). reflexivity. }
  assert (Rh : forall h, h <> 0 -> (error_result (hs s h) = None <-> hcount s h = 0)).
  { intros h Hh. split.
    - intros E. apply error_result_none in E. destruct E as (A & B).
      destruct (hcount s h) eqn:Hc; [reflexivity|]. exfalso.
      destruct (inv_hcount1 _ Iv h Hh) as [C|C]; [lia|congruence|]. apply C. exact A.
    - intros E. rewrite (inv_hcount0 _ Iv h Hh E). reflexivity. }
  split; [exact R0|]. split; [exact Rh|].
  intros t c ret Hin. destruct (inv_log _ Iv t c ret Hin) as (_ & A & B). split.
  - intros E. apply R0 in E. lia.
  - intros Hh E. apply (Rh _ Hh) in E. specialize (B _ (path_of_self _ Hh)). lia.
Qed.

(* ---- sub-handlers only ever hold the root's latched error ---- *)
Theorem sub_handler_sound_lemma : forall sched h e,
  let s := run cfg sched (init cfg) in
  h <> 0 -> herr (hs s h) = Some e -> root_err s = Some e /\ error_result (hs s h) = Some e.
Proof.
  intros sched h e s Hh He. pose proof (reach_inv _ (init_reach_run sched)) as Iv. fold s in Iv.
  split; [eapply inv_sub; eassumption|apply error_result_latched; assumption].
Qed.

(* ---- the handler never deadlocks: while some thread is unfinished some thread can step ---- *)
Theorem no_deadlock_lemma : forall sched,
  let s := run cfg sched (init cfg) in
  (exists t, finished (threads s t) = false) -> exists t s', step cfg s t = Some s'.
Proof.
  intros sched s (t & Hf). pose proof (reach_inv _ (init_reach_run sched)) as Iv. fold s in Iv.
  destruct (mu s) as [o|] eqn:Hmu.
  - (* the owner of the mutex is inside the critical section and can always move on *)
    pose proof (proj1 (inv_mu _ Iv o) Hmu) as Hc. exists o. unfold step.
    destruct (tpc (threads s o)); cbn [in_critical] in Hc; try discriminate; cbv zeta; try (eexists; reflexivity).
    destruct (herr (hs s 0)); [eexists; reflexivity|]. destruct (epos c); eexists; reflexivity.
  - exists t. assert (Hfree : mu_free s = true) by (apply mu_free_none; assumption).
    assert (Hnc : in_critical (tpc (threads s t)) = false).
    { destruct (in_critical (tpc (threads s t))) eqn:E; [|reflexivity]. apply (inv_mu _ Iv) in E. congruence. }
    unfold finished in Hf. unfold step. cbv zeta.
    destruct (tpc (threads s t)); cbn [in_critical] in Hnc; try discriminate.
    + destruct (prog (threads s t)) as [|o rest]; [discriminate|].
      destruct o; rewrite ?Hfree; cbn [negb]; rewrite ?andb_false_r; eexists; reflexivity.
    + rewrite Hfree. eexists; reflexivity.
    + destruct path; eexists; reflexivity.
Qed.

(* ---- C08: what Compile returns (root Error() first, then the first task error) ---- *)
Lemma run_nil : forall s, run cfg [] s = s.
Proof. reflexivity. Qed.

Theorem compile_final_lemma : forall sched task_errs,
  let s := run cfg sched (init cfg) in
  (1 <= ncalls s -> plain_seen s = false -> (forall tag e, ~ In (CErr tag (Some e)) (rlog s)) ->
     compile_final s task_errs = Some EInvalidSource) /\
  (forall e, root_err s = Some e -> compile_final s task_errs = Some e) /\
  (compile_final s task_errs = None -> handled s = 0 /\ forall x, In x task_errs -> x = None) /\
  (handled s = 0 -> compile_final s task_errs = first_some task_errs).
Proof.
  intros sched task_errs. cbv zeta. unfold compile_final.
  pose proof (success_iff_no_error_lemma sched) as (H0 & _). cbv zeta in H0.
  split; [|split; [|split]].
  - intros Hn Hp Hall. rewrite (accept_all_invalid_source_lemma sched Hn Hp Hall). reflexivity.
  - intros e He. destruct (abort_latches_lemma sched) as [_ H2].
    destruct (H2 e He []) as (_ & Hr & _). rewrite run_nil in Hr. rewrite Hr. reflexivity.
  - destruct (error_result (hs (run cfg sched (init cfg)) 0)) eqn:E; [discriminate|]. intros Hf. split.
    + apply H0. reflexivity.
    + intros x Hin. induction task_errs as [|y r IH]; [contradiction|]. cbn [first_some] in Hf.
      destruct y as [a|]; [discriminate|]. destruct Hin as [<-|Hin]; [reflexivity|]. apply IH; assumption.
  - intros Hh. apply H0 in Hh. rewrite Hh. reflexivity.
Qed.

End Rep.
