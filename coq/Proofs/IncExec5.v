(* Incremental executor model, any dependency graph (cycles included), no panics: key bounds, the
   shape of the cycle check, and the termination measure (every step of a thread decreases it). *)
From Coq Require Import List Arith Bool NArith Lia.
From PV Require Import Model.IncExec Proofs.IncExec1 Proofs.IncExec2 Proofs.IncExec3.
Import ListNotations.

Lemma NoDup_app_one {A} (l : list A) x : NoDup l -> ~ In x l -> NoDup (l ++ [x]).
Proof.
  induction l as [|a l IH]; intros Hn Hx; cbn; [constructor; [intros []|constructor]|].
  inversion Hn; subst. constructor.
  - intros Hin. apply in_app_or in Hin. destruct Hin as [Hin|[<-|[]]]; [contradiction|]. apply Hx. left. reflexivity.
  - apply IH; [assumption|]. intros F. apply Hx. right. assumption.
Qed.

Section Inv4.
Variable w : world.
Variable par : nat.
Hypothesis Hnp : forall k, wpanic w k = None.
Hypothesis Hwf : wf_world w.

Record inv4 (s : state) : Prop := {
  x_keys : forall id k, id < nthr s -> tkey (thr s id) = Some k -> k < wn w;
  x_roots : forall id ks k, In (id, ks) (roots s) -> In k ks -> k < wn w;
  x_edges : forall c d, In (c, d) (edges s) -> c < wn w /\ d < wn w;
  x_bfs : forall id o q seen, id < nthr s -> tpc (thr s id) = RCheck o q seen ->
          NoDup (map fst seen) /\ (forall y, In y (map fst seen) -> y < wn w) /\ (forall x, In x q -> x < wn w);
  x_pcall : forall id g nw, id < nthr s -> tpc (thr s id) = PCall g nw -> 0 < length (tslots (thr s id))
}.

Lemma group_bound s id g grp i d : inv4 s -> id < nthr s ->
  nth_error (groups w s id) g = Some grp -> nth_error grp i = Some d -> d < wn w.
Proof.
  intros Hx Hid Hg Hd. unfold groups in Hg. destruct (tkey (thr s id)) as [k|] eqn:Ek.
  - apply (Hwf (inp s k) k). unfold flatd. apply in_concat. eexists; split; eapply nth_error_In; eassumption.
  - destruct (find (fun r => fst r =? id) (roots s)) as [[id' ks']|] eqn:Ef; [|destruct g; discriminate].
    apply find_some in Ef. destruct Ef as [Ef1 _].
    destruct g; [|destruct g; discriminate]. cbn in Hg. inversion Hg; subst grp.
    eapply (x_roots _ Hx); [exact Ef1|eapply nth_error_In; eassumption].
Qed.

Lemma bfs_push_inv ds x : forall q seen q' seen', bfs_push ds x q seen = (q', seen') ->
  NoDup (map fst seen) -> NoDup (map fst seen') /\
  (forall y, In y (map fst seen') -> In y (map fst seen) \/ In y ds) /\
  length seen' + length q = length seen + length q' /\ length seen <= length seen'.
Proof.
  induction ds as [|a ds IH]; intros q seen q' seen' H Hn; cbn in H.
  - inversion H; subst. repeat split; auto.
  - destruct (memb a (map fst seen)) eqn:Em.
    + destruct (IH _ _ _ _ H Hn) as (A & B & C & D). repeat split; auto.
      intros y Hy. destruct (B y Hy); [left|right; right]; assumption.
    + assert (Hn' : NoDup (map fst (seen ++ [(a, x)]))).
      { rewrite map_app. cbn. apply NoDup_app_one; [assumption|apply memb_false; assumption]. }
      destruct (IH _ _ _ _ H Hn') as (A & B & C & D). rewrite !app_length in *. cbn in *.
      repeat split; auto; try lia.
      intros y Hy. destruct (B y Hy) as [Hs|Hd]; [|right; right; assumption].
      rewrite map_app in Hs. apply in_app_or in Hs. destruct Hs as [Hs|[<-|[]]]; [left; assumption|right; left; reflexivity].
Qed.


Lemma rcheck_step s id e o q' seen' : inv1 w par s -> id < nthr s -> step_local w s id = Some e ->
  tpc (e_self e) = RCheck o q' seen' ->
  (exists d, tkey (thr s id) = Some d /\ q' = [d] /\ seen' = []) \/
  (exists x q seen, tpc (thr s id) = RCheck o (x :: q) seen /\
     bfs_push (deps_of (edges s) x) x q seen = (q', seen')).
Proof.
  intros Hi Hid H. pose proof (i_thr _ _ _ Hi id Hid) as Ht.
  pose proof (cancelled_false w par s (thr s id) Hi) as Hc.
  pose proof (t_hold _ _ _ Ht) as Hh. unfold hexp in Hh. pose proof (t_synconly _ _ _ Ht) as Hso.
  local_cases H; rewrite ?Epc in *; cbn [hpc] in Hh;
    rewrite ?after_resolve_nc by assumption;
    rewrite ?do_release_hold by (rewrite Hh; first [reflexivity | cbn; apply Hso; reflexivity]);
    cbn; intros Hq; try discriminate; inversion Hq; subst.
  all: try (left; eexists; repeat split; reflexivity).
  right. do 3 eexists. split; [reflexivity|eassumption].
Qed.

Lemma pcall_step s id e g nw : inv1 w par s -> id < nthr s -> step_local w s id = Some e ->
  tpc (e_self e) = PCall g nw -> 0 < length (tslots (e_self e)).
Proof.
  intros Hi Hid H. pose proof (i_thr _ _ _ Hi id Hid) as Ht.
  pose proof (cancelled_false w par s (thr s id) Hi) as Hc.
  pose proof (t_hold _ _ _ Ht) as Hh. unfold hexp in Hh. pose proof (t_synconly _ _ _ Ht) as Hso.
  pose proof (t_start _ _ _ Ht) as Tst.
  local_cases H; rewrite ?Epc in *; cbn [hpc] in Hh;
    rewrite ?after_resolve_nc by assumption;
    rewrite ?do_release_hold by (rewrite Hh; first [reflexivity | cbn; apply Hso; reflexivity]);
    cbn; intros Hq; try discriminate; inversion Hq; subst.
  destruct (Tst _ _ _ eq_refl) as [_ Hl]. lia.
Qed.

Lemma inv4_step s id s1 : inv1 w par s -> inv4 s -> step w s id = Some s1 -> inv4 s1.
Proof.
  intros Hi Hx H. destruct (step_spec _ _ _ _ H) as (Hid & e & p & Hl & -> & Hp).
  set (s' := apply_eff s id e p).
  destruct (thr_after w par s id e p Hi Hid Hl) as (Tself & Toth & Tn). fold s' in Tself, Toth, Tn.
  destruct (step_self_id w s id e Hl) as (Ia & Ib & Ic & Id & Ie).
  assert (Hroots : roots s' = roots s) by reflexivity.
  constructor.
  - intros x k Hx' Hk. destruct (le_lt_dec (nthr s) x) as [Hge|Hlt].
    + destruct Tn as [E|(E & j & d & sy & h & Hc)]; [lia|]. assert (x = nthr s) as -> by lia.
      rewrite Hc in Hk. unfold child_of in Hk. cbn in Hk. inversion Hk; subst k.
      destruct (step_kinds w s id e Hl) as [[A B]|[(r & hp & hi & A1 & A2 & A3 & _)|(g & j' & nw & grp & d' & A1 & A2 & A3 & A4 & A5 & _)]].
      * unfold s', apply_eff in E. cbn in E. rewrite B in E. lia.
      * unfold s', apply_eff in E. cbn in E. rewrite A3 in E. lia.
      * unfold s', apply_eff in Hc. cbn in Hc. rewrite A5, upd_same in Hc. unfold child_of in Hc. inversion Hc; subst.
        eapply group_bound; eassumption.
    + destruct (Nat.eq_dec x id) as [->|Hxi].
      * rewrite Tself, Ib in Hk. eapply (x_keys _ Hx); eassumption.
      * destruct (Toth x Hlt Hxi) as [E|(hi & r & h & _ & _ & E)]; rewrite E in Hk; eapply (x_keys _ Hx); eassumption.
  - intros x ks k. rewrite Hroots. apply (x_roots _ Hx).
  - intros c d Hin. destruct (edges_inv s id e p _ Hin) as [Ho|Hn]; [apply (x_edges _ Hx); assumption|].
    destruct (proj1 (pedges_step w par s id e Hi Hid Hl) _ Hn) as (g & grp & i & P1 & P2 & P3 & P4). cbn [fst snd] in *.
    split; [eapply (x_keys _ Hx); eassumption|eapply group_bound; eassumption].
  - intros x o q seen Hx' Hpc. destruct (le_lt_dec (nthr s) x) as [Hge|Hlt].
    + destruct Tn as [E|(E & j & d & sy & h & Hc)]; [lia|]. assert (x = nthr s) as -> by lia.
      rewrite Hc in Hpc. discriminate.
    + destruct (Nat.eq_dec x id) as [->|Hxi].
      * rewrite Tself in Hpc.
        destruct (rcheck_step s id e o q seen Hi Hid Hl Hpc) as [(d & D1 & -> & ->)|(x0 & q0 & seen0 & D1 & D2)].
        -- cbn. repeat split; [constructor|intros y []|]. intros y [<-|[]]. eapply (x_keys _ Hx); eassumption.
        -- destruct (x_bfs _ Hx id _ _ _ Hid D1) as (B1 & B2 & B3).
           destruct (bfs_push_inv _ _ _ _ _ _ D2 B1) as (C1 & C2 & _).
           assert (Hds : forall y, In y (deps_of (edges s) x0) -> y < wn w).
           { intros y Hy. apply deps_of_In in Hy. apply (x_edges _ Hx _ _ Hy). }
           repeat split; [assumption| |].
           ++ intros y Hy. destruct (C2 y Hy); [apply B2; assumption|apply Hds; assumption].
           ++ intros y Hy. destruct (bfs_push_in _ _ _ _ _ _ D2 y Hy); [apply B3; right; assumption|apply Hds; assumption].
      * destruct (Toth x Hlt Hxi) as [E|(hi & r & h & _ & _ & E)]; rewrite E in Hpc; eapply (x_bfs _ Hx); eassumption.
  - intros x g nw Hx' Hpc. destruct (le_lt_dec (nthr s) x) as [Hge|Hlt].
    + destruct Tn as [E|(E & j & d & sy & h & Hc)]; [lia|]. assert (x = nthr s) as -> by lia.
      rewrite Hc in Hpc. discriminate.
    + destruct (Nat.eq_dec x id) as [->|Hxi].
      * rewrite Tself in *. eapply pcall_step; eassumption.
      * destruct (Toth x Hlt Hxi) as [E|(hi & r & h & _ & _ & E)]; rewrite E in *.
        -- eapply (x_pcall _ Hx); eassumption.
        -- cbn [slot_write tslots tpc] in *. rewrite set_slot_length. eapply (x_pcall _ Hx); eassumption.
Qed.

Lemma inv4_event s e s' : inv1 w par s -> inv4 s -> do_event w s e = Some s' -> inv4 s'.
Proof.
  intros Hi Hx H. destruct e as [t|ks|ks|ks vs]; cbn [do_event] in H.
  - eapply inv4_step; eassumption.
  - destruct (forallb (fun k => Nat.ltb k (wn w)) ks) eqn:Ef; inversion H.
    assert (Hks : forall k, In k ks -> k < wn w).
    { intros k Hin. rewrite forallb_forall in Ef. apply Nat.ltb_lt. apply Ef. assumption. }
    constructor.
    + intros x k Hx' Hk. unfold start_run in *. cbn in *. unfold upd in Hk. destruct (Nat.eqb x (nthr s)) eqn:Ex; [discriminate|].
      apply Nat.eqb_neq in Ex. eapply (x_keys _ Hx); [|eassumption]. lia.
    + intros x ks' k [Hin|Hin] Hkk; [inversion Hin; subst; apply Hks; assumption|eapply (x_roots _ Hx); eassumption].
    + apply (x_edges _ Hx).
    + intros x o q seen Hx' Hpc. unfold start_run in *. cbn in *. unfold upd in Hpc. destruct (Nat.eqb x (nthr s)) eqn:Ex; [discriminate|].
      apply Nat.eqb_neq in Ex. eapply (x_bfs _ Hx); [|eassumption]. lia.
    + intros x g nw Hx' Hpc. unfold start_run in *. cbn in *. unfold upd in *. destruct (Nat.eqb x (nthr s)) eqn:Ex; [discriminate|].
      apply Nat.eqb_neq in Ex. eapply (x_pcall _ Hx); [|eassumption]. lia.
  - destruct (quiescent s) eqn:Hq; inversion H. constructor; try apply Hx.
    intros c d Hin. unfold evict in Hin. cbn in Hin. apply filter_In in Hin. apply (x_edges _ Hx). apply Hin.
  - destruct (quiescent s) eqn:Hq; inversion H. constructor; try apply Hx.
    intros c d Hin. unfold evict in Hin. cbn in Hin. apply filter_In in Hin. apply (x_edges _ Hx). apply Hin.
Qed.

Lemma inv4_init inputs : inv4 (init par inputs).
Proof. constructor; cbn; try (intros; lia); try (intros; contradiction). Qed.

Lemma reach_inv4 inputs s : reach w par inputs s -> inv1 w par s /\ inv2 w s /\ inv4 s.
Proof.
  induction 1 as [|s e s' Hr (IH1 & IH2 & IH3) He].
  - split; [apply inv1_init|split; [apply inv2_init|apply inv4_init]].
  - split; [eapply inv1_event; eassumption|split; [eapply inv2_event; eassumption|eapply inv4_event; eassumption]].
Qed.

End Inv4.

(* ---- the termination measure ---- *)
Section Measure.
Variable w : world.
Variable par : nat.
Hypothesis Hnp : forall k, wpanic w k = None.
Hypothesis Hwf : wf_world w.

Definition HW : nat := 2 * wn w + 13.
Definition gcost (grp : list key) : nat := length grp * (HW + 2) + 8.
Definition restn (gs : list (list key)) (g : nat) : nat := fold_right (fun grp a => gcost grp + a) 4 (skipn g gs).
Definition bfsw (q : list key) (seen : list (key * key)) : nat := 2 * (wn w - length seen) + length q.

Definition weight (gs : list (list key)) (t : thread) : nat :=
  match tpc t with
  | RLoad => HW | RCas => HW - 1 | RLoad2 => HW - 2
  | RCheck _ q seen => bfsw q seen + 9
  | RCycW _ _ => 8 | RCycR _ => 7 | RRel _ => 8 | RWait _ => 7 | RAcq _ => 6 | RReload _ => 5
  | PAcquire => restn gs 0 + 1
  | PBody g => restn gs g
  | PEdges g i => restn gs (S g) + length (nth g gs []) * (HW + 1) + 6 + (length (nth g gs []) + 1 - i)
  | PStart g j _ => restn gs (S g) + j * (HW + 1) + 5
  | PCall g _ => restn gs (S g) + 4
  | PJoinRel g => restn gs (S g) + 3
  | PJoin g => restn gs (S g) + 2
  | PJoinAcq g => restn gs (S g) + 1
  | PRelease _ => 3 | PClose _ => 2 | PReturn _ => 1
  | PEnd | PAbort => 0
  end.
Definition kcost (s : state) (k : key) : nat :=
  match tmap s k with TRes _ => 0 | _ => restn (wdeps w (inp s k) k) 0 + 1 end.
Definition measure (s : state) : nat :=
  sum_to (nthr s) (fun i => weight (groups w s i) (thr s i)) + sum_to (wn w) (kcost s).

Lemma restn_some gs g grp : nth_error gs g = Some grp -> restn gs g = gcost grp + restn gs (S g).
Proof.
  unfold restn. revert g. induction gs as [|a gs IH]; intros [|g] H; cbn in *; try discriminate.
  - inversion H. reflexivity.
  - apply IH. assumption.
Qed.
Lemma restn_none gs g : nth_error gs g = None -> restn gs g = 4.
Proof. intros H. apply nth_error_None in H. unfold restn. rewrite skipn_all2 by assumption. reflexivity. Qed.

Lemma seen_len (seen : list (key * key)) : NoDup (map fst seen) -> (forall y, In y (map fst seen) -> y < wn w) -> length seen <= wn w.
Proof.
  intros Hn Hb. rewrite <- (map_length (@fst key key)), <- (seq_length (wn w) 0). apply NoDup_incl_length; [assumption|].
  intros y Hy. apply in_seq. specialize (Hb y Hy). lia.
Qed.

(* how the weight of the stepping thread changes *)
Lemma weight_step s id e : inv1 w par s -> inv2 w s -> inv4 w s -> id < nthr s -> step_local w s id = Some e ->
  let gs := groups w s id in
  match e_lead e with
  | Some k => weight gs (thr s id) = HW - 1 /\ weight gs (e_self e) <= restn gs 0 + 1 /\ e_spawn e = None
  | None => match e_spawn e with
            | Some _ => weight gs (e_self e) + HW < weight gs (thr s id)
            | None => weight gs (e_self e) < weight gs (thr s id)
            end
  end.
Proof.
  intros Hi Hj Hx Hid H. pose proof (i_thr _ _ _ Hi id Hid) as Ht. pose proof (j_thr _ _ Hj id Hid) as Hu.
  pose proof (cancelled_false w par s (thr s id) Hi) as Hc.
  pose proof (t_hold _ _ _ Ht) as Hh. unfold hexp in Hh. pose proof (t_synconly _ _ _ Ht) as Hso.
  pose proof (t_mode _ _ _ Ht) as Hmo. pose proof (u_waiter _ _ _ Hu) as Uw.
  pose proof (x_bfs _ _ Hx id) as Xb.
  assert (HH : HW = 2 * wn w + 13) by reflexivity.
  cbv zeta. unfold weight.
  local_cases H; rewrite ?Epc in *; cbn [hpc] in Hh;
    rewrite ?after_resolve_nc by assumption;
    rewrite ?do_release_hold by (rewrite Hh; first [reflexivity | cbn; apply Hso; reflexivity]);
    cbn [e_self e_lead e_spawn E Esem set_pc set_pc_hold set_pc_slots set_pc_obj set_pc_pub set_pc_disc leave_resolve tpc].
  all: try (specialize (Hmo _ (or_intror eq_refl)); discriminate).
  all: try match goal with Hb : panics_at _ _ _ _ = true |- _ => rewrite (panics_at_false w Hnp) in Hb; discriminate end.
  all: try match goal with Hb : wfix w && cancelled _ _ = true |- _ => rewrite Hc, andb_false_r in Hb; discriminate end.
  all: unfold bfsw; cbn [length]; try lia.
  all: try solve [repeat split; lia].
  all: try solve [match goal with Hk : tkey _ = Some ?d |- _ =>
         destruct (Uw d _ Hk eq_refl) as [W1 W2]; specialize (W2 eq_refl); rewrite W1 in *;
         try discriminate;
         match goal with Hq : TRes _ = TRes _ |- _ => inversion Hq; subst end;
         match goal with Hb : _ && _ = false |- _ => rewrite Nat.eqb_refl, W2 in Hb; discriminate end end].
  all: try match goal with Hg : nth_error (groups _ _ _) ?g = Some ?l |- _ =>
         rewrite ?(nth_error_nth _ _ _ Hg); rewrite ?(restn_some _ _ _ Hg); unfold gcost end.
  all: try match goal with Hg : nth_error (groups _ _ _) ?g = None |- _ => rewrite ?(restn_none _ _ Hg) end.
  all: try match goal with Hn : nth_error ?l ?i = Some _ |- _ => pose proof (proj1 (nth_error_Some l i) ltac:(congruence)) end.
  all: try match goal with Hn : nth_error ?l ?i = None |- _ => apply nth_error_None in Hn end.
  all: try nia.
  1:{ destruct (Xb _ _ _ Hid eq_refl) as (B1 & B2 & B3).
    destruct (bfs_push_inv _ _ _ _ _ _ Heqp B1) as (C1 & C2 & C3 & C4).
    assert (length l1 <= wn w).
    { apply seen_len; [assumption|]. intros y Hy. destruct (C2 y Hy) as [Hs|Hd]; [apply B2; assumption|].
      apply deps_of_In in Hd. apply (x_edges _ _ Hx _ _ Hd). }
    lia. }
  all: destruct (Uw _ _ eq_refl eq_refl) as [W1 W2]; specialize (W2 eq_refl); try congruence.
  all: rewrite W1 in *; match goal with Hq : TRes _ = TRes _ |- _ => inversion Hq; subst end;
       match goal with Hb : _ && _ = false |- _ => rewrite Nat.eqb_refl, W2 in Hb; discriminate end.
Qed.


Lemma weight_pc gs a b : tpc a = tpc b -> weight gs a = weight gs b.
Proof. intros H. unfold weight. rewrite H. reflexivity. Qed.

Theorem step_measure s id s1 : inv1 w par s -> inv2 w s -> inv4 w s -> step w s id = Some s1 ->
  measure s1 < measure s.
Proof.
  intros Hi Hj Hx H. destruct (step_spec _ _ _ _ H) as (Hid & e & p & Hl & -> & Hp).
  set (s' := apply_eff s id e p).
  destruct (thr_after w par s id e p Hi Hid Hl) as (Tself & Toth & Tn). fold s' in Tself, Toth, Tn.
  destruct (step_self_id w s id e Hl) as (Ia & Ib & Ic & Id & Ie).
  pose proof (weight_step s id e Hi Hj Hx Hid Hl) as Hw. cbv zeta in Hw.
  assert (Hkey : forall x, x < nthr s -> tkey (thr s' x) = tkey (thr s x)).
  { intros x Hx'. destruct (Nat.eq_dec x id) as [->|Hxi]; [rewrite Tself; assumption|].
    destruct (Toth x Hx' Hxi) as [->|(hi & r & h & _ & _ & ->)]; reflexivity. }
  assert (Hgr : forall x, x < nthr s -> groups w s' x = groups w s x) by (intros x Hx'; apply groups_eq; auto).
  (* the old threads *)
  assert (Hold : sum_to (nthr s) (fun i => weight (groups w s' i) (thr s' i)) + weight (groups w s id) (thr s id) =
                 sum_to (nthr s) (fun i => weight (groups w s i) (thr s i)) + weight (groups w s id) (e_self e)).
  { rewrite (sum_to_ext (nthr s) (fun i => weight (groups w s' i) (thr s' i))
               (upd (fun i => weight (groups w s i) (thr s i)) id (weight (groups w s id) (e_self e)))).
    - apply (sum_to_upd (nthr s) (fun i => weight (groups w s i) (thr s i)) id _ Hid).
    - intros x Hx'. unfold upd. destruct (Nat.eqb x id) eqn:Ex.
      + apply Nat.eqb_eq in Ex. subst x. rewrite Hgr, Tself by assumption. reflexivity.
      + apply Nat.eqb_neq in Ex. rewrite Hgr by assumption. apply weight_pc.
        destruct (Toth x Hx' Ex) as [->|(hi & r & h & _ & _ & ->)]; reflexivity. }
  (* the keys *)
  assert (Hinp : inp s' = inp s) by reflexivity.
  assert (Hks : match e_lead e with
                | None => sum_to (wn w) (kcost s') = sum_to (wn w) (kcost s)
                | Some k => tkey (thr s id) = Some k /\
                            sum_to (wn w) (kcost s') + (restn (wdeps w (inp s k) k) 0 + 1) = sum_to (wn w) (kcost s)
                end).
  { destruct (step_mem w par s id e Hi Hid Hl) as [(B1 & B2 & B3)|[(k0 & B1 & B2 & B3 & B4 & B5 & B6 & B7 & B8)|[(d & B0 & B1 & B2 & B3)|[(o0 & path & B0 & B1 & B3 & B2)|(k0 & B0 & B00 & B1 & B3 & B2 & _)]]]];
      rewrite ?B3, ?B6.
    - apply sum_to_ext. intros k _. unfold kcost, s', apply_eff. cbn [tmap inp]. rewrite B1. reflexivity.
    - split; [assumption|].
      assert (Hk0 : k0 < wn w) by (eapply (x_keys _ _ Hx); eassumption).
      rewrite (sum_to_ext (wn w) (kcost s') (upd (kcost s) k0 0)).
      + pose proof (sum_to_upd (wn w) (kcost s) k0 0 Hk0) as Hs.
        assert (Hkc : kcost s k0 = restn (wdeps w (inp s k0) k0) 0 + 1).
        { unfold kcost. destruct (tmap s k0) eqn:Et; [reflexivity|reflexivity|exfalso; eapply B3; reflexivity]. }
        lia.
      + intros k _. unfold kcost, s', apply_eff. cbn [tmap inp]. rewrite B4. unfold upd.
        destruct (Nat.eqb k k0); reflexivity.
    - apply sum_to_ext. intros k _. unfold kcost, s', apply_eff. cbn [tmap inp]. rewrite B1. unfold upd.
      destruct (Nat.eqb k d) eqn:Ek; [apply Nat.eqb_eq in Ek; subst; rewrite B0; reflexivity|reflexivity].
    - apply sum_to_ext. intros k _. unfold kcost, s', apply_eff. cbn [tmap inp]. rewrite B1. reflexivity.
    - apply sum_to_ext. intros k _. unfold kcost, s', apply_eff. cbn [tmap inp]. rewrite B1. reflexivity. }
  unfold measure.
  destruct (e_lead e) as [k|] eqn:El.
  - destruct Hw as (W1 & W2 & W3). destruct Hks as [Hk Hks].
    assert (Hn : nthr s' = nthr s) by (destruct Tn as [E|(E & j & d & sy & h & Hc)]; [assumption|];
      unfold s', apply_eff in E; cbn in E; rewrite W3 in E; lia).
    rewrite Hn. assert (Hg : groups w s id = wdeps w (inp s k) k) by (unfold groups; rewrite Hk; reflexivity).
    rewrite Hg in *. assert (13 <= HW) by (unfold HW; lia). lia.
  - destruct (e_spawn e) as [c|] eqn:Es.
    + destruct Tn as [E|(E & j & d & sy & h & Hc)]; [unfold s', apply_eff in E; cbn in E; rewrite Es in E; lia|].
      rewrite E. cbn [sum_to]. rewrite Hc. unfold child_of at 1. unfold weight at 2. cbn [tpc]. lia.
    + assert (Hn : nthr s' = nthr s) by (unfold s', apply_eff; cbn; rewrite Es; reflexivity).
      rewrite Hn. lia.
Qed.

(* hence: between two external events (Run, Evict, Edit) at most measure-many steps happen, whatever the schedule *)
Fixpoint steps_taken (sched : list nat) (s : state) : nat :=
  match sched with
  | [] => 0
  | t :: rest => match step w s t with
                 | Some s' => S (steps_taken rest s')
                 | None => steps_taken rest s
                 end
  end.

Theorem steps_bounded inputs : forall sched s, reach w par inputs s -> steps_taken sched s <= measure s.
Proof.
  induction sched as [|t rest IH]; intros s Hr; cbn [steps_taken]; [lia|].
  destruct (step w s t) as [s'|] eqn:E; [|apply IH; assumption].
  destruct (reach_inv4 w par Hnp Hwf inputs s Hr) as (Hi & Hj & Hx).
  pose proof (step_measure s t s' Hi Hj Hx E).
  assert (Hr' : reach w par inputs s') by (apply (reach_ev w par inputs s (EStep t) s' Hr); exact E).
  specialize (IH s' Hr'). lia.
Qed.

End Measure.
