(* The cycle check is complete and the executor cannot deadlock: invariant K of the per-task
   `checked` sets (ghost publish times), the semaphore invariant, and the two theorems. *)
From Coq Require Import List Arith Bool Lia.
From PV Require Import Model.CompileExec Proofs.CompileExec1 Proofs.CompileExec2.
Import ListNotations.

Section Exec3.
Variable g : graph.
Hypothesis wfg : wf_graph g.
Variable par : nat.
Hypothesis Hpar : 1 <= par.
Variable req : list nat.
Hypothesis Hreq : forall x, In x req -> x < nfiles g.

Notation reach := (reach g par req).

Ltac local_cases H :=
  unfold step_local in H; cbv zeta in H;
  match type of H with context [match tpc ?t with _ => _ end] => destruct (tpc t) eqn:Epc end;
  repeat match type of H with
         | context [match ?x with _ => _ end] => destruct x eqn:?
         end; try discriminate; inversion H; subst; clear H.

Definition bl (s : state) (x : nat) : bool := blocked (tasks s x).
Definition pt (s : state) (x : nat) : nat := ptime (tasks s x).

(* X was published before T and is still published: T's read of X's blockedOn saw imports X *)
Definition earlier (s : state) (T X : nat) : Prop := bl s X = true /\ pt s X < pt s T.

Definition closed (s : state) (T X : nat) : Prop :=
  earlier s T X ->
  ~ In T (imports g X) /\
  forall d, In d (imports g X) -> earlier s T d -> In d (checked (tasks s T)).

Definition frame_k (s : state) (T : nat) (fr : frame) : Prop :=
  match fr with
  | Frame sq rest =>
    earlier s T (last sq 0) ->
    exists pre, imports g (last sq 0) = pre ++ rest /\ ~ In T pre /\
                forall d, In d pre -> earlier s T d -> In d (checked (tasks s T))
  end.

Definition has_frame (st : list frame) (X : nat) : Prop :=
  exists sq rest, In (Frame sq rest) st /\ last sq 0 = X.

Definition all_closed (s : state) (T : nat) : Prop :=
  forall X, In X (checked (tasks s T)) -> closed s T X.

Definition inv3_pc (s : state) (T : nat) : Prop :=
  let deps := imports g T in
  let ck := checked (tasks s T) in
  match tpc (tasks s T) with
  | PNone | PAcquire | PResolve | PPublish => ck = []
  | PLoop i | PCall i => incl (firstn i deps) ck /\ all_closed s T
  | PDfs i st =>
    incl (firstn (S i) deps) ck /\ Forall (frame_k s T) st /\
    forall X, In X ck -> closed s T X \/ has_frame st X
  | PRelease | PWait _ | PDone (Some (FDep _)) => incl deps ck /\ all_closed s T
  | _ => True
  end.

Definition deps_created_pc (p : pc) : bool :=
  match p with
  | PRelease | PWait _ | PClear | PReacquire | PLink | PDone None | PDone (Some FLink) | PDone (Some (FDep _)) => true
  | _ => false
  end.

Record inv3_task (s : state) (T : nat) : Prop := {
  i3_pc : inv3_pc s T;
  i3_self : ~ In T (checked (tasks s T));
  i3_deps : deps_created_pc (tpc (tasks s T)) = true ->
            forall d, In d (imports g T) -> created s d = true
}.

Definition holder (p : pc) : bool :=
  match p with
  | PResolve | PPublish | PLoop _ | PCall _ | PDfs _ _ | PRelease | PLink => true
  | _ => false
  end.

Definition inv3 (s : state) : Prop :=
  (forall T, inv3_task s T) /\
  (permits s = 0 -> exists f, holder (tpc (tasks s f)) = true).

Lemma inv3_init : inv3 (init par req).
Proof.
  split.
  - intros T. constructor; unfold inv3_pc, init; cbn; destruct (memb T req); cbn; try reflexivity;
      try tauto; try discriminate.
  - cbn. lia.
Qed.

(* what is earlier than T after a step was already earlier than T before it, unchanged *)
Lemma earlier_back s f s' T z : inv1 g s -> step g s f = Some s' ->
  bl s T = true -> pt s' T = pt s T ->
  earlier s' T z -> earlier s T z /\ pt s' z = pt s z.
Proof.
  intros [Ht Hd] H HbT HpT [Hbz Hpz]. unfold earlier, bl, pt in *.
  pose proof (i1_clock _ _ _ (Ht T) HbT) as HcT.
  destruct (Nat.eq_dec z f) as [->|Hzf].
  - destruct (step_spec g _ _ _ H) as (t' & cr & pe & tick & Hl & Htk & _).
    assert (Hself : tasks s' f = t') by (rewrite Htk; apply upd_same).
    rewrite Hself in *.
    destruct (step_local_blocked g _ _ _ _ _ _ Hl) as [(B1 & B2 & _)|[(_ & B1 & B2 & _)|(B1 & _)]].
    + rewrite B1 in Hbz. rewrite B2 in Hpz. rewrite HpT in Hpz. repeat split; assumption.
    + rewrite B2 in Hpz. rewrite HpT in Hpz. lia.
    + congruence.
  - destruct (step_other g _ _ _ z H Hzf) as [E|(_ & E' & _)].
    + rewrite E in *. rewrite HpT in Hpz. auto.
    + rewrite E' in Hbz. discriminate.
Qed.

Lemma closed_mono s f s' T X : inv1 g s -> step g s f = Some s' ->
  bl s T = true -> pt s' T = pt s T -> incl (checked (tasks s T)) (checked (tasks s' T)) ->
  closed s T X -> closed s' T X.
Proof.
  intros Hi H HbT HpT Hinc Hc He.
  destruct (earlier_back _ _ _ _ _ Hi H HbT HpT He) as [He0 _].
  destruct (Hc He0) as [A B]. split; [assumption|].
  intros d Hd Hed. apply Hinc. apply B; [assumption|].
  apply (earlier_back _ _ _ _ _ Hi H HbT HpT Hed).
Qed.

Lemma frame_k_mono s f s' T fr : inv1 g s -> step g s f = Some s' ->
  bl s T = true -> pt s' T = pt s T -> incl (checked (tasks s T)) (checked (tasks s' T)) ->
  frame_k s T fr -> frame_k s' T fr.
Proof.
  intros Hi H HbT HpT Hinc Hk. destruct fr as [sq rest]. cbn in *. intros He.
  destruct (earlier_back _ _ _ _ _ Hi H HbT HpT He) as [He0 _].
  destruct (Hk He0) as (pre & A & B & C). exists pre. repeat split; try assumption.
  intros d Hd Hed. apply Hinc. apply C; [assumption|].
  apply (earlier_back _ _ _ _ _ Hi H HbT HpT Hed).
Qed.

Lemma all_closed_mono s f s' T : inv1 g s -> step g s f = Some s' ->
  bl s T = true -> pt s' T = pt s T -> checked (tasks s' T) = checked (tasks s T) ->
  all_closed s T -> all_closed s' T.
Proof.
  intros Hi H HbT HpT Hck Ha X HX. rewrite Hck in HX.
  eapply closed_mono; try eassumption; [rewrite Hck; apply incl_refl|auto].
Qed.

(* a task other than T steps *)
Lemma inv3_step_other s f s' T : inv1 g s -> inv3 s -> step g s f = Some s' -> T <> f -> inv3_task s' T.
Proof.
  intros Hi1 [Ht _] H HTf. pose proof Hi1 as [Ht1 _].
  assert (Hcr : forall y, created s y = true -> created s' y = true)
    by (intros y; apply (created_mono g _ _ _ _ H)).
  destruct (step_other g _ _ _ T H HTf) as [E|(E & E' & Hin)].
  - destruct (Ht T) as [Ipc Iself Ideps]. constructor; rewrite ?E; try assumption.
    + unfold inv3_pc in *. rewrite E.
      pose proof (i1_blocked _ _ _ (Ht1 T)) as Hb.
      assert (HpT : pt s' T = pt s T) by (unfold pt; now rewrite E).
      assert (Hck : checked (tasks s' T) = checked (tasks s T)) by (now rewrite E).
      destruct (tpc (tasks s T)) as [| | | |i|i|i st| |i| | | |[[| | |sq d|d]|]]; try assumption; try exact I.
      all: cbn in Hb.
      * destruct Ipc as [A B]. split; [assumption|]. eapply all_closed_mono; eassumption.
      * destruct Ipc as [A B]. split; [assumption|]. eapply all_closed_mono; eassumption.
      * destruct Ipc as (A & B & C). split; [assumption|]. split.
        -- eapply Forall_impl; [|exact B]. intros fr. apply (frame_k_mono _ _ _ _ _ Hi1 H Hb HpT).
           rewrite Hck. apply incl_refl.
        -- intros X HX. destruct (C X HX) as [Hc|Hf]; [left|right; assumption].
           eapply closed_mono; try eassumption. rewrite Hck. apply incl_refl.
      * destruct Ipc as [A B]. split; [assumption|]. eapply all_closed_mono; eassumption.
      * destruct Ipc as [A B]. split; [assumption|]. eapply all_closed_mono; eassumption.
      * destruct Ipc as [A B]. split; [assumption|]. eapply all_closed_mono; eassumption.
    + intros Hd d Hin. apply Hcr. apply Ideps; assumption.
  - constructor; unfold inv3_pc; rewrite ?E'; cbn; try reflexivity; try tauto; try discriminate.
Qed.

Lemma frame_ok_In T sq rest : frame_ok g T (Frame sq rest) -> In T sq.
Proof. intros (A & _). destruct sq; [discriminate|]. cbn in A. inversion A. left. reflexivity. Qed.

Lemma has_frame_cons st fr X : has_frame st X -> has_frame (fr :: st) X.
Proof. intros (sq & rest & A & B). exists sq, rest. split; [right; assumption|assumption]. Qed.

(* the stepping task itself *)
Lemma inv3_step_self s T s' : inv1 g s -> inv2 g req s -> inv3 s -> step g s T = Some s' -> inv3_task s' T.
Proof.
  intros Hi1 Hi2 [Ht _] H. pose proof Hi1 as [Ht1 _]. pose proof Hi2 as [Ht2 _].
  assert (Hcr : forall y, created s y = true -> created s' y = true)
    by (intros y; apply (created_mono g _ _ _ _ H)).
  destruct (step_spec g _ _ _ H) as (t' & cr & pe & tick & Hl & Htk & _).
  assert (Hself : tasks s' T = t') by (rewrite Htk; apply upd_same).
  destruct (Ht T) as [Ipc Iself Ideps].
  pose proof (i1_blocked _ _ _ (Ht1 T)) as Hb.
  pose proof (i1_pc _ _ _ (Ht1 T)) as Hpc.
  pose proof (i1_checked _ _ _ (Ht1 T)) as Hchk.
  pose proof (i2_frames _ _ _ _ (Ht2 T)) as Hfr.
  (* other tasks keep blocked / ptime unless just created *)
  assert (Hoth : forall z, z <> T -> bl s' z = true -> bl s z = true /\ pt s' z = pt s z).
  { intros z Hz Hbz. unfold bl, pt in *. destruct (step_other g _ _ _ z H Hz) as [E|(_ & E' & _)].
    - rewrite E in *. auto.
    - rewrite E' in Hbz. discriminate. }
  constructor.
  - (* inv3_pc *)
    unfold inv3_pc in *. clear Htk. revert Hself.
    local_cases Hl; intros Hself; rewrite Hself; cbn [tpc checked set_pc set_pc_checked]; try exact I; try assumption.
    all: try (assert (HbT : bl s T = true) by (unfold bl; rewrite Hb; reflexivity)).
    all: try (assert (HpT : pt s' T = pt s T) by (unfold pt; rewrite Hself; reflexivity)).
    all: try (assert (Hck : checked (tasks s' T) = checked (tasks s T)) by (rewrite Hself; reflexivity)).
    + (* PPublish -> PLoop 0 *)
      split; [intros x []|]. intros X HX. rewrite Hself in HX. cbn in HX. rewrite Ipc in HX. destruct HX.
    + (* PLoop i -> PDone cycle is I; PLoop i -> PCall i *)
      destruct Ipc as [A B]. split; [assumption|]. eapply all_closed_mono; eassumption.
    + destruct Ipc as [A B]. split; [assumption|]. eapply all_closed_mono; eassumption.
    + (* PLoop i -> PRelease *)
      destruct Ipc as [A B]. apply nth_error_None in Heqo. rewrite firstn_all2 in A by assumption.
      split; [assumption|]. eapply all_closed_mono; eassumption.
    + (* PCall i -> PLoop (S i) *)
      destruct Ipc as [A B]. split; [|eapply all_closed_mono; eassumption].
      rewrite (firstn_S_nth _ _ _ Heqo). intros x Hx. apply in_app_or in Hx.
      destruct Hx as [Hx|[<-|[]]]; [apply A; assumption|apply memb_In; assumption].
    + (* PCall i -> PDfs i [frame] *)
      destruct Ipc as [A B]. destruct Hpc as (d0 & Hd0 & _ & HnT). rewrite Heqo in Hd0. inversion Hd0; subst d0.
      assert (Hinc : incl (checked (tasks s T)) (checked (tasks s' T)))
        by (rewrite Hself; cbn; intros x Hx; right; assumption).
      split; [|split].
      * rewrite (firstn_S_nth _ _ _ Heqo). intros x Hx. apply in_app_or in Hx.
        destruct Hx as [Hx|[<-|[]]]; [right; apply A; assumption|left; reflexivity].
      * constructor; [|constructor]. cbn. intros [Hbn _].
        destruct (Hoth n HnT Hbn) as [Hbn0 _]. unfold get_blocked. unfold bl in Hbn0. rewrite Hbn0.
        exists []. repeat split; auto. intros d [].
      * intros X [<-|HX].
        -- right. exists [T; n], (get_blocked g s n). split; [left; reflexivity|reflexivity].
        -- left. eapply closed_mono; try eassumption. apply B. assumption.
    + (* PDfs i [] -> PLoop (S i) *)
      destruct Ipc as (A & B & C). split; [assumption|].
      intros X HX. rewrite Hck in HX. destruct (C X HX) as [Hc|(sq & rest & [] & _)].
      eapply closed_mono; try eassumption. rewrite Hck. apply incl_refl.
    + (* pop an exhausted frame *)
      destruct Ipc as (A & B & C). inversion B as [|fr frs B1 B2]; subst.
      assert (Hinc : incl (checked (tasks s T)) (checked (tasks s' T))) by (rewrite Hck; apply incl_refl).
      split; [assumption|]. split.
      * eapply Forall_impl; [|exact B2]. intros fr. apply (frame_k_mono _ _ _ _ _ Hi1 H HbT HpT Hinc).
      * intros X HX. destruct (C X HX) as [Hc|(sq0 & rest0 & [Hin|Hin] & Hlast)].
        -- left. eapply closed_mono; eassumption.
        -- inversion Hin; subst sq0 rest0. left.
           eapply closed_mono; try eassumption. intros He. cbn in B1. rewrite Hlast in B1. destruct (B1 He) as (pre & P1 & P2 & P3).
           rewrite app_nil_r in P1. subst pre. split; assumption.
        -- right. exists sq0, rest0. auto.
    + (* drop a dependency without result *)
      assert (Hdrop : earlier s T n -> In n (checked (tasks s T))).
      { intros [Hbn _]. exfalso. unfold bl in Hbn. rewrite (i1_blocked _ _ _ (Ht1 n)) in Hbn.
        apply negb_true_iff in Heqb0. apply created_false in Heqb0. rewrite Heqb0 in Hbn. discriminate. }
      destruct Ipc as (A & B & C). inversion B as [|fr frs B1 B2]; subst.
      assert (Hinc : incl (checked (tasks s T)) (checked (tasks s' T))) by (rewrite Hck; apply incl_refl).
      specialize (Hfr _ _ eq_refl). inversion Hfr as [|fr frs F1 F2]; subst.
      assert (HnT : n <> T).
      { intros ->. apply frame_ok_In in F1. apply memb_In in F1. congruence. }
      split; [assumption|]. split.
      * constructor; [|eapply Forall_impl; [|exact B2]; intros fr; apply (frame_k_mono _ _ _ _ _ Hi1 H HbT HpT Hinc)].
        cbn. intros He. destruct (earlier_back _ _ _ _ _ Hi1 H HbT HpT He) as [He0 _].
        cbn in B1. destruct (B1 He0) as (pre & P1 & P2 & P3).
        exists (pre ++ [n]). split; [rewrite <- app_assoc; exact P1|]. split.
        -- intros Hin. apply in_app_or in Hin. destruct Hin as [Hin|[Hin|[]]]; [contradiction|congruence].
        -- intros d Hd Hed. rewrite Hck. destruct (earlier_back _ _ _ _ _ Hi1 H HbT HpT Hed) as [Hed0 _].
           apply in_app_or in Hd. destruct Hd as [Hd|[<-|[]]]; [apply P3; assumption|]. apply Hdrop. assumption.
      * intros X HX. destruct (C X HX) as [Hc|(sq0 & rest0 & [Hin|Hin] & Hlast)].
        -- left. eapply closed_mono; eassumption.
        -- inversion Hin; subst sq0 rest0. right. exists sq, l0. split; [left; reflexivity|assumption].
        -- right. exists sq0, rest0. split; [right; assumption|assumption].
    + (* drop a dependency that is already checked *)
      assert (Hdrop : earlier s T n -> In n (checked (tasks s T))) by (intros _; apply memb_In; assumption).
      destruct Ipc as (A & B & C). inversion B as [|fr frs B1 B2]; subst.
      assert (Hinc : incl (checked (tasks s T)) (checked (tasks s' T))) by (rewrite Hck; apply incl_refl).
      specialize (Hfr _ _ eq_refl). inversion Hfr as [|fr frs F1 F2]; subst.
      assert (HnT : n <> T).
      { intros ->. apply frame_ok_In in F1. apply memb_In in F1. congruence. }
      split; [assumption|]. split.
      * constructor; [|eapply Forall_impl; [|exact B2]; intros fr; apply (frame_k_mono _ _ _ _ _ Hi1 H HbT HpT Hinc)].
        cbn. intros He. destruct (earlier_back _ _ _ _ _ Hi1 H HbT HpT He) as [He0 _].
        cbn in B1. destruct (B1 He0) as (pre & P1 & P2 & P3).
        exists (pre ++ [n]). split; [rewrite <- app_assoc; exact P1|]. split.
        -- intros Hin. apply in_app_or in Hin. destruct Hin as [Hin|[Hin|[]]]; [contradiction|congruence].
        -- intros d Hd Hed. rewrite Hck. destruct (earlier_back _ _ _ _ _ Hi1 H HbT HpT Hed) as [Hed0 _].
           apply in_app_or in Hd. destruct Hd as [Hd|[<-|[]]]; [apply P3; assumption|]. apply Hdrop. assumption.
      * intros X HX. destruct (C X HX) as [Hc|(sq0 & rest0 & [Hin|Hin] & Hlast)].
        -- left. eapply closed_mono; eassumption.
        -- inversion Hin; subst sq0 rest0. right. exists sq, l0. split; [left; reflexivity|assumption].
        -- right. exists sq0, rest0. split; [right; assumption|assumption].
    + (* push a frame for a dependency seen for the first time *)
      destruct Ipc as (A & B & C). inversion B as [|fr frs B1 B2]; subst.
      assert (Hinc : incl (checked (tasks s T)) (checked (tasks s' T)))
        by (rewrite Hself; cbn; intros x Hx; right; assumption).
      assert (Hck' : checked (tasks s' T) = n :: checked (tasks s T)) by (rewrite Hself; reflexivity).
      specialize (Hfr _ _ eq_refl). inversion Hfr as [|fr frs F1 F2]; subst.
      assert (HnT : n <> T).
      { intros ->. apply frame_ok_In in F1. apply memb_In in F1. congruence. }
      split; [intros x Hx; right; apply A; assumption|]. split.
      * constructor; [|constructor].
        -- cbn. rewrite last_last. intros [Hbn _].
           destruct (Hoth n HnT Hbn) as [Hbn0 _]. unfold get_blocked. unfold bl in Hbn0. rewrite Hbn0.
           exists []. repeat split; auto. intros d [].
        -- cbn. intros He. destruct (earlier_back _ _ _ _ _ Hi1 H HbT HpT He) as [He0 _].
           cbn in B1. destruct (B1 He0) as (pre & P1 & P2 & P3).
           exists (pre ++ [n]). split; [rewrite <- app_assoc; exact P1|]. split.
           ++ intros Hin. apply in_app_or in Hin. destruct Hin as [Hin|[Hin|[]]]; [contradiction|congruence].
           ++ intros d Hd Hed. rewrite Hck'. destruct (earlier_back _ _ _ _ _ Hi1 H HbT HpT Hed) as [Hed0 _].
              apply in_app_or in Hd. destruct Hd as [Hd|[<-|[]]]; [right; apply P3; assumption|left; reflexivity].
        -- eapply Forall_impl; [|exact B2]. intros fr. apply (frame_k_mono _ _ _ _ _ Hi1 H HbT HpT Hinc).
      * intros X [<-|HX].
        -- right. exists (sq ++ [n]), (get_blocked g s n). split; [left; reflexivity|apply last_last].
        -- destruct (C X HX) as [Hc|(sq0 & rest0 & [Hin|Hin] & Hlast)].
           ++ left. eapply closed_mono; eassumption.
           ++ inversion Hin; subst sq0 rest0. right. exists sq, l0. split; [right; left; reflexivity|assumption].
           ++ right. exists sq0, rest0. split; [right; right; assumption|assumption].
    + destruct Ipc as [A B]. split; [assumption|]. eapply all_closed_mono; eassumption.
    + destruct Ipc as [A B]. split; [assumption|]. eapply all_closed_mono; eassumption.
    + destruct Ipc as [A B]. split; [assumption|]. eapply all_closed_mono; eassumption.
  - (* T is never in its own checked set *)
    clear Htk. revert Hself. local_cases Hl; intros Hself; rewrite Hself; cbn [checked set_pc set_pc_checked]; try assumption.
    + intros [Hn|Hin]; [|contradiction]. destruct Hpc as (d0 & Hd0 & _ & HnT). rewrite Heqo in Hd0.
      inversion Hd0; subst d0. congruence.
    + intros [Hn|Hin]; [|contradiction]. subst n.
      specialize (Hfr _ _ eq_refl). inversion Hfr as [|fr frs F1 F2]; subst.
      apply frame_ok_In in F1. apply memb_In in F1. congruence.
  - (* dependencies have results once the loop is over *)
    clear Htk. revert Hself. unfold inv3_pc in Ipc.
    local_cases Hl; intros Hself; rewrite Hself; cbn [tpc set_pc set_pc_checked deps_created_pc]; try discriminate;
      intros _ d Hd; try (apply Hcr; apply Ideps; [reflexivity|assumption]).
    + destruct Hd.
    + destruct Ipc as [A _]. apply nth_error_None in Heqo. rewrite firstn_all2 in A by assumption.
      apply Hcr. apply (Hchk d). apply A. assumption.
Qed.

Lemma holder_step s f s' h : inv1 g s -> step g s f = Some s' ->
  permits s' = 0 -> (permits s = 0 -> holder (tpc (tasks s h)) = true) ->
  exists h', holder (tpc (tasks s' h')) = true.
Proof.
  intros Hi1 H Hp0 Hh.
  destruct (step_spec g _ _ _ H) as (t' & cr & pe & tick & Hl & Htk & _ & Hpe).
  assert (Hself : tasks s' f = t') by (rewrite Htk; apply upd_same).
  destruct pe.
  - (* acquire: the stepping task now holds a permit *)
    exists f. rewrite Hself. clear Htk Hself. local_cases Hl; reflexivity.
  - lia.
  - rewrite Hp0 in Hpe. symmetry in Hpe. specialize (Hh Hpe).
    destruct (Nat.eq_dec h f) as [->|Hhf].
    + exists f. rewrite Hself. clear Htk Hself. local_cases Hl; cbn in Hh; try discriminate; try reflexivity.
    + exists h. destruct (step_other g _ _ _ h H Hhf) as [E|(E & _)]; [now rewrite E|].
      rewrite E in Hh. discriminate.
Qed.

Lemma inv3_step s f s' : inv1 g s -> inv2 g req s -> inv3 s -> step g s f = Some s' -> inv3 s'.
Proof.
  intros Hi1 Hi2 Hi3 H. split.
  - intros T. destruct (Nat.eq_dec T f) as [->|HT].
    + eapply inv3_step_self; eassumption.
    + eapply inv3_step_other; eassumption.
  - intros Hp0. destruct Hi3 as [_ Hsem].
    destruct (Nat.eq_dec (permits s) 0) as [Hz|Hnz].
    + destruct (Hsem Hz) as (h & Hh). eapply (holder_step _ _ _ h); try eassumption. auto.
    + eapply (holder_step _ _ _ 0); try eassumption. intros; contradiction.
Qed.

Lemma reach_inv3 s : reach s -> inv1 g s /\ inv2 g req s /\ inv3 s.
Proof.
  intros H. induction H as [|s f s' Hr (IH1 & IH2 & IH3) Hs].
  - split; [apply inv1_init; assumption|]. split; [apply inv2_init|apply inv3_init].
  - split; [eapply inv1_step; eassumption|]. split; [eapply inv2_step; eassumption|eapply inv3_step; eassumption].
Qed.

(* ---- no set of tasks can wait on each other around published import edges ---- *)
Definition afterloop (p : pc) : bool :=
  match p with PRelease | PWait _ | PDone (Some (FDep _)) => true | _ => false end.

Lemma argmax (h : nat -> nat) (C : list nat) : C <> [] -> exists T, In T C /\ forall x, In x C -> h x <= h T.
Proof.
  induction C as [|a C IH]; [congruence|]. intros _. destruct C as [|b C].
  - exists a. split; [left; reflexivity|]. intros x [<-|[]]. lia.
  - destruct (IH ltac:(discriminate)) as (T & HT & Hmax).
    destruct (le_lt_dec (h a) (h T)).
    + exists T. split; [right; assumption|]. intros x [<-|Hx]; [assumption|apply Hmax; assumption].
    + exists a. split; [left; reflexivity|]. intros x [<-|Hx]; [lia|]. specialize (Hmax x Hx). lia.
Qed.

Lemma filter_len_le {A} (p : A -> bool) (l : list A) : length (filter p l) <= length l.
Proof. induction l as [|a l IH]; cbn; [lia|]. destruct (p a); cbn; lia. Qed.

Lemma filter_length_lt {A} (p : A -> bool) (l : list A) x : In x l -> p x = false ->
  length (filter p l) < length l.
Proof.
  induction l as [|a l IH]; intros Hin Hp; [destruct Hin|]. cbn.
  destruct Hin as [->|Hin].
  - rewrite Hp. pose proof (filter_len_le p l). lia.
  - specialize (IH Hin Hp). destruct (p a); cbn; lia.
Qed.

Lemma no_stuck_set s : inv1 g s -> inv3 s ->
  forall n C, length C <= n -> C <> [] ->
  (forall x, In x C -> afterloop (tpc (tasks s x)) = true /\ exists y, In y C /\ In y (imports g x)) ->
  False.
Proof.
  intros Hi1 [Ht3 _]. pose proof Hi1 as [Ht1 Hdist].
  induction n as [|n IH]; intros C Hlen Hne Hst.
  - destruct C; [congruence|cbn in Hlen; lia].
  - destruct (argmax (pt s) C Hne) as (T & HTC & Hmax).
    destruct (Hst T HTC) as (HaT & y0 & Hy0C & Hy0).
    (* what T knows after its loop *)
    assert (HT : incl (imports g T) (checked (tasks s T)) /\ all_closed s T).
    { pose proof (i3_pc _ _ (Ht3 T)) as Hpc. unfold inv3_pc in Hpc.
      destruct (tpc (tasks s T)) as [| | | |i|i|i st| |i| | | |[[| | |sq d|d]|]]; try discriminate; assumption. }
    destruct HT as [Hdeps Hclosed].
    assert (Hbl : forall x, In x C -> bl s x = true).
    { intros x Hx. destruct (Hst x Hx) as (Ha & _). unfold bl. rewrite (i1_blocked _ _ _ (Ht1 x)).
      destruct (tpc (tasks s x)) as [| | | |i|i|i st| |i| | | |[[| | |sq d|d]|]]; try discriminate; reflexivity. }
    assert (Hearlier : forall x, In x C -> x <> T -> earlier s T x).
    { intros x Hx HxT. split; [apply Hbl; assumption|].
      specialize (Hmax x Hx). pose proof (Hdist x T HxT (Hbl x Hx) (Hbl T HTC)). unfold pt in *. lia. }
    set (p := fun x => memb x (checked (tasks s T))).
    apply (IH (filter p C)).
    + pose proof (filter_length_lt p C T HTC) as Hlt.
      assert (p T = false) by (apply memb_false; apply (i3_self _ _ (Ht3 T))). specialize (Hlt H). lia.
    + intros Hnil. assert (In y0 (filter p C)) as Hin; [|rewrite Hnil in Hin; destruct Hin].
      apply filter_In. split; [assumption|]. apply memb_In. apply Hdeps. assumption.
    + intros x Hx. apply filter_In in Hx. destruct Hx as [HxC Hpx]. apply memb_In in Hpx.
      destruct (Hst x HxC) as (Hax & y & HyC & Hyx). split; [assumption|].
      assert (HxT : x <> T) by (intros ->; apply (i3_self _ _ (Ht3 T)); assumption).
      destruct (Hclosed x Hpx (Hearlier x HxC HxT)) as [HnT Hcl].
      assert (HyT : y <> T) by (intros ->; contradiction).
      exists y. split; [|assumption]. apply filter_In. split; [assumption|].
      apply memb_In. apply Hcl; [assumption|]. apply Hearlier; assumption.
Qed.

(* a task that holds a permit can always take its next step *)
Lemma holder_enabled s h : inv1 g s -> holder (tpc (tasks s h)) = true -> exists s', step g s h = Some s'.
Proof.
  intros [Ht1 _] Hh. pose proof (i1_pc _ _ _ (Ht1 h)) as Hpc.
  unfold step, step_local.
  destruct (tpc (tasks s h)) as [| | | |i|i|i st| |i| | | |r] eqn:Epc; try discriminate.
  - destruct (rres g h); eauto.
  - eauto.
  - destruct (nth_error (imports g h) i); [destruct (Nat.eqb n h)|]; eauto.
  - destruct Hpc as (d & Hd & _). rewrite Hd. destruct (memb d (checked (tasks s h))); eauto.
  - destruct st as [|[sq [|d rest]] st']; eauto.
    destruct (memb d sq); eauto. destruct (negb (created s d)); eauto.
    destruct (memb d (checked (tasks s h))); eauto.
  - eauto.
  - eauto.
Qed.

Lemma forallb_false_ex {A} (p : A -> bool) l : forallb p l = false -> exists x, In x l /\ p x = false.
Proof.
  induction l as [|a l IH]; [discriminate|]. cbn. destruct (p a) eqn:E.
  - intros H. destruct (IH H) as (x & A1 & A2). exists x. auto.
  - intros _. exists a. auto.
Qed.

(* ---- deadlock freedom: in every reachable state that is not final some task can step ---- *)
Theorem no_deadlock s : reach s -> final g s = false -> exists f s', step g s f = Some s'.
Proof.
  intros Hr Hnf. destruct (reach_inv3 _ Hr) as (Hi1 & Hi2 & Hi3).
  pose proof Hi1 as [Ht1 _]. pose proof Hi3 as [Ht3 Hsem].
  destruct (existsb (fun f => match step g s f with Some _ => true | None => false end)
                    (seq 0 (nfiles g))) eqn:E.
  - apply existsb_exists in E. destruct E as (f & _ & Hf). destruct (step g s f) as [s'|] eqn:Es; [exists f, s'; exact Es|discriminate].
  - exfalso.
    assert (Hnone : forall f, f < nfiles g -> step g s f = None).
    { intros f Hf. destruct (step g s f) eqn:Es; [|reflexivity].
      assert (existsb (fun f => match step g s f with Some _ => true | None => false end)
                      (seq 0 (nfiles g)) = true); [|congruence].
      apply existsb_exists. exists f. split; [apply in_seq; lia|]. rewrite Es. reflexivity. }
    assert (Hlt : forall f, created s f = true -> f < nfiles g).
    { intros f Hc. destruct (le_lt_dec (nfiles g) f) as [Hle|]; [|assumption].
      apply (i1_out _ _ _ (Ht1 f)) in Hle. unfold created in Hc. rewrite Hle in Hc. discriminate. }
    assert (Hnoholder : forall h, holder (tpc (tasks s h)) = true -> False).
    { intros h Hh. destruct (holder_enabled s h Hi1 Hh) as (s' & Hs').
      rewrite Hnone in Hs'; [discriminate|]. apply Hlt. unfold created.
      destruct (tpc (tasks s h)); try discriminate; reflexivity. }
    assert (Hperm : permits s <> 0).
    { intros Hz. destruct (Hsem Hz) as (h & Hh). eapply Hnoholder; eassumption. }
    set (C := filter (fun f => negb (is_done (tpc (tasks s f)))) (seq 0 (nfiles g))).
    apply (no_stuck_set s Hi1 Hi3 (length C) C (le_n _)).
    + unfold final in Hnf. destruct (forallb_false_ex _ _ Hnf) as (x & Hx & Hd).
      intros Hnil. assert (In x C) as Hin; [|rewrite Hnil in Hin; destruct Hin].
      apply filter_In. split; [assumption|]. rewrite Hd. reflexivity.
    + intros x Hx. apply filter_In in Hx. destruct Hx as [Hxn Hnd]. apply in_seq in Hxn.
      pose proof (Hnone x ltac:(lia)) as Hsx. unfold step, step_local in Hsx.
      apply negb_true_iff in Hnd.
      destruct (tpc (tasks s x)) as [| | | |i|i|i st| |i| | | |r] eqn:Epc; try discriminate;
        try (exfalso; apply (Hnoholder x); rewrite Epc; reflexivity).
      * destruct (permits s); [congruence|discriminate].
      * (* waiting on a dependency that is not ready *)
        split; [reflexivity|].
        destruct (nth_error (imports g x) i) as [d|] eqn:Ed; [|discriminate].
        exists d. assert (Hdin : In d (imports g x)) by (eapply nth_error_In; eassumption).
        split; [|assumption]. apply filter_In. split.
        -- apply in_seq. destruct (wfg _ _ Hdin). lia.
        -- pose proof (i3_deps _ _ (Ht3 x)) as Hdc. rewrite Epc in Hdc. specialize (Hdc eq_refl d Hdin).
           unfold created in Hdc. destruct (tpc (tasks s d)) as [| | | | | | | | | | | |[e|]]; try reflexivity; discriminate.
      * destruct (permits s); [congruence|discriminate].
Qed.

(* ---- completeness of the cycle report ---- *)
Notation gpath := (gpath g).
Notation reachable_from_req := (reachable_from_req g req).

(* the nodes of a path, each with its successor on the path *)
Lemma gpath_nodes a b : gpath a b ->
  exists l, (forall x, In x (a :: l) -> exists y, In y (l ++ [b]) /\ In y (imports g x)) /\
            (forall x, In x l -> gpath a x /\ gpath x b).
Proof.
  induction 1 as [a b Hab|a b c Hab Hbc IH].
  - exists []. split; [|intros x []]. intros x [<-|[]]. exists b. split; [left; reflexivity|assumption].
  - destruct IH as (l & Hs & Hp). exists (b :: l). split.
    + intros x [<-|Hx].
      * exists b. split; [left; reflexivity|assumption].
      * destruct (Hs x Hx) as (y & Hy & Hyx). exists y. split; [right; assumption|assumption].
    + intros x [<-|Hx].
      * split; [apply gp_one; assumption|assumption].
      * destruct (Hp x Hx) as [A B]. split; [eapply gp_step; eassumption|assumption].
Qed.

Lemma reach_closed a b : reachable_from_req a -> gpath a b -> reachable_from_req b.
Proof.
  intros [Ha|(r & Hr & Hp)] Hab; right.
  - exists a. auto.
  - exists r. split; [assumption|]. eapply gpath_trans; eassumption.
Qed.

Theorem cycle_report_complete s : reach s -> final g s = true ->
  (forall x, reachable_from_req x -> rres g x = ROk) ->
  (exists c, reachable_from_req c /\ gpath c c) ->
  cycle_reported g s = true.
Proof.
  intros Hr Hfin Hres (c & Hcr & Hcc).
  destruct (reach_inv3 _ Hr) as (Hi1 & Hi2 & Hi3).
  pose proof Hi1 as [Ht1 _]. pose proof Hi2 as [Ht2 [Hrq _]]. pose proof Hi3 as [Ht3 _].
  destruct (cycle_reported g s) eqn:Ecr; [reflexivity|exfalso].
  assert (Hlt : forall f, created s f = true -> f < nfiles g).
  { intros f Hc. destruct (le_lt_dec (nfiles g) f) as [Hle|]; [|assumption].
    apply (i1_out _ _ _ (Ht1 f)) in Hle. unfold created in Hc. rewrite Hle in Hc. discriminate. }
  assert (Hnocyc : forall f sq d, tpc (tasks s f) <> PDone (Some (FCycle sq d))).
  { intros f sq d Hf.
    assert (cycle_reported g s = true); [|congruence].
    apply existsb_exists. exists f. split; [|rewrite Hf; reflexivity].
    apply in_seq. assert (created s f = true) by (unfold created; rewrite Hf; reflexivity).
    apply Hlt in H. lia. }
  (* a finished resolvable task that did not report a cycle created all its dependencies *)
  assert (Hnext : forall a b, reachable_from_req a -> created s a = true -> In b (imports g a) ->
                  created s b = true).
  { intros a b Hra Hca Hab.
    destruct (final_done g s a Hfin (Hlt a Hca) Hca) as (r & Hd).
    apply (i3_deps _ _ (Ht3 a)); [|assumption]. rewrite Hd.
    pose proof (i2_res _ _ _ _ (Ht2 a)) as Hrs. rewrite Hd in Hrs. pose proof (Hres a Hra) as Hok.
    destruct r as [[| | |sq d|d]|]; try reflexivity; try congruence.
    exfalso. eapply Hnocyc; eassumption. }
  assert (Hall : forall a b, gpath a b -> reachable_from_req a -> created s a = true -> created s b = true).
  { induction 1 as [a b Hab|a b c' Hab Hbc IH]; intros Hra Hca.
    - eapply Hnext; eassumption.
    - apply IH; [eapply reach_closed; [eassumption|apply gp_one; assumption]|eapply Hnext; eassumption]. }
  assert (Hcre : forall x, reachable_from_req x -> created s x = true).
  { intros x [Hx|(r & Hr' & Hp)]; [apply Hrq; assumption|].
    apply (Hall r x Hp); [left; assumption|apply Hrq; assumption]. }
  destruct (gpath_nodes c c Hcc) as (l & Hsucc & Hon).
  apply (no_stuck_set s Hi1 Hi3 (length (c :: l)) (c :: l) (le_n _)); [discriminate|].
  intros x Hx.
  assert (Hxr : reachable_from_req x /\ gpath x x).
  { destruct Hx as [<-|Hx]; [auto|]. destruct (Hon x Hx) as [A B].
    split; [eapply reach_closed; eassumption|eapply gpath_trans; eassumption]. }
  destruct Hxr as [Hxr Hxx].
  destruct (Hsucc x Hx) as (y & Hy & Hyx).
  assert (HyC : In y (c :: l)).
  { apply in_app_or in Hy. destruct Hy as [Hy|[<-|[]]]; [right; assumption|left; reflexivity]. }
  split; [|exists y; auto].
  pose proof (Hcre x Hxr) as Hcx.
  destruct (final_done g s x Hfin (Hlt x Hcx) Hcx) as (r & Hd). rewrite Hd.
  pose proof (i2_res _ _ _ _ (Ht2 x)) as Hrs. rewrite Hd in Hrs. pose proof (Hres x Hxr) as Hok.
  destruct r as [[| | |sq d|d]|]; try reflexivity; try congruence.
  - (* link failure: all dependencies succeeded, but y is on a cycle *)
    exfalso. pose proof (i2_link _ _ _ _ (Ht2 x) Hd y Hyx) as Hyok.
    assert (gpath y y).
    { destruct HyC as [<-|HyC]; [assumption|]. destruct (Hon y HyC) as [A B]. eapply gpath_trans; eassumption. }
    destruct (i2_ok _ _ _ _ (Ht2 y) Hyok) as (_ & _ & _ & Hn). contradiction.
  - exfalso. eapply Hnocyc; eassumption.
  - exfalso. destruct (i2_ok _ _ _ _ (Ht2 x) Hd) as (_ & _ & _ & Hn). contradiction.
Qed.

End Exec3.
