(* Proofs about the char6 model (Model/Char6.v): round trip, injectivity, the exact image,
   onto the image, and the characterisation of the inline domain. *)
From Coq Require Import List NArith ZArith Bool Lia.
From PV Require Import Common.Bytes Common.Corr Model.Char6.
Import ListNotations.
Open Scope Z_scope.

(* ---- sextet level: an id as a stack of base-64 digits above an all-ones word ---- *)
Fixpoint pack (xs : list Z) : Z :=
  match xs with
  | [] => -1
  | x :: r => x + 64 * pack r
  end.

Fixpoint unpack (n : nat) (v : Z) : list Z :=
  match n with
  | O => []
  | S k => Z.land v 63 :: unpack k (Z.shiftr v 6)
  end.

Definition sextet (x : Z) : Prop := 0 <= x < 64.

Lemma wrap32_id z : int32 z -> wrap32 z = z.
Proof. unfold int32, wrap32. intros H. rewrite Z.mod_small; lia. Qed.

Lemma land_shift_low p x : sextet x -> Z.land (p * 64) x = 0.
Proof.
  intros Hx. apply Z.bits_inj'. intros n Hn.
  rewrite Z.land_spec, Z.bits_0.
  destruct (Z.ltb_spec n 6) as [Hlt|Hge].
  - replace (p * 64) with (Z.shiftl p 6) by (rewrite Z.shiftl_mul_pow2 by lia; reflexivity).
    rewrite Z.shiftl_spec_low by lia. reflexivity.
  - replace x with (x mod 2 ^ 6) by (apply Z.mod_small; unfold sextet in Hx; simpl; lia).
    rewrite Z.mod_pow2_bits_high by lia. apply andb_false_r.
Qed.

Lemma lor_add p x : sextet x -> Z.lor (p * 64) x = p * 64 + x.
Proof.
  intros Hx. pose proof (land_shift_low p x Hx) as H0.
  rewrite <- (Z.lxor_lor _ _ H0). symmetry. apply Z.add_nocarry_lxor. exact H0.
Qed.

Lemma land63 v : Z.land v 63 = v mod 64.
Proof. change 63 with (Z.ones 6). rewrite Z.land_ones by lia. reflexivity. Qed.

Lemma shiftr6 v : Z.shiftr v 6 = v / 64.
Proof. rewrite Z.shiftr_div_pow2 by lia. reflexivity. Qed.

Lemma land_low p x : sextet x -> Z.land (x + 64 * p) 63 = x.
Proof.
  intros Hx. rewrite land63. unfold sextet in Hx.
  symmetry. apply Z.mod_unique with p; lia.
Qed.

Lemma shiftr_low p x : sextet x -> Z.shiftr (x + 64 * p) 6 = p.
Proof.
  intros Hx. rewrite shiftr6. unfold sextet in Hx.
  symmetry. apply Z.div_unique with x; lia.
Qed.

Lemma land_sextet v : sextet (Z.land v 63).
Proof. rewrite land63. unfold sextet. apply Z.mod_pos_bound. lia. Qed.

Lemma pack_le xs : Forall sextet xs -> pack xs <= -1.
Proof.
  induction 1 as [|x r Hx _ IH]; cbn [pack]; unfold sextet in *; lia.
Qed.

Lemma pack_bound5 xs : Forall sextet xs -> (length xs <= 5)%nat -> -1073741824 <= pack xs.
Proof.
  intros HF HL.
  destruct xs as [|a [|b [|c [|d [|e [|f r]]]]]]; cbn [length] in HL; try lia;
    repeat match goal with H : Forall _ (_ :: _) |- _ => inversion H; clear H; subst end;
    unfold sextet in *; cbn [pack]; lia.
Qed.

Lemma pack_bound4 xs : Forall sextet xs -> (length xs <= 4)%nat -> -16777216 <= pack xs.
Proof.
  intros HF HL.
  destruct xs as [|a [|b [|c [|d [|e r]]]]]; cbn [length] in HL; try lia;
    repeat match goal with H : Forall _ (_ :: _) |- _ => inversion H; clear H; subst end;
    unfold sextet in *; cbn [pack]; lia.
Qed.

Lemma unpack_pack n : forall xs, Forall sextet xs ->
  unpack n (pack xs) = firstn n xs ++ repeat 63 (n - length xs).
Proof.
  induction n as [|n IH]; intros xs HF.
  - reflexivity.
  - destruct xs as [|x r].
    + cbn [unpack pack firstn length app Nat.sub repeat].
      change (Z.land (-1) 63) with 63. change (Z.shiftr (-1) 6) with (pack []).
      rewrite IH by constructor. rewrite firstn_nil. cbn [app length]. rewrite Nat.sub_0_r. reflexivity.
    + inversion HF as [|? ? Hx Hr]; subst.
      cbn [unpack pack firstn length Nat.sub]. rewrite land_low, shiftr_low by assumption.
      rewrite IH by assumption. reflexivity.
Qed.

Lemma unpack_sextets n : forall v, Forall sextet (unpack n v).
Proof. induction n as [|n IH]; intros v; cbn [unpack]; constructor; [apply land_sextet|apply IH]. Qed.

Lemma unpack_length n : forall v, length (unpack n v) = n.
Proof. induction n as [|n IH]; intros v; cbn [unpack length]; [reflexivity|now rewrite IH]. Qed.

Lemma pack_unpack n : forall v, - (64 ^ Z.of_nat n) <= v < 0 -> pack (unpack n v) = v.
Proof.
  induction n as [|n IH]; intros v Hv.
  - cbn [unpack pack]. change (64 ^ Z.of_nat 0) with 1 in Hv. lia.
  - cbn [unpack pack]. rewrite land63, shiftr6.
    rewrite Nat2Z.inj_succ, Z.pow_succ_r in Hv by lia.
    pose proof (Z.div_mod v 64 ltac:(lia)) as Hdm.
    pose proof (Z.mod_pos_bound v 64 ltac:(lia)) as Hm.
    assert (HP : 0 < 64 ^ Z.of_nat n) by (apply Z.pow_pos_nonneg; lia).
    rewrite IH by lia. lia.
Qed.

Lemma pack_all63 m : pack (repeat 63 m) = -1.
Proof. induction m as [|m IH]; cbn [repeat pack]; [reflexivity|rewrite IH; reflexivity]. Qed.

Lemma pack_app_63 ys m : pack (ys ++ repeat 63 m) = pack ys.
Proof. induction ys as [|y r IH]; cbn [app pack]; [apply pack_all63|now rewrite IH]. Qed.

Lemma pack_minus1 xs : Forall sextet xs -> pack xs = -1 -> Forall (fun x => x = 63) xs.
Proof.
  induction 1 as [|x r Hx Hr IH]; intros Hp; [constructor|].
  cbn [pack] in Hp. pose proof (pack_le r Hr) as Hle. unfold sextet in Hx.
  assert (x = 63 /\ pack r = -1) as [-> Hp'] by lia.
  constructor; [reflexivity|apply IH; exact Hp'].
Qed.

(* ---- the two tables ---- *)
Lemma rev_lookup_cases tbl : forall j c acc,
  rev_lookup tbl j c acc = acc \/ In c tbl.
Proof.
  induction tbl as [|b r IH]; intros j c acc; cbn [rev_lookup].
  - now left.
  - destruct (N.eqb b c) eqn:E.
    + right. left. now apply N.eqb_eq.
    + destruct (IH (j + 1) c acc) as [H|H]; [now left|right; now right].
Qed.

Lemma b2c_cases c : byte_to_char6 c = 255 \/ In c alphabet.
Proof. apply rev_lookup_cases. Qed.

Definition alpha_ok (c : N) : bool :=
  (0 <=? byte_to_char6 c) && (byte_to_char6 c <? 64) &&
  N.eqb (char6_to_byte (byte_to_char6 c)) c &&
  Bool.eqb (byte_to_char6 c =? 63) (N.eqb c dot).

Lemma alphabet_sweep : forallb alpha_ok alphabet = true.
Proof. vm_compute. reflexivity. Qed.

Lemma b2c_in_alphabet c : In c alphabet ->
  sextet (byte_to_char6 c) /\ char6_to_byte (byte_to_char6 c) = c /\
  (byte_to_char6 c = 63 <-> c = dot).
Proof.
  intros Hin. pose proof alphabet_sweep as H. rewrite forallb_forall in H.
  specialize (H c Hin). unfold alpha_ok in H.
  apply andb_prop in H. destruct H as [H H4]. apply andb_prop in H. destruct H as [H H3].
  apply andb_prop in H. destruct H as [H1 H2].
  apply Z.leb_le in H1. apply Z.ltb_lt in H2. apply N.eqb_eq in H3. apply Bool.eqb_prop in H4.
  split; [unfold sextet; lia|]. split; [exact H3|].
  rewrite <- Z.eqb_eq, <- N.eqb_eq. rewrite H4. tauto.
Qed.

Lemma b2c_valid c : byte_to_char6 c <> 255 ->
  In c alphabet /\ sextet (byte_to_char6 c) /\ char6_to_byte (byte_to_char6 c) = c /\
  (byte_to_char6 c = 63 <-> c = dot).
Proof.
  intros H. destruct (b2c_cases c) as [E|Hin]; [contradiction|].
  split; [exact Hin|]. now apply b2c_in_alphabet.
Qed.

Definition all_sextets : list Z := map Z.of_nat (seq 0 64).

Lemma in_all_sextets x : sextet x -> In x all_sextets.
Proof.
  intros H. unfold all_sextets, sextet in *. apply in_map_iff. exists (Z.to_nat x). split.
  - apply Z2Nat.id. lia.
  - apply in_seq. lia.
Qed.

Definition sextet_ok (x : Z) : bool :=
  (byte_to_char6 (char6_to_byte x) =? x) && Bool.eqb (N.eqb (char6_to_byte x) dot) (x =? 63).

Lemma sextet_sweep : forallb sextet_ok all_sextets = true.
Proof. vm_compute. reflexivity. Qed.

Lemma c2b_valid x : sextet x ->
  byte_to_char6 (char6_to_byte x) = x /\ (char6_to_byte x = dot <-> x = 63).
Proof.
  intros Hx. pose proof sextet_sweep as H. rewrite forallb_forall in H.
  specialize (H x (in_all_sextets x Hx)). unfold sextet_ok in H.
  apply andb_prop in H. destruct H as [H1 H2]. apply Z.eqb_eq in H1. apply Bool.eqb_prop in H2.
  split; [exact H1|]. rewrite <- Z.eqb_eq, <- N.eqb_eq. rewrite H2. tauto.
Qed.

(* ---- encode in terms of pack ---- *)
Definition valid_byte (c : N) : Prop := byte_to_char6 c <> 255.

Lemma encode_loop_app l1 : forall l2 v,
  encode_loop (l1 ++ l2) v =
  match encode_loop l1 v with Some v' => encode_loop l2 v' | None => None end.
Proof.
  induction l1 as [|c r IH]; intros l2 v; cbn [app encode_loop].
  - reflexivity.
  - destruct (byte_to_char6 c =? 255); [reflexivity|apply IH].
Qed.

Lemma encode_loop_valid l : forall v id, encode_loop l v = Some id -> Forall valid_byte l.
Proof.
  induction l as [|c r IH]; intros v id H; [constructor|].
  cbn [encode_loop] in H. destruct (byte_to_char6 c =? 255) eqn:E; [discriminate|].
  apply Z.eqb_neq in E. constructor; [exact E|eapply IH; exact H].
Qed.

Lemma valid_sextets s : Forall valid_byte s -> Forall sextet (map byte_to_char6 s).
Proof.
  induction 1 as [|c r Hc _ IH]; cbn [map]; constructor; [|exact IH].
  apply b2c_valid in Hc. tauto.
Qed.

Lemma encode_loop_pack s : Forall valid_byte s -> (length s <= 5)%nat ->
  encode_loop (rev s) (-1) = Some (pack (map byte_to_char6 s)).
Proof.
  induction s as [|c r IH]; intros HF HL.
  - reflexivity.
  - inversion HF as [|? ? Hc Hr]; subst. cbn [length] in HL.
    cbn [rev]. rewrite encode_loop_app, IH by (assumption || lia).
    cbn [encode_loop map pack].
    pose proof Hc as Hc'. unfold valid_byte in Hc'. apply Z.eqb_neq in Hc'. rewrite Hc'.
    apply b2c_valid in Hc. destruct Hc as (_ & Hs & _).
    pose proof (valid_sextets r Hr) as Hsx.
    pose proof (pack_le _ Hsx) as Hle.
    pose proof (pack_bound4 _ Hsx ltac:(rewrite map_length; lia)) as Hlo.
    rewrite wrap32_id by (unfold int32; lia).
    rewrite lor_add by exact Hs. f_equal. lia.
Qed.

Lemma has_suffix_dot_last s c : has_suffix_dot (s ++ [c]) = N.eqb c dot.
Proof.
  induction s as [|a r IH]; [reflexivity|].
  cbn [app]. destruct r as [|b r']; [reflexivity|].
  cbn [app] in *. exact IH.
Qed.

(* what encode s = Some id means for a non-empty s *)
Lemma encode_nonempty s id : s <> [] -> encode s = Some id ->
  (length s <= 5)%nat /\ Forall valid_byte s /\ id = pack (map byte_to_char6 s) /\
  exists s' c, s = s' ++ [c] /\ c <> dot.
Proof.
  intros Hne H. unfold encode in H. destruct s as [|a r] eqn:Es; [contradiction|]. rewrite <- Es in *.
  destruct (Nat.ltb max_inlined (length s)) eqn:EL; [discriminate|].
  destruct (has_suffix_dot s) eqn:ED; [discriminate|].
  cbn [orb] in H. apply Nat.ltb_ge in EL. unfold max_inlined in EL.
  pose proof (encode_loop_valid _ _ _ H) as HV. apply Forall_rev in HV. rewrite rev_involutive in HV.
  rewrite encode_loop_pack in H by assumption. inversion H; subst id.
  split; [exact EL|]. split; [exact HV|]. split; [reflexivity|].
  destruct (exists_last Hne) as (s' & c & E). exists s', c. split; [exact E|].
  rewrite E, has_suffix_dot_last in ED. now apply N.eqb_neq.
Qed.

Lemma encode_build s' c :
  (length (s' ++ [c]) <= 5)%nat -> Forall valid_byte (s' ++ [c]) -> c <> dot ->
  encode (s' ++ [c]) = Some (pack (map byte_to_char6 (s' ++ [c]))).
Proof.
  intros HL HV Hc. unfold encode.
  assert (EL : Nat.ltb max_inlined (length (s' ++ [c])) = false)
    by (apply Nat.ltb_ge; unfold max_inlined; lia).
  rewrite EL, has_suffix_dot_last.
  apply N.eqb_neq in Hc. rewrite Hc. cbn [orb].
  rewrite encode_loop_pack by assumption.
  destruct (s' ++ [c]) eqn:Es; [destruct s'; discriminate|reflexivity].
Qed.

(* ---- decode in terms of unpack ---- *)
Lemma decode_buf_unpack n : forall id, decode_buf n id = map char6_to_byte (unpack n id).
Proof. induction n as [|n IH]; intros id; cbn [decode_buf unpack map]; [reflexivity|now rewrite IH]. Qed.

Lemma strip_len_app n : forall l t, (n <= length l)%nat -> strip_len n (l ++ t) = strip_len n l.
Proof.
  induction n as [|n IH]; intros l t Hn; cbn [strip_len]; [reflexivity|].
  rewrite app_nth1 by lia. rewrite IH by lia. reflexivity.
Qed.

Lemma strip_len_dots s' c m : c <> dot ->
  strip_len (length (s' ++ [c]) + m) ((s' ++ [c]) ++ repeat dot m) = length (s' ++ [c]).
Proof.
  intros Hc. induction m as [|m IH].
  - cbn [repeat]. rewrite app_nil_r, Nat.add_0_r.
    rewrite app_length. cbn [length]. rewrite Nat.add_1_r. cbn [strip_len].
    rewrite nth_middle. apply N.eqb_neq in Hc. rewrite Hc. reflexivity.
  - rewrite Nat.add_succ_r. cbn [strip_len].
    replace (repeat dot (S m)) with (repeat dot m ++ [dot])
      by (symmetry; apply (repeat_cons m dot)).
    rewrite app_assoc.
    replace (length (s' ++ [c]) + m)%nat with (length ((s' ++ [c]) ++ repeat dot m))
      by (rewrite (app_length (s' ++ [c])), repeat_length; reflexivity).
    rewrite nth_middle. rewrite N.eqb_refl.
    rewrite strip_len_app by lia.
    rewrite (app_length (s' ++ [c])), repeat_length. exact IH.
Qed.

Lemma firstn_app_exact {A} (l t : list A) : firstn (length l) (l ++ t) = l.
Proof. induction l as [|a r IH]; cbn [length firstn app]; [reflexivity|now rewrite IH]. Qed.

Lemma map_c2b_b2c s : Forall valid_byte s -> map char6_to_byte (map byte_to_char6 s) = s.
Proof.
  induction 1 as [|c r Hc _ IH]; cbn [map]; [reflexivity|].
  apply b2c_valid in Hc. destruct Hc as (_ & _ & E & _). now rewrite E, IH.
Qed.

Lemma map_b2c_c2b xs : Forall sextet xs -> map byte_to_char6 (map char6_to_byte xs) = xs.
Proof.
  induction 1 as [|x r Hx _ IH]; cbn [map]; [reflexivity|].
  destruct (c2b_valid x Hx) as [E _]. now rewrite E, IH.
Qed.

Lemma map_repeat {A B} (f : A -> B) (a : A) n : map f (repeat a n) = repeat (f a) n.
Proof. induction n as [|n IH]; cbn [repeat map]; [reflexivity|now rewrite IH]. Qed.

Lemma c2b_63 : char6_to_byte 63 = dot.
Proof. reflexivity. Qed.

(* decode of a packed, dot-padded sextet string *)
Lemma decode_pack s' c :
  (length (s' ++ [c]) <= 5)%nat -> Forall valid_byte (s' ++ [c]) -> c <> dot ->
  decode (pack (map byte_to_char6 (s' ++ [c]))) = s' ++ [c].
Proof.
  intros HL HV Hc.
  pose proof (valid_sextets _ HV) as Hsx. pose proof (pack_le _ Hsx) as Hle.
  unfold decode.
  replace (pack (map byte_to_char6 (s' ++ [c])) =? 0) with false by (symmetry; apply Z.eqb_neq; lia).
  cbv zeta. rewrite decode_buf_unpack, unpack_pack by exact Hsx.
  rewrite map_length. unfold max_inlined.
  rewrite (firstn_all2 (map byte_to_char6 (s' ++ [c]))) by (rewrite map_length; exact HL).
  rewrite (map_app char6_to_byte), map_c2b_b2c by exact HV. rewrite map_repeat, c2b_63.
  assert (E5 : (5 = length (s' ++ [c]) + (5 - length (s' ++ [c])))%nat) by lia.
  rewrite E5 at 1. rewrite strip_len_dots by exact Hc.
  apply firstn_app_exact.
Qed.

(* ---- main theorems ---- *)
Lemma char6_roundtrip_lemma : forall s id, encode s = Some id -> decode id = s.
Proof.
  intros s id H. destruct s as [|a r] eqn:Es.
  - cbn in H. inversion H. reflexivity.
  - rewrite <- Es in *. assert (Hne : s <> []) by (rewrite Es; discriminate).
    destruct (encode_nonempty s id Hne H) as (HL & HV & -> & s' & c & E & Hc).
    subst s. rewrite E in *. now apply decode_pack.
Qed.

Lemma char6_injective_lemma : forall s1 s2 id, encode s1 = Some id -> encode s2 = Some id -> s1 = s2.
Proof.
  intros s1 s2 id H1 H2. apply char6_roundtrip_lemma in H1. apply char6_roundtrip_lemma in H2. congruence.
Qed.

(* the image: 0 for the empty string, otherwise 11 in the two top bits and not all ones *)
Lemma char6_image_lemma : forall s id, encode s = Some id ->
  (s = [] /\ id = 0) \/ (s <> [] /\ -1073741824 <= id <= -2).
Proof.
  intros s id H. destruct s as [|a r] eqn:Es.
  - left. cbn in H. inversion H. split; reflexivity.
  - right. rewrite <- Es in *. assert (Hne : s <> []) by (rewrite Es; discriminate).
    split; [exact Hne|].
    destruct (encode_nonempty s id Hne H) as (HL & HV & -> & s' & c & E & Hc).
    pose proof (valid_sextets s HV) as Hsx.
    pose proof (pack_le _ Hsx) as Hle.
    pose proof (pack_bound5 _ Hsx ltac:(rewrite map_length; exact HL)) as Hlo.
    assert (Hn1 : pack (map byte_to_char6 s) <> -1).
    { intros Hp. apply (pack_minus1 _ Hsx) in Hp.
      rewrite E, map_app in Hp. apply Forall_app in Hp. destruct Hp as [_ Hp].
      cbn [map] in Hp. inversion Hp as [|? ? H63 _]; subst.
      rewrite E in HV. apply Forall_app in HV. destruct HV as [_ HV]. inversion HV as [|? ? Hcv _]; subst.
      apply b2c_valid in Hcv. destruct Hcv as (_ & _ & _ & Hd). apply Hc. now apply Hd. }
    lia.
Qed.

Lemma char6_negative_nonzero_lemma : forall s id, encode s = Some id -> s <> [] -> id < 0.
Proof.
  intros s id H Hne. destruct (char6_image_lemma s id H) as [[E _]|[_ Hb]]; [contradiction|lia].
Qed.

(* trailing 63s *)
Lemma split_trailing63 (xs : list Z) :
  exists ys m, xs = ys ++ repeat 63 m /\ (ys = [] \/ exists ys' y, ys = ys' ++ [y] /\ y <> 63).
Proof.
  induction xs as [|x l IH] using rev_ind.
  - exists [], O. split; [reflexivity|now left].
  - destruct (Z.eq_dec x 63) as [->|Hx].
    + destruct IH as (ys & m & E & Hy). exists ys, (S m). split; [|exact Hy].
      rewrite E, <- app_assoc. f_equal. symmetry. apply (repeat_cons m 63).
    + exists (l ++ [x]), O. split; [cbn [repeat]; now rewrite app_nil_r|].
      right. exists l, x. split; [reflexivity|exact Hx].
Qed.

Lemma char6_onto_lemma : forall id, -1073741824 <= id <= -2 -> encode (decode id) = Some id.
Proof.
  intros id Hid.
  pose proof (unpack_sextets 5 id) as Hsx. pose proof (unpack_length 5 id) as Hlen.
  assert (Hp : pack (unpack 5 id) = id) by (apply pack_unpack; change (64 ^ Z.of_nat 5) with 1073741824; lia).
  destruct (split_trailing63 (unpack 5 id)) as (ys & m & E & Hy).
  rewrite E in Hp, Hsx, Hlen. rewrite pack_app_63 in Hp.
  apply Forall_app in Hsx. destruct Hsx as [Hys _].
  rewrite app_length, repeat_length in Hlen.
  destruct Hy as [->|(ys' & y & Ey & Hy63)].
  { cbn [pack] in Hp. lia. }
  assert (Hy6 : sextet y).
  { rewrite Ey in Hys. apply Forall_app in Hys. destruct Hys as [_ Hys]. now inversion Hys. }
  assert (Hcy : char6_to_byte y <> dot).
  { intros Hd. apply Hy63. now apply (c2b_valid y Hy6). }
  assert (HV : Forall valid_byte (map char6_to_byte ys)).
  { clear - Hys. induction Hys as [|x r Hx _ IH]; cbn [map]; constructor; [|exact IH].
    unfold valid_byte. destruct (c2b_valid x Hx) as [Eb _]. rewrite Eb. unfold sextet in Hx. lia. }
  assert (Emap : map char6_to_byte ys = map char6_to_byte ys' ++ [char6_to_byte y])
    by (rewrite Ey, map_app; reflexivity).
  assert (Edec : decode id = map char6_to_byte ys).
  { unfold decode. replace (id =? 0) with false by (symmetry; apply Z.eqb_neq; lia). cbv zeta.
    rewrite decode_buf_unpack. unfold max_inlined. rewrite E.
    rewrite map_app, map_repeat, c2b_63.
    replace 5%nat with (length (map char6_to_byte ys) + m)%nat by (rewrite map_length; exact Hlen).
    rewrite Emap.
    rewrite strip_len_dots by exact Hcy. apply firstn_app_exact. }
  rewrite Edec, Emap. rewrite encode_build.
  - rewrite <- Emap, map_b2c_c2b by exact Hys. now rewrite Hp.
  - rewrite <- Emap, map_length. lia.
  - rewrite <- Emap. exact HV.
  - exact Hcy.
Qed.

(* the inline domain *)
Definition inline_domain (s : str) : Prop :=
  s = [] \/ ((length s <= 5)%nat /\ has_suffix_dot s = false /\ Forall (fun c => In c alphabet) s).

Lemma char6_encodable_iff_lemma : forall s, encode s <> None <-> inline_domain s.
Proof.
  intros s. split.
  - intros H. destruct (encode s) as [id|] eqn:E; [|contradiction].
    destruct s as [|a r] eqn:Es; [now left|]. rewrite <- Es in *.
    assert (Hne : s <> []) by (rewrite Es; discriminate).
    destruct (encode_nonempty s id Hne E) as (HL & HV & _ & s' & c & E' & Hc).
    right. split; [exact HL|]. split.
    + rewrite E', has_suffix_dot_last. now apply N.eqb_neq.
    + eapply Forall_impl; [|exact HV]. intros x Hx. apply b2c_valid in Hx. tauto.
  - intros [->|(HL & HD & HA)]; [cbn; discriminate|].
    destruct s as [|a r] eqn:Es; [cbn; discriminate|]. rewrite <- Es in *.
    assert (Hne : s <> []) by (rewrite Es; discriminate).
    destruct (exists_last Hne) as (s' & c & E').
    assert (HV : Forall valid_byte s).
    { eapply Forall_impl; [|exact HA]. intros x Hx. unfold valid_byte.
      destruct (b2c_in_alphabet x Hx) as (Hs & _). unfold sextet in Hs. lia. }
    rewrite E' in *. rewrite has_suffix_dot_last in HD. apply N.eqb_neq in HD.
    rewrite encode_build by assumption. discriminate.
Qed.

Lemma encode_int32 s id : encode s = Some id -> int32 id.
Proof.
  intros H. destruct (char6_image_lemma s id H) as [[_ ->]|[_ Hb]]; unfold int32; lia.
Qed.
