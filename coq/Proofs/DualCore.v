(* Proofs about Model/DualCore.v: the comparison is an equivalence, it is equality of the
   projections, and the projection changes nothing but the three listed things. *)
From Coq Require Import List NArith ZArith Bool Lia.
Import ListNotations.
From PV Require Import Model.DualCore.
Open Scope Z_scope.

Section PInd.
  Variable P : ptree -> Prop.
  Hypothesis Hleaf : forall k a b, P (PLeaf k a b).
  Hypothesis Hnode : forall fs, Forall (fun e => P (snd e)) fs -> P (PNode fs).
  Fixpoint ptree_ind2 (t : ptree) : P t :=
    match t with
    | PLeaf k a b => Hleaf k a b
    | PNode fs =>
      Hnode fs ((fix go (l : list (N * bool * ptree)) : Forall (fun e => P (snd e)) l :=
                   match l with
                   | [] => Forall_nil _
                   | e :: r => Forall_cons e (ptree_ind2 (snd e)) (go r)
                   end) fs)
    end.
End PInd.

Definition ent (e : N * bool * ptree) : N * bool * ptree := (fst (fst e), false, erase (snd e)).

Lemma erase_node fs : erase (PNode fs) = PNode (map ent fs).
Proof. reflexivity. Qed.

Fixpoint go (l m : list (N * bool * ptree)) : bool :=
  match l, m with
  | [], [] => true
  | e :: l', d :: m' => N.eqb (fst (fst e)) (fst (fst d)) && teq (snd e) (snd d) && go l' m'
  | _, _ => false
  end.

Lemma teq_node fx fy : teq (PNode fx) (PNode fy) = go fx fy.
Proof.
  cbn [teq]. revert fy. induction fx as [|e l IH]; intros [|d m]; cbn [go]; reflexivity.
Qed.

Lemma teq_iff_lemma : forall x y, teq x y = true <-> erase x = erase y.
Proof.
  induction x as [k a b|fx IH] using ptree_ind2; intros [k' a' b'|fy].
  - cbn [teq erase]. rewrite !andb_true_iff, N.eqb_eq, !Z.eqb_eq. split.
    + intros [[-> ->] ->]. reflexivity.
    + intros H. injection H as -> -> ->. auto.
  - cbn [teq erase]. split; discriminate.
  - cbn [teq erase]. split; discriminate.
  - rewrite teq_node, !erase_node. revert fy. induction IH as [|e l He Hl IHl]; intros [|d m]; cbn [go map].
    + split; reflexivity.
    + split; discriminate.
    + split; discriminate.
    + rewrite !andb_true_iff, N.eqb_eq, He, IHl. split.
      * intros [[H1 H2] H3]. injection H3 as H3. rewrite H3. unfold ent. now rewrite H1, H2.
      * intros H. unfold ent in H at 1 2. inversion H. repeat split; congruence.
Qed.

Theorem desc_eq_iff_projection_eq_lemma x y : desc_eq x y = true <-> proj x = proj y.
Proof. unfold desc_eq, proj. apply teq_iff_lemma. Qed.

Theorem desc_eq_refl_lemma x : desc_eq x x = true.
Proof. now apply desc_eq_iff_projection_eq_lemma. Qed.

Theorem desc_eq_sym_lemma x y : desc_eq x y = true -> desc_eq y x = true.
Proof. rewrite !desc_eq_iff_projection_eq_lemma. congruence. Qed.

Theorem desc_eq_trans_lemma x y z : desc_eq x y = true -> desc_eq y z = true -> desc_eq x z = true.
Proof. rewrite !desc_eq_iff_projection_eq_lemma. congruence. Qed.

(* ---- the projection changes nothing else ---- *)
Lemma canon_idem k a : canon k (canon k a) = canon k a.
Proof.
  unfold canon. destruct (N.eqb k 1); [|reflexivity].
  destruct (is_nan_bits a) eqn:E; [reflexivity|]. now rewrite E.
Qed.

Lemma erase_plain : forall t, plain t = true -> erase t = t.
Proof.
  induction t as [k a b|fs IH] using ptree_ind2; cbn [plain erase]; intros H.
  - apply Z.eqb_eq in H. now rewrite H.
  - f_equal. induction IH as [|e l He Hl IHl]; [reflexivity|]. cbn [forallb map] in *.
    apply andb_true_iff in H. destruct H as [H1 H2]. apply andb_true_iff in H1. destruct H1 as [Hs Hp].
    rewrite (IHl H2), (He Hp). destruct e as [[n s] c]. cbn [fst snd] in *.
    apply negb_true_iff in Hs. now subst s.
Qed.

Lemma plain_erase : forall t, plain (erase t) = true.
Proof.
  induction t as [k a b|fs IH] using ptree_ind2; cbn [plain erase].
  - rewrite canon_idem. apply Z.eqb_refl.
  - induction IH as [|e l He Hl IHl]; [reflexivity|]. cbn [map forallb fst snd negb andb]. now rewrite He, IHl.
Qed.

Lemma drop_sci_none fs :
  forallb (fun e => negb (N.eqb (fst (fst e)) source_code_info_field)) fs = true -> drop_sci fs = fs.
Proof.
  induction fs as [|e l IH]; [reflexivity|]. cbn [forallb drop_sci filter]. intros H.
  apply andb_true_iff in H. destruct H as [H1 H2]. rewrite H1. f_equal. now apply IH.
Qed.

Theorem proj_plain_lemma t : plain_top t = true -> proj t = t.
Proof.
  unfold plain_top, proj. intros H. apply andb_true_iff in H. destruct H as [H1 H2].
  destruct t as [k a b|fs]; cbn [top]; [now apply erase_plain|].
  rewrite (drop_sci_none fs H2). now apply erase_plain.
Qed.

Lemma forallb_drop_sci fs :
  forallb (fun e => negb (N.eqb (fst (fst e)) source_code_info_field)) (map ent (drop_sci fs)) = true.
Proof.
  induction fs as [|e l IH]; [reflexivity|]. cbn [drop_sci filter].
  destruct (negb (N.eqb (fst (fst e)) source_code_info_field)) eqn:E; [|exact IH].
  cbn [map forallb ent fst]. now rewrite E.
Qed.

Theorem proj_is_plain_lemma t : plain_top (proj t) = true.
Proof.
  unfold plain_top, proj. rewrite plain_erase. cbn [andb].
  destruct t as [k a b|fs]; cbn [top erase]; [reflexivity|]. apply forallb_drop_sci.
Qed.

Theorem proj_idem_lemma t : proj (proj t) = proj t.
Proof. apply proj_plain_lemma, proj_is_plain_lemma. Qed.

(* on trees in which there is nothing to ignore the comparison is plain equality *)
Theorem desc_eq_plain_lemma x y : plain_top x = true -> plain_top y = true ->
  (desc_eq x y = true <-> x = y).
Proof.
  intros Hx Hy. rewrite desc_eq_iff_projection_eq_lemma, (proj_plain_lemma x Hx), (proj_plain_lemma y Hy).
  reflexivity.
Qed.

(* every tree is equivalent to its projection, so each class has exactly one plain member *)
Theorem desc_eq_proj_lemma x : desc_eq x (proj x) = true.
Proof. apply desc_eq_iff_projection_eq_lemma. now rewrite proj_idem_lemma. Qed.

Theorem proj_representative_lemma t :
  plain_top (proj t) = true /\ proj (proj t) = proj t /\ desc_eq t (proj t) = true.
Proof. split; [apply proj_is_plain_lemma|]. split; [apply proj_idem_lemma|apply desc_eq_proj_lemma]. Qed.

(* ---- example: a file descriptor { name = t; message_type { name = M; options { [50001] = -nan } };
   source_code_info {..} } against one without source info, with the option held as an unknown field
   and another NaN; and against one whose message is renamed ---- *)
Definition ex_a : ptree :=
  PNode [(1%N, false, PLeaf 2 116 1);
         (4%N, false, PNode [(1%N, false, PLeaf 2 77 1);
                             (7%N, false, PNode [(50001%N, false, PLeaf 1 (-2251799813685247) 0)])]);
         (9%N, false, PNode [(1%N, false, PNode [])])].
Definition ex_b : ptree :=
  PNode [(1%N, false, PLeaf 2 116 1);
         (4%N, false, PNode [(1%N, false, PLeaf 2 77 1);
                             (7%N, false, PNode [(50001%N, true, PLeaf 1 9221120237041090561 0)])])].
Definition ex_c : ptree :=
  PNode [(1%N, false, PLeaf 2 116 1);
         (4%N, false, PNode [(1%N, false, PLeaf 2 78 1);
                             (7%N, false, PNode [(50001%N, true, PLeaf 1 9221120237041090561 0)])])].

Lemma dual_example : desc_eq ex_a ex_b = true /\ desc_eq ex_b ex_c = false /\ proj ex_a = proj ex_b /\ ex_a <> ex_b.
Proof. repeat split; try (vm_compute; reflexivity). discriminate. Qed.
