(* Proofs about the option interpreter model (Model/Options.v) and its relation to the protoc
   specification (Model/ProtocOptions.v). *)
From Coq Require Import List ZArith NArith Bool String Lia.
From PV Require Import Model.Options Model.ProtocOptions.
Import ListNotations.
Open Scope Z_scope.

(* ================================================================== scalar coercion *)
Lemma int_range_cases k lo hi :
  int_range k = Some (lo, hi) ->
  (k = KInt32 \/ k = KSint32 \/ k = KSfixed32) /\ lo = - 2 ^ 31 /\ hi = 2 ^ 31 - 1 \/
  (k = KInt64 \/ k = KSint64 \/ k = KSfixed64) /\ lo = - 2 ^ 63 /\ hi = 2 ^ 63 - 1 \/
  (k = KUint32 \/ k = KFixed32) /\ lo = 0 /\ hi = 2 ^ 32 - 1 \/
  (k = KUint64 \/ k = KFixed64) /\ lo = 0 /\ hi = 2 ^ 64 - 1.
Proof.
  destruct k; cbn; intros H; inversion H; subst; clear H; tauto.
Qed.

(* an integer literal is accepted for an integer kind iff its mathematical value is in the range of
   the kind, and then the stored value is that value *)
Lemma scalar_coercion_ranges_lemma k lo hi v z inlit :
  int_range k = Some (lo, hi) -> num_value v = Some z -> lexable v ->
  scalar_field_value k v inlit = if (lo <=? z) && (z <=? hi) then Ok (SInt z) else Err ERange.
Proof.
  intros Hr Hv Hl.
  destruct v; cbn in Hv; inversion Hv; subst; clear Hv; cbn in Hl;
    apply int_range_cases in Hr;
    destruct Hr as [[Hk [-> ->]]|[[Hk [-> ->]]|[[Hk [-> ->]]|[Hk [-> ->]]]]];
    repeat (destruct Hk as [Hk|Hk]); subst k; cbn [scalar_field_value];
    unfold max_int32, min_int32, max_uint32, max_int64;
    repeat match goal with
           | |- context [?a >? ?b] => rewrite (Z.gtb_ltb a b)
           end;
    repeat match goal with
           | |- context [?a <? ?b] => destruct (Z.ltb_spec a b)
           | |- context [?a <=? ?b] => destruct (Z.leb_spec a b)
           end; cbn; try reflexivity; try lia.
Qed.

(* anything that is not an integer literal is rejected for an integer kind (floats are not truncated) *)
Lemma noninteger_rejected_lemma k lo hi v inlit :
  int_range k = Some (lo, hi) -> num_value v = None -> scalar_field_value k v inlit = Err EType.
Proof.
  intros Hr Hv. apply int_range_cases in Hr.
  destruct Hr as [[Hk _]|[[Hk _]|[[Hk _]|[Hk _]]]]; repeat (destruct Hk as [Hk|Hk]); subst k;
    destruct v; cbn in Hv; try discriminate; reflexivity.
Qed.

(* bool: outside a message literal exactly the identifiers true and false *)
Lemma bool_coercion_lemma v b :
  scalar_field_value KBool v false = Ok (SBool b) <-> v = OIdent (if b then "true" else "false")%string.
Proof.
  split.
  - destruct v; cbn; try discriminate.
    destruct (String.eqb_spec s "true"); [intros H; inversion H; subst; reflexivity|].
    destruct (String.eqb_spec s "false"); [intros H; inversion H; subst; reflexivity|discriminate].
  - intros ->. destruct b; reflexivity.
Qed.

(* ---- integers to float / double ---- *)
Definition fl_denotes (f : fl) (z : Z) : Prop :=
  match f with FFin m e => 0 <= e /\ m * 2 ^ e = z | _ => False end.

Lemma pos_ctz_spec p : let '(r, k) := pos_ctz p in 0 <= k /\ Zpos p = Zpos r * 2 ^ k.
Proof.
  induction p as [p IH|p IH|]; cbn [pos_ctz].
  - split; [lia|]. rewrite Z.pow_0_r. lia.
  - destruct (pos_ctz p) as [r k]. destruct IH as [Hk He]. split; [lia|].
    rewrite Z.pow_add_r by lia. change (Z.pos p~0) with (2 * Z.pos p). rewrite He. change (2 ^ 1) with 2. ring.
  - split; [lia|]. reflexivity.
Qed.

Lemma norm_fin_denotes m e : 0 <= e -> fl_denotes (norm_fin m e) (m * 2 ^ e).
Proof.
  intros He. destruct m as [|p|p]; cbn [norm_fin].
  - cbn. split; lia.
  - pose proof (pos_ctz_spec p) as H. destruct (pos_ctz p) as [r k]. destruct H as [Hk Hp].
    cbn [fl_denotes]. split; [lia|]. rewrite Hp, Z.pow_add_r by lia. ring.
  - pose proof (pos_ctz_spec p) as H. destruct (pos_ctz p) as [r k]. destruct H as [Hk Hp].
    cbn [fl_denotes]. split; [lia|]. rewrite Z.pow_add_r by lia.
    change (Z.neg p) with (- Z.pos p). change (Z.neg r) with (- Z.pos r). rewrite Hp. ring.
Qed.

Lemma round_fin_exact prec emin emax z :
  0 < prec -> emin <= 0 -> Z.abs z < 2 ^ (prec - 1) * 2 -> prec <= emax ->
  fl_denotes (round_fin prec emin emax z 0) z.
Proof.
  intros Hp Hemin Hz Hemax.
  destruct (Z.eq_dec z 0) as [->|Hnz]; [cbn; split; lia|].
  assert (Hlog : Z.log2 (Z.abs z) < prec).
  { apply Z.log2_lt_pow2; [lia|]. replace prec with (prec - 1 + 1) at 1 by lia.
    rewrite Z.pow_add_r by lia. change (2 ^ 1) with 2. lia. }
  assert (Hge : 0 <= Z.log2 (Z.abs z)) by apply Z.log2_nonneg.
  assert (Hr : round_fin prec emin emax z 0 = norm_fin z 0).
  { unfold round_fin. destruct z as [|q|q]; [congruence| |]; cbv zeta; rewrite Z.add_0_r.
    - assert (E1 : (Z.max (Z.log2 (Z.abs (Z.pos q)) - (prec - 1)) emin <=? 0) = true) by (apply Z.leb_le; lia).
      assert (E2 : (emax <=? Z.log2 (Z.abs (Z.pos q))) = false) by (apply Z.leb_gt; lia).
      rewrite E1, E2. reflexivity.
    - assert (E1 : (Z.max (Z.log2 (Z.abs (Z.neg q)) - (prec - 1)) emin <=? 0) = true) by (apply Z.leb_le; lia).
      assert (E2 : (emax <=? Z.log2 (Z.abs (Z.neg q))) = false) by (apply Z.leb_gt; lia).
      rewrite E1, E2. reflexivity. }
  rewrite Hr. pose proof (norm_fin_denotes z 0 ltac:(lia)) as H.
  rewrite Z.pow_0_r, Z.mul_1_r in H. exact H.
Qed.

Lemma int_to_float_lemma k v z inlit :
  (k = KFloat \/ k = KDouble) -> num_value v = Some z ->
  scalar_field_value k v inlit = Ok (SFloat (if match k with KFloat => true | _ => false end then to_f32 z 0 else to_f64 z 0)) /\
  (k = KFloat -> Z.abs z < 2 ^ 24 -> fl_denotes (to_f32 z 0) z) /\
  (k = KDouble -> Z.abs z < 2 ^ 53 -> fl_denotes (to_f64 z 0) z).
Proof.
  intros Hk Hv. split; [|split].
  - destruct Hk; subst k; destruct v; cbn in Hv; inversion Hv; subst; reflexivity.
  - intros _ Hz. apply round_fin_exact; lia.
  - intros _ Hz. apply round_fin_exact; lia.
Qed.

(* ================================================================== the two passes *)
Section Passes.
Variable sch : schema.
Variable tt : N.

Definition other_phase (c : bool) (st : stmt) : bool := negb (Bool.eqb (is_custom st) c).

Lemma pass_strict_remain c T : forall uo m m' rem,
  pass_strict sch tt c T m uo = Ok (m', rem) -> rem = filter (other_phase c) uo.
Proof.
  induction uo as [|st r IH]; intros m m' rem H; cbn [pass_strict] in H.
  - inversion H; reflexivity.
  - cbn [filter]. unfold other_phase at 1.
    destruct (negb (Bool.eqb (is_custom st) c)) eqn:E.
    + destruct (pass_strict sch tt c T m r) as [[m2 rem2]|x] eqn:E2; [|discriminate].
      inversion H; subst. f_equal. eapply IH; eassumption.
    + destruct (interpret_field sch tt T m (sname st) (svalue st)) as [m1 [|x es]]; [|discriminate].
      eapply IH; eassumption.
Qed.

Lemma filter_other_phase_false_true l :
  filter (other_phase true) (filter (other_phase false) l) = [].
Proof.
  induction l as [|st r IH]; [reflexivity|]. cbn [filter]. unfold other_phase at 2.
  destruct (is_custom st) eqn:E; cbn [Bool.eqb negb].
  - cbn [filter]. unfold other_phase at 1. rewrite E. cbn. exact IH.
  - exact IH.
Qed.

(* C20: after a successful strict interpretation nothing is left uninterpreted *)
Lemma no_uninterpreted_left_on_success_lemma T m0 stmts m rem :
  interpret_strict sch tt T m0 stmts = Ok (m, rem) -> rem = [].
Proof.
  unfold interpret_strict. intros H.
  destruct (pass_strict sch tt false T m0 stmts) as [[m1 r1]|x] eqn:E1; [|discriminate].
  apply pass_strict_remain in E1. apply pass_strict_remain in H. subst.
  apply filter_other_phase_false_true.
Qed.

(* the lenient pass agrees with the strict pass that succeeds *)
Lemma pass_strict_lenient c T : forall uo m m' rem,
  pass_strict sch tt c T m uo = Ok (m', rem) -> exists done, pass_lenient sch tt c T m uo = (m', rem, done).
Proof.
  induction uo as [|st r IH]; intros m m' rem H; cbn [pass_strict] in H; cbn [pass_lenient].
  - inversion H; eauto.
  - destruct (negb (Bool.eqb (is_custom st) c)).
    + destruct (pass_strict sch tt c T m r) as [[m2 rem2]|x] eqn:E2; [|discriminate].
      inversion H; subst. destruct (IH _ _ _ E2) as [d Hd]. rewrite Hd. eauto.
    + destruct (interpret_field sch tt T m (sname st) (svalue st)) as [m1 [|x es]]; [|discriminate].
      destruct (IH _ _ _ H) as [d Hd]. rewrite Hd. eauto.
Qed.

(* C21: when strict interpretation succeeds, lenient interpretation yields the same message and leaves
   nothing uninterpreted *)
Lemma strict_ok_implies_lenient_same_lemma T m0 stmts m rem :
  interpret_strict sch tt T m0 stmts = Ok (m, rem) ->
  (exists done, interpret_lenient sch tt T m0 stmts = (m, [], done)) /\ rem = [].
Proof.
  intros H. pose proof (no_uninterpreted_left_on_success_lemma _ _ _ _ _ H) as ->. split; [|reflexivity].
  unfold interpret_strict in H. unfold interpret_lenient.
  destruct (pass_strict sch tt false T m0 stmts) as [[m1 r1]|x] eqn:E1; [|discriminate].
  destruct (pass_strict_lenient _ _ _ _ _ _ E1) as [d1 Hd1]. rewrite Hd1.
  destruct (pass_strict_lenient _ _ _ _ _ _ H) as [d2 Hd2]. rewrite Hd2. eauto.
Qed.

(* C21: the remainder of a lenient run is what one walk in source order keeps: exactly the statements whose
   own interpretation reported an error, verbatim and in order *)
Lemma pass_lenient_ref_walk T : forall stmts ma mb m1 r1 d1 m rem d2,
  pass_lenient sch tt false T ma stmts = (m1, r1, d1) ->
  pass_lenient sch tt true T mb r1 = (m, rem, d2) ->
  ref_walk sch tt T ma mb stmts = (m1, m, rem).
Proof.
  induction stmts as [|st r IH]; intros ma mb m1 r1 d1 m rem d2 H1 H2; cbn [pass_lenient] in H1; cbn [ref_walk].
  - inversion H1; subst. cbn in H2. inversion H2; subst. reflexivity.
  - destruct (is_custom st) eqn:Ec; cbn [Bool.eqb negb] in H1.
    + (* custom: skipped by the first pass, interpreted by the second *)
      destruct (pass_lenient sch tt false T ma r) as [[m1' r1'] d1'] eqn:E1.
      inversion H1; subst. cbn [pass_lenient] in H2. rewrite Ec in H2. cbn [Bool.eqb negb] in H2.
      destruct (interpret_field sch tt T mb (sname st) (svalue st)) as [mb' [|x es]] eqn:Ei.
      * destruct (pass_lenient sch tt true T mb' r1') as [[m' rem'] d2'] eqn:E2.
        inversion H2; subst. eapply IH; eassumption.
      * destruct (pass_lenient sch tt true T mb r1') as [[m' rem'] d2'] eqn:E2.
        inversion H2; subst. rewrite (IH _ _ _ _ _ _ _ _ E1 E2). reflexivity.
    + (* non-custom: interpreted by the first pass; if kept, skipped by the second *)
      destruct (interpret_field sch tt T ma (sname st) (svalue st)) as [ma' [|x es]] eqn:Ei.
      * destruct (pass_lenient sch tt false T ma' r) as [[m1' r1'] d1'] eqn:E1.
        inversion H1; subst. eapply IH; eassumption.
      * destruct (pass_lenient sch tt false T ma r) as [[m1' r1'] d1'] eqn:E1.
        inversion H1; subst. cbn [pass_lenient] in H2. rewrite Ec in H2. cbn [Bool.eqb negb] in H2.
        destruct (pass_lenient sch tt true T mb r1') as [[m' rem'] d2'] eqn:E2.
        inversion H2; subst. rewrite (IH _ _ _ _ _ _ _ _ E1 E2). reflexivity.
Qed.

Lemma uninterpreted_kept_verbatim_lemma T m0 stmts m rem done :
  interpret_lenient sch tt T m0 stmts = (m, rem, done) ->
  exists m1, ref_walk sch tt T m0 m1 stmts = (m1, m, rem).
Proof.
  unfold interpret_lenient. intros H.
  destruct (pass_lenient sch tt false T m0 stmts) as [[m1 r1] d1] eqn:E1.
  destruct (pass_lenient sch tt true T m1 r1) as [[m2 r2] d2] eqn:E2.
  inversion H; subst. exists m1. eapply pass_lenient_ref_walk; eassumption.
Qed.
End Passes.

(* the remainder of ref_walk is a subsequence of the statements *)
Inductive subseq {A} : list A -> list A -> Prop :=
| subseq_nil : subseq [] []
| subseq_keep x a b : subseq a b -> subseq (x :: a) (x :: b)
| subseq_drop x a b : subseq a b -> subseq a (x :: b).

Lemma ref_walk_subseq sch tt T : forall sts ma mb ma' mb' rem,
  ref_walk sch tt T ma mb sts = (ma', mb', rem) -> subseq rem sts.
Proof.
  induction sts as [|st r IH]; intros ma mb ma' mb' rem H; cbn [ref_walk] in H.
  - inversion H; constructor.
  - destruct (is_custom st).
    + destruct (interpret_field sch tt T mb (sname st) (svalue st)) as [mb1 [|x es]].
      * apply subseq_drop. eapply IH; eassumption.
      * destruct (ref_walk sch tt T ma mb r) as [[ma2 mb2] rem2] eqn:E. inversion H; subst.
        apply subseq_keep. eapply IH; eassumption.
    + destruct (interpret_field sch tt T ma (sname st) (svalue st)) as [ma1 [|x es]].
      * apply subseq_drop. eapply IH; eassumption.
      * destruct (ref_walk sch tt T ma mb r) as [[ma2 mb2] rem2] eqn:E. inversion H; subst.
        apply subseq_keep. eapply IH; eassumption.
Qed.

Lemma subseq_trans {A} : forall (b c : list A), subseq b c -> forall a, subseq a b -> subseq a c.
Proof.
  induction 1 as [|x b c Hbc IH|x b c Hbc IH]; intros a Hab.
  - exact Hab.
  - inversion Hab; subst; [apply subseq_keep; apply IH; assumption|apply subseq_drop; apply IH; assumption].
  - apply subseq_drop. apply IH. exact Hab.
Qed.

(* ================================================================== no half-populated options message *)
Section NoHalf.
Variable sch : schema.
Variable tt : N.

Lemma apply_all_app T : forall a b m,
  apply_all sch tt T m (a ++ b) = match apply_all sch tt T m a with Some m1 => apply_all sch tt T m1 b | None => None end.
Proof.
  induction a as [|st r IH]; intros b m; cbn [app apply_all]; [reflexivity|].
  destruct (interpret_field sch tt T m (sname st) (svalue st)) as [m1 [|x es]]; [apply IH|reflexivity].
Qed.

(* one pass: the message is what the interpreted options alone produce, each without error; every option of the
   pass is either kept or interpreted, in order *)
Lemma pass_lenient_spec c T : forall uo m m' rem done,
  pass_lenient sch tt c T m uo = (m', rem, done) ->
  apply_all sch tt T m done = Some m' /\ subseq rem uo /\ subseq done uo /\
  (List.length rem + List.length done = List.length uo)%nat.
Proof.
  induction uo as [|st r IH]; intros m m' rem done H; cbn [pass_lenient] in H.
  - inversion H; subst. repeat split; constructor.
  - destruct (negb (Bool.eqb (is_custom st) c)).
    + destruct (pass_lenient sch tt c T m r) as [[m2 rem2] done2] eqn:E.
      inversion H; subst. destruct (IH _ _ _ _ E) as [Ha [Hr [Hd Hl]]].
      repeat split; [exact Ha|apply subseq_keep; exact Hr|apply subseq_drop; exact Hd|cbn [List.length]; lia].
    + destruct (interpret_field sch tt T m (sname st) (svalue st)) as [m1 [|x es]] eqn:Ei.
      * destruct (pass_lenient sch tt c T m1 r) as [[m2 rem2] done2] eqn:E.
        inversion H; subst. destruct (IH _ _ _ _ E) as [Ha [Hr [Hd Hl]]].
        repeat split; [cbn [apply_all]; rewrite Ei; exact Ha|apply subseq_drop; exact Hr|apply subseq_keep; exact Hd|cbn [List.length]; lia].
      * destruct (pass_lenient sch tt c T m r) as [[m2 rem2] done2] eqn:E.
        inversion H; subst. destruct (IH _ _ _ _ E) as [Ha [Hr [Hd Hl]]].
        repeat split; [exact Ha|apply subseq_keep; exact Hr|apply subseq_drop; exact Hd|cbn [List.length]; lia].
Qed.

(* C21: the options message of a lenient run is exactly what the interpreted options produce when applied alone,
   in the order of the two passes and each without error - options that are kept uninterpreted leave no trace.
   The remainder and the interpreted options partition the statements, each in source order. *)
Lemma no_half_population_lemma T m0 stmts m rem done :
  interpret_lenient sch tt T m0 stmts = (m, rem, done) ->
  apply_all sch tt T m0 done = Some m /\ subseq rem stmts /\
  (List.length rem + List.length done = List.length stmts)%nat.
Proof.
  unfold interpret_lenient. intros H.
  destruct (pass_lenient sch tt false T m0 stmts) as [[m1 r1] d1] eqn:E1.
  destruct (pass_lenient sch tt true T m1 r1) as [[m2 r2] d2] eqn:E2.
  inversion H; subst.
  destruct (pass_lenient_spec _ _ _ _ _ _ _ E1) as [Ha1 [Hr1 [Hd1 Hl1]]].
  destruct (pass_lenient_spec _ _ _ _ _ _ _ E2) as [Ha2 [Hr2 [Hd2 Hl2]]].
  split; [rewrite apply_all_app, Ha1; exact Ha2|]. split; [exact (subseq_trans _ _ Hr1 _ Hr2)|].
  rewrite app_length. lia.
Qed.
End NoHalf.

(* ================================================================== half-populated messages *)
(* The code as it is: a failing statement can leave the message changed.  Three witnesses, one per way. *)
Definition hp_inner : msgdesc :=
  mkMsg [mkField "a" 1%N KInt32 false None false []; mkField "r" 3%N KInt32 true None false [];
         mkField "sub" 4%N (KMsg 1) false None false []].
Definition hp_schema : schema :=
  mkSchema [mkMsg []; hp_inner] []
           [mkExt "foo" 0%nat (mkField "foo" 50001%N (KMsg 1) false None false []);
            mkExt "onfield" 0%nat (mkField "onfield" 50002%N KInt32 false None false [4%N])].

(* (foo).sub.a = a string : the intermediate messages stay behind *)
Lemma half_population_path :
  interpret_field hp_schema 3%N 0%nat [] [PExt "foo"; PField "sub"; PField "a"] (OStr [98%N])
  = ([(50001%N, VM [(4%N, VM [])])], [EType]).
Proof. vm_compute. reflexivity. Qed.

(* (foo) = { r: [1, 2, a string] } : the literal is stored without the failing field value *)
Lemma half_population_literal :
  interpret_field hp_schema 3%N 0%nat [] [PExt "foo"] (OMsg [(LField "r", OList [OUint 1; OUint 2; OStr [120%N]])])
  = ([(50001%N, VM [(3%N, VL [VS (SInt 1); VS (SInt 2)])])], [EType]).
Proof. vm_compute. reflexivity. Qed.

(* (onfield) = 1 on a message although the option is restricted to fields : the value is stored all the same *)
Lemma half_population_target :
  interpret_field hp_schema 3%N 0%nat [] [PExt "onfield"] (OUint 1)
  = ([(50002%N, VS (SInt 1))], [ETargetType]).
Proof. vm_compute. reflexivity. Qed.

(* interpretField by itself still leaves such traces behind a failure (that is how the Go function works);
   since 307ffab4 the lenient pass goes back to the copy it made before the option *)
Lemma interpret_field_leaves_traces_lemma :
  exists sch tt T m name v m' e,
    interpret_field sch tt T m name v = (m', e) /\ e <> [] /\ m' <> m.
Proof.
  exists hp_schema, 3%N, 0%nat, [], [PExt "foo"; PField "sub"; PField "a"], (OStr [98%N]).
  eexists. eexists. split; [apply half_population_path|]. split; discriminate.
Qed.

(* historical: before 307ffab4 the whole lenient run handed back that message together with the statement as
   uninterpreted; now the message is untouched *)
Lemma no_half_population_old_refuted_lemma :
  exists sch tt T st m,
    interpret_lenient_old sch tt T [] [st] = (m, [st]) /\ m <> [] /\
    interpret_lenient sch tt T [] [st] = ([], [st], []).
Proof.
  exists hp_schema, 3%N, 0%nat, (mkStmt [PExt "foo"; PField "sub"; PField "a"] (OStr [98%N])).
  eexists. split; [vm_compute; reflexivity|]. split; [discriminate|vm_compute; reflexivity].
Qed.

(* Where it does hold. *)
Lemma mset_same n v : forall m, mget n m = Some v -> mset n v m = m.
Proof.
  induction m as [|[k w] r IH]; cbn [mget mset]; [discriminate|].
  destruct (N.eqb_spec k n).
  - intros H. inversion H; subst. reflexivity.
  - intros H. rewrite (IH H). reflexivity.
Qed.

Lemma field_by_name_In fs n f : field_by_name fs n = Some f -> In f fs.
Proof.
  induction fs as [|g r IH]; cbn; [discriminate|].
  destruct (String.eqb (fname g) n); [intros H; inversion H; auto|auto].
Qed.
Lemma ext_by_name_In xs n x : ext_by_name xs n = Some x -> In x xs.
Proof.
  induction xs as [|g r IH]; cbn; [discriminate|].
  destruct (String.eqb (xname g) n); [intros H; inversion H; auto|auto].
Qed.
Lemma msg_fields_In sch md f : In f (msg_fields sch md) -> exists d, In d (smsgs sch) /\ In f (mfields d).
Proof.
  unfold msg_fields. destruct (nth_error (smsgs sch) md) as [d|] eqn:E; [|intros []].
  intros H. exists d. split; [eapply nth_error_In; eassumption|assumption].
Qed.

(* a property of all fields of a schema holds for whatever a lookup returns *)
Definition all_fields (P : field -> bool) (sch : schema) : bool :=
  forallb (fun d => forallb P (mfields d)) (smsgs sch) && forallb (fun x => P (xfield x)) (sexts sch).
Lemma all_fields_msg P sch md f : all_fields P sch = true -> In f (msg_fields sch md) -> P f = true.
Proof.
  unfold all_fields. intros H Hin. apply andb_prop in H. destruct H as [H _].
  apply msg_fields_In in Hin. destruct Hin as [d [Hd Hf]].
  rewrite forallb_forall in H. specialize (H d Hd). rewrite forallb_forall in H. auto.
Qed.
Lemma all_fields_ext P sch x : all_fields P sch = true -> In x (sexts sch) -> P (xfield x) = true.
Proof.
  unfold all_fields. intros H Hin. apply andb_prop in H. destruct H as [_ H].
  rewrite forallb_forall in H. auto.
Qed.
Lemma all_fields_lookup P sch md nm f : all_fields P sch = true -> lookup_part sch md nm = Ok f -> P f = true.
Proof.
  intros H. destruct nm as [s|s]; cbn [lookup_part].
  - destruct (field_by_name (msg_fields sch md) s) as [g|] eqn:E; [|discriminate].
    intros E2; inversion E2; subst. apply (all_fields_msg P sch md); [assumption|]. eapply field_by_name_In; eassumption.
  - destruct (ext_by_name (sexts sch) s) as [x|] eqn:E; [|discriminate].
    destruct (Nat.eqb (xextendee x) md); [|discriminate].
    intros E2; inversion E2; subst. apply (all_fields_ext P sch); [assumption|]. eapply ext_by_name_In; eassumption.
Qed.

Lemma targets_free_all sch : targets_free sch = all_fields no_targets sch.
Proof. reflexivity. Qed.

Lemma no_targets_usage tt f : no_targets f = true -> check_field_usage tt f = [].
Proof. unfold no_targets, check_field_usage. destruct (ftargets f); [reflexivity|discriminate]. Qed.

(* the value of a scalar-shaped literal is computed without reporting an error, or it is invalid *)
Lemma field_value_scalar_shaped sch tt fld v inlit ov e :
  scalar_shaped v = true -> field_value sch tt fld v inlit = (ov, e) ->
  (ov = None) \/ (e = []).
Proof.
  intros Hs H. destruct v; try discriminate; cbn [field_value] in H;
    destruct (fkind fld);
    repeat match type of H with
           | context [match ?x with _ => _ end] => destruct x
           end; inversion H; auto.
Qed.

Lemma set_option_field_scalar_fail sch tt fields m fld v m' e :
  scalar_shaped v = true -> set_option_field sch tt fields m fld v false = (m', e) -> e <> [] -> m' = m.
Proof.
  intros Hs H He. unfold set_option_field, set_option_field_with in H.
  assert (Hv : match v with OList _ => False | _ => True end) by (destruct v; try exact I; discriminate).
  destruct v; try contradiction; cbn [andb] in H;
    (destruct (field_value sch tt fld _ false) as [ov e0] eqn:Ef;
     pose proof (field_value_scalar_shaped _ _ _ _ _ _ _ Hs Ef) as Hd;
     destruct ov as [x|]; [|inversion H; reflexivity];
     destruct Hd as [Hd|Hd]; [discriminate|subst e0];
     destruct (oneof_conflict fields fld m); [inversion H; reflexivity|];
     destruct (frep fld); [inversion H; subst; congruence|];
     destruct (is_set false fld m); inversion H; subst; [reflexivity|congruence]).
Qed.

Lemma no_half_population_partial_lemma sch tt : targets_free sch = true ->
  forall name T m v m' e,
  scalar_shaped v = true -> prefix_present sch T m name = true ->
  interpret_field sch tt T m name v = (m', e) -> e <> [] -> m' = m.
Proof.
  intros Htf. rewrite targets_free_all in Htf.
  induction name as [|nm rest IH]; intros T m v m' e Hs Hp H He; cbn [interpret_field] in H.
  - inversion H; reflexivity.
  - cbn [prefix_present] in Hp.
    destruct (lookup_part sch T nm) as [fld|x] eqn:El; [|inversion H; reflexivity].
    pose proof (no_targets_usage tt fld (all_fields_lookup _ _ _ _ _ Htf El)) as Hu. rewrite Hu in H.
    cbn [app] in H. destruct rest as [|nm2 rest2].
    + destruct (set_option_field sch tt (msg_fields sch T) m fld v false) as [m2 e2] eqn:Es.
      inversion H; subst. eapply set_option_field_scalar_fail; eassumption.
    + destruct (fkind fld) as [| | | | | | | | | | | | | | | |sub]; try (inversion H; reflexivity).
      destruct (frep fld); [inversion H; reflexivity|].
      destruct (mget (fnum fld) m) as [[s|s|s]|] eqn:Eg; try discriminate.
      assert (Hhas : has fld m = true) by (unfold has; rewrite Eg; destruct (fimplicit fld); reflexivity).
      rewrite Hhas in H. unfold sub_at in H. rewrite Eg in H.
      destruct (interpret_field sch tt sub s (nm2 :: rest2) v) as [s' e'] eqn:Er.
      inversion H; subst. rewrite (IH _ _ _ _ _ Hs Hp Er He). apply mset_same. exact Eg.
Qed.

(* ================================================================== model = specification: leaf values *)
Lemma lexable_b_lexable v : lexable_b v = true -> lexable v.
Proof.
  destruct v; cbn; try exact (fun _ => I); intros H; apply andb_prop in H; destruct H as [H1 H2];
    apply Z.leb_le in H1; apply Z.leb_le in H2; lia.
Qed.

Lemma scalar_eq_spec k v inlit : lexable v -> scalar_field_value k v inlit = spec_scalar true k v inlit.
Proof.
  intros Hl. unfold spec_scalar. destruct (int_range k) as [[lo hi]|] eqn:Er.
  - destruct (num_value v) as [z|] eqn:Ev.
    + eapply scalar_coercion_ranges_lemma; eassumption.
    + eapply noninteger_rejected_lemma; eassumption.
  - destruct k; try discriminate; try reflexivity.
    + (* bool *)
      destruct v; try reflexivity. destruct inlit; cbn [scalar_field_value true_words false_words str_in existsb].
      * reflexivity.
      * rewrite !orb_false_r. reflexivity.
    + (* float *) destruct v as [| |d|w| | |]; try reflexivity. destruct d; reflexivity.
    + (* double *) destruct v as [| |d|w| | |]; try reflexivity. destruct d; reflexivity.
Qed.

Lemma enum_by_name_find vs n :
  enum_by_name vs n = option_map snd (find (fun p => String.eqb (fst p) n) vs).
Proof.
  induction vs as [|[s z] r IH]; [reflexivity|]. cbn [enum_by_name find fst].
  destruct (String.eqb s n); [reflexivity|exact IH].
Qed.

Lemma enum_eq_spec ed v b : lexable v -> enum_field_value ed v b = spec_enum ed v b.
Proof.
  intros Hl. unfold enum_field_value, spec_enum, enum_has_number. destruct v; try reflexivity.
  - destruct (negb b); [reflexivity|]. unfold max_int32, min_int32. rewrite Z.gtb_ltb.
    destruct (Z.ltb_spec 2147483647 z); destruct (Z.ltb_spec z (-2147483648));
      destruct (Z.leb_spec (- 2 ^ 31) z); destruct (Z.leb_spec z (2 ^ 31 - 1)); cbn [orb andb negb]; try lia; try reflexivity.
    destruct (existsb (fun p => snd p =? z) (evalues ed)); destruct (eclosed ed); reflexivity.
  - cbn in Hl. destruct (negb b); [reflexivity|]. unfold max_int32. rewrite Z.gtb_ltb.
    destruct (Z.ltb_spec 2147483647 n);
      destruct (Z.leb_spec (- 2 ^ 31) n); destruct (Z.leb_spec n (2 ^ 31 - 1)); cbn [orb andb negb]; try lia; try reflexivity.
    destruct (existsb (fun p => snd p =? n) (evalues ed)); destruct (eclosed ed); reflexivity.
  - rewrite enum_by_name_find. destruct (find (fun p => String.eqb (fst p) s) (evalues ed)); reflexivity.
Qed.

(* ================================================================== model = specification: storing values *)
(* the pair (value, errors) of the model against the result of the specification *)
Definition vres_agree (r : option val * errs) (s : res val) : Prop :=
  match snd r with
  | [] => exists x, fst r = Some x /\ s = Ok x
  | _ :: _ => exists e, s = Err e
  end.
Definition arg_agree (fv : field -> oval -> option val * errs) (sv : field -> oval -> res val)
    (fld : field) (v : oval) : Prop :=
  match v with
  | OList sl => Forall (fun x => vres_agree (fv fld x) (sv fld x)) sl
  | _ => vres_agree (fv fld v) (sv fld v)
  end.

Lemma app_nil_inv {A} (a b : list A) : a ++ b = [] -> a = [] /\ b = [].
Proof. destruct a; cbn; [auto|discriminate]. Qed.

Lemma list_loop_agree fv sv fld : forall sl m flag m' es,
  Forall (fun x => vres_agree (fv fld x) (sv fld x)) sl ->
  list_loop fv fld sl m flag = (m', es) ->
  match es with
  | [] => flag = [] /\ exists vs, map_res (sv fld) sl = Ok vs /\ fold_left (fun m x => mappend (fnum fld) x m) vs m = m'
  | _ :: _ => flag <> [] \/ exists e, map_res (sv fld) sl = Err e
  end.
Proof.
  induction sl as [|it r IH]; intros m flag m' es Hall H; cbn [list_loop] in H.
  - inversion H; subst. destruct es; [split; [reflexivity|]; exists []; split; reflexivity|left; discriminate].
  - inversion Hall as [|? ? Hit Hr]; subst. unfold vres_agree in Hit.
    destruct (fv fld it) as [ov e] eqn:Ef. cbn [fst snd] in Hit. cbn [map_res].
    destruct ov as [x|].
    + specialize (IH _ _ _ _ Hr H). destruct es as [|e0 es'].
      * destruct IH as [Hf [vs [Hm Hfold]]]. apply app_nil_inv in Hf. destruct Hf as [-> ->].
        destruct Hit as [y [Hy Hs]]. inversion Hy; subst y. split; [reflexivity|].
        exists (x :: vs). rewrite Hs, Hm. split; [reflexivity|exact Hfold].
      * destruct flag as [|f0 fr]; [|left; discriminate]. right.
        destruct e as [|e1 er].
        -- destruct Hit as [y [Hy Hs]]. rewrite Hs. destruct IH as [Hbad|[e2 He2]]; [exfalso; apply Hbad; reflexivity|].
           rewrite He2. eauto.
        -- destruct Hit as [e2 He2]. rewrite He2. eauto.
    + inversion H; subst. destruct e as [|e1 er].
      * destruct Hit as [y [Hy _]]. discriminate.
      * destruct Hit as [e2 He2]. destruct (flag ++ e1 :: er) eqn:Ea.
        -- apply app_nil_inv in Ea. destruct Ea; discriminate.
        -- destruct flag; [right; rewrite He2; eauto|left; discriminate].
Qed.

Lemma wf_rep_no_oneof fields fld m : field_wf fld = true -> frep fld = true -> oneof_conflict fields fld m = false.
Proof.
  unfold field_wf, oneof_conflict. intros H Hr. rewrite Hr in H. cbn in H.
  destruct (foneof fld); [discriminate|reflexivity].
Qed.

(* setOptionField (through the aborting handler) = evaluate the occurrence, then store it *)
Lemma set_field_agree fv sv fields inlit m fld v m' es :
  field_wf fld = true -> arg_agree fv sv fld v ->
  set_option_field_with fv fields inlit m fld v = (m', es) ->
  match es with
  | [] => exists vs, spec_values_with sv fld v = Ok vs /\ spec_store inlit fields fld vs m = Ok m'
  | _ :: _ => (exists e, spec_values_with sv fld v = Err e) \/
              (exists vs e, spec_values_with sv fld v = Ok vs /\ spec_store inlit fields fld vs m = Err e)
  end.
Proof.
  intros Hwf Ha H. unfold set_option_field_with in H.
  assert (Hscalar : forall (Hnl : match v with OList _ => False | _ => True end),
    vres_agree (fv fld v) (sv fld v) ->
    (let '(ov, e) := fv fld v in
     match ov with
     | None => (m, e)
     | Some x => if oneof_conflict fields fld m then (m, e ++ [EOneof])
                 else if frep fld then (mappend (fnum fld) x m, e)
                 else if is_set inlit fld m then (m, e ++ [EAlreadySet]) else (mset (fnum fld) x m, e)
     end) = (m', es) ->
    match es with
    | [] => exists vs, (match sv fld v with Ok x => Ok [x] | Err e => Err e end) = Ok vs /\ spec_store inlit fields fld vs m = Ok m'
    | _ :: _ => (exists e, (match sv fld v with Ok x => Ok [x] | Err e => Err e end) = Err e) \/
                (exists vs e, (match sv fld v with Ok x => Ok [x] | Err e => Err e end) = Ok vs /\ spec_store inlit fields fld vs m = Err e)
    end).
  { intros _ Hag Hr. unfold vres_agree in Hag. destruct (fv fld v) as [ov e]. cbn [fst snd] in Hag.
    destruct e as [|e1 er].
    - destruct Hag as [x [-> Hs]]. rewrite Hs. unfold spec_store. fold (is_set inlit fld m).
      destruct (frep fld) eqn:Er.
      + rewrite (wf_rep_no_oneof _ _ _ Hwf Er) in Hr. inversion Hr; subst. exists [x]. split; reflexivity.
      + destruct (oneof_conflict fields fld m).
        * inversion Hr; subst. right. exists [x], EOneof. split; reflexivity.
        * destruct (is_set inlit fld m); inversion Hr; subst.
          -- right. exists [x], EAlreadySet. split; reflexivity.
          -- exists [x]. split; reflexivity.
    - destruct Hag as [e2 He2]. rewrite He2.
      assert (Hne : exists a b, es = a :: b).
      { destruct ov; [|inversion Hr; eauto].
        destruct (oneof_conflict fields fld m); [inversion Hr; cbn; eauto|].
        destruct (frep fld); [inversion Hr; eauto|]. destruct (is_set inlit fld m); inversion Hr; cbn; eauto. }
      destruct Hne as [a [b ->]]. left. eauto. }
  destruct v; cbn [arg_agree] in *;
    try (unfold spec_values_with; apply (Hscalar I Ha H)).
  (* array literal *)
  unfold spec_values_with. destruct (frep fld) eqn:Er; cbn [negb] in H.
  - pose proof (list_loop_agree _ _ _ _ _ _ _ _ Ha H) as Hl. destruct es as [|e0 er].
    + destruct Hl as [_ [vs [Hm Hf]]]. exists vs. split; [exact Hm|]. unfold spec_store. rewrite Er. f_equal. exact Hf.
    + destruct Hl as [Hbad|[e He]]; [exfalso; apply Hbad; reflexivity|]. left. eauto.
  - inversion H; subst. left. eauto.
Qed.

(* ================================================================== model = specification: message literals *)
Section Literals.
Variable sch : schema.
Variable tt : N.
Hypothesis Hwf : schema_wf sch = true.

Lemma schema_wf_all : all_fields field_wf sch = true.
Proof. exact Hwf. Qed.

Lemma usage_target f : check_field_usage tt f = [] <-> target_ok tt f = true.
Proof.
  unfold check_field_usage, target_ok. destruct (ftargets f) as [|t ts]; [tauto|].
  destruct (existsb (N.eqb tt) (t :: ts)); split; intros H; try reflexivity; discriminate.
Qed.

Lemma lit_field_spec md nm : spec_lit_field sch md nm = lit_field sch md nm.
Proof. destruct nm; reflexivity. Qed.

Lemma lit_field_wf md nm f : lit_field sch md nm = Ok f -> field_wf f = true.
Proof.
  destruct nm as [s|s]; cbn [lit_field].
  - destruct (field_by_name (msg_fields sch md) s) as [g|] eqn:E; [|discriminate].
    intros H; inversion H; subst. apply (all_fields_msg field_wf sch md); [exact schema_wf_all|].
    eapply field_by_name_In; eassumption.
  - destruct (ext_by_name (sexts sch) s) as [x|] eqn:E; [|discriminate].
    destruct (Nat.eqb (xextendee x) md); [|discriminate].
    intros H; inversion H; subst. apply (all_fields_ext field_wf sch); [exact schema_wf_all|].
    eapply ext_by_name_In; eassumption.
Qed.

Lemma lit_loop_agree fv sv md : forall fs m had flag ov es,
  Forall (fun p => forall f, arg_agree fv sv f (snd p)) fs ->
  lit_loop sch tt fv md fs m had flag = (ov, es) ->
  (had = true -> flag <> []) ->
  match es with
  | [] => flag = [] /\ exists m', ov = Some (VM m') /\ spec_lit_loop sch tt sv md fs m = Ok (VM m')
  | _ :: _ => flag <> [] \/ exists e, spec_lit_loop sch tt sv md fs m = Err e
  end.
Proof.
  induction fs as [|[nm fv1] r IH]; intros m had flag ov es Hall H Hhad; cbn [lit_loop] in H; cbn [spec_lit_loop].
  - destruct had.
    + inversion H; subst. specialize (Hhad eq_refl). destruct es; [congruence|left; discriminate].
    + inversion H; subst. destruct es; [split; [reflexivity|]; eauto|left; discriminate].
  - inversion Hall as [|? ? Hp Hr]; subst. cbn [snd] in Hp.
    rewrite lit_field_spec.
    destruct (lit_field sch md nm) as [ffld|x] eqn:Elf.
    + pose proof (lit_field_wf _ _ _ Elf) as Hfw.
      destruct (set_option_field_with fv (msg_fields sch md) true m ffld fv1) as [m1 e1] eqn:Es.
      pose proof (set_field_agree _ _ _ _ _ _ _ _ _ Hfw (Hp ffld) Es) as Hb.
      assert (Hhad' : had = true -> flag ++ check_field_usage tt ffld ++ e1 <> []).
      { intros Hh Hc. apply app_nil_inv in Hc. destruct Hc as [Hc _]. exact (Hhad Hh Hc). }
      specialize (IH _ _ _ _ _ Hr H Hhad').
      destruct es as [|e0 er].
      * destruct IH as [Hf [m2 [Hov Hsp]]]. apply app_nil_inv in Hf. destruct Hf as [-> Hf].
        apply app_nil_inv in Hf. destruct Hf as [Hu ->]. apply usage_target in Hu. rewrite Hu. cbn [negb].
        destruct Hb as [vs [Hv Hst]]. rewrite Hv, Hst. split; [reflexivity|]. eauto.
      * destruct flag as [|f0 fr]; [|left; discriminate]. right. cbn [app] in IH.
        destruct (target_ok tt ffld) eqn:Et; cbn [negb]; [|eauto].
        apply usage_target in Et. rewrite Et in IH. cbn [app] in IH.
        destruct e1 as [|e1 e1r].
        -- destruct Hb as [vs [Hv Hst]]. rewrite Hv, Hst.
           destruct IH as [Hbad|He]; [exfalso; apply Hbad; reflexivity|exact He].
        -- destruct Hb as [[e He]|[vs [e [Hv Hst]]]]; [rewrite He; eauto|rewrite Hv, Hst; eauto].
    + assert (Hfl : flag ++ [x] <> []) by (destruct flag; discriminate).
      specialize (IH _ _ _ _ _ Hr H (fun _ => Hfl)).
      destruct es; [destruct IH; congruence|right; eauto].
Qed.

(* induction over option values that reaches the elements of nested lists *)
Lemma oval_ind2 (P : oval -> Prop) :
  (forall z, P (OInt z)) -> (forall n, P (OUint n)) -> (forall f, P (OFloat f)) -> (forall s, P (OIdent s)) ->
  (forall s, P (OStr s)) ->
  (forall fs, Forall (fun p => P (snd p)) fs -> P (OMsg fs)) ->
  (forall es, Forall P es -> P (OList es)) ->
  forall v, P v.
Proof.
  intros H1 H2 H3 H4 H5 HM HL.
  fix IH 1. intros [z|n|f|s|s|fs|es]; [apply H1|apply H2|apply H3|apply H4|apply H5| |].
  - apply HM. revert fs. fix IHl 1. intros [|p r]; constructor; [apply IH|apply IHl].
  - apply HL. revert es. fix IHl 1. intros [|x r]; constructor; [apply IH|apply IHl].
Qed.

Definition value_agree (v : oval) : Prop :=
  lexable_b v = true -> forall fld inlit, vres_agree (field_value sch tt fld v inlit) (spec_value sch tt true fld v inlit).

Lemma value_agree_arg v : value_agree v -> match v with OList sl => Forall value_agree sl | _ => True end ->
  lexable_b v = true -> forall inlit f,
  arg_agree (fun g x => field_value sch tt g x inlit) (fun g x => spec_value sch tt true g x inlit) f v.
Proof.
  intros Hv Hl Hlex inlit f. destruct v; cbn [arg_agree]; try (apply Hv; exact Hlex).
  cbn [lexable_b] in Hlex. rewrite forallb_forall in Hlex. rewrite Forall_forall in Hl |- *.
  intros x Hx. apply (Hl x Hx). apply Hlex. exact Hx.
Qed.

Lemma value_agree_all : forall v, value_agree v /\ match v with OList sl => Forall value_agree sl | _ => True end.
Proof.
  apply oval_ind2.
  1-5: (intros a; split; [|exact I]; intros Hlex fld inlit; unfold vres_agree).
  - (* OInt *) cbn [field_value spec_value]. destruct (fkind fld) eqn:Ek;
      try (rewrite (scalar_eq_spec _ (OInt a) inlit (lexable_b_lexable _ Hlex));
           destruct (spec_scalar true _ (OInt a) inlit); cbn; eauto).
    + destruct (nth_error (senums sch) e); [|cbn; eauto].
      rewrite (enum_eq_spec _ (OInt a) inlit (lexable_b_lexable _ Hlex)). destruct (spec_enum _ _ _); cbn; eauto.
    + cbn. eauto.
  - (* OUint *) cbn [field_value spec_value]. destruct (fkind fld) eqn:Ek;
      try (rewrite (scalar_eq_spec _ (OUint a) inlit (lexable_b_lexable _ Hlex));
           destruct (spec_scalar true _ (OUint a) inlit); cbn; eauto).
    + destruct (nth_error (senums sch) e); [|cbn; eauto].
      rewrite (enum_eq_spec _ (OUint a) inlit (lexable_b_lexable _ Hlex)). destruct (spec_enum _ _ _); cbn; eauto.
    + cbn. eauto.
  - (* OFloat *) cbn [field_value spec_value]. destruct (fkind fld) eqn:Ek;
      try (rewrite (scalar_eq_spec _ (OFloat a) inlit I); destruct (spec_scalar true _ (OFloat a) inlit); cbn; eauto).
    + destruct (nth_error (senums sch) e); [|cbn; eauto].
      rewrite (enum_eq_spec _ (OFloat a) inlit I). destruct (spec_enum _ _ _); cbn; eauto.
    + cbn. eauto.
  - (* OIdent *) cbn [field_value spec_value]. destruct (fkind fld) eqn:Ek;
      try (rewrite (scalar_eq_spec _ (OIdent a) inlit I); destruct (spec_scalar true _ (OIdent a) inlit); cbn; eauto).
    + destruct (nth_error (senums sch) e); [|cbn; eauto].
      rewrite (enum_eq_spec _ (OIdent a) inlit I). destruct (spec_enum _ _ _); cbn; eauto.
    + cbn. eauto.
  - (* OStr *) cbn [field_value spec_value]. destruct (fkind fld) eqn:Ek;
      try (rewrite (scalar_eq_spec _ (OStr a) inlit I); destruct (spec_scalar true _ (OStr a) inlit); cbn; eauto).
    + destruct (nth_error (senums sch) e); [|cbn; eauto].
      rewrite (enum_eq_spec _ (OStr a) inlit I). destruct (spec_enum _ _ _); cbn; eauto.
    + cbn. eauto.
  - (* OMsg *) intros fs IHfs. split; [|exact I]. intros Hlex fld inlit. unfold vres_agree.
    cbn [field_value spec_value]. destruct (fkind fld) eqn:Ek;
      try (rewrite (scalar_eq_spec _ (OMsg fs) inlit I); destruct (spec_scalar true _ (OMsg fs) inlit); cbn; eauto).
    + destruct (nth_error (senums sch) e); [|cbn; eauto].
      rewrite (enum_eq_spec _ (OMsg fs) inlit I). destruct (spec_enum _ _ _); cbn; eauto.
    + destruct (lit_loop sch tt (fun f x => field_value sch tt f x true) m fs [] false []) as [ov es] eqn:El.
      assert (Hall : Forall (fun p => forall f, arg_agree (fun g x => field_value sch tt g x true)
                                                       (fun g x => spec_value sch tt true g x true) f (snd p)) fs).
      { cbn [lexable_b] in Hlex. rewrite forallb_forall in Hlex. rewrite Forall_forall in IHfs |- *.
        intros p Hp f. destruct (IHfs p Hp) as [Hv Hl]. apply value_agree_arg; auto. }
      pose proof (lit_loop_agree _ _ _ _ _ _ _ _ _ Hall El (fun H => match Bool.diff_false_true H with end)) as Hr.
      cbn [fst snd]. destruct es as [|e0 er].
      * destruct Hr as [_ [m' [-> Hs]]]. eauto.
      * destruct Hr as [Hbad|He]; [exfalso; apply Hbad; reflexivity|exact He].
  - (* OList *) intros es IHes. split.
    + intros Hlex fld inlit. unfold vres_agree. cbn [field_value spec_value]. destruct (fkind fld) eqn:Ek;
        try (rewrite (scalar_eq_spec _ (OList es) inlit I); destruct (spec_scalar true _ (OList es) inlit); cbn; eauto).
      * destruct (nth_error (senums sch) e); [|cbn; eauto].
        rewrite (enum_eq_spec _ (OList es) inlit I). destruct (spec_enum _ _ _); cbn; eauto.
      * cbn. eauto.
    + rewrite Forall_forall in IHes |- *. intros x Hx. apply (IHes x Hx).
Qed.

Lemma stmt_value_agree v inlit f : lexable_b v = true ->
  arg_agree (fun g x => field_value sch tt g x inlit) (fun g x => spec_value sch tt true g x inlit) f v.
Proof. intros H. destruct (value_agree_all v) as [Hv Hl]. apply value_agree_arg; assumption. Qed.
End Literals.

(* ================================================================== model = specification: statements *)
Section Statements.
Variable sch : schema.
Variable tt : N.
Hypothesis Hwf : schema_wf sch = true.

Definition spec_from (md : nat) (m : mval) (name : list npart) (v : oval) : res mval :=
  match resolve_path sch md name with
  | Err x => Err x
  | Ok (inter, (lmd, leaf)) =>
    if negb (forallb (fun p => target_ok tt (snd p)) inter && target_ok tt leaf) then Err ETargetType
    else
      match path_conflict sch inter lmd leaf m with
      | Some x => Err x
      | None =>
        match spec_values_with (fun g x => spec_value sch tt true g x false) leaf v with
        | Err x => Err x
        | Ok vs => Ok (merge_along inter leaf vs m)
        end
      end
  end.

Lemma spec_stmt_from T m st : spec_stmt sch tt true T m st = spec_from T m (sname st) (svalue st).
Proof. reflexivity. Qed.

Lemma explicit_has f m : fimplicit f = false -> has f m = present (fnum f) m.
Proof. unfold has, present. intros ->. destruct (mget (fnum f) m); reflexivity. Qed.

Lemma lookup_wf md nm f : lookup_part sch md nm = Ok f -> field_wf f = true.
Proof. apply all_fields_lookup. exact Hwf. Qed.
(* a message-typed field always has presence *)
Lemma wf_msg_explicit f sub : field_wf f = true -> fkind f = KMsg sub -> fimplicit f = false.
Proof.
  unfold field_wf. intros H Hk. rewrite Hk in H. cbn [is_kmsg] in H.
  destruct (fimplicit f); [|reflexivity]. cbn in H. rewrite andb_false_r in H. cbn in H.
  rewrite andb_false_r in H. discriminate.
Qed.

Lemma absent_sub_at n m : present n m = false -> sub_at n m = [].
Proof. unfold present, sub_at. destruct (mget n m); [discriminate|reflexivity]. Qed.

Lemma spec_values_single sv fld v vs :
  spec_values_with sv fld v = Ok vs -> frep fld = false -> exists x, vs = [x].
Proof.
  unfold spec_values_with. intros H Hr.
  destruct v; try (destruct (sv fld _); inversion H; eauto).
  rewrite Hr in H. discriminate.
Qed.

(* the leaf, outside a literal: storing = conflict test on the path end + put *)
Lemma store_conflict md fld vs m :
  field_wf fld = true -> (frep fld = false -> exists x, vs = [x]) ->
  spec_store false (msg_fields sch md) fld vs m =
  match path_conflict sch [] md fld m with Some x => Err x | None => Ok (put fld vs m) end.
Proof.
  intros Hw Hs. unfold spec_store, put. cbn [path_conflict]. destruct (frep fld) eqn:Er.
  - rewrite (wf_rep_no_oneof _ _ _ Hw Er). reflexivity.
  - destruct (Hs eq_refl) as [x ->]. cbn [negb andb].
    destruct (oneof_conflict (msg_fields sch md) fld m); [reflexivity|].
    destruct (present (fnum fld) m); reflexivity.
Qed.

Lemma resolve_path_cons2 md nm nm2 rest :
  resolve_path sch md (nm :: nm2 :: rest) =
  match lookup_part sch md nm with
  | Err x => Err x
  | Ok fld =>
    match fkind fld with
    | KMsg sub =>
      if frep fld then Err EPathRepeated
      else match resolve_path sch sub (nm2 :: rest) with
           | Err x => Err x
           | Ok (inter, leaf) => Ok ((md, fld) :: inter, leaf)
           end
    | _ => Err EPathNotMessage
    end
  end.
Proof. reflexivity. Qed.

(* one more name part in front *)
Lemma spec_from_cons md m nm nm2 rest v fld sub :
  lookup_part sch md nm = Ok fld -> fkind fld = KMsg sub -> frep fld = false ->
  forall m', spec_from md m (nm :: nm2 :: rest) v = Ok m' <->
    target_ok tt fld = true /\
    (present (fnum fld) m = true \/ oneof_conflict (msg_fields sch md) fld m = false) /\
    exists s, spec_from sub (sub_at (fnum fld) m) (nm2 :: rest) v = Ok s /\ m' = mset (fnum fld) (VM s) m.
Proof.
  intros Hl Hk Hr m'. unfold spec_from. rewrite resolve_path_cons2. rewrite Hl, Hk, Hr.
  destruct (resolve_path sch sub (nm2 :: rest)) as [[inter [lmd leaf]]|x].
  2:{ split; [discriminate|]. intros [_ [_ [s [Hs _]]]]. discriminate. }
  cbn [forallb snd path_conflict merge_along].
  destruct (target_ok tt fld); cbn [andb].
  2:{ cbn [negb]. split; [discriminate|]. intros [Ht _]. discriminate. }
  destruct (forallb (fun p => target_ok tt (snd p)) inter && target_ok tt leaf); cbn [negb].
  2:{ split; [discriminate|]. intros [_ [_ [s [Hs _]]]]. discriminate. }
  destruct (present (fnum fld) m); cbn [negb andb].
  - destruct (path_conflict sch inter lmd leaf (sub_at (fnum fld) m)).
    + split; [discriminate|]. intros [_ [_ [s [Hs _]]]]. discriminate.
    + destruct (spec_values_with _ leaf v) as [vs|x].
      * split; [intros H; inversion H; subst; split; [reflexivity|]; split; [auto|]; eauto|].
        intros [_ [_ [s [Hs ->]]]]. inversion Hs; subst. reflexivity.
      * split; [discriminate|]. intros [_ [_ [s [Hs _]]]]. discriminate.
  - destruct (oneof_conflict (msg_fields sch md) fld m).
    + split; [discriminate|]. intros [_ [[Hc|Hc] _]]; discriminate.
    + destruct (path_conflict sch inter lmd leaf (sub_at (fnum fld) m)).
      * split; [discriminate|]. intros [_ [_ [s [Hs _]]]]. discriminate.
      * destruct (spec_values_with _ leaf v) as [vs|x].
        -- split; [intros H; inversion H; subst; split; [reflexivity|]; split; [auto|]; eauto|].
           intros [_ [_ [s [Hs ->]]]]. inversion Hs; subst. reflexivity.
        -- split; [discriminate|]. intros [_ [_ [s [Hs _]]]]. discriminate.
Qed.

Lemma res_ok_or_err {A} (r : res A) : (exists a, r = Ok a) \/ (exists e, r = Err e).
Proof. destruct r; eauto. Qed.

Lemma interpret_field_agree v : lexable_b v = true ->
  forall name md m m' es,
  interpret_field sch tt md m name v = (m', es) ->
  match es with
  | [] => spec_from md m name v = Ok m'
  | _ :: _ => exists e, spec_from md m name v = Err e
  end.
Proof.
  intros Hlex. induction name as [|nm rest IH]; intros md m m' es H; cbn [interpret_field] in H.
  - inversion H; subst. unfold spec_from. cbn. eauto.
  - destruct (lookup_part sch md nm) as [fld|x] eqn:El.
    2:{ inversion H; subst. unfold spec_from. cbn [resolve_path]. rewrite El. eauto. }
    pose proof (lookup_wf _ _ _ El) as Hfw.
    destruct rest as [|nm2 rest2].
    + (* the last part *)
      destruct (set_option_field sch tt (msg_fields sch md) m fld v false) as [m2 e2] eqn:Es.
      inversion H; subst m' es. clear H. unfold set_option_field in Es.
      pose proof (set_field_agree _ _ _ _ _ _ _ _ _ Hfw (stmt_value_agree sch tt Hwf v false fld Hlex) Es) as Hb.
      unfold spec_from. cbn [resolve_path]. rewrite El. cbn [forallb andb].
      destruct (target_ok tt fld) eqn:Et; cbn [negb].
      2:{ assert (Hu : check_field_usage tt fld <> []).
          { intros Hc. apply usage_target in Hc. congruence. }
          destruct (check_field_usage tt fld); [congruence|]. cbn [app]. eauto. }
      apply usage_target in Et. rewrite Et. cbn [app].
      destruct e2 as [|e0 er].
      * destruct Hb as [vs [Hv Hst]]. rewrite Hv.
        rewrite (store_conflict md fld vs m Hfw) in Hst.
        2:{ intros Hr. eapply spec_values_single; eassumption. }
        destruct (path_conflict sch [] md fld m); [discriminate|]. cbn [merge_along]. exact Hst.
      * destruct Hb as [[e He]|[vs [e [Hv Hst]]]].
        -- rewrite He. destruct (path_conflict sch [] md fld m); eauto.
        -- rewrite Hv. rewrite (store_conflict md fld vs m Hfw) in Hst.
           2:{ intros Hr. eapply spec_values_single; eassumption. }
           destruct (path_conflict sch [] md fld m); [eauto|discriminate].
    + (* an intermediate part *)
      destruct (fkind fld) as [| | | | | | | | | | | | | | | |sub] eqn:Ek;
        try solve [inversion H; subst; destruct (check_field_usage tt fld); cbn [app];
                   unfold spec_from; rewrite resolve_path_cons2, El, Ek; eauto].
      destruct (frep fld) eqn:Er.
      { inversion H; subst. destruct (check_field_usage tt fld); cbn [app];
          unfold spec_from; rewrite resolve_path_cons2, El, Ek, Er; eauto. }
      pose proof (spec_from_cons md m nm nm2 rest2 v fld sub El Ek Er) as Hc.
      rewrite (explicit_has _ _ (wf_msg_explicit _ _ Hfw Ek)) in H.
      assert (Hstep : forall s' e', interpret_field sch tt sub (sub_at (fnum fld) m) (nm2 :: rest2) v = (s', e') ->
                (present (fnum fld) m = true \/ oneof_conflict (msg_fields sch md) fld m = false) ->
                match check_field_usage tt fld ++ e' with
                | [] => spec_from md m (nm :: nm2 :: rest2) v = Ok (mset (fnum fld) (VM s') m)
                | _ :: _ => exists e, spec_from md m (nm :: nm2 :: rest2) v = Err e
                end).
      { intros s' e' Hi Hpc. specialize (IH _ _ _ _ Hi).
        destruct (check_field_usage tt fld) as [|u ur] eqn:Eu.
        - apply usage_target in Eu. cbn [app]. destruct e' as [|e0 er].
          + apply Hc. split; [exact Eu|]. split; [exact Hpc|]. eauto.
          + destruct (res_ok_or_err (spec_from md m (nm :: nm2 :: rest2) v)) as [[a Ha]|He]; [|exact He].
            apply Hc in Ha. destruct Ha as [_ [_ [s [Hs _]]]]. destruct IH as [e He]. congruence.
        - cbn [app]. destruct (res_ok_or_err (spec_from md m (nm :: nm2 :: rest2) v)) as [[a Ha]|He]; [|exact He].
          apply Hc in Ha. destruct Ha as [Ht _]. apply usage_target in Ht. congruence. }
      destruct (present (fnum fld) m) eqn:Ep.
      * destruct (interpret_field sch tt sub (sub_at (fnum fld) m) (nm2 :: rest2) v) as [s' e'] eqn:Ei.
        inversion H; subst. apply Hstep; auto.
      * destruct (oneof_conflict (msg_fields sch md) fld m) eqn:Eo.
        -- injection H as Hm He. subst m' es.
           assert (Hne : exists a b, check_field_usage tt fld ++ [EOneof] = a :: b)
             by (destruct (check_field_usage tt fld); cbn; eauto).
           destruct Hne as [a [b ->]].
           destruct (res_ok_or_err (spec_from md m (nm :: nm2 :: rest2) v)) as [[a' Ha]|He]; [|exact He].
           apply Hc in Ha. destruct Ha as [_ [[Hp|Hp] _]]; congruence.
        -- rewrite <- (absent_sub_at _ _ Ep) in H.
           destruct (interpret_field sch tt sub (sub_at (fnum fld) m) (nm2 :: rest2) v) as [s' e'] eqn:Ei.
           inversion H; subst. apply Hstep; auto.
Qed.
End Statements.

(* ================================================================== model = specification: the run *)
Section Run.
Variable sch : schema.
Variable tt : N.
Hypothesis Hwf : schema_wf sch = true.

Definition this_phase (c : bool) (st : stmt) : bool := Bool.eqb (is_custom st) c.

Lemma pass_strict_spec c T : forall uo m,
  stmts_lexable uo = true ->
  match pass_strict sch tt c T m uo with
  | Ok (m', _) => spec_fold sch tt true T m (filter (this_phase c) uo) = Ok m'
  | Err _ => exists e, spec_fold sch tt true T m (filter (this_phase c) uo) = Err e
  end.
Proof.
  induction uo as [|st r IH]; intros m Hl; cbn [pass_strict filter].
  - reflexivity.
  - cbn [stmts_lexable forallb] in Hl. apply andb_prop in Hl. destruct Hl as [Hst Hr].
    change (Bool.eqb (is_custom st) c) with (this_phase c st). destruct (this_phase c st); cbn [negb].
    + destruct (interpret_field sch tt T m (sname st) (svalue st)) as [m1 es] eqn:Ei.
      pose proof (interpret_field_agree sch tt Hwf _ Hst _ _ _ _ _ Ei) as Ha.
      cbn [spec_fold]. rewrite spec_stmt_from. destruct es as [|e0 er].
      * rewrite Ha. apply IH. exact Hr.
      * destruct Ha as [e He]. rewrite He. eauto.
    + specialize (IH m Hr). destruct (pass_strict sch tt c T m r) as [[m2 rem2]|x]; exact IH.
Qed.

Lemma spec_fold_app T : forall a b m,
  spec_fold sch tt true T m (a ++ b) =
  match spec_fold sch tt true T m a with Ok m1 => spec_fold sch tt true T m1 b | Err x => Err x end.
Proof.
  induction a as [|st r IH]; intros b m; cbn [app spec_fold]; [reflexivity|].
  destruct (spec_stmt sch tt true T m st); [apply IH|reflexivity].
Qed.

Lemma filter_filter_same {A} (f : A -> bool) l : filter f (filter f l) = filter f l.
Proof.
  induction l as [|a r IH]; [reflexivity|]. cbn [filter]. destruct (f a) eqn:E; [|exact IH].
  cbn [filter]. rewrite E, IH. reflexivity.
Qed.

Lemma stmts_lexable_filter f l : stmts_lexable l = true -> stmts_lexable (filter f l) = true.
Proof.
  unfold stmts_lexable. rewrite !forallb_forall. intros H x Hx. apply filter_In in Hx. apply H. tauto.
Qed.

(* C20: the strict run and protoc's interpretation end in the same options message, or both reject *)
Lemma interpret_eq_protoc_lemma T m0 stmts :
  stmts_lexable stmts = true ->
  same_outcome (interpret_strict sch tt T m0 stmts) (protoc_interpret sch tt true T m0 stmts).
Proof.
  intros Hl. unfold interpret_strict, protoc_interpret. rewrite spec_fold_app.
  pose proof (pass_strict_spec false T stmts m0 Hl) as H1.
  assert (Ef1 : filter (this_phase false) stmts = filter (fun st => negb (is_custom st)) stmts).
  { apply filter_ext. intros st. unfold this_phase. destruct (is_custom st); reflexivity. }
  rewrite Ef1 in H1.
  destruct (pass_strict sch tt false T m0 stmts) as [[m1 r1]|x] eqn:E1.
  - rewrite H1. pose proof (pass_strict_remain _ _ _ _ _ _ _ _ E1) as Hr1.
    assert (Er1 : r1 = filter is_custom stmts).
    { rewrite Hr1. apply filter_ext. intros st. unfold other_phase. destruct (is_custom st); reflexivity. }
    subst r1. rewrite Er1.
    pose proof (pass_strict_spec true T (filter is_custom stmts) m1 (stmts_lexable_filter _ _ Hl)) as H2.
    assert (Ef2 : filter (this_phase true) (filter is_custom stmts) = filter is_custom stmts).
    { rewrite <- (filter_filter_same is_custom stmts) at 2. apply filter_ext. intros st. unfold this_phase.
      destruct (is_custom st); reflexivity. }
    rewrite Ef2 in H2.
    destruct (pass_strict sch tt true T m1 (filter is_custom stmts)) as [[m2 r2]|x].
    + rewrite H2. reflexivity.
    + destruct H2 as [e He]. rewrite He. exact I.
  - destruct H1 as [e He]. rewrite He. exact I.
Qed.
End Run.

(* Historical (before f7db43f0): on a proto3 field without presence, setting the zero value did not count as set -
   the test was Has alone - so a second statement for the same field was accepted; protoc rejects it.  Now the
   strict run rejects it like the specification. *)
Definition ip_field : field := mkField "a" 1%N KInt32 false None true [].
Definition ip_schema : schema :=
  mkSchema [mkMsg []; mkMsg [ip_field]] []
           [mkExt "foo" 0%nat (mkField "foo" 50001%N (KMsg 1) false None false [])].
Definition ip_stmts : list stmt :=
  [mkStmt [PExt "foo"; PField "a"] (OUint 0); mkStmt [PExt "foo"; PField "a"] (OUint 5)].

Lemma set_twice_without_presence_lemma :
  is_set_old ip_field [(1%N, VS (SInt 0))] = false /\ is_set false ip_field [(1%N, VS (SInt 0))] = true /\
  interpret_strict ip_schema 3%N 0%nat [] ip_stmts = Err EAlreadySet /\
  protoc_interpret ip_schema 3%N true 0%nat [] ip_stmts = Err EAlreadySet.
Proof. repeat split; vm_compute; reflexivity. Qed.

(* Historical (before bb1a10d1): inside a message literal a float field did not take the word Infinity (nor INF,
   infinity, NaN, ...), which protoc's text format reads in any letter case.  Now it does. *)
Definition fw_schema : schema :=
  mkSchema [mkMsg []; mkMsg [mkField "f" 1%N KFloat false None false []]] []
           [mkExt "foo" 0%nat (mkField "foo" 50001%N (KMsg 1) false None false [])].
Definition fw_stmts : list stmt := [mkStmt [PExt "foo"] (OMsg [(LField "f", OIdent "Infinity")])].

Lemma float_words_lemma :
  float_ident_old "Infinity" = None /\ float_word true true "Infinity" = Some (FInf false) /\
  exists m, interpret_strict fw_schema 3%N 0%nat [] fw_stmts = Ok (m, []) /\
            protoc_interpret fw_schema 3%N true 0%nat [] fw_stmts = Ok m.
Proof.
  split; [reflexivity|]. split; [reflexivity|]. eexists. split; vm_compute; reflexivity.
Qed.

(* Since 36246e7a an extension of another message inside a message literal is an error like in an option name
   (before, the reflective access panicked). *)
Lemma foreign_extension_in_literal_lemma :
  let sch := mkSchema [mkMsg []; mkMsg []; mkMsg []] []
               [mkExt "foo" 0%nat (mkField "foo" 50001%N (KMsg 1) false None false []);
                mkExt "pe" 2%nat (mkField "pe" 100%N KInt32 false None false [])] in
  interpret_strict sch 3%N 0%nat [] [mkStmt [PExt "foo"] (OMsg [(LExt "pe", OUint 1)])] = Err EWrongExtendee.
Proof. vm_compute. reflexivity. Qed.

(* ================================================================== unlinked interpretation *)
(* Transfer of a successful interpretation between two schemas that have the same messages and enums and
   agree on the lookups the statement makes. *)
Section Transfer.
Variables schA schB : schema.
Variable tt : N.
Hypothesis Hmsgs : smsgs schA = smsgs schB.
Hypothesis Henums : senums schA = senums schB.
Variable okl : lname -> bool.
Variable okp : npart -> bool.
Hypothesis Hokl : forall nm md (r : field), okl nm = true -> lit_field schA md nm = Ok r -> lit_field schB md nm = Ok r.
Hypothesis Hokp : forall nm md f, okp nm = true -> lookup_part schA md nm = Ok f -> lookup_part schB md nm = Ok f.

Fixpoint names_ok (v : oval) : bool :=
  match v with
  | OMsg fs => forallb (fun p => okl (fst p) && names_ok (snd p)) fs
  | OList es => forallb names_ok es
  | _ => true
  end.

Lemma msg_fields_AB md : msg_fields schA md = msg_fields schB md.
Proof. unfold msg_fields. rewrite Hmsgs. reflexivity. Qed.

Definition fv_transfer (fvA fvB : field -> oval -> option val * errs) (f : field) (x : oval) : Prop :=
  forall ov, fvA f x = (ov, []) -> fvB f x = (ov, []).

Definition arg_transfer (fvA fvB : field -> oval -> option val * errs) (f : field) (v : oval) : Prop :=
  match v with OList sl => Forall (fv_transfer fvA fvB f) sl | _ => fv_transfer fvA fvB f v end.

Lemma list_loop_transfer fvA fvB fld : forall sl m flag m',
  Forall (fv_transfer fvA fvB fld) sl ->
  list_loop fvA fld sl m flag = (m', []) -> list_loop fvB fld sl m flag = (m', []).
Proof.
  induction sl as [|it r IH]; intros m flag m' Hall H; cbn [list_loop] in *; [exact H|].
  inversion Hall as [|? ? Hit Hr]; subst.
  assert (Hflag : forall mm ff mm', list_loop fvA fld r mm ff = (mm', []) -> ff = []).
  { clear. induction r as [|x r IHr]; intros mm ff mm' H; cbn [list_loop] in H; [inversion H; reflexivity|].
    destruct (fvA fld x) as [ov e]. destruct ov; [|injection H as _ He; apply app_nil_inv in He; tauto].
    apply IHr in H. apply app_nil_inv in H. tauto. }
  destruct (fvA fld it) as [ov e] eqn:Ef. destruct ov as [x|].
  - pose proof (Hflag _ _ _ H) as He. apply app_nil_inv in He. destruct He as [-> ->].
    rewrite (Hit _ Ef). cbn [app]. apply IH; assumption.
  - injection H as Hm He. apply app_nil_inv in He. destruct He as [-> ->].
    rewrite (Hit _ Ef). subst m'. reflexivity.
Qed.

Lemma set_field_transfer fvA fvB fields inlit m fld v m' :
  arg_transfer fvA fvB fld v ->
  set_option_field_with fvA fields inlit m fld v = (m', []) ->
  set_option_field_with fvB fields inlit m fld v = (m', []).
Proof.
  intros Ht H. unfold set_option_field_with, arg_transfer in *.
  destruct v;
    try (destruct (fvA fld _) as [ov e] eqn:Ef;
         assert (He : e = []) by
           (destruct ov; [|inversion H; reflexivity];
            destruct (oneof_conflict fields fld m); [injection H as _ Hx; apply app_nil_inv in Hx; destruct Hx; discriminate|];
            destruct (frep fld); [inversion H; reflexivity|];
            destruct (is_set inlit fld m); [injection H as _ Hx; apply app_nil_inv in Hx; destruct Hx; discriminate|inversion H; reflexivity]);
         subst e; rewrite (Ht _ Ef); exact H).
  destruct (negb (frep fld)); [discriminate|].
  apply (list_loop_transfer fvA fvB); assumption.
Qed.

Lemma lit_loop_flag sch fv md : forall fs m had flag ov,
  lit_loop sch tt fv md fs m had flag = (ov, []) -> flag = [].
Proof.
  induction fs as [|[nm fv1] r IH]; intros m had flag ov H; cbn [lit_loop] in H.
  - destruct had; inversion H; reflexivity.
  - destruct (lit_field sch md nm) as [ffld|x].
    + destruct (set_option_field_with fv (msg_fields sch md) true m ffld fv1) as [m1 e1].
      apply IH in H. apply app_nil_inv in H. tauto.
    + apply IH in H. apply app_nil_inv in H. destruct H; discriminate.
Qed.

Lemma lit_loop_transfer fvA fvB md : forall fs m had flag ov,
  Forall (fun p => okl (fst p) = true /\ forall f, arg_transfer fvA fvB f (snd p)) fs ->
  lit_loop schA tt fvA md fs m had flag = (ov, []) ->
  lit_loop schB tt fvB md fs m had flag = (ov, []).
Proof.
  induction fs as [|[nm fv1] r IH]; intros m had flag ov Hall H; cbn [lit_loop] in *.
  - rewrite <- msg_fields_AB. exact H.
  - inversion Hall as [|? ? [Hn Hp] Hr]; subst. cbn [fst snd] in Hn, Hp.
    destruct (lit_field schA md nm) as [ffld|x] eqn:El.
    + rewrite (Hokl _ _ _ Hn El). rewrite <- msg_fields_AB.
      destruct (set_option_field_with fvA (msg_fields schA md) true m ffld fv1) as [m1 e1] eqn:Es.
      pose proof (lit_loop_flag _ _ _ _ _ _ _ _ H) as Hf. apply app_nil_inv in Hf. destruct Hf as [-> Hf].
      apply app_nil_inv in Hf. destruct Hf as [Hu ->].
      rewrite (set_field_transfer fvA fvB _ _ _ ffld fv1 _ (Hp ffld) Es). apply IH; assumption.
    + pose proof (lit_loop_flag _ _ _ _ _ _ _ _ H) as Hf. apply app_nil_inv in Hf. destruct Hf; discriminate.
Qed.

Definition value_transfer (v : oval) : Prop :=
  names_ok v = true -> forall fld inlit,
  fv_transfer (fun f x => field_value schA tt f x inlit) (fun f x => field_value schB tt f x inlit) fld v.

Lemma value_transfer_all : forall v, value_transfer v /\ match v with OList sl => Forall value_transfer sl | _ => True end.
Proof.
  apply oval_ind2.
  1-5: (intros a; split; [|exact I]; intros _ fld inlit ov; cbn [field_value]; rewrite Henums; exact (fun H => H)).
  - intros fs IHfs. split; [|exact I]. intros Hn fld inlit ov. cbn [field_value]. rewrite Henums.
    destruct (fkind fld); try exact (fun H => H).
    apply lit_loop_transfer. cbn [names_ok] in Hn. rewrite forallb_forall in Hn.
    rewrite Forall_forall in IHfs |- *. intros p Hp. specialize (Hn p Hp). apply andb_prop in Hn.
    destruct Hn as [Hn1 Hn2]. split; [exact Hn1|]. intros f. destruct (IHfs p Hp) as [Hv Hl].
    unfold arg_transfer. destruct (snd p) eqn:Esp; try (apply Hv; exact Hn2).
    cbn [names_ok] in Hn2. rewrite forallb_forall in Hn2. rewrite Forall_forall in Hl |- *.
    intros x Hx. apply (Hl x Hx). apply Hn2. exact Hx.
  - intros es IHes. split.
    + intros _ fld inlit ov. cbn [field_value]. rewrite Henums. exact (fun H => H).
    + rewrite Forall_forall in IHes |- *. intros x Hx. apply (IHes x Hx).
Qed.

Lemma stmt_value_transfer v f inlit : names_ok v = true ->
  arg_transfer (fun g x => field_value schA tt g x inlit) (fun g x => field_value schB tt g x inlit) f v.
Proof.
  intros Hv. unfold arg_transfer. destruct (value_transfer_all v) as [Hv1 Hv2].
  destruct v; try (apply Hv1; exact Hv).
  cbn [names_ok] in Hv. rewrite forallb_forall in Hv. rewrite Forall_forall in Hv2 |- *.
  intros x Hx. apply (Hv2 x Hx). apply Hv. exact Hx.
Qed.

Lemma interpret_field_transfer v : names_ok v = true ->
  forall name md m m', forallb okp name = true ->
  interpret_field schA tt md m name v = (m', []) -> interpret_field schB tt md m name v = (m', []).
Proof.
  intros Hv. induction name as [|nm rest IH]; intros md m m' Hn H; cbn [interpret_field] in *; [exact H|].
  cbn [forallb] in Hn. apply andb_prop in Hn. destruct Hn as [Hn1 Hn2].
  destruct (lookup_part schA md nm) as [fld|x] eqn:El; [|discriminate].
  rewrite (Hokp _ _ _ Hn1 El). rewrite <- msg_fields_AB.
  destruct rest as [|nm2 rest2].
  - destruct (set_option_field schA tt (msg_fields schA md) m fld v false) as [m2 e2] eqn:Es.
    injection H as Hm He. apply app_nil_inv in He. destruct He as [Hu ->]. subst m2.
    unfold set_option_field in *.
    rewrite (set_field_transfer _ _ _ _ _ _ _ _ (stmt_value_transfer v fld false Hv) Es).
    rewrite Hu. reflexivity.
  - destruct (fkind fld); try (injection H as _ He; apply app_nil_inv in He; destruct He; discriminate).
    destruct (frep fld); [injection H as _ He; apply app_nil_inv in He; destruct He; discriminate|].
    destruct (has fld m).
    + destruct (interpret_field schA tt m0 (sub_at (fnum fld) m) (nm2 :: rest2) v) as [s' e'] eqn:Ei.
      injection H as Hm He. apply app_nil_inv in He. destruct He as [Hu ->].
      rewrite (IH _ _ _ Hn2 Ei). rewrite Hu. subst m'. reflexivity.
    + destruct (oneof_conflict (msg_fields schA md) fld m);
        [injection H as _ He; apply app_nil_inv in He; destruct He; discriminate|].
      destruct (interpret_field schA tt m0 [] (nm2 :: rest2) v) as [s' e'] eqn:Ei.
      injection H as Hm He. apply app_nil_inv in He. destruct He as [Hu ->].
      rewrite (IH _ _ _ Hn2 Ei). rewrite Hu. subst m'. reflexivity.
Qed.
End Transfer.

Lemma names_ok_true okl : (forall n, okl n = true) -> forall v, names_ok okl v = true.
Proof.
  intros Hok. apply oval_ind2; try reflexivity.
  - intros fs IH. cbn [names_ok]. apply forallb_forall. rewrite Forall_forall in IH.
    intros p Hp. rewrite Hok, (IH p Hp). reflexivity.
  - intros es IH. cbn [names_ok]. apply forallb_forall. rewrite Forall_forall in IH. exact IH.
Qed.

Lemma names_ok_ext_free : forall v, value_ext_free v = true -> names_ok lname_is_field v = true.
Proof.
  apply (oval_ind2 (fun v => value_ext_free v = true -> names_ok lname_is_field v = true)).
  1-5: (intros; reflexivity).
  - intros fs IH. cbn [names_ok value_ext_free]. intros H. apply forallb_forall.
    rewrite forallb_forall in H. rewrite Forall_forall in IH.
    intros p Hp. specialize (H p Hp). apply andb_prop in H. destruct H as [H1 H2].
    rewrite H1, (IH p Hp H2). reflexivity.
  - intros es IH. cbn [names_ok value_ext_free]. intros H. apply forallb_forall.
    rewrite forallb_forall in H. rewrite Forall_forall in IH.
    intros x Hx. apply (IH x Hx). apply H. exact Hx.
Qed.

Lemma msg_fields_no_exts sch md : msg_fields (no_exts sch) md = msg_fields sch md.
Proof. reflexivity. Qed.

(* C21, per statement: whatever unlinked interpretation does interpret, linked interpretation of the same
   statement in the same message interprets to the same result *)
Lemma unlinked_statement_lemma sch tt T m name v m' :
  interpret_field (no_exts sch) tt T m name v = (m', []) -> interpret_field sch tt T m name v = (m', []).
Proof.
  apply (interpret_field_transfer (no_exts sch) sch tt eq_refl eq_refl (fun _ => true) (fun _ => true)).
  - intros nm md r _. destruct nm as [s|s]; cbn [lit_field]; [exact (fun H => H)|]. cbn. discriminate.
  - intros nm md f _. destruct nm as [s|s]; cbn [lookup_part]; [exact (fun H => H)|]. cbn. discriminate.
  - apply names_ok_true. reflexivity.
  - clear. induction name; [reflexivity|exact IHname].
Qed.

(* a statement that mentions no extension is interpreted alike with and without the extensions *)
Lemma ext_free_statement_lemma sch tt T m st m' :
  stmt_ext_free st = true ->
  interpret_field sch tt T m (sname st) (svalue st) = (m', []) ->
  interpret_field (no_exts sch) tt T m (sname st) (svalue st) = (m', []).
Proof.
  intros Hf. unfold stmt_ext_free in Hf. apply andb_prop in Hf. destruct Hf as [Hn Hv].
  apply (interpret_field_transfer sch (no_exts sch) tt eq_refl eq_refl lname_is_field npart_is_field).
  - intros nm md r Hok. destruct nm as [s|s]; [exact (fun H => H)|discriminate].
  - intros nm md f Hok. destruct nm as [s|s]; [exact (fun H => H)|discriminate].
  - apply names_ok_ext_free. exact Hv.
  - exact Hn.
Qed.

Section UnlinkedRun.
Variable sch : schema.
Variable tt : N.

Lemma pass1_unlinked T : forall stmts m m1 r1,
  noncustom_ext_free stmts = true ->
  pass_strict sch tt false T m stmts = Ok (m1, r1) ->
  exists done, pass_lenient (no_exts sch) tt false T m stmts = (m1, r1, done).
Proof.
  induction stmts as [|st r IH]; intros m m1 r1 Hf H; cbn [pass_strict] in H; cbn [pass_lenient].
  - inversion H; eauto.
  - cbn [noncustom_ext_free forallb] in Hf. apply andb_prop in Hf. destruct Hf as [Hst Hr].
    destruct (is_custom st) eqn:Ec; cbn [Bool.eqb negb orb] in *.
    + destruct (pass_strict sch tt false T m r) as [[m2 rem2]|x] eqn:E2; [|discriminate].
      inversion H; subst. destruct (IH _ _ _ Hr E2) as [d Hd]. rewrite Hd. eauto.
    + destruct (interpret_field sch tt T m (sname st) (svalue st)) as [m2 [|x es]] eqn:Ei; [|discriminate].
      rewrite (ext_free_statement_lemma _ _ _ _ _ _ Hst Ei).
      destruct (IH _ _ _ Hr H) as [d Hd]. rewrite Hd. eauto.
Qed.

Lemma pass2_unlinked T : forall r1 m,
  forallb is_custom r1 = true -> pass_lenient (no_exts sch) tt true T m r1 = (m, r1, []).
Proof.
  induction r1 as [|st r IH]; intros m Hc; cbn [pass_lenient]; [reflexivity|].
  cbn [forallb] in Hc. apply andb_prop in Hc. destruct Hc as [Hst Hr]. rewrite Hst. cbn [Bool.eqb negb].
  unfold is_custom in Hst. destruct (sname st) as [|[s|s] rest] eqn:En; try discriminate.
  cbn [interpret_field lookup_part no_exts sexts ext_by_name].
  rewrite (IH m Hr). reflexivity.
Qed.

(* C21, for the run: when the strict interpretation succeeds and the non-custom options mention no extension,
   unlinked interpretation yields exactly the message the strict interpretation has after its first pass (every
   non-custom option with its strict value) and keeps exactly the custom options, in order *)
Lemma unlinked_run_lemma T m0 stmts m rem :
  noncustom_ext_free stmts = true ->
  interpret_strict sch tt T m0 stmts = Ok (m, rem) ->
  exists m1 done, pass_strict sch tt false T m0 stmts = Ok (m1, filter is_custom stmts) /\
                  interpret_unlinked sch tt T m0 stmts = (m1, filter is_custom stmts, done).
Proof.
  intros Hf H. unfold interpret_strict in H.
  destruct (pass_strict sch tt false T m0 stmts) as [[m1 r1]|x] eqn:E1; [|discriminate].
  pose proof (pass_strict_remain _ _ _ _ _ _ _ _ E1) as Hr1.
  assert (Er1 : r1 = filter is_custom stmts).
  { rewrite Hr1. apply filter_ext. intros st. unfold other_phase. destruct (is_custom st); reflexivity. }
  subst r1. rewrite Er1 in *.
  destruct (pass1_unlinked _ _ _ _ _ Hf E1) as [d1 Hd1]. exists m1, (d1 ++ []). split; [reflexivity|].
  unfold interpret_unlinked, interpret_lenient. rewrite Hd1.
  rewrite pass2_unlinked; [reflexivity|].
  rewrite forallb_forall. intros st Hst. apply filter_In in Hst. tauto.
Qed.
End UnlinkedRun.

(* ================================================================== statements as they appear in Props *)
Lemma uninterpreted_kept_verbatim_full_lemma : forall sch tt T m0 stmts m rem done,
  interpret_lenient sch tt T m0 stmts = (m, rem, done) ->
  (exists m1, ref_walk sch tt T m0 m1 stmts = (m1, m, rem)) /\ subseq rem stmts.
Proof.
  intros sch tt T m0 stmts m rem done H.
  destruct (uninterpreted_kept_verbatim_lemma sch tt T m0 stmts m rem done H) as [m1 Hw].
  split; [exists m1; exact Hw|exact (ref_walk_subseq sch tt T stmts m0 m1 m1 m rem Hw)].
Qed.
