(* Proofs about the option interpreter model (Model/Options.v) and its relation to the protoc
   specification (Model/ProtocOptions.v). *)
From Coq Require Import List ZArith NArith Bool String Lia.
From PV Require Import Model.Options Model.ProtocOptions.
Import ListNotations.
Open Scope Z_scope.

(* ================================================================== scalar coercion *)
Lemma int_range_cases k lo hi :
  int_range k = Some (lo, hi) ->
  (k = KInt32 \/ k = KSint32 \/ k = KSfixed32) /\ lo = - 2 ^ 31 /\ hi = 2 ^ 31 - 1 \/
  (k = KInt64 \/ k = KSint64 \/ k = KSfixed64) /\ lo = - 2 ^ 63 /\ hi = 2 ^ 63 - 1 \/
  (k = KUint32 \/ k = KFixed32) /\ lo = 0 /\ hi = 2 ^ 32 - 1 \/
  (k = KUint64 \/ k = KFixed64) /\ lo = 0 /\ hi = 2 ^ 64 - 1.
Proof.
  destruct k; cbn; intros H; inversion H; subst; clear H; tauto.
Qed.

(* an integer literal is accepted for an integer kind iff its mathematical value is in the range of
   the kind, and then the stored value is that value *)
Lemma scalar_coercion_ranges_lemma k lo hi v z inlit :
  int_range k = Some (lo, hi) -> num_value v = Some z -> lexable v ->
  scalar_field_value k v inlit = if (lo <=? z) && (z <=? hi) then Ok (SInt z) else Err ERange.
Proof.
  intros Hr Hv Hl.
  destruct v; cbn in Hv; inversion Hv; subst; clear Hv; cbn in Hl;
    apply int_range_cases in Hr;
    destruct Hr as [[Hk [-> ->]]|[[Hk [-> ->]]|[[Hk [-> ->]]|[Hk [-> ->]]]]];
    repeat (destruct Hk as [Hk|Hk]); subst k; cbn [scalar_field_value];
    unfold max_int32, min_int32, max_uint32, max_int64;
    repeat match goal with
           | |- context [?a >? ?b] => rewrite (Z.gtb_ltb a b)
           end;
    repeat match goal with
           | |- context [?a <? ?b] => destruct (Z.ltb_spec a b)
           | |- context [?a <=? ?b] => destruct (Z.leb_spec a b)
           end; cbn; try reflexivity; try lia.
Qed.

(* anything that is not an integer literal is rejected for an integer kind (floats are not truncated) *)
Lemma noninteger_rejected_lemma k lo hi v inlit :
  int_range k = Some (lo, hi) -> num_value v = None -> scalar_field_value k v inlit = Err EType.
Proof.
  intros Hr Hv. apply int_range_cases in Hr.
  destruct Hr as [[Hk _]|[[Hk _]|[[Hk _]|[Hk _]]]]; repeat (destruct Hk as [Hk|Hk]); subst k;
    destruct v; cbn in Hv; try discriminate; reflexivity.
Qed.

(* bool: outside a message literal exactly the identifiers true and false *)
Lemma bool_coercion_lemma v b :
  scalar_field_value KBool v false = Ok (SBool b) <-> v = OIdent (if b then "true" else "false")%string.
Proof.
  split.
  - destruct v; cbn; try discriminate.
    destruct (String.eqb_spec s "true"); [intros H; inversion H; subst; reflexivity|].
    destruct (String.eqb_spec s "false"); [intros H; inversion H; subst; reflexivity|discriminate].
  - intros ->. destruct b; reflexivity.
Qed.

(* ---- integers to float / double ---- *)
Definition fl_denotes (f : fl) (z : Z) : Prop :=
  match f with FFin m e => 0 <= e /\ m * 2 ^ e = z | _ => False end.

Lemma pos_ctz_spec p : let '(r, k) := pos_ctz p in 0 <= k /\ Zpos p = Zpos r * 2 ^ k.
Proof.
  induction p as [p IH|p IH|]; cbn [pos_ctz].
  - split; [lia|]. rewrite Z.pow_0_r. lia.
  - destruct (pos_ctz p) as [r k]. destruct IH as [Hk He]. split; [lia|].
    rewrite Z.pow_add_r by lia. change (Z.pos p~0) with (2 * Z.pos p). rewrite He. change (2 ^ 1) with 2. ring.
  - split; [lia|]. reflexivity.
Qed.

Lemma norm_fin_denotes m e : 0 <= e -> fl_denotes (norm_fin m e) (m * 2 ^ e).
Proof.
  intros He. destruct m as [|p|p]; cbn [norm_fin].
  - cbn. split; lia.
  - pose proof (pos_ctz_spec p) as H. destruct (pos_ctz p) as [r k]. destruct H as [Hk Hp].
    cbn [fl_denotes]. split; [lia|]. rewrite Hp, Z.pow_add_r by lia. ring.
  - pose proof (pos_ctz_spec p) as H. destruct (pos_ctz p) as [r k]. destruct H as [Hk Hp].
    cbn [fl_denotes]. split; [lia|]. rewrite Z.pow_add_r by lia.
    change (Z.neg p) with (- Z.pos p). change (Z.neg r) with (- Z.pos r). rewrite Hp. ring.
Qed.

Lemma round_fin_exact prec emin emax z :
  0 < prec -> emin <= 0 -> Z.abs z < 2 ^ (prec - 1) * 2 -> prec <= emax ->
  fl_denotes (round_fin prec emin emax z 0) z.
Proof.
  intros Hp Hemin Hz Hemax.
  destruct (Z.eq_dec z 0) as [->|Hnz]; [cbn; split; lia|].
  assert (Hlog : Z.log2 (Z.abs z) < prec).
  { apply Z.log2_lt_pow2; [lia|]. replace prec with (prec - 1 + 1) at 1 by lia.
    rewrite Z.pow_add_r by lia. change (2 ^ 1) with 2. lia. }
  assert (Hge : 0 <= Z.log2 (Z.abs z)) by apply Z.log2_nonneg.
  assert (Hr : round_fin prec emin emax z 0 = norm_fin z 0).
  { unfold round_fin. destruct z as [|q|q]; [congruence| |]; cbv zeta; rewrite Z.add_0_r.
    - assert (E1 : (Z.max (Z.log2 (Z.abs (Z.pos q)) - (prec - 1)) emin <=? 0) = true) by (apply Z.leb_le; lia).
      assert (E2 : (emax <=? Z.log2 (Z.abs (Z.pos q))) = false) by (apply Z.leb_gt; lia).
      rewrite E1, E2. reflexivity.
    - assert (E1 : (Z.max (Z.log2 (Z.abs (Z.neg q)) - (prec - 1)) emin <=? 0) = true) by (apply Z.leb_le; lia).
      assert (E2 : (emax <=? Z.log2 (Z.abs (Z.neg q))) = false) by (apply Z.leb_gt; lia).
      rewrite E1, E2. reflexivity. }
  rewrite Hr. pose proof (norm_fin_denotes z 0 ltac:(lia)) as H.
  rewrite Z.pow_0_r, Z.mul_1_r in H. exact H.
Qed.

Lemma int_to_float_lemma k v z inlit :
  (k = KFloat \/ k = KDouble) -> num_value v = Some z ->
  scalar_field_value k v inlit = Ok (SFloat (if match k with KFloat => true | _ => false end then to_f32 z 0 else to_f64 z 0)) /\
  (k = KFloat -> Z.abs z < 2 ^ 24 -> fl_denotes (to_f32 z 0) z) /\
  (k = KDouble -> Z.abs z < 2 ^ 53 -> fl_denotes (to_f64 z 0) z).
Proof.
  intros Hk Hv. split; [|split].
  - destruct Hk; subst k; destruct v; cbn in Hv; inversion Hv; subst; reflexivity.
  - intros _ Hz. apply round_fin_exact; try lia. exact Hz.
  - intros _ Hz. apply round_fin_exact; try lia. exact Hz.
Qed.
