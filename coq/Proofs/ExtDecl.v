(* C01 - extension declarations (linker/validate.go validateExtension): the loop over the
   extendee's extension ranges consults exactly the range that contains the extension number.
     extension_range_lookup_iff   for pairwise disjoint ranges the errors of the Go loop are those of
                                  the declarative reading: find the containing range, and if it asks
                                  for declarations check the declaration with that number *)
From Coq Require Import List NArith ZArith Bool Lia.
From PV Require Import Model.MiniProto Model.Lower Model.ValiditySpec Model.Validate.
From PV Require Import Proofs.ValidateRanges.
Import ListNotations.
Open Scope Z_scope.

Lemma skip_iff num (r : Z * Z) : (num <? fst r) || (num >=? snd r) = negb (in_ho_b num r).
Proof.
  unfold in_ho_b. rewrite Z.geb_leb.
  destruct (Z.ltb_spec num (fst r)), (Z.leb_spec (snd r) num), (Z.leb_spec (fst r) num), (Z.ltb_spec num (snd r));
    cbn; try reflexivity; lia.
Qed.

Lemma in_ho_b_iff num r : in_ho_b num r = true <-> in_ho num r.
Proof. unfold in_ho_b, in_ho. rewrite andb_true_iff, Z.leb_le, Z.ltb_lt. tauto. Qed.

Lemma go_none miss card xrs num fn ty rep :
  (forall x, In x xrs -> in_ho_b num (xr_rng x) = false) -> go_ext_decl_errs miss card xrs num fn ty rep = [].
Proof.
  induction xrs as [|x r IH]; intros H; cbn [go_ext_decl_errs]; [reflexivity|].
  rewrite skip_iff, (H x (or_introl eq_refl)). cbn. apply IH. intros y Hy. apply H. now right.
Qed.

Theorem extension_range_lookup_iff_lemma : forall miss card xrs num fn ty rep,
  ~ two_share in_ho (map xr_rng xrs) ->
  go_ext_decl_errs miss card xrs num fn ty rep = spec_ext_decl_errs miss card xrs num fn ty rep.
Proof.
  intros miss card. induction xrs as [|x r IH]; intros num fn ty rep Hno; [reflexivity|].
  unfold spec_ext_decl_errs. cbn [go_ext_decl_errs find map] in *. rewrite skip_iff.
  rewrite two_share_has_share, hs_cons in Hno.
  destruct (in_ho_b num (xr_rng x)) eqn:E; cbn [negb].
  - destruct (xr_opts x) as [o|]; [|reflexivity]. destruct (demands o); [|reflexivity].
    rewrite go_none; [now rewrite app_nil_r|].
    intros y Hy. destruct (in_ho_b num (xr_rng y)) eqn:Ey; [|reflexivity]. exfalso. apply Hno. left.
    exists (xr_rng y). split; [now apply in_map|]. exists num. split; now apply in_ho_b_iff.
  - apply IH. rewrite two_share_has_share. tauto.
Qed.

(* the declared ranges of a message never overlap once validateBasic has passed, so the hypothesis
   holds for every extendee that compiled; non-vacuity: ranges [1,11) and [11,21), the second one
   declared with number 11 of type int32; an extension 11 of type string is a type mismatch,
   an extension 10 (last number of the undeclared range) is not checked at all *)
Definition ex_xrs : list xrange :=
  [ mkXRange (1, 11) None;
    mkXRange (11, 21) (Some (mkXOpts (Some true)
       [mkXDecl (Some 11) (Some [46;102;111;111;46;101]%N) (Some [105;110;116;51;50]%N) false false])) ].

Lemma extdecl_example :
  go_ext_decl_errs EExtDeclMissing EExtDeclRepeated ex_xrs 11 [102;111;111;46;101]%N [115;116;114;105;110;103]%N false = [EExtDeclType] /\
  go_ext_decl_errs EExtDeclMissing EExtDeclRepeated ex_xrs 11 [102;111;111;46;101]%N [105;110;116;51;50]%N false = [] /\
  go_ext_decl_errs EExtDeclMissing EExtDeclRepeated ex_xrs 10 [102;111;111;46;101]%N [115;116;114;105;110;103]%N false = [] /\
  go_ext_decl_errs EExtDeclMissing EExtDeclRepeated ex_xrs 12 [102;111;111;46;101]%N [105;110;116;51;50]%N false = [EExtDeclMissing].
Proof. repeat split; vm_compute; reflexivity. Qed.
