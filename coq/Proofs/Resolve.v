(* Proofs about Model/Resolve.v (the Go resolution algorithm) and Model/ProtocLookup.v (protoc). *)
From Coq Require Import List NArith Bool Arith Lia.
Import ListNotations.
From PV Require Import Model.Resolve Model.ProtocLookup.

(* ------------------------------------------------------------------ names *)
Lemma name_eqb_eq a b : name_eqb a b = true <-> a = b.
Proof.
  revert b. induction a as [|x a IH]; intros [|y b]; cbn [name_eqb]; split; intros H;
    try reflexivity; try discriminate.
  - apply andb_true_iff in H. destruct H as [H1 H2]. apply N.eqb_eq in H1. apply IH in H2. now subst.
  - injection H as -> ->. rewrite N.eqb_refl. cbn. now apply IH.
Qed.

Lemma name_eqb_refl a : name_eqb a a = true.
Proof. now apply name_eqb_eq. Qed.

Lemma name_eqb_neq a b : name_eqb a b = false <-> a <> b.
Proof.
  split; intros H.
  - intros ->. rewrite name_eqb_refl in H. discriminate.
  - destruct (name_eqb a b) eqn:E; [apply name_eqb_eq in E; contradiction|reflexivity].
Qed.

Lemma name_eqb_app_cancel p a b : name_eqb (p ++ a) (p ++ b) = name_eqb a b.
Proof. induction p as [|x p IH]; cbn [app name_eqb]; [reflexivity|]. now rewrite N.eqb_refl, IH. Qed.

Lemma mem_name_In n l : mem_name n l = true <-> In n l.
Proof.
  induction l as [|m l IH]; cbn [mem_name In]; [split; [discriminate|tauto]|].
  rewrite orb_true_iff, IH, name_eqb_eq. split; intros [H|H]; auto.
Qed.

Lemma assoc_In n l k : assoc n l = Some k -> In n (map fst l).
Proof.
  induction l as [|[m j] l IH]; cbn [assoc map fst In]; [discriminate|].
  destruct (name_eqb n m) eqn:E; [apply name_eqb_eq in E; auto|auto].
Qed.

Lemma assoc_None n l : assoc n l = None -> ~ In n (map fst l).
Proof.
  induction l as [|[m j] l IH]; cbn [assoc map fst In]; [tauto|].
  destruct (name_eqb n m) eqn:E; [discriminate|]. apply name_eqb_neq in E.
  intros H [H1|H1]; [now subst|now apply IH].
Qed.

Lemma In_assoc n l : In n (map fst l) -> exists k, assoc n l = Some k.
Proof.
  intros H. destruct (assoc n l) eqn:E; [eauto|]. now apply assoc_None in E.
Qed.

Lemma has_prefix_length s p : has_prefix s p = true -> (length p <= length s)%nat.
Proof.
  revert s. induction p as [|y p IH]; intros [|x s]; cbn [has_prefix length]; try lia; try discriminate.
  intros H. apply andb_true_iff in H. destruct H as [_ H]. apply IH in H. lia.
Qed.

Lemma has_prefix_app s p : has_prefix s p = true <-> exists r, s = p ++ r.
Proof.
  revert s. induction p as [|y p IH]; intros s; cbn [has_prefix].
  - split; [intros _; now exists s|reflexivity].
  - destruct s as [|x s].
    + split; [discriminate|]. intros [r H]. discriminate.
    + rewrite andb_true_iff, N.eqb_eq, IH. split.
      * intros [-> [r ->]]. now exists r.
      * intros [r H]. injection H as -> ->. eauto.
Qed.

Lemma has_prefix_refl s : has_prefix s s = true.
Proof. apply has_prefix_app. exists []. now rewrite app_nil_r. Qed.

(* ------------------------------------------------------------------ dots *)
Lemma no_dot_app a b : no_dot (a ++ b) = no_dot a && no_dot b.
Proof. induction a as [|x a IH]; cbn [app no_dot]; [reflexivity|]. now rewrite IH, andb_assoc. Qed.

Lemma index_dot_none s : index_dot s = None <-> no_dot s = true.
Proof.
  induction s as [|c s IH]; cbn [index_dot no_dot]; [tauto|].
  destruct (N.eqb c dot); cbn [negb andb]; [split; discriminate|].
  destruct (index_dot s); cbn [option_map]; [split; [discriminate|]|tauto].
  intros H. apply IH in H. discriminate.
Qed.

Lemma index_dot_some s p : index_dot s = Some p ->
  (p < length s)%nat /\ nth_error s p = Some dot /\ no_dot (firstn p s) = true.
Proof.
  revert p. induction s as [|c s IH]; intros p; cbn [index_dot]; [discriminate|].
  destruct (N.eqb c dot) eqn:E.
  - intros H. injection H as <-. apply N.eqb_eq in E. subst. cbn. repeat split; lia.
  - destruct (index_dot s) as [q|]; cbn [option_map]; [|discriminate].
    intros H. injection H as <-. destruct (IH q eq_refl) as (H1 & H2 & H3).
    cbn [length nth_error firstn no_dot]. rewrite E, H3. repeat split; auto; lia.
Qed.

Lemma fld_from_nodot i s acc : no_dot s = true -> Spec.find_last_dot_from i s acc = acc.
Proof.
  revert i acc. induction s as [|c s IH]; intros i acc; cbn [no_dot Spec.find_last_dot_from]; [reflexivity|].
  intros H. apply andb_true_iff in H. destruct H as [H1 H2]. apply negb_true_iff in H1. rewrite H1. now apply IH.
Qed.

Lemma fld_from_app i a b acc :
  Spec.find_last_dot_from i (a ++ dot :: b) acc = Spec.find_last_dot_from (i + length a + 1) b (Some (i + length a)%nat).
Proof.
  revert i acc. induction a as [|c a IH]; intros i acc; cbn [app Spec.find_last_dot_from length].
  - rewrite N.eqb_refl. f_equal; [lia|f_equal; lia].
  - rewrite IH. f_equal; [lia|f_equal; lia].
Qed.

Lemma fld_from_range i s j r : Spec.find_last_dot_from i s (Some j) = Some r ->
  r = j \/ (i <= r < i + length s)%nat.
Proof.
  revert i j. induction s as [|c s IH]; intros i j; cbn [Spec.find_last_dot_from length].
  - intros H. injection H as <-. auto.
  - destruct (N.eqb c dot); intros H; apply IH in H; destruct H as [H|H]; subst; auto; right; lia.
Qed.

Lemma fld_from_range_none i s r : Spec.find_last_dot_from i s None = Some r -> (i <= r < i + length s)%nat.
Proof.
  revert i. induction s as [|c s IH]; intros i; cbn [Spec.find_last_dot_from length]; [discriminate|].
  destruct (N.eqb c dot); intros H.
  - apply fld_from_range in H. destruct H as [H|H]; lia.
  - apply IH in H. lia.
Qed.

Lemma fld_lt s i : Spec.find_last_dot s = Some i -> (i < length s)%nat.
Proof. unfold Spec.find_last_dot. intros H. apply fld_from_range_none in H. lia. Qed.

Lemma fld_nodot s : no_dot s = true -> Spec.find_last_dot s = None.
Proof. intros H. unfold Spec.find_last_dot. now apply fld_from_nodot. Qed.

Lemma fld_app_nodot a c : no_dot c = true -> Spec.find_last_dot (a ++ dot :: c) = Some (length a).
Proof. intros H. unfold Spec.find_last_dot. rewrite fld_from_app. rewrite fld_from_nodot; [|assumption]. reflexivity. Qed.

Lemma fld_from_some i s j : Spec.find_last_dot_from i s (Some j) <> None.
Proof.
  revert i j. induction s as [|c s IH]; intros i j; cbn [Spec.find_last_dot_from]; [discriminate|].
  destruct (N.eqb c dot); apply IH.
Qed.

Lemma fld_app_ge a b : exists i, Spec.find_last_dot (a ++ dot :: b) = Some i /\ (length a <= i < length a + 1 + length b)%nat.
Proof.
  unfold Spec.find_last_dot. rewrite fld_from_app. cbn [plus].
  destruct (Spec.find_last_dot_from (length a + 1) b (Some (length a))) as [r|] eqn:E.
  - exists r. split; [reflexivity|]. apply fld_from_range in E. lia.
  - exfalso. now apply fld_from_some in E.
Qed.

(* ------------------------------------------------------------------ the first component *)
Lemma starts_index nm : starts_with_dot nm = false -> index_dot nm <> Some O.
Proof.
  destruct nm as [|c r]; cbn [starts_with_dot index_dot]; [discriminate|].
  intros ->. destruct (index_dot r); cbn; discriminate.
Qed.

Lemma first_name_part nm : starts_with_dot nm = false -> first_name nm = Spec.first_part nm.
Proof.
  intros H. apply starts_index in H. unfold first_name, Spec.first_part.
  destruct (index_dot nm) as [[|p]|]; [contradiction|reflexivity|reflexivity].
Qed.

Lemma first_part_compound nm :
  (length (Spec.first_part nm) <? length nm)%nat = negb (name_eqb (Spec.first_part nm) nm).
Proof.
  unfold Spec.first_part. destruct (index_dot nm) as [p|] eqn:E.
  - apply index_dot_some in E. destruct E as (H1 & _ & _).
    assert (L : length (firstn p nm) = p) by (rewrite firstn_length; lia).
    rewrite L. replace (p <? length nm)%nat with true by (symmetry; apply Nat.ltb_lt; lia).
    symmetry. apply negb_true_iff. apply name_eqb_neq. intros H. rewrite H in L. lia.
  - rewrite Nat.ltb_irrefl, name_eqb_refl. reflexivity.
Qed.

Lemma first_part_skipn nm : Spec.first_part nm ++ skipn (length (Spec.first_part nm)) nm = nm.
Proof.
  unfold Spec.first_part. destruct (index_dot nm) as [p|] eqn:E.
  - apply index_dot_some in E. destruct E as (H1 & _ & _).
    rewrite firstn_length. replace (Nat.min p (length nm)) with p by lia. apply firstn_skipn.
  - rewrite skipn_all. apply app_nil_r.
Qed.

Lemma first_part_nodot nm : no_dot nm = true -> Spec.first_part nm = nm.
Proof. intros H. unfold Spec.first_part. apply index_dot_none in H. now rewrite H. Qed.

Lemma first_part_eq_nodot nm : name_eqb (Spec.first_part nm) nm = true <-> no_dot nm = true.
Proof.
  split; intros H.
  - unfold Spec.first_part in H. destruct (index_dot nm) as [p|] eqn:E; [|now apply index_dot_none].
    apply index_dot_some in E. destruct E as (H1 & _ & _). apply name_eqb_eq in H.
    assert (L : length (firstn p nm) = p) by (rewrite firstn_length; lia). rewrite H in L. lia.
  - rewrite first_part_nodot by assumption. apply name_eqb_refl.
Qed.

(* ------------------------------------------------------------------ components *)
Lemma simple_inv c : simple c = true -> c <> [] /\ no_dot c = true.
Proof.
  unfold simple. intros H. apply andb_true_iff in H. destruct H as [H1 H2]. split; [|assumption].
  intros ->. discriminate.
Qed.

Definition all_simple (cs : list name) : Prop := Forall (fun c => simple c = true) cs.

Lemma all_simple_forallb cs : forallb simple cs = true <-> all_simple cs.
Proof. unfold all_simple. rewrite forallb_forall, Forall_forall. tauto. Qed.

Lemma join_cons c cs : cs <> [] -> join_dots (c :: cs) = c ++ dot :: join_dots cs.
Proof. destruct cs; [contradiction|reflexivity]. Qed.

Lemma join_snoc cs c : cs <> [] -> join_dots (cs ++ [c]) = join_dots cs ++ dot :: c.
Proof.
  induction cs as [|x cs IH]; [contradiction|]. intros _. destruct cs as [|y cs].
  - reflexivity.
  - change ((x :: y :: cs) ++ [c]) with (x :: ((y :: cs) ++ [c])).
    rewrite join_cons by (cbn; discriminate). rewrite IH by discriminate.
    rewrite (join_cons x (y :: cs)) by discriminate. now rewrite <- app_assoc.
Qed.

Lemma join_nil_iff cs : all_simple cs -> (join_dots cs = [] <-> cs = []).
Proof.
  intros H. split; [|now intros ->]. destruct cs as [|c cs]; [reflexivity|].
  inversion H as [|? ? Hc _]. apply simple_inv in Hc. destruct Hc as [Hc _].
  destruct cs; cbn [join_dots]; intros E; [contradiction|]. destruct c; [contradiction|discriminate].
Qed.

Lemma join_no_lead cs : all_simple cs -> starts_with_dot (join_dots cs) = false.
Proof.
  intros H. destruct cs as [|c cs]; [reflexivity|]. inversion H as [|? ? Hc _].
  apply simple_inv in Hc. destruct Hc as [Hc Hd]. destruct c as [|x0 c]; [contradiction|].
  cbn [no_dot] in Hd. apply andb_true_iff in Hd. destruct Hd as [Hd _]. apply negb_true_iff in Hd.
  destruct cs; cbn [join_dots app starts_with_dot]; assumption.
Qed.

Lemma app_no_lead a b : a <> [] -> starts_with_dot a = false -> starts_with_dot (a ++ b) = false.
Proof. destruct a; [contradiction|]. intros _ H. exact H. Qed.

Lemma qualify_join cs c : all_simple cs -> qualify (join_dots cs) c = join_dots (cs ++ [c]).
Proof.
  intros H. unfold qualify. destruct cs as [|x cs]; [reflexivity|].
  rewrite join_snoc by discriminate.
  destruct (join_dots (x :: cs)) eqn:E; [|reflexivity].
  apply join_nil_iff in E; [discriminate|assumption].
Qed.

Lemma split_acc_nonempty s acc : split_dots_acc s acc <> [].
Proof. revert acc. induction s as [|c s IH]; intros acc; cbn [split_dots_acc]; [discriminate|]. destruct (N.eqb c dot); [discriminate|apply IH]. Qed.

Lemma join_split_acc s acc : join_dots (split_dots_acc s acc) = rev acc ++ s.
Proof.
  revert acc. induction s as [|c s IH]; intros acc; cbn [split_dots_acc].
  - cbn. now rewrite app_nil_r.
  - destruct (N.eqb c dot) eqn:E.
    + apply N.eqb_eq in E. subst. rewrite join_cons by apply split_acc_nonempty. rewrite IH. reflexivity.
    + rewrite IH. cbn [rev]. now rewrite <- app_assoc.
Qed.

Lemma pkg_ok_comps p : pkg_ok p = true -> all_simple (pkg_comps p) /\ join_dots (pkg_comps p) = p.
Proof.
  unfold pkg_ok, pkg_comps. destruct p as [|x p]; cbn [is_nil orb].
  - intros _. split; [constructor|reflexivity].
  - intros H. split; [now apply all_simple_forallb|]. unfold split_dots. now rewrite join_split_acc.
Qed.

(* non-empty prefixes of a component list, longest first *)
Fixpoint npd_rev (r : list name) : list (list name) :=
  match r with
  | [] => []
  | c :: r' => rev (c :: r') :: npd_rev r'
  end.
Definition npd (cs : list name) : list (list name) := npd_rev (rev cs).

Lemma npd_snoc cs c : npd (cs ++ [c]) = (cs ++ [c]) :: npd cs.
Proof. unfold npd. rewrite rev_unit. cbn [npd_rev rev]. now rewrite rev_involutive. Qed.

Lemma npd_nil : npd [] = [].
Proof. reflexivity. Qed.

Lemma npd_all_simple cs p : all_simple cs -> In p (npd cs) -> all_simple p /\ p <> [].
Proof.
  induction cs as [|c cs IH] using rev_ind; [contradiction|].
  intros H. rewrite npd_snoc. intros [<-|Hin].
  - split; [assumption|]. destruct cs; discriminate.
  - apply IH; [|assumption]. unfold all_simple in *. apply Forall_app in H. tauto.
Qed.

(* ------------------------------------------------------------------ CreatePrefixList *)
Fixpoint dps (done rest : name) : list name :=
  match rest with
  | [] => []
  | c :: r => if N.eqb c dot then done :: dps (done ++ [c]) r else dps (done ++ [c]) r
  end.

Lemma upd_app {A} (l1 : list A) x l2 y : upd (l1 ++ x :: l2) (length l1) y = l1 ++ y :: l2.
Proof. induction l1 as [|a l1 IH]; cbn [app length upd]; [reflexivity|]. now rewrite IH. Qed.

Lemma fill_spec pkg : forall rest done mid tail a0,
  pkg = done ++ rest -> length mid = count_dots rest ->
  fill_prefixes pkg (length done) rest (count_dots rest) (a0 :: mid ++ tail)
  = a0 :: rev (dps done rest) ++ tail.
Proof.
  induction rest as [|c r IH]; intros done mid tail a0 Hp Hl; cbn [fill_prefixes count_dots dps].
  - cbn [count_dots] in Hl. destruct mid; [reflexivity|discriminate].
  - cbn [count_dots] in Hl. destruct (N.eqb c dot) eqn:E.
    + destruct (exists_last (l := mid)) as (mid' & x & ->); [intros ->; discriminate|].
      rewrite app_length in Hl. cbn [length] in Hl.
      assert (Hl' : length mid' = count_dots r) by lia.
      replace (S (count_dots r) - 1)%nat with (count_dots r) by lia.
      assert (F : firstn (length done) pkg = done).
      { rewrite Hp. rewrite firstn_app, Nat.sub_diag, firstn_all. cbn. apply app_nil_r. }
      rewrite F.
      replace (a0 :: (mid' ++ [x]) ++ tail) with ((a0 :: mid') ++ x :: tail) by (cbn; now rewrite <- app_assoc).
      replace (S (count_dots r)) with (length (a0 :: mid')) by (cbn; lia).
      rewrite upd_app. cbn [app].
      replace (S (length done)) with (length (done ++ [c])) by (rewrite app_length; cbn; lia).
      etransitivity; [apply (IH (done ++ [c]) mid' (done :: tail) a0);
                      [rewrite Hp, <- app_assoc; reflexivity|assumption]|].
      cbn [rev]. now rewrite <- app_assoc.
    + replace (S (length done)) with (length (done ++ [c])) by (rewrite app_length; cbn; lia).
      apply IH; [rewrite Hp, <- app_assoc; reflexivity|assumption].
Qed.

Lemma dps_nodot done rest : count_dots rest = O -> dps done rest = [].
Proof.
  revert done. induction rest as [|c r IH]; intros done; cbn [count_dots dps]; [reflexivity|].
  destruct (N.eqb c dot); [discriminate|apply IH].
Qed.

Lemma repeat_snoc {A} (x : A) n : repeat x (S n) = repeat x n ++ [x].
Proof. induction n as [|n IH]; [reflexivity|]. cbn [repeat app] in *. now rewrite <- IH. Qed.

Lemma cpl_general pkg : pkg <> [] -> create_prefix_list pkg = pkg :: rev (dps [] pkg) ++ [[]].
Proof.
  intros H. unfold create_prefix_list. destruct pkg as [|x p] eqn:Ep; [contradiction|]. rewrite <- Ep.
  destruct (count_dots pkg) as [|n] eqn:En.
  - rewrite dps_nodot by assumption. reflexivity.
  - replace (S n + 2)%nat with (S (S (S n))) by lia.
    change (repeat [] (S (S (S n)))) with (@nil N :: repeat [] (S (S n))). rewrite (repeat_snoc (@nil N) (S n)).
    rewrite <- En.
    pose proof (fill_spec pkg pkg [] (repeat [] (count_dots pkg)) [[]] [] eq_refl (repeat_length _ _)) as F.
    cbn [length] in F. etransitivity; [apply f_equal3; [exact F|reflexivity|reflexivity]|]. reflexivity.
Qed.

Lemma dps_app done a b : dps done (a ++ b) = dps done a ++ dps (done ++ a) b.
Proof.
  revert done. induction a as [|c a IH]; intros done; cbn [app dps].
  - now rewrite app_nil_r.
  - rewrite IH, <- app_assoc. cbn [app]. destruct (N.eqb c dot); reflexivity.
Qed.

Lemma count_dots_nodot s : no_dot s = true -> count_dots s = O.
Proof.
  induction s as [|c s IH]; cbn [no_dot count_dots]; [reflexivity|].
  intros H. apply andb_true_iff in H. destruct H as [H1 H2]. apply negb_true_iff in H1. rewrite H1. auto.
Qed.

Lemma dps_join cs : all_simple cs -> cs <> [] ->
  join_dots cs :: rev (dps [] (join_dots cs)) = map join_dots (npd cs).
Proof.
  induction cs as [|c cs IH] using rev_ind; [contradiction|]. intros H _.
  unfold all_simple in H. apply Forall_app in H. destruct H as [Hcs Hc]. inversion Hc as [|? ? Hc' _]. subst.
  apply simple_inv in Hc'. destruct Hc' as [_ Hd].
  destruct cs as [|x cs'].
  - cbn [app join_dots]. rewrite dps_nodot by now apply count_dots_nodot. reflexivity.
  - rewrite npd_snoc. cbn [map]. f_equal. rewrite <- IH by (assumption || discriminate).
    rewrite join_snoc by discriminate. rewrite dps_app. cbn [dps app]. rewrite N.eqb_refl.
    rewrite (dps_nodot _ c) by now apply count_dots_nodot. rewrite rev_app_distr. reflexivity.
Qed.

(* the list CreatePrefixList returns for a package with components cs: every non-empty prefix,
   longest first, then the empty string *)
Definition prefixes_desc (cs : list name) : list (list name) := npd cs ++ [[]].

Lemma create_prefix_list_spec_lemma cs : all_simple cs ->
  create_prefix_list (join_dots cs) = map join_dots (prefixes_desc cs).
Proof.
  intros H. unfold prefixes_desc. rewrite map_app. cbn [map join_dots].
  destruct cs as [|c cs].
  - reflexivity.
  - rewrite cpl_general.
    + rewrite <- dps_join by (assumption || discriminate). reflexivity.
    + intros E. apply join_nil_iff in E; [discriminate|assumption].
Qed.
