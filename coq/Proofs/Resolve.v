(* Proofs about Model/Resolve.v (the Go resolution algorithm) and Model/ProtocLookup.v (protoc). *)
From Coq Require Import List NArith Bool Arith Lia.
Import ListNotations.
From PV Require Import Model.Resolve Model.ProtocLookup.

(* ------------------------------------------------------------------ names *)
Lemma name_eqb_eq a b : name_eqb a b = true <-> a = b.
Proof.
  revert b. induction a as [|x a IH]; intros [|y b]; cbn [name_eqb]; split; intros H;
    try reflexivity; try discriminate.
  - apply andb_true_iff in H. destruct H as [H1 H2]. apply N.eqb_eq in H1. apply IH in H2. now subst.
  - injection H as -> ->. rewrite N.eqb_refl. cbn. now apply IH.
Qed.

Lemma name_eqb_refl a : name_eqb a a = true.
Proof. now apply name_eqb_eq. Qed.

Lemma name_eqb_neq a b : name_eqb a b = false <-> a <> b.
Proof.
  split; intros H.
  - intros ->. rewrite name_eqb_refl in H. discriminate.
  - destruct (name_eqb a b) eqn:E; [apply name_eqb_eq in E; contradiction|reflexivity].
Qed.

Lemma name_eqb_app_cancel p a b : name_eqb (p ++ a) (p ++ b) = name_eqb a b.
Proof. induction p as [|x p IH]; cbn [app name_eqb]; [reflexivity|]. now rewrite N.eqb_refl, IH. Qed.

Lemma mem_name_In n l : mem_name n l = true <-> In n l.
Proof.
  induction l as [|m l IH]; cbn [mem_name In]; [split; [discriminate|tauto]|].
  rewrite orb_true_iff, IH, name_eqb_eq. split; intros [H|H]; auto.
Qed.

Lemma assoc_In n l k : assoc n l = Some k -> In n (map fst l).
Proof.
  induction l as [|[m j] l IH]; cbn [assoc map fst In]; [discriminate|].
  destruct (name_eqb n m) eqn:E; [apply name_eqb_eq in E; auto|auto].
Qed.

Lemma assoc_None n l : assoc n l = None -> ~ In n (map fst l).
Proof.
  induction l as [|[m j] l IH]; cbn [assoc map fst In]; [tauto|].
  destruct (name_eqb n m) eqn:E; [discriminate|]. apply name_eqb_neq in E.
  intros H [H1|H1]; [now subst|now apply IH].
Qed.

Lemma In_assoc n l : In n (map fst l) -> exists k, assoc n l = Some k.
Proof.
  intros H. destruct (assoc n l) eqn:E; [eauto|]. now apply assoc_None in E.
Qed.

Lemma has_prefix_length s p : has_prefix s p = true -> (length p <= length s)%nat.
Proof.
  revert s. induction p as [|y p IH]; intros [|x s]; cbn [has_prefix length]; try lia; try discriminate.
  intros H. apply andb_true_iff in H. destruct H as [_ H]. apply IH in H. lia.
Qed.

Lemma has_prefix_app s p : has_prefix s p = true <-> exists r, s = p ++ r.
Proof.
  revert s. induction p as [|y p IH]; intros s; cbn [has_prefix].
  - split; [intros _; now exists s|reflexivity].
  - destruct s as [|x s].
    + split; [discriminate|]. intros [r H]. discriminate.
    + rewrite andb_true_iff, N.eqb_eq, IH. split.
      * intros [-> [r ->]]. now exists r.
      * intros [r H]. injection H as -> ->. eauto.
Qed.

Lemma has_prefix_refl s : has_prefix s s = true.
Proof. apply has_prefix_app. exists []. now rewrite app_nil_r. Qed.

(* ------------------------------------------------------------------ dots *)
Lemma no_dot_app a b : no_dot (a ++ b) = no_dot a && no_dot b.
Proof. induction a as [|x a IH]; cbn [app no_dot]; [reflexivity|]. now rewrite IH, andb_assoc. Qed.

Lemma index_dot_none s : index_dot s = None <-> no_dot s = true.
Proof.
  induction s as [|c s IH]; cbn [index_dot no_dot]; [tauto|].
  destruct (N.eqb c dot); cbn [negb andb]; [split; discriminate|].
  destruct (index_dot s); cbn [option_map]; [split; [discriminate|]|tauto].
  intros H. apply IH in H. discriminate.
Qed.

Lemma index_dot_some s p : index_dot s = Some p ->
  (p < length s)%nat /\ nth_error s p = Some dot /\ no_dot (firstn p s) = true.
Proof.
  revert p. induction s as [|c s IH]; intros p; cbn [index_dot]; [discriminate|].
  destruct (N.eqb c dot) eqn:E.
  - intros H. injection H as <-. apply N.eqb_eq in E. subst. cbn. repeat split; lia.
  - destruct (index_dot s) as [q|]; cbn [option_map]; [|discriminate].
    intros H. injection H as <-. destruct (IH q eq_refl) as (H1 & H2 & H3).
    cbn [length nth_error firstn no_dot]. rewrite E, H3. repeat split; auto; lia.
Qed.

Lemma fld_from_nodot i s acc : no_dot s = true -> Spec.find_last_dot_from i s acc = acc.
Proof.
  revert i acc. induction s as [|c s IH]; intros i acc; cbn [no_dot Spec.find_last_dot_from]; [reflexivity|].
  intros H. apply andb_true_iff in H. destruct H as [H1 H2]. apply negb_true_iff in H1. rewrite H1. now apply IH.
Qed.

Lemma fld_from_app i a b acc :
  Spec.find_last_dot_from i (a ++ dot :: b) acc = Spec.find_last_dot_from (i + length a + 1) b (Some (i + length a)%nat).
Proof.
  revert i acc. induction a as [|c a IH]; intros i acc; cbn [app Spec.find_last_dot_from length].
  - rewrite N.eqb_refl. f_equal; [lia|f_equal; lia].
  - rewrite IH. f_equal; [lia|f_equal; lia].
Qed.

Lemma fld_from_range i s j r : Spec.find_last_dot_from i s (Some j) = Some r ->
  r = j \/ (i <= r < i + length s)%nat.
Proof.
  revert i j. induction s as [|c s IH]; intros i j; cbn [Spec.find_last_dot_from length].
  - intros H. injection H as <-. auto.
  - destruct (N.eqb c dot); intros H; apply IH in H; destruct H as [H|H]; subst; auto; right; lia.
Qed.

Lemma fld_from_range_none i s r : Spec.find_last_dot_from i s None = Some r -> (i <= r < i + length s)%nat.
Proof.
  revert i. induction s as [|c s IH]; intros i; cbn [Spec.find_last_dot_from length]; [discriminate|].
  destruct (N.eqb c dot); intros H.
  - apply fld_from_range in H. destruct H as [H|H]; lia.
  - apply IH in H. lia.
Qed.

Lemma fld_lt s i : Spec.find_last_dot s = Some i -> (i < length s)%nat.
Proof. unfold Spec.find_last_dot. intros H. apply fld_from_range_none in H. lia. Qed.

Lemma fld_nodot s : no_dot s = true -> Spec.find_last_dot s = None.
Proof. intros H. unfold Spec.find_last_dot. now apply fld_from_nodot. Qed.

Lemma fld_app_nodot a c : no_dot c = true -> Spec.find_last_dot (a ++ dot :: c) = Some (length a).
Proof. intros H. unfold Spec.find_last_dot. rewrite fld_from_app. rewrite fld_from_nodot; [|assumption]. reflexivity. Qed.

Lemma fld_from_some i s j : Spec.find_last_dot_from i s (Some j) <> None.
Proof.
  revert i j. induction s as [|c s IH]; intros i j; cbn [Spec.find_last_dot_from]; [discriminate|].
  destruct (N.eqb c dot); apply IH.
Qed.

Lemma fld_app_ge a b : exists i, Spec.find_last_dot (a ++ dot :: b) = Some i /\ (length a <= i < length a + 1 + length b)%nat.
Proof.
  unfold Spec.find_last_dot. rewrite fld_from_app. cbn [plus].
  destruct (Spec.find_last_dot_from (length a + 1) b (Some (length a))) as [r|] eqn:E.
  - exists r. split; [reflexivity|]. apply fld_from_range in E. lia.
  - exfalso. now apply fld_from_some in E.
Qed.

(* ------------------------------------------------------------------ the first component *)
Lemma starts_index nm : starts_with_dot nm = false -> index_dot nm <> Some O.
Proof.
  destruct nm as [|c r]; cbn [starts_with_dot index_dot]; [discriminate|].
  intros ->. destruct (index_dot r); cbn; discriminate.
Qed.

Lemma first_name_part nm : starts_with_dot nm = false -> first_name nm = Spec.first_part nm.
Proof.
  intros H. apply starts_index in H. unfold first_name, Spec.first_part.
  destruct (index_dot nm) as [[|p]|]; [contradiction|reflexivity|reflexivity].
Qed.

Lemma first_part_compound nm :
  (length (Spec.first_part nm) <? length nm)%nat = negb (name_eqb (Spec.first_part nm) nm).
Proof.
  unfold Spec.first_part. destruct (index_dot nm) as [p|] eqn:E.
  - apply index_dot_some in E. destruct E as (H1 & _ & _).
    assert (L : length (firstn p nm) = p) by (rewrite firstn_length; lia).
    rewrite L. replace (p <? length nm)%nat with true by (symmetry; apply Nat.ltb_lt; lia).
    symmetry. apply negb_true_iff. apply name_eqb_neq. intros H. rewrite H in L. lia.
  - rewrite Nat.ltb_irrefl, name_eqb_refl. reflexivity.
Qed.

Lemma first_part_skipn nm : Spec.first_part nm ++ skipn (length (Spec.first_part nm)) nm = nm.
Proof.
  unfold Spec.first_part. destruct (index_dot nm) as [p|] eqn:E.
  - apply index_dot_some in E. destruct E as (H1 & _ & _).
    rewrite firstn_length. replace (Nat.min p (length nm)) with p by lia. apply firstn_skipn.
  - rewrite skipn_all. apply app_nil_r.
Qed.

Lemma first_part_nodot nm : no_dot nm = true -> Spec.first_part nm = nm.
Proof. intros H. unfold Spec.first_part. apply index_dot_none in H. now rewrite H. Qed.

Lemma first_part_eq_nodot nm : name_eqb (Spec.first_part nm) nm = true <-> no_dot nm = true.
Proof.
  split; intros H.
  - unfold Spec.first_part in H. destruct (index_dot nm) as [p|] eqn:E; [|now apply index_dot_none].
    apply index_dot_some in E. destruct E as (H1 & _ & _). apply name_eqb_eq in H.
    assert (L : length (firstn p nm) = p) by (rewrite firstn_length; lia). rewrite H in L. lia.
  - rewrite first_part_nodot by assumption. apply name_eqb_refl.
Qed.

(* ------------------------------------------------------------------ components *)
Lemma simple_inv c : simple c = true -> c <> [] /\ no_dot c = true.
Proof.
  unfold simple. intros H. apply andb_true_iff in H. destruct H as [H1 H2]. split; [|assumption].
  intros ->. discriminate.
Qed.

Definition all_simple (cs : list name) : Prop := Forall (fun c => simple c = true) cs.

Lemma all_simple_forallb cs : forallb simple cs = true <-> all_simple cs.
Proof. unfold all_simple. rewrite forallb_forall, Forall_forall. tauto. Qed.

Lemma join_cons c cs : cs <> [] -> join_dots (c :: cs) = c ++ dot :: join_dots cs.
Proof. destruct cs; [contradiction|reflexivity]. Qed.

Lemma join_snoc cs c : cs <> [] -> join_dots (cs ++ [c]) = join_dots cs ++ dot :: c.
Proof.
  induction cs as [|x cs IH]; [contradiction|]. intros _. destruct cs as [|y cs].
  - reflexivity.
  - change ((x :: y :: cs) ++ [c]) with (x :: ((y :: cs) ++ [c])).
    rewrite join_cons by (cbn; discriminate). rewrite IH by discriminate.
    rewrite (join_cons x (y :: cs)) by discriminate. now rewrite <- app_assoc.
Qed.

Lemma join_nil_iff cs : all_simple cs -> (join_dots cs = [] <-> cs = []).
Proof.
  intros H. split; [|now intros ->]. destruct cs as [|c cs]; [reflexivity|].
  inversion H as [|? ? Hc _]. apply simple_inv in Hc. destruct Hc as [Hc _].
  destruct cs; cbn [join_dots]; intros E; [contradiction|]. destruct c; [contradiction|discriminate].
Qed.

Lemma join_no_lead cs : all_simple cs -> starts_with_dot (join_dots cs) = false.
Proof.
  intros H. destruct cs as [|c cs]; [reflexivity|]. inversion H as [|? ? Hc _].
  apply simple_inv in Hc. destruct Hc as [Hc Hd]. destruct c as [|x0 c]; [contradiction|].
  cbn [no_dot] in Hd. apply andb_true_iff in Hd. destruct Hd as [Hd _]. apply negb_true_iff in Hd.
  destruct cs; cbn [join_dots app starts_with_dot]; assumption.
Qed.

Lemma app_no_lead a b : a <> [] -> starts_with_dot a = false -> starts_with_dot (a ++ b) = false.
Proof. destruct a; [contradiction|]. intros _ H. exact H. Qed.

Lemma qualify_join cs c : all_simple cs -> qualify (join_dots cs) c = join_dots (cs ++ [c]).
Proof.
  intros H. unfold qualify. destruct cs as [|x cs]; [reflexivity|].
  rewrite join_snoc by discriminate.
  destruct (join_dots (x :: cs)) eqn:E; [|reflexivity].
  apply join_nil_iff in E; [discriminate|assumption].
Qed.

Lemma split_acc_nonempty s acc : split_dots_acc s acc <> [].
Proof. revert acc. induction s as [|c s IH]; intros acc; cbn [split_dots_acc]; [discriminate|]. destruct (N.eqb c dot); [discriminate|apply IH]. Qed.

Lemma join_split_acc s acc : join_dots (split_dots_acc s acc) = rev acc ++ s.
Proof.
  revert acc. induction s as [|c s IH]; intros acc; cbn [split_dots_acc].
  - cbn. now rewrite app_nil_r.
  - destruct (N.eqb c dot) eqn:E.
    + apply N.eqb_eq in E. subst. rewrite join_cons by apply split_acc_nonempty. rewrite IH. reflexivity.
    + rewrite IH. cbn [rev]. now rewrite <- app_assoc.
Qed.

Lemma pkg_ok_comps p : pkg_ok p = true -> all_simple (pkg_comps p) /\ join_dots (pkg_comps p) = p.
Proof.
  unfold pkg_ok, pkg_comps. destruct p as [|x p]; cbn [is_nil orb].
  - intros _. split; [constructor|reflexivity].
  - intros H. split; [now apply all_simple_forallb|]. unfold split_dots. now rewrite join_split_acc.
Qed.

(* non-empty prefixes of a component list, longest first *)
Fixpoint npd_rev (r : list name) : list (list name) :=
  match r with
  | [] => []
  | c :: r' => rev (c :: r') :: npd_rev r'
  end.
Definition npd (cs : list name) : list (list name) := npd_rev (rev cs).

Lemma npd_snoc cs c : npd (cs ++ [c]) = (cs ++ [c]) :: npd cs.
Proof. unfold npd. rewrite rev_unit. cbn [npd_rev rev]. now rewrite rev_involutive. Qed.

Lemma npd_nil : npd [] = [].
Proof. reflexivity. Qed.

Lemma npd_all_simple cs p : all_simple cs -> In p (npd cs) -> all_simple p /\ p <> [].
Proof.
  induction cs as [|c cs IH] using rev_ind; [contradiction|].
  intros H. rewrite npd_snoc. intros [<-|Hin].
  - split; [assumption|]. destruct cs; discriminate.
  - apply IH; [|assumption]. unfold all_simple in *. apply Forall_app in H. tauto.
Qed.

(* ------------------------------------------------------------------ CreatePrefixList *)
Fixpoint dps (done rest : name) : list name :=
  match rest with
  | [] => []
  | c :: r => if N.eqb c dot then done :: dps (done ++ [c]) r else dps (done ++ [c]) r
  end.

Lemma upd_app {A} (l1 : list A) x l2 y : upd (l1 ++ x :: l2) (length l1) y = l1 ++ y :: l2.
Proof. induction l1 as [|a l1 IH]; cbn [app length upd]; [reflexivity|]. now rewrite IH. Qed.

Lemma fill_spec pkg : forall rest done mid tail a0,
  pkg = done ++ rest -> length mid = count_dots rest ->
  fill_prefixes pkg (length done) rest (count_dots rest) (a0 :: mid ++ tail)
  = a0 :: rev (dps done rest) ++ tail.
Proof.
  induction rest as [|c r IH]; intros done mid tail a0 Hp Hl; cbn [fill_prefixes count_dots dps].
  - cbn [count_dots] in Hl. destruct mid; [reflexivity|discriminate].
  - cbn [count_dots] in Hl. destruct (N.eqb c dot) eqn:E.
    + destruct (exists_last (l := mid)) as (mid' & x & ->); [intros ->; discriminate|].
      rewrite app_length in Hl. cbn [length] in Hl.
      assert (Hl' : length mid' = count_dots r) by lia.
      replace (S (count_dots r) - 1)%nat with (count_dots r) by lia.
      assert (F : firstn (length done) pkg = done).
      { rewrite Hp. rewrite firstn_app, Nat.sub_diag, firstn_all. cbn. apply app_nil_r. }
      rewrite F.
      replace (a0 :: (mid' ++ [x]) ++ tail) with ((a0 :: mid') ++ x :: tail) by (cbn; now rewrite <- app_assoc).
      replace (S (count_dots r)) with (length (a0 :: mid')) by (cbn; lia).
      rewrite upd_app. cbn [app].
      replace (S (length done)) with (length (done ++ [c])) by (rewrite app_length; cbn; lia).
      etransitivity; [apply (IH (done ++ [c]) mid' (done :: tail) a0);
                      [rewrite Hp, <- app_assoc; reflexivity|assumption]|].
      cbn [rev]. now rewrite <- app_assoc.
    + replace (S (length done)) with (length (done ++ [c])) by (rewrite app_length; cbn; lia).
      apply IH; [rewrite Hp, <- app_assoc; reflexivity|assumption].
Qed.

Lemma dps_nodot done rest : count_dots rest = O -> dps done rest = [].
Proof.
  revert done. induction rest as [|c r IH]; intros done; cbn [count_dots dps]; [reflexivity|].
  destruct (N.eqb c dot); [discriminate|apply IH].
Qed.

Lemma repeat_snoc {A} (x : A) n : repeat x (S n) = repeat x n ++ [x].
Proof. induction n as [|n IH]; [reflexivity|]. cbn [repeat app] in *. now rewrite <- IH. Qed.

Lemma cpl_general pkg : pkg <> [] -> create_prefix_list pkg = pkg :: rev (dps [] pkg) ++ [[]].
Proof.
  intros H. unfold create_prefix_list. destruct pkg as [|x p] eqn:Ep; [contradiction|]. rewrite <- Ep.
  destruct (count_dots pkg) as [|n] eqn:En.
  - rewrite dps_nodot by assumption. reflexivity.
  - replace (S n + 2)%nat with (S (S (S n))) by lia.
    change (repeat [] (S (S (S n)))) with (@nil N :: repeat [] (S (S n))). rewrite (repeat_snoc (@nil N) (S n)).
    rewrite <- En.
    pose proof (fill_spec pkg pkg [] (repeat [] (count_dots pkg)) [[]] [] eq_refl (repeat_length _ _)) as F.
    cbn [length] in F. etransitivity; [apply f_equal3; [exact F|reflexivity|reflexivity]|]. reflexivity.
Qed.

Lemma dps_app done a b : dps done (a ++ b) = dps done a ++ dps (done ++ a) b.
Proof.
  revert done. induction a as [|c a IH]; intros done; cbn [app dps].
  - now rewrite app_nil_r.
  - rewrite IH, <- app_assoc. cbn [app]. destruct (N.eqb c dot); reflexivity.
Qed.

Lemma count_dots_nodot s : no_dot s = true -> count_dots s = O.
Proof.
  induction s as [|c s IH]; cbn [no_dot count_dots]; [reflexivity|].
  intros H. apply andb_true_iff in H. destruct H as [H1 H2]. apply negb_true_iff in H1. rewrite H1. auto.
Qed.

Lemma dps_join cs : all_simple cs -> cs <> [] ->
  join_dots cs :: rev (dps [] (join_dots cs)) = map join_dots (npd cs).
Proof.
  induction cs as [|c cs IH] using rev_ind; [contradiction|]. intros H _.
  unfold all_simple in H. apply Forall_app in H. destruct H as [Hcs Hc]. inversion Hc as [|? ? Hc' _]. subst.
  apply simple_inv in Hc'. destruct Hc' as [_ Hd].
  destruct cs as [|x cs'].
  - cbn [app join_dots]. rewrite dps_nodot by now apply count_dots_nodot. reflexivity.
  - rewrite npd_snoc. cbn [map]. f_equal. rewrite <- IH by (assumption || discriminate).
    rewrite join_snoc by discriminate. rewrite dps_app. cbn [dps app]. rewrite N.eqb_refl.
    rewrite (dps_nodot _ c) by now apply count_dots_nodot. rewrite rev_app_distr. reflexivity.
Qed.

(* the list CreatePrefixList returns for a package with components cs: every non-empty prefix,
   longest first, then the empty string *)
Definition prefixes_desc (cs : list name) : list (list name) := npd cs ++ [[]].

Lemma create_prefix_list_spec_lemma cs : all_simple cs ->
  create_prefix_list (join_dots cs) = map join_dots (prefixes_desc cs).
Proof.
  intros H. unfold prefixes_desc. rewrite map_app. cbn [map join_dots].
  destruct cs as [|c cs].
  - reflexivity.
  - rewrite cpl_general.
    + rewrite <- dps_join by (assumption || discriminate). reflexivity.
    + intros E. apply join_nil_iff in E; [discriminate|assumption].
Qed.

(* ------------------------------------------------------------------ well-formed universes *)
Definition names_of (f : file) : list name := map fst (f_syms f).

Record wf (U : universe) : Prop := {
  wf_pkg : forall f, In f (u_files U) -> pkg_ok (f_pkg f) = true;
  wf_nodup : nodup_names (all_names U) = true;
  wf_nopkg : forall n, In n (all_names U) -> Spec.is_package U n = false;
  wf_parent : forall f n, In f (u_files U) -> In n (names_of f) -> parent_ok f n = true }.

Lemma wf_universe_wf U : wf_universe U = true -> wf U.
Proof.
  unfold wf_universe. intros H.
  apply andb_true_iff in H. destruct H as [H H4].
  apply andb_true_iff in H. destruct H as [H H3].
  apply andb_true_iff in H. destruct H as [H1 H2].
  constructor.
  - intros f Hf. rewrite forallb_forall in H1. now apply H1.
  - assumption.
  - intros n Hn. rewrite forallb_forall in H3. apply H3 in Hn. now apply negb_true_iff in Hn.
  - intros f n Hf Hn. rewrite forallb_forall in H4. specialize (H4 f Hf). rewrite forallb_forall in H4.
    unfold names_of in Hn. apply in_map_iff in Hn. destruct Hn as (nk & <- & Hnk). now apply H4.
Qed.

Lemma pkg_ok_no_lead p : pkg_ok p = true -> starts_with_dot p = false.
Proof. intros H. apply pkg_ok_comps in H. destruct H as [H1 H2]. rewrite <- H2. now apply join_no_lead. Qed.

Lemma has_prefix_same_len s p : has_prefix s p = true -> length s = length p -> s = p.
Proof.
  intros H L. apply has_prefix_app in H. destruct H as [r ->]. rewrite app_length in L.
  destruct r; [now rewrite app_nil_r|cbn in L; lia].
Qed.

(* matchesPkgNamespace is protoc's IsInPackage (for a non-empty name) *)
Lemma mpn_eq f n : pkg_ok (f_pkg f) = true ->
  matches_pkg_namespace n (f_pkg f) = negb (is_nil n) && Spec.is_in_package f n.
Proof.
  intros Hok. unfold matches_pkg_namespace, Spec.is_in_package. destruct (f_pkg f) as [|x p] eqn:Ep.
  - cbn [is_nil]. destruct n; reflexivity.
  - cbn [is_nil]. rewrite <- Ep in *. destruct (name_eqb n (f_pkg f)) eqn:E.
    + apply name_eqb_eq in E. subst n. rewrite has_prefix_refl, Nat.eqb_refl, Ep. reflexivity.
    + apply name_eqb_neq in E. destruct (has_prefix (f_pkg f) n) eqn:HP.
      * rewrite andb_true_r. cbn [andb]. destruct n as [|y n'].
        -- cbn [length is_nil negb andb]. rewrite Ep. cbn [length nth_error Nat.ltb Nat.leb].
           apply pkg_ok_no_lead in Hok. rewrite Ep in Hok. cbn [starts_with_dot] in Hok. now rewrite Hok.
        -- cbn [is_nil negb andb]. pose proof (has_prefix_length _ _ HP) as L.
           destruct (Nat.eqb (length (f_pkg f)) (length (y :: n'))) eqn:EL.
           ++ apply Nat.eqb_eq in EL. exfalso. apply E. symmetry. now apply has_prefix_same_len.
           ++ apply Nat.eqb_neq in EL. cbn [orb].
              replace (length (y :: n') <? length (f_pkg f))%nat with true; [reflexivity|].
              symmetry. apply Nat.ltb_lt. lia.
      * rewrite andb_false_r. cbn [andb]. now rewrite andb_false_r.
Qed.

Lemma first_some_Some {A} (fn : file -> option A) fs x :
  Spec.first_some fn fs = Some x -> exists f, In f fs /\ fn f = Some x.
Proof.
  induction fs as [|f fs IH]; cbn [Spec.first_some]; [discriminate|].
  destruct (fn f) eqn:E.
  - intros H. injection H as <-. exists f. split; [now left|assumption].
  - intros H. apply IH in H. destruct H as (g & Hg & Hx). exists g. split; [now right|assumption].
Qed.

Lemma first_some_None {A} (fn : file -> option A) fs :
  Spec.first_some fn fs = None -> forall f, In f fs -> fn f = None.
Proof.
  induction fs as [|f fs IH]; cbn [Spec.first_some]; [contradiction|].
  destruct (fn f) eqn:E; [discriminate|]. intros H g [<-|Hg]; auto.
Qed.

Lemma in_all_names U f n : In f (u_files U) -> In n (names_of f) -> In n (all_names U).
Proof. intros Hf Hn. unfold all_names. apply in_flat_map. exists f. split; assumption. Qed.

Definition from_find (n : name) (r : option Spec.skind) : gres :=
  match r with
  | Some (Spec.SK k) => GDesc n k
  | Some Spec.SKPackage => GSentinel n
  | None => GNil
  end.

Lemma reif_nolead n f : starts_with_dot n = false ->
  resolve_element_in_file n f =
  match assoc n (f_syms f) with
  | Some k => GDesc n k
  | None => if matches_pkg_namespace n (f_pkg f) then GSentinel n else GNil
  end.
Proof. intros H. unfold resolve_element_in_file, find_desc, trim_dot. now rewrite H. Qed.

Lemma first_hit_nopkg n fs : starts_with_dot n = false ->
  (forall f, In f fs -> matches_pkg_namespace n (f_pkg f) = false) ->
  first_hit (resolve_element_in_file n) fs =
  match Spec.first_some (fun f => assoc n (f_syms f)) fs with Some k => GDesc n k | None => GNil end.
Proof.
  intros Hn. induction fs as [|f fs IH]; intros H; cbn [first_hit Spec.first_some]; [reflexivity|].
  rewrite reif_nolead by assumption. destruct (assoc n (f_syms f)); [reflexivity|].
  rewrite (H f) by now left. apply IH. intros g Hg. apply H. now right.
Qed.

Lemma first_hit_nosym n fs : starts_with_dot n = false ->
  (forall f, In f fs -> assoc n (f_syms f) = None) ->
  first_hit (resolve_element_in_file n) fs =
  if existsb (fun f => matches_pkg_namespace n (f_pkg f)) fs then GSentinel n else GNil.
Proof.
  intros Hn. induction fs as [|f fs IH]; intros H; cbn [first_hit existsb]; [reflexivity|].
  rewrite reif_nolead by assumption. rewrite (H f) by now left.
  destruct (matches_pkg_namespace n (f_pkg f)); [reflexivity|]. cbn [orb]. apply IH. intros g Hg. apply H. now right.
Qed.

Lemma existsb_mpn n fs : (forall f, In f fs -> pkg_ok (f_pkg f) = true) ->
  existsb (fun f => matches_pkg_namespace n (f_pkg f)) fs
  = negb (is_nil n) && existsb (fun f => Spec.is_in_package f n) fs.
Proof.
  induction fs as [|f fs IH]; intros H; cbn [existsb]; [now rewrite andb_false_r|].
  rewrite mpn_eq by (apply H; now left). rewrite IH by (intros g Hg; apply H; now right).
  now rewrite andb_orb_distrib_r.
Qed.

Lemma not_package_mpn U n f : wf U -> Spec.is_package U n = false -> In f (u_files U) ->
  matches_pkg_namespace n (f_pkg f) = false.
Proof.
  intros W Hp Hf. rewrite mpn_eq by now apply (wf_pkg U W). unfold Spec.is_package in Hp.
  destruct (negb (is_nil n)); [|reflexivity]. cbn [andb] in *.
  destruct (Spec.is_in_package f n) eqn:E; [|reflexivity].
  assert (X : existsb (fun f0 => Spec.is_in_package f0 n) (u_files U) = true) by (apply existsb_exists; eauto).
  congruence.
Qed.

(* resolveElement over the visible files is protoc's FindSymbol *)
Lemma Q_spec U n : wf U -> starts_with_dot n = false ->
  resolve_element U n = from_find n (Spec.find_symbol U n).
Proof.
  intros W Hn. unfold resolve_element, Spec.find_symbol. unfold trim_dot. rewrite Hn.
  destruct (Spec.first_some (fun f => assoc n (f_syms f)) (u_files U)) as [k|] eqn:E.
  - rewrite first_hit_nopkg; [now rewrite E|assumption|].
    intros f Hf. apply (not_package_mpn U); try assumption. apply (wf_nopkg U W).
    apply first_some_Some in E. destruct E as (g & Hg & Hk). apply (in_all_names U g); [assumption|].
    now apply assoc_In in Hk.
  - rewrite first_hit_nosym; [|assumption|now apply first_some_None].
    rewrite existsb_mpn by apply (wf_pkg U W). unfold Spec.is_package.
    destruct (negb (is_nil n) && existsb (fun f => Spec.is_in_package f n) (u_files U)); reflexivity.
Qed.

Lemma find_symbol_package U n : Spec.find_symbol U n = Some Spec.SKPackage -> Spec.is_package U n = true.
Proof.
  unfold Spec.find_symbol. destruct (Spec.first_some _ _); [discriminate|].
  destruct (Spec.is_package U n); [reflexivity|discriminate].
Qed.

Lemma to_spec_from_find U n r : Spec.find_symbol U n = r -> Spec.to_spec U (from_find n r) = Spec.of_find n r.
Proof.
  intros H. destruct r as [[k|]|]; cbn [from_find Spec.to_spec Spec.of_find]; try reflexivity.
  apply find_symbol_package in H. now rewrite H.
Qed.

(* ---- names under a message of the file being linked are only ever defined in that file ---- *)
Lemma iip_self f M : f_pkg f = M -> Spec.is_in_package f M = true.
Proof. intros <-. unfold Spec.is_in_package. now rewrite has_prefix_refl, Nat.eqb_refl. Qed.

Lemma iip_child f M x : f_pkg f = M ++ dot :: x -> Spec.is_in_package f M = true.
Proof.
  intros E. unfold Spec.is_in_package. rewrite E.
  replace (has_prefix (M ++ dot :: x) M) with true by (symmetry; apply has_prefix_app; eauto).
  rewrite nth_error_app2 by lia. rewrite Nat.sub_diag. cbn [nth_error]. rewrite N.eqb_refl. now rewrite orb_true_r.
Qed.

Lemma iip_prefix f M x : Spec.is_in_package f (M ++ dot :: x) = true -> Spec.is_in_package f M = true.
Proof.
  unfold Spec.is_in_package. intros H. apply andb_true_iff in H. destruct H as [H _].
  apply has_prefix_app in H. destruct H as [r H]. rewrite <- app_assoc in H. cbn [app] in H.
  now apply (iip_child f M (x ++ r)).
Qed.

Lemma is_package_prefix U M x : M <> [] -> Spec.is_package U (M ++ dot :: x) = true -> Spec.is_package U M = true.
Proof.
  intros HM. unfold Spec.is_package. intros H. apply andb_true_iff in H. destruct H as [_ H].
  apply existsb_exists in H. destruct H as (f & Hf & Hp). apply iip_prefix in Hp.
  apply andb_true_iff. split; [destruct M; [contradiction|reflexivity]|]. apply existsb_exists. eauto.
Qed.

Lemma firstn_app_dot M x i : (length M < i)%nat ->
  firstn i (M ++ dot :: x) = M ++ dot :: firstn (i - S (length M)) x.
Proof.
  intros H. rewrite firstn_app. rewrite firstn_all2 by lia.
  replace (i - length M)%nat with (S (i - S (length M))) by lia. reflexivity.
Qed.

Lemma ancestor g M : Spec.is_in_package g M = false ->
  (forall n, In n (names_of g) -> parent_ok g n = true) ->
  forall len x, (length x <= len)%nat -> In (M ++ dot :: x) (names_of g) -> In M (names_of g).
Proof.
  intros Hnp Hpar. induction len as [|len IH]; intros x Hl Hin.
  - destruct x; [|cbn in Hl; lia]. specialize (Hpar _ Hin). unfold parent_ok, strip_last in Hpar.
    rewrite fld_app_nodot in Hpar by reflexivity. rewrite firstn_app, Nat.sub_diag, firstn_all in Hpar.
    cbn [firstn] in Hpar. rewrite app_nil_r in Hpar. apply orb_true_iff in Hpar. destruct Hpar as [Hp|Hp].
    + apply name_eqb_eq in Hp. symmetry in Hp. apply iip_self in Hp. congruence.
    + now apply mem_name_In.
  - pose proof (Hpar _ Hin) as Hp. unfold parent_ok, strip_last in Hp.
    destruct (fld_app_ge M x) as (i & Ei & Hi). rewrite Ei in Hp.
    destruct (Nat.eq_dec i (length M)) as [->|Hne].
    + rewrite firstn_app, Nat.sub_diag, firstn_all in Hp. cbn [firstn] in Hp. rewrite app_nil_r in Hp.
      apply orb_true_iff in Hp. destruct Hp as [Hp|Hp].
      * apply name_eqb_eq in Hp. symmetry in Hp. apply iip_self in Hp. congruence.
      * now apply mem_name_In.
    + rewrite firstn_app_dot in Hp by lia. apply orb_true_iff in Hp. destruct Hp as [Hp|Hp].
      * apply name_eqb_eq in Hp. symmetry in Hp. apply iip_child in Hp. congruence.
      * apply mem_name_In in Hp. apply IH in Hp; [assumption|]. rewrite firstn_length. lia.
Qed.

Lemma nodup_names_app a b x : nodup_names (a ++ b) = true -> In x a -> In x b -> False.
Proof.
  induction a as [|y a IH]; cbn [app nodup_names]; [contradiction|].
  intros H [->|Ha] Hb; apply andb_true_iff in H; destruct H as [H1 H2].
  - apply negb_true_iff in H1. assert (X : mem_name x (a ++ b) = true) by (apply mem_name_In, in_or_app; now right). congruence.
  - now apply IH.
Qed.

Lemma self_only U M x : wf U -> M <> [] -> In M (names_of (u_self U)) ->
  Spec.first_some (fun f => assoc (M ++ dot :: x) (f_syms f)) (u_files U) = assoc (M ++ dot :: x) (f_syms (u_self U)).
Proof.
  intros W HM Hself. unfold u_files. cbn [Spec.first_some].
  destruct (assoc (M ++ dot :: x) (f_syms (u_self U))) eqn:E; [reflexivity|].
  destruct (Spec.first_some _ (u_deps U)) as [k|] eqn:E2; [|reflexivity]. exfalso.
  apply first_some_Some in E2. destruct E2 as (g & Hg & Hk). apply assoc_In in Hk.
  assert (HgU : In g (u_files U)) by now right.
  assert (HnpU : Spec.is_package U M = false).
  { apply (wf_nopkg U W). apply (in_all_names U (u_self U)); [now left|assumption]. }
  assert (Hnp : Spec.is_in_package g M = false).
  { unfold Spec.is_package in HnpU. destruct M; [contradiction|]. cbn [is_nil negb andb] in HnpU.
    destruct (Spec.is_in_package g (n :: M)) eqn:Eg; [|reflexivity].
    assert (X : existsb (fun f => Spec.is_in_package f (n :: M)) (u_files U) = true) by (apply existsb_exists; eauto).
    congruence. }
  assert (HMg : In M (names_of g)).
  { apply (ancestor g M Hnp) with (len := length x) (x := x); [|lia|exact Hk].
    intros n Hn. now apply (wf_parent U W). }
  pose proof (wf_nodup U W) as ND. unfold all_names, u_files in ND. cbn [flat_map] in ND.
  apply (nodup_names_app _ _ M ND); [exact Hself|]. apply in_flat_map. exists g. split; assumption.
Qed.

Lemma msg_query_eq U M x : wf U -> M <> [] -> starts_with_dot M = false -> In M (names_of (u_self U)) ->
  query_self U (M ++ dot :: x) = query_all U (M ++ dot :: x).
Proof.
  intros W HM Hl Hself. unfold query_self, query_all.
  assert (Hn : starts_with_dot (M ++ dot :: x) = false) by now apply app_no_lead.
  rewrite Q_spec by assumption. rewrite reif_nolead by assumption.
  assert (HnpM : Spec.is_package U M = false).
  { apply (wf_nopkg U W). apply (in_all_names U (u_self U)); [now left|assumption]. }
  assert (Hnp : Spec.is_package U (M ++ dot :: x) = false).
  { destruct (Spec.is_package U (M ++ dot :: x)) eqn:E; [|reflexivity]. apply is_package_prefix in E; [congruence|assumption]. }
  unfold Spec.find_symbol. rewrite self_only by assumption. rewrite Hnp.
  destruct (assoc (M ++ dot :: x) (f_syms (u_self U))); [reflexivity|].
  rewrite (not_package_mpn U) by (assumption || now left). reflexivity.
Qed.

(* ------------------------------------------------------------------ one scope of the search *)
Definition gstep (U : universe) (sc first nm : name) : gres :=
  resolve_element_relative (sc ++ dot :: first) (sc ++ dot :: nm) (query_all U).
Definition groot (U : universe) (nm : name) : gres := resolve_element_relative nm nm (query_all U).

Lemma is_aggregate_from_find n k : is_aggregate_g (from_find n (Some k)) = Spec.is_aggregate k.
Proof. destruct k as [[]|]; reflexivity. Qed.
Lemma is_type_from_find n k : is_type_g (from_find n (Some k)) = Spec.is_type k.
Proof. destruct k as [[]|]; reflexivity. Qed.

Definition gstep_val (U : universe) (sc first nm : name) : gres :=
  match Spec.find_symbol U (sc ++ dot :: first) with
  | None => GNil
  | Some k =>
    if name_eqb first nm then from_find (sc ++ dot :: first) (Some k)
    else if negb (Spec.is_aggregate k) then GNil
    else match Spec.find_symbol U (sc ++ dot :: nm) with
         | None => GSentinel (sc ++ dot :: nm)
         | Some k' => from_find (sc ++ dot :: nm) (Some k')
         end
  end.

Lemma name_eqb_scope sc a b : name_eqb (sc ++ dot :: a) (sc ++ dot :: b) = name_eqb a b.
Proof. rewrite name_eqb_app_cancel. cbn [name_eqb]. now rewrite N.eqb_refl. Qed.

Lemma gstep_spec U sc first nm : wf U -> sc <> [] -> starts_with_dot sc = false ->
  gstep U sc first nm = gstep_val U sc first nm.
Proof.
  intros W Hs Hl. unfold gstep, gstep_val, resolve_element_relative, query_all.
  rewrite !Q_spec by (assumption || now apply app_no_lead). rewrite name_eqb_scope.
  destruct (Spec.find_symbol U (sc ++ dot :: first)) as [k|]; [|reflexivity].
  pose proof (is_aggregate_from_find (sc ++ dot :: first) k) as HA.
  destruct k as [k0|]; cbn [from_find] in *; rewrite HA;
    (destruct (name_eqb first nm); [reflexivity|]);
    (destruct (negb _); [reflexivity|]);
    destruct (Spec.find_symbol U (sc ++ dot :: nm)) as [[k'|]|]; reflexivity.
Qed.

Lemma groot_spec U nm : wf U -> starts_with_dot nm = false ->
  groot U nm = from_find nm (Spec.find_symbol U nm).
Proof.
  intros W Hn. unfold groot, resolve_element_relative, query_all. rewrite Q_spec by assumption.
  rewrite name_eqb_refl. destruct (Spec.find_symbol U nm) as [[k|]|]; reflexivity.
Qed.

(* the loop of result.resolve over the answers of the scopes *)
Definition passes (ot smpl : bool) (d : gres) : bool := negb ot || is_type_g d || negb smpl.

Fixpoint gloop (ot smpl : bool) (ds : list gres) (best : gres) : gres :=
  match ds with
  | [] => best
  | d :: r =>
    match d with
    | GNil => gloop ot smpl r best
    | _ => if passes ot smpl d then d
           else gloop ot smpl r (match best with GNil => d | _ => best end)
    end
  end.

Lemma resolve_loop_gloop U first nm ot scopes best :
  resolve_loop U first nm ot scopes best
  = gloop ot (name_eqb first nm) (map (fun sc => run_scope U sc first nm) scopes) best.
Proof.
  revert best. induction scopes as [|sc r IH]; intros best; cbn [resolve_loop map gloop]; [reflexivity|].
  unfold passes. destruct (run_scope U sc first nm); rewrite ?IH; reflexivity.
Qed.

Lemma gloop_cons_nonnil ot smpl d r best : d <> GNil ->
  gloop ot smpl (d :: r) best
  = if passes ot smpl d then d else gloop ot smpl r (match best with GNil => d | _ => best end).
Proof. destruct d; [contradiction|reflexivity|reflexivity]. Qed.

Lemma gloop_cons_nil ot smpl r best : gloop ot smpl (GNil :: r) best = gloop ot smpl r best.
Proof. reflexivity. Qed.

Lemma from_find_some_nonnil n k : from_find n (Some k) <> GNil.
Proof. destruct k as [k0|]; discriminate. Qed.

(* protoc's loop over an explicit list of scopes (innermost first); [] is the outermost lookup *)
Fixpoint absA (U : universe) (first nm : name) (m : Spec.mode) (L : list name) : Spec.sres :=
  match L with
  | [] => Spec.of_find nm (Spec.find_symbol U nm)
  | sc :: L' =>
    let cand := sc ++ dot :: first in
    match Spec.find_symbol U cand with
    | Some k =>
      if (length first <? length nm)%nat then
        if Spec.is_aggregate k then
          let full := cand ++ skipn (length first) nm in
          match Spec.find_symbol U full with
          | Some k' => Spec.SFound full k'
          | None => Spec.SUndefined full
          end
        else absA U first nm m L'
      else
        match m with
        | Spec.LookupTypes => if Spec.is_type k then Spec.SFound cand k else absA U first nm m L'
        | Spec.LookupAll => Spec.SFound cand k
        end
    | None => absA U first nm m L'
    end
  end.

Lemma length_join_ge cs : all_simple cs -> (length cs <= length (join_dots cs))%nat.
Proof.
  induction cs as [|c cs IH]; intros H; [cbn; lia|]. inversion H as [|? ? Hc Hcs]. subst.
  apply simple_inv in Hc. destruct Hc as [Hc _]. destruct cs as [|d cs].
  - cbn. destruct c; [contradiction|cbn; lia].
  - rewrite join_cons by discriminate. rewrite app_length. cbn [length]. specialize (IH Hcs). cbn [length] in IH. lia.
Qed.

Lemma spec_loop_abs U first nm m : forall cs c fuel, all_simple (cs ++ [c]) -> (length cs < fuel)%nat ->
  Spec.lookup_loop U first nm m fuel (join_dots (cs ++ [c])) = absA U first nm m (map join_dots (npd cs)).
Proof.
  induction cs as [|c' cs IH] using rev_ind; intros c fuel H Hf.
  - destruct fuel; [lia|]. cbn [app join_dots Spec.lookup_loop]. inversion H as [|? ? Hc _]. subst.
    apply simple_inv in Hc. destruct Hc as [_ Hc]. rewrite fld_nodot by assumption. reflexivity.
  - destruct fuel; [lia|]. rewrite npd_snoc. cbn [map absA Spec.lookup_loop].
    assert (Hc : no_dot c = true).
    { unfold all_simple in H. apply Forall_app in H. destruct H as [_ H]. inversion H as [|? ? Hc _]. now apply simple_inv in Hc. }
    rewrite join_snoc by (destruct cs; discriminate). rewrite fld_app_nodot by assumption.
    rewrite firstn_app, Nat.sub_diag, firstn_all. cbn [firstn]. rewrite app_nil_r.
    assert (Hcs : all_simple (cs ++ [c'])).
    { unfold all_simple in *. apply Forall_app in H. tauto. }
    rewrite app_length in Hf. cbn [length] in Hf.
    rewrite (IH c' fuel Hcs) by lia.
    reflexivity.
Qed.

Lemma find_symbol_none_pkg U n : Spec.find_symbol U n = None -> Spec.is_package U n = false.
Proof. unfold Spec.find_symbol. destruct (Spec.first_some _ _); [discriminate|]. destruct (Spec.is_package U n); [discriminate|reflexivity]. Qed.

Section MainInduction.
  Variable U : universe.
  Variable nm : name.
  Variable m : Spec.mode.
  Hypothesis W : wf U.
  Hypothesis Hnm : starts_with_dot nm = false.
  Let first := Spec.first_part nm.
  Let ot := Spec.only_types m.
  Let smpl := name_eqb first nm.

  Definition nontype_g (d : gres) : Prop :=
    match d with
    | GDesc n k => Spec.is_type (Spec.SK k) = false
    | GSentinel n => Spec.is_package U n = true
    | GNil => False
    end.
  Definition best_ok (best : gres) : Prop :=
    best = GNil \/ (m = Spec.LookupTypes /\ smpl = true /\ nontype_g best).

  Lemma nontype_outcome d : m = Spec.LookupTypes -> nontype_g d ->
    Spec.outcome_of m (Spec.to_spec U d) = Spec.ONotAType.
  Proof.
    intros -> H. destruct d as [|n k|n]; cbn [nontype_g] in H; [contradiction| |].
    - cbn [Spec.to_spec Spec.outcome_of Spec.not_a_type]. now rewrite H.
    - cbn [Spec.to_spec]. rewrite H. reflexivity.
  Qed.

  Lemma nontype_from_find n k : Spec.find_symbol U n = Some k -> Spec.is_type k = false ->
    nontype_g (from_find n (Some k)).
  Proof.
    intros Hf Ht. destruct k as [k0|]; cbn [from_find nontype_g]; [assumption|]. now apply find_symbol_package.
  Qed.

  Lemma best_merge best d : best_ok best -> m = Spec.LookupTypes -> smpl = true -> nontype_g d ->
    best_ok (match best with GNil => d | _ => best end).
  Proof.
    intros [->|Hb] Hm Hs Hd; [right; auto|]. destruct best; [right; auto|right; tauto|right; tauto].
  Qed.

  Lemma fixed_main : forall L best,
    (forall sc, In sc L -> sc <> [] /\ starts_with_dot sc = false) -> best_ok best ->
    Spec.outcome_of m (Spec.to_spec U (gloop ot smpl (map (fun sc => gstep U sc first nm) L ++ [groot U nm]) best))
    = Spec.outcome_of m (absA U first nm m L).
  Proof.
    induction L as [|sc L IH]; intros best HL Hb.
    - cbn [map app absA]. rewrite groot_spec by assumption.
      destruct (Spec.find_symbol U nm) as [k|] eqn:E.
      + rewrite gloop_cons_nonnil by apply from_find_some_nonnil. cbn [gloop].
        destruct (passes ot smpl (from_find nm (Some k))) eqn:P.
        * now rewrite (to_spec_from_find U nm (Some k) E).
        * unfold passes in P. rewrite is_type_from_find in P.
          apply orb_false_iff in P. destruct P as [P P3]. apply orb_false_iff in P. destruct P as [P1 P2].
          apply negb_false_iff in P1, P3. unfold ot in P1.
          assert (Hm : m = Spec.LookupTypes) by (destruct m; [discriminate|reflexivity]).
          rewrite nontype_outcome; [|assumption|].
          -- cbn [Spec.of_find]. rewrite Hm. cbn [Spec.outcome_of Spec.not_a_type]. now rewrite P2.
          -- pose proof (best_merge best _ Hb Hm P3 (nontype_from_find nm k E P2)) as [Hx|(_ & _ & Hx)]; [|exact Hx].
             exfalso. destruct best; [now apply (from_find_some_nonnil nm k)|discriminate|discriminate].
      + cbn [from_find gloop Spec.of_find]. destruct Hb as [->|(Hm & _ & Hb)]; [reflexivity|].
        rewrite nontype_outcome by assumption. rewrite Hm. reflexivity.
    - destruct (HL sc (or_introl eq_refl)) as [Hs1 Hs2].
      assert (HL' : forall sc0, In sc0 L -> sc0 <> [] /\ starts_with_dot sc0 = false) by (intros; apply HL; now right).
      cbn [map app absA]. rewrite gstep_spec by assumption. unfold gstep_val.
      pose proof (first_part_compound nm) as FC. fold first in FC. fold smpl in FC. rewrite FC. clear FC.
      change (name_eqb first nm) with smpl.
      destruct (Spec.find_symbol U (sc ++ dot :: first)) as [k|] eqn:E; [|rewrite gloop_cons_nil; now apply IH].
      destruct smpl eqn:Es; cbn [negb].
      + (* unqualified name *)
        rewrite gloop_cons_nonnil by apply from_find_some_nonnil.
        unfold passes at 1. rewrite is_type_from_find. cbn [negb]. rewrite orb_false_r.
        destruct m eqn:Em; cbn [Spec.only_types] in *; subst ot; cbn [negb orb].
        * now rewrite (to_spec_from_find U _ (Some k) E).
        * destruct (Spec.is_type k) eqn:Et.
          -- now rewrite (to_spec_from_find U _ (Some k) E).
          -- apply IH; [assumption|]. apply best_merge; auto. now apply nontype_from_find.
      + (* qualified name *)
        destruct (Spec.is_aggregate k); cbn [negb]; [|rewrite gloop_cons_nil; now apply IH].
        assert (Hfull : (sc ++ dot :: first) ++ skipn (length first) nm = sc ++ dot :: nm).
        { rewrite <- app_assoc. cbn [app]. unfold first. now rewrite first_part_skipn. }
        rewrite Hfull.
        destruct (Spec.find_symbol U (sc ++ dot :: nm)) as [k'|] eqn:E'.
        * rewrite gloop_cons_nonnil by apply from_find_some_nonnil.
          unfold passes. cbn [negb]. rewrite orb_true_r.
          now rewrite (to_spec_from_find U _ (Some k') E').
        * rewrite gloop_cons_nonnil by discriminate.
          unfold passes. cbn [negb]. rewrite orb_true_r. cbn [Spec.to_spec].
          now rewrite (find_symbol_none_pkg U _ E').
  Qed.
End MainInduction.

(* ------------------------------------------------------------------ the scope lists *)
Fixpoint ext_prefixes (Q path : list name) : list (list name) :=
  match path with
  | [] => []
  | c :: r => (Q ++ [c]) :: ext_prefixes (Q ++ [c]) r
  end.

Lemma all_simple_app a b : all_simple (a ++ b) <-> all_simple a /\ all_simple b.
Proof. unfold all_simple. apply Forall_app. Qed.

Lemma all_simple_one c : simple c = true -> all_simple [c].
Proof. intros H. constructor; [assumption|constructor]. Qed.

Lemma msg_fqns_join path : forall Q, all_simple Q -> all_simple path ->
  msg_fqns (join_dots Q) path = map join_dots (ext_prefixes Q path).
Proof.
  induction path as [|c r IH]; intros Q HQ Hp; cbn [msg_fqns ext_prefixes map]; [reflexivity|].
  inversion Hp as [|? ? Hc Hr]. subst. rewrite qualify_join by assumption. f_equal.
  apply IH; [|assumption]. apply all_simple_app. split; [assumption|now apply all_simple_one].
Qed.

Lemma ext_npd path : forall Q, rev (ext_prefixes Q path) ++ npd Q = npd (Q ++ path).
Proof.
  induction path as [|c r IH]; intros Q; cbn [ext_prefixes rev].
  - now rewrite app_nil_r.
  - rewrite <- app_assoc. cbn [app]. rewrite <- npd_snoc. rewrite IH. now rewrite <- app_assoc.
Qed.

Lemma last_default {A} (l : list A) d d' : l <> [] -> last l d = last l d'.
Proof.
  induction l as [|a l IH]; [contradiction|]. intros _. destruct l as [|b l]; [reflexivity|].
  change (last (a :: b :: l) d) with (last (b :: l) d). change (last (a :: b :: l) d') with (last (b :: l) d').
  apply IH. discriminate.
Qed.

Lemma last_ext path : forall Q, last (map join_dots (ext_prefixes Q path)) (join_dots Q) = join_dots (Q ++ path).
Proof.
  induction path as [|c r IH]; intros Q; cbn [ext_prefixes map].
  - cbn. now rewrite app_nil_r.
  - destruct r as [|c2 r].
    + reflexivity.
    + change (last (join_dots (Q ++ [c]) :: map join_dots (ext_prefixes (Q ++ [c]) (c2 :: r))) (join_dots Q))
        with (last (map join_dots (ext_prefixes (Q ++ [c]) (c2 :: r))) (join_dots Q)).
      rewrite (last_default _ (join_dots Q) (join_dots (Q ++ [c]))) by (cbn; discriminate).
      rewrite IH. now rewrite <- app_assoc.
Qed.

Lemma ext_prefixes_in path : forall Q q, all_simple Q -> all_simple path -> In q (ext_prefixes Q path) ->
  all_simple q /\ q <> [].
Proof.
  induction path as [|c r IH]; intros Q q HQ Hp; cbn [ext_prefixes]; [contradiction|].
  inversion Hp as [|? ? Hc Hr]. subst.
  assert (HQc : all_simple (Q ++ [c])) by (apply all_simple_app; split; [assumption|now apply all_simple_one]).
  intros [<-|Hin].
  - split; [assumption|]. destruct Q; discriminate.
  - now apply (IH (Q ++ [c])).
Qed.

Lemma join_nice q : all_simple q -> q <> [] -> join_dots q <> [] /\ starts_with_dot (join_dots q) = false.
Proof.
  intros H Hq. split; [|now apply join_no_lead]. intros E. apply join_nil_iff in E; auto.
Qed.

Lemma run_msg U M first nm : wf U -> M <> [] -> starts_with_dot M = false -> In M (names_of (u_self U)) ->
  run_scope U (ScMsg M) first nm = gstep U M first nm.
Proof.
  intros W HM Hl Hin. cbn [run_scope]. unfold message_scope, gstep, resolve_element_relative.
  now rewrite !msg_query_eq by assumption.
Qed.

Lemma run_prefix U p first nm : p <> [] -> run_scope U (ScPrefix p) first nm = gstep U p first nm.
Proof. intros Hp. cbn [run_scope]. unfold file_scope_step. destruct p; [contradiction|reflexivity]. Qed.

Fixpoint first_nonnil (ds : list gres) : gres :=
  match ds with
  | [] => GNil
  | GNil :: r => first_nonnil r
  | d :: _ => d
  end.

Lemma file_scope_loop_first U ps first nm :
  file_scope_loop U ps first nm = first_nonnil (map (fun p => file_scope_step U p first nm) ps).
Proof.
  induction ps as [|p ps IH]; cbn [file_scope_loop map first_nonnil]; [reflexivity|].
  destruct (file_scope_step U p first nm); [assumption|reflexivity|reflexivity].
Qed.

(* everything the hypotheses give about the element that holds the reference *)
Record scope_facts (U : universe) (path : list name) (elem : name) (P : list name) : Prop := {
  sf_P : all_simple P;
  sf_pkg : join_dots P = f_pkg (u_self U);
  sf_path : all_simple path;
  sf_elem : simple elem = true;
  sf_def : forall M, In M (msg_fqns (f_pkg (u_self U)) path) -> In M (names_of (u_self U)) }.

Lemma scope_ok_facts U path elem : wf U -> scope_ok U path elem = true ->
  scope_facts U path elem (pkg_comps (f_pkg (u_self U))).
Proof.
  intros W H. unfold scope_ok in H. apply andb_true_iff in H. destruct H as [H H3].
  apply andb_true_iff in H. destruct H as [H1 H2].
  destruct (pkg_ok_comps (f_pkg (u_self U))) as [HP HJ]; [apply (wf_pkg U W); now left|].
  constructor; try assumption.
  - now apply all_simple_forallb.
  - intros M HM. rewrite forallb_forall in H3. apply H3 in HM. now apply mem_name_In.
Qed.

Lemma relative_to_join U path elem P : scope_facts U path elem P ->
  relative_to U path elem = join_dots ((P ++ path) ++ [elem]).
Proof.
  intros F. unfold relative_to. rewrite <- (sf_pkg _ _ _ _ F).
  rewrite msg_fqns_join by apply F. rewrite last_ext. apply qualify_join.
  apply all_simple_app. split; apply F.
Qed.

Lemma msg_steps U path elem P first nm : wf U -> scope_facts U path elem P ->
  map (fun sc => run_scope U sc first nm) (map ScMsg (rev (msg_fqns (f_pkg (u_self U)) path)))
  = map (fun sc => gstep U sc first nm) (map join_dots (rev (ext_prefixes P path))).
Proof.
  intros W F. rewrite map_map. rewrite <- (sf_pkg _ _ _ _ F) at 1.
  rewrite msg_fqns_join by apply F. rewrite <- map_rev. rewrite !map_map.
  apply map_ext_in. intros q Hq. apply in_rev in Hq.
  destruct (ext_prefixes_in path P q (sf_P _ _ _ _ F) (sf_path _ _ _ _ F) Hq) as [Hq1 Hq2].
  destruct (join_nice q Hq1 Hq2) as [Hj1 Hj2].
  apply run_msg; try assumption. apply (sf_def _ _ _ _ F).
  rewrite <- (sf_pkg _ _ _ _ F). rewrite msg_fqns_join by apply F. now apply in_map.
Qed.

Lemma prefix_steps U path elem P first nm : scope_facts U path elem P ->
  map (fun p => file_scope_step U p first nm) (create_prefix_list (f_pkg (u_self U)))
  = map (fun sc => gstep U sc first nm) (map join_dots (npd P)) ++ [groot U nm].
Proof.
  intros F. rewrite <- (sf_pkg _ _ _ _ F). rewrite create_prefix_list_spec_lemma by apply F.
  unfold prefixes_desc. rewrite !map_app. cbn [map join_dots]. f_equal.
  rewrite !map_map. apply map_ext_in. intros p Hp.
  destruct (npd_all_simple P p (sf_P _ _ _ _ F) Hp) as [H1 H2]. destruct (join_nice p H1 H2) as [H3 _].
  unfold file_scope_step. destruct (join_dots p); [contradiction|reflexivity].
Qed.

Lemma ds_fixed U path elem P first nm : wf U -> scope_facts U path elem P ->
  map (fun sc => run_scope U sc first nm) (rev (scopes_for_fixed U path))
  = map (fun sc => gstep U sc first nm) (map join_dots (npd (P ++ path))) ++ [groot U nm].
Proof.
  intros W F. unfold scopes_for_fixed. rewrite rev_app_distr, map_app.
  rewrite <- !map_rev, rev_involutive. rewrite (msg_steps U path elem P) by assumption.
  rewrite (map_map ScPrefix (fun sc => run_scope U sc first nm)). cbn [run_scope].
  rewrite (prefix_steps U path elem P) by assumption.
  rewrite app_assoc, <- !map_app. now rewrite ext_npd.
Qed.

Lemma ds_asis U path elem P first nm : wf U -> scope_facts U path elem P ->
  map (fun sc => run_scope U sc first nm) (rev (scopes_for U path))
  = map (fun sc => gstep U sc first nm) (map join_dots (rev (ext_prefixes P path)))
    ++ [first_nonnil (map (fun sc => gstep U sc first nm) (map join_dots (npd P)) ++ [groot U nm])].
Proof.
  intros W F. unfold scopes_for. cbn [rev]. rewrite map_app. rewrite <- map_rev.
  rewrite (msg_steps U path elem P) by assumption. f_equal. cbn [map run_scope]. f_equal.
  unfold file_scope. rewrite file_scope_loop_first. now rewrite (prefix_steps U path elem P).
Qed.

Lemma npd_nice cs sc : all_simple cs -> In sc (map join_dots (npd cs)) -> sc <> [] /\ starts_with_dot sc = false.
Proof.
  intros H Hin. apply in_map_iff in Hin. destruct Hin as (p & <- & Hp).
  destruct (npd_all_simple cs p H Hp). now apply join_nice.
Qed.

(* ------------------------------------------------------------------ absolute names, totality *)
Lemma double_dot_tail c rest : double_dot (c :: rest) = false -> starts_with_dot (c :: rest) = true ->
  starts_with_dot rest = false.
Proof.
  cbn [starts_with_dot double_dot]. intros H1 H2. rewrite H2 in H1. destruct rest; [reflexivity|exact H1].
Qed.

Lemma resolve_absolute_lemma U path ot n :
  go_resolve U path (dot :: n) ot = resolve_element U n /\
  (wf_universe U = true -> starts_with_dot n = false ->
   Spec.to_spec U (go_resolve U path (dot :: n) ot) = Spec.of_find n (Spec.find_symbol U n)).
Proof.
  assert (E : go_resolve U path (dot :: n) ot = resolve_element U n).
  { unfold go_resolve. cbn [starts_with_dot tl]. now rewrite N.eqb_refl. }
  split; [exact E|]. intros W Hn. apply wf_universe_wf in W. rewrite E, Q_spec by assumption.
  now apply to_spec_from_find.
Qed.

Lemma loop_total U first nm m : forall fuel s, (length s < fuel)%nat ->
  Spec.lookup_loop U first nm m fuel s <> Spec.SOutOfFuel.
Proof.
  induction fuel as [|fuel IH]; intros s Hl; [lia|]. cbn [Spec.lookup_loop].
  destruct (Spec.find_last_dot s) as [i|] eqn:E.
  - apply fld_lt in E.
    assert (Hr : Spec.lookup_loop U first nm m fuel (firstn i s) <> Spec.SOutOfFuel).
    { apply IH. rewrite firstn_length. lia. }
    destruct (Spec.find_symbol U (firstn i s ++ dot :: first)) as [k|]; [|exact Hr].
    destruct (length first <? length nm)%nat.
    + destruct (Spec.is_aggregate k); [|exact Hr]. destruct (Spec.find_symbol U _); discriminate.
    + destruct m; [discriminate|]. destruct (Spec.is_type k); [discriminate|exact Hr].
  - destruct (Spec.find_symbol U nm); discriminate.
Qed.

Lemma lookup_total_lemma U rel nm m : Spec.lookup U rel nm m <> Spec.SOutOfFuel.
Proof.
  unfold Spec.lookup. destruct (starts_with_dot nm).
  - destruct (Spec.find_symbol U (tl nm)); discriminate.
  - apply loop_total. lia.
Qed.

(* ------------------------------------------------------------------ main theorems *)
Lemma absolute_case U path elem c rest m (go : universe -> list name -> name -> bool -> gres) :
  (forall ot, go U path (c :: rest) ot = resolve_element U rest) ->
  wf U -> double_dot (c :: rest) = false -> starts_with_dot (c :: rest) = true ->
  Spec.outcome_of m (Spec.to_spec U (go U path (c :: rest) (Spec.only_types m)))
  = Spec.outcome_of m (Spec.lookup U (relative_to U path elem) (c :: rest) m).
Proof.
  intros Hgo W Hdd Hs. pose proof (double_dot_tail c rest Hdd Hs) as Hr.
  rewrite Hgo. unfold Spec.lookup. rewrite Hs. cbn [tl]. rewrite Q_spec by assumption.
  now rewrite (to_spec_from_find U rest _ eq_refl).
Qed.

Lemma repaired_resolve_eq_protoc_lemma U path elem nm m :
  wf_universe U = true -> scope_ok U path elem = true -> double_dot nm = false ->
  Spec.outcome_of m (Spec.to_spec U (go_resolve_fixed U path nm (Spec.only_types m)))
  = Spec.outcome_of m (Spec.lookup U (relative_to U path elem) nm m).
Proof.
  intros Hw Hs Hdd. apply wf_universe_wf in Hw. destruct (starts_with_dot nm) eqn:Hsd.
  - destruct nm as [|c rest]; [discriminate|]. apply absolute_case; try assumption.
    intros ot. unfold go_resolve_fixed, resolve. now rewrite Hsd.
  - pose proof (scope_ok_facts U path elem Hw Hs) as F. set (P := pkg_comps (f_pkg (u_self U))) in *.
    unfold go_resolve_fixed, resolve. rewrite Hsd. rewrite first_name_part by assumption.
    rewrite resolve_loop_gloop. rewrite (ds_fixed U path elem P) by assumption.
    unfold Spec.lookup. rewrite Hsd. rewrite (relative_to_join U path elem P F).
    assert (HA : all_simple ((P ++ path) ++ [elem])).
    { apply all_simple_app. split; [apply all_simple_app; split; apply F|apply all_simple_one; apply F]. }
    rewrite spec_loop_abs; [|assumption|].
    + apply fixed_main; try assumption.
      * intros sc Hsc. apply (npd_nice (P ++ path)); [|assumption]. apply all_simple_app. split; apply F.
      * now left.
    + pose proof (length_join_ge _ HA) as L. rewrite app_length in L. cbn [length] in L. lia.
Qed.

(* the guard under which the code as it is agrees with protoc: the reference is not an
   unqualified type reference, or no package level of the file holds a non-type of that name *)
Definition pkg_level_clean (U : universe) (nm : name) : bool :=
  forallb (fun p => match Spec.find_symbol U (join_dots p ++ dot :: nm) with
                    | Some k => Spec.is_type k
                    | None => true
                    end)
          (npd (pkg_comps (f_pkg (u_self U)))).

Definition guard (U : universe) (nm : name) (m : Spec.mode) : bool :=
  negb (Spec.only_types m) || negb (no_dot nm) || pkg_level_clean U nm.

Lemma smpl_nodot nm : name_eqb (Spec.first_part nm) nm = no_dot nm.
Proof.
  destruct (no_dot nm) eqn:E.
  - now apply first_part_eq_nodot.
  - destruct (name_eqb (Spec.first_part nm) nm) eqn:E2; [|reflexivity]. apply first_part_eq_nodot in E2. congruence.
Qed.

Lemma in_removelast_cons {A} (x d : A) l : In d (removelast l) -> In d (removelast (x :: l)).
Proof. destruct l; [contradiction|]. intros H. now right. Qed.

Lemma gloop_first_nonnil ot smpl : forall B best,
  (forall d, In d (removelast B) -> d = GNil \/ passes ot smpl d = true) ->
  gloop ot smpl [first_nonnil B] best = gloop ot smpl B best.
Proof.
  induction B as [|d B IH]; intros best H; [reflexivity|].
  destruct d as [|n k|n].
  - cbn [first_nonnil]. rewrite gloop_cons_nil. apply IH. intros d Hd. apply H. now apply in_removelast_cons.
  - cbn [first_nonnil]. rewrite !gloop_cons_nonnil by discriminate. destruct B as [|b B]; [reflexivity|].
    destruct (H (GDesc n k)) as [Hx|Hx]; [now left|discriminate|]. now rewrite Hx.
  - cbn [first_nonnil]. rewrite !gloop_cons_nonnil by discriminate. destruct B as [|b B]; [reflexivity|].
    destruct (H (GSentinel n)) as [Hx|Hx]; [now left|discriminate|]. now rewrite Hx.
Qed.

Lemma gloop_collapse ot smpl B : forall A best,
  (forall d, In d (removelast B) -> d = GNil \/ passes ot smpl d = true) ->
  gloop ot smpl (A ++ [first_nonnil B]) best = gloop ot smpl (A ++ B) best.
Proof.
  induction A as [|d A IH]; intros best H; [now apply gloop_first_nonnil|].
  cbn [app]. destruct d as [|n k|n].
  - rewrite !gloop_cons_nil. now apply IH.
  - rewrite !gloop_cons_nonnil by discriminate. destruct (passes ot smpl (GDesc n k)); [reflexivity|now apply IH].
  - rewrite !gloop_cons_nonnil by discriminate. destruct (passes ot smpl (GSentinel n)); [reflexivity|now apply IH].
Qed.

Lemma guard_steps U nm m P : wf U -> all_simple P -> P = pkg_comps (f_pkg (u_self U)) -> guard U nm m = true ->
  forall d, In d (map (fun sc => gstep U sc (Spec.first_part nm) nm) (map join_dots (npd P))) ->
  d = GNil \/ passes (Spec.only_types m) (name_eqb (Spec.first_part nm) nm) d = true.
Proof.
  intros W HP EP G d Hd. unfold passes. rewrite smpl_nodot. unfold guard in G.
  destruct (Spec.only_types m); [|now right]. destruct (no_dot nm) eqn:End; [|right; now rewrite orb_true_r].
  cbn [negb orb] in *. rewrite orb_false_r.
  rewrite map_map in Hd. apply in_map_iff in Hd. destruct Hd as (p & <- & Hp).
  destruct (npd_all_simple P p HP Hp) as [H1 H2]. destruct (join_nice p H1 H2) as [H3 H4].
  rewrite gstep_spec by assumption. unfold gstep_val. rewrite first_part_nodot by assumption.
  unfold pkg_level_clean in G. rewrite forallb_forall in G. rewrite <- EP in G. specialize (G p Hp).
  destruct (Spec.find_symbol U (join_dots p ++ dot :: nm)) as [k|]; [|now left].
  rewrite name_eqb_refl. right. now rewrite is_type_from_find.
Qed.

Lemma resolve_eq_protoc_partial_lemma U path elem nm m :
  wf_universe U = true -> scope_ok U path elem = true -> double_dot nm = false -> guard U nm m = true ->
  Spec.outcome_of m (Spec.to_spec U (go_resolve_old U path nm (Spec.only_types m)))
  = Spec.outcome_of m (Spec.lookup U (relative_to U path elem) nm m).
Proof.
  intros Hw Hs Hdd G. rewrite <- (repaired_resolve_eq_protoc_lemma U path elem nm m Hw Hs Hdd).
  apply wf_universe_wf in Hw. destruct (starts_with_dot nm) eqn:Hsd.
  - unfold go_resolve_old, go_resolve_fixed, resolve. now rewrite Hsd.
  - pose proof (scope_ok_facts U path elem Hw Hs) as F. set (P := pkg_comps (f_pkg (u_self U))) in *.
    unfold go_resolve_old, go_resolve_fixed, resolve. rewrite Hsd. rewrite first_name_part by assumption.
    rewrite !resolve_loop_gloop. rewrite (ds_fixed U path elem P), (ds_asis U path elem P) by assumption.
    rewrite gloop_collapse.
    + rewrite app_assoc, <- !map_app. now rewrite ext_npd.
    + rewrite removelast_last. apply (guard_steps U nm m P); try assumption; [apply F|reflexivity].
Qed.

(* ------------------------------------------------------------------ the repair as a patch (skip flag) *)
Definition mrg (best d : gres) : gres := match best with GNil => d | _ => best end.

Fixpoint floop (skip : bool) (ds : list gres) (best : gres) : gres :=
  match ds with
  | [] => best
  | d :: r =>
    match d with
    | GNil => floop skip r best
    | _ => if negb skip || is_type_g d then d else floop skip r (mrg best d)
    end
  end.

Lemma file_scope_loop_skip_floop U ps first nm skip : forall best,
  file_scope_loop_skip U ps first nm skip best
  = floop skip (map (fun p => file_scope_step U p first nm) ps) best.
Proof.
  induction ps as [|p ps IH]; intros best; cbn [file_scope_loop_skip map floop]; [reflexivity|].
  destruct (file_scope_step U p first nm); rewrite ?IH; reflexivity.
Qed.

Lemma passes_skip ot smpl d : passes ot smpl d = negb (ot && smpl) || is_type_g d.
Proof. unfold passes. destruct ot, smpl, (is_type_g d); reflexivity. Qed.

Lemma mrg_nil_r best : mrg best GNil = best.
Proof. destruct best; reflexivity. Qed.

Lemma mrg_assoc a b c : mrg a (mrg b c) = mrg (mrg a b) c.
Proof. destruct a, b; reflexivity. Qed.

Lemma gloop_floop ot smpl : forall B b0 best, (b0 = GNil \/ passes ot smpl b0 = false) ->
  gloop ot smpl [floop (ot && smpl) B b0] best = gloop ot smpl B (mrg best b0).
Proof.
  induction B as [|d B IH]; intros b0 best Hb; cbn [floop].
  - destruct Hb as [->|Hb]; [now rewrite mrg_nil_r|].
    destruct b0; [now rewrite mrg_nil_r| |]; rewrite gloop_cons_nonnil by discriminate; rewrite Hb; reflexivity.
  - destruct d as [|n k|n].
    + rewrite gloop_cons_nil. now apply IH.
    + rewrite (gloop_cons_nonnil ot smpl (GDesc n k) B) by discriminate. rewrite <- passes_skip.
      destruct (passes ot smpl (GDesc n k)) eqn:P.
      * rewrite gloop_cons_nonnil by discriminate. now rewrite P.
      * rewrite IH; [now rewrite mrg_assoc|]. right. destruct Hb as [->|Hb]; [exact P|]. destruct b0; [exact P|exact Hb|exact Hb].
    + rewrite (gloop_cons_nonnil ot smpl (GSentinel n) B) by discriminate. rewrite <- passes_skip.
      destruct (passes ot smpl (GSentinel n)) eqn:P.
      * rewrite gloop_cons_nonnil by discriminate. now rewrite P.
      * rewrite IH; [now rewrite mrg_assoc|]. right. destruct Hb as [->|Hb]; [exact P|]. destruct b0; [exact P|exact Hb|exact Hb].
Qed.

Lemma gloop_floop_app ot smpl B : forall A best,
  gloop ot smpl (A ++ [floop (ot && smpl) B GNil]) best = gloop ot smpl (A ++ B) best.
Proof.
  induction A as [|d A IH]; intros best.
  - cbn [app]. rewrite gloop_floop by now left. now rewrite mrg_nil_r.
  - cbn [app]. destruct d as [|n k|n].
    + rewrite !gloop_cons_nil. apply IH.
    + rewrite !gloop_cons_nonnil by discriminate. destruct (passes ot smpl (GDesc n k)); [reflexivity|apply IH].
    + rewrite !gloop_cons_nonnil by discriminate. destruct (passes ot smpl (GSentinel n)); [reflexivity|apply IH].
Qed.

Lemma resolve_loop_skip_gloop U first nm ot scopes best :
  resolve_loop_skip U first nm ot scopes best
  = gloop ot (name_eqb first nm)
          (map (fun sc => run_scope_skip U sc first nm (ot && name_eqb first nm)) scopes) best.
Proof.
  revert best. induction scopes as [|sc r IH]; intros best; cbn [resolve_loop_skip map gloop]; [reflexivity|].
  unfold passes. destruct (run_scope_skip U sc first nm (ot && name_eqb first nm)); rewrite ?IH; reflexivity.
Qed.

Lemma ds_skip U path elem P first nm skip : wf U -> scope_facts U path elem P ->
  map (fun sc => run_scope_skip U sc first nm skip) (rev (scopes_for U path))
  = map (fun sc => gstep U sc first nm) (map join_dots (rev (ext_prefixes P path)))
    ++ [floop skip (map (fun sc => gstep U sc first nm) (map join_dots (npd P)) ++ [groot U nm]) GNil].
Proof.
  intros W F. unfold scopes_for. cbn [rev]. rewrite map_app. rewrite <- map_rev.
  rewrite <- (msg_steps U path elem P) by assumption. f_equal.
  - rewrite !map_map. reflexivity.
  - cbn [map run_scope_skip]. f_equal. rewrite file_scope_loop_skip_floop. now rewrite (prefix_steps U path elem P).
Qed.

Lemma skip_eq_fixed U path elem nm ot :
  wf_universe U = true -> scope_ok U path elem = true ->
  go_resolve U path nm ot = go_resolve_fixed U path nm ot.
Proof.
  intros Hw Hs. apply wf_universe_wf in Hw. unfold go_resolve, go_resolve_fixed, resolve.
  destruct (starts_with_dot nm) eqn:Hsd; [reflexivity|].
  pose proof (scope_ok_facts U path elem Hw Hs) as F. set (P := pkg_comps (f_pkg (u_self U))) in *.
  rewrite resolve_loop_skip_gloop, resolve_loop_gloop.
  rewrite (ds_skip U path elem P), (ds_fixed U path elem P) by assumption.
  rewrite gloop_floop_app. rewrite app_assoc, <- !map_app. now rewrite ext_npd.
Qed.

Lemma resolve_eq_protoc_lemma U path elem nm m :
  wf_universe U = true -> scope_ok U path elem = true -> double_dot nm = false ->
  Spec.outcome_of m (Spec.to_spec U (go_resolve U path nm (Spec.only_types m)))
  = Spec.outcome_of m (Spec.lookup U (relative_to U path elem) nm m).
Proof.
  intros Hw Hs Hdd. rewrite (skip_eq_fixed U path elem) by assumption.
  now apply repaired_resolve_eq_protoc_lemma.
Qed.

(* ------------------------------------------------------------------ witnesses *)
(* package a.b: extension x and message M; imported package a: message x.
   Inside a.b.M the type reference x is a.x for protoc; the Go code stops at the extension a.b.x. *)
Definition ex_U : universe :=
  mkU (mkFile [97;46;98]%N [([97;46;98;46;120]%N, KExtension); ([97;46;98;46;77]%N, KMessage)])
      [mkFile [97]%N [([97;46;120]%N, KMessage)]].

Lemma resolve_eq_protoc_refuted_lemma :
  exists U path elem nm m,
    wf_universe U = true /\ scope_ok U path elem = true /\ double_dot nm = false /\
    go_resolve_old U path nm (Spec.only_types m) = GDesc [97;46;98;46;120]%N KExtension /\
    Spec.lookup U (relative_to U path elem) nm m = Spec.SFound [97;46;120]%N (Spec.SK KMessage) /\
    Spec.outcome_of m (Spec.to_spec U (go_resolve_old U path nm (Spec.only_types m)))
    <> Spec.outcome_of m (Spec.lookup U (relative_to U path elem) nm m).
Proof.
  exists ex_U, [[77]%N], [102]%N, [120]%N, Spec.LookupTypes.
  repeat split; try (vm_compute; reflexivity). vm_compute. discriminate.
Qed.

(* a reference spelled with two leading dots (only possible in descriptor form) *)
Lemma double_dot_diverges_lemma :
  go_resolve ex_U [[77]%N] [46;46;97;46;120]%N true = GDesc [97;46;120]%N KMessage /\
  Spec.lookup ex_U (relative_to ex_U [[77]%N] [102]%N) [46;46;97;46;120]%N Spec.LookupTypes = Spec.SNone.
Proof. split; vm_compute; reflexivity. Qed.

Lemma resolve_example :
  wf_universe ex_U = true /\ scope_ok ex_U [[77]%N] [102]%N = true /\
  go_resolve ex_U [[77]%N] [120]%N true = GDesc [97;46;120]%N KMessage /\
  go_resolve ex_U [[77]%N] [97;46;120]%N true = GDesc [97;46;120]%N KMessage /\
  go_resolve ex_U [] [120]%N false = GDesc [97;46;98;46;120]%N KExtension /\
  go_resolve_old ex_U [[77]%N] [120]%N true = GDesc [97;46;98;46;120]%N KExtension /\
  create_prefix_list [97;46;98]%N = [[97;46;98]%N; [97]%N; []].
Proof. repeat split; vm_compute; reflexivity. Qed.
