From PV Require Import Model.Resolve Model.ProtocLookup.
