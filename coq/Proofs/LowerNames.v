(* F2 / F3 - the naming functions of internal/util.go + internal/cases and of
   processProto3OptionalFields equal protoc's:
     json_name_eq_protoc          internal.JSONName  = ToJsonName         (every byte string)
     map_entry_name_eq_protoc     internal.MapEntry  = MapEntryName       (every byte string)
     oo_name_total / _is_synth    the X-prefix loop terminates within the fuel of the model and
                                  returns protoc's name for the same set of taken names
     synthetic_oneof_names_fresh / _eq_protoc   the loop over the fields *)
From Coq Require Import List NArith ZArith Bool Lia Arith FinFun.
From PV Require Import Model.MiniProto Model.Lower Model.ProtocDescriptor.
Import ListNotations.
Open Scope N_scope.

(* ------------------------------------------------------------------------------------------ *)
(* JSONName and MapEntry *)

Lemma split_us_nonempty s : split_us s <> [].
Proof.
  destruct s as [|c r]; cbn; [discriminate|]. destruct (c =? us); [discriminate|].
  destruct (split_us r); discriminate.
Qed.

Lemma to_upper_ascii c : to_upper c = ascii_toupper c.
Proof. reflexivity. Qed.

(* both shapes at once: at a word boundary, and inside a word *)
Lemma conv_camel s :
  (forall pascal fw, conv_words pascal false fw (split_us s) = camel_from (pascal || negb fw) s) /\
  (forall pascal up, match split_us s with
                     | w :: ws => conv_word up false false w ++ conv_words pascal false false ws
                     | [] => []
                     end = camel_from false s).
Proof.
  induction s as [|c r [IH1 IH2]].
  - split; intros; cbn; reflexivity.
  - split.
    + intros pascal fw. cbn [split_us camel_from]. unfold us in *. destruct (c =? 95) eqn:E.
      * cbn [conv_words conv_word app]. rewrite IH1. cbn [negb]. rewrite orb_true_r. reflexivity.
      * specialize (IH2 pascal (pascal || negb fw)). pose proof (split_us_nonempty r) as Hne.
        destruct (split_us r) as [|w ws]; [congruence|].
        cbn [conv_words conv_word app]. rewrite IH2.
        rewrite andb_true_r, orb_false_r. unfold set_case.
        destruct (pascal || negb fw); reflexivity.
    + intros pascal up. cbn [split_us camel_from]. unfold us in *. destruct (c =? 95) eqn:E.
      * cbn [conv_word app]. rewrite IH1. cbn [negb]. rewrite orb_true_r. reflexivity.
      * specialize (IH2 pascal up). pose proof (split_us_nonempty r) as Hne.
        destruct (split_us r) as [|w ws]; [congruence|].
        cbn [conv_word]. rewrite andb_false_r. cbn [orb app]. rewrite IH2. reflexivity.
Qed.

Theorem json_name_eq_protoc_lemma : forall s, json_name s = to_json_name s.
Proof. intros s. unfold json_name, to_json_name. now rewrite (proj1 (conv_camel s)). Qed.

Theorem map_entry_name_eq_protoc_lemma : forall s, map_entry s = map_entry_name s.
Proof. intros s. unfold map_entry, map_entry_name. now rewrite (proj1 (conv_camel s)). Qed.

(* ------------------------------------------------------------------------------------------ *)
(* names as a decidable type *)
Lemma name_eqb_eq a b : name_eqb a b = true <-> a = b.
Proof.
  revert b. induction a as [|x a IH]; intros [|y b]; cbn; try (split; [discriminate|discriminate]); try tauto.
  rewrite andb_true_iff, N.eqb_eq, IH. split; [intros [-> ->]; reflexivity|intros H; injection H; auto].
Qed.

Lemma mem_name_In x l : mem_name x l = true <-> In x l.
Proof.
  induction l as [|y r IH]; cbn; [split; [discriminate|tauto]|].
  rewrite orb_true_iff, name_eqb_eq, IH. split; intros [H|H]; auto.
Qed.

Lemma mem_name_false x l : mem_name x l = false <-> ~ In x l.
Proof. rewrite <- mem_name_In. destruct (mem_name x l); split; congruence. Qed.

(* ------------------------------------------------------------------------------------------ *)
(* the X-prefix loop *)
Lemma oo_candidate_eq f : oo_candidate f = synth_candidate f.
Proof. destruct f as [|c r]; reflexivity. Qed.

Lemma x_times_shift k c : x_times k (88 :: c) = 88 :: x_times k c.
Proof. induction k as [|k IH]; cbn; [reflexivity|now rewrite IH]. Qed.

Lemma x_times_length k c : length (x_times k c) = (k + length c)%nat.
Proof. induction k as [|k IH]; cbn; [reflexivity|now rewrite IH]. Qed.

Lemma oo_search_some fuel : forall all c r, oo_search fuel all c = Some r ->
  exists k, (k < fuel)%nat /\ r = x_times k c /\ ~ In r all /\ forall j, (j < k)%nat -> In (x_times j c) all.
Proof.
  induction fuel as [|f IH]; intros all c r H; cbn in H; [discriminate|].
  destruct (mem_name c all) eqn:E.
  - apply IH in H. destruct H as (k & Hk & -> & Hn & Hlt). exists (S k).
    split; [lia|]. split; [cbn; now rewrite x_times_shift|]. split; [assumption|].
    intros [|j] Hj; cbn.
    + now apply mem_name_In.
    + rewrite <- x_times_shift. apply Hlt. lia.
  - injection H as <-. exists 0%nat. split; [lia|]. split; [reflexivity|]. split; [now apply mem_name_false|].
    intros j Hj. lia.
Qed.

Lemma oo_search_none fuel : forall all c, oo_search fuel all c = None ->
  forall j, (j < fuel)%nat -> In (x_times j c) all.
Proof.
  induction fuel as [|f IH]; intros all c H j Hj; [lia|]. cbn in H.
  destruct (mem_name c all) eqn:E; [|discriminate].
  destruct j as [|j]; cbn; [now apply mem_name_In|]. rewrite <- x_times_shift. apply IH; [assumption|lia].
Qed.

Lemma x_times_seq_nodup c n : NoDup (map (fun k => x_times k c) (seq 0 n)).
Proof.
  apply Injective_map_NoDup; [|apply seq_NoDup].
  intros a b H. apply (f_equal (@length N)) in H. rewrite !x_times_length in H. lia.
Qed.

(* the fuel of the model always suffices *)
Theorem oo_name_total_lemma : forall all f, oo_name all f <> None.
Proof.
  intros all f H. unfold oo_name in H. pose proof (oo_search_none _ _ _ H) as Hall.
  set (c := oo_candidate f) in *. set (n := S (length all)) in *.
  assert (Hincl : incl (map (fun k => x_times k c) (seq 0 n)) all).
  { intros x Hx. apply in_map_iff in Hx. destruct Hx as (k & <- & Hk). apply in_seq in Hk. apply Hall. lia. }
  pose proof (NoDup_incl_length (x_times_seq_nodup c n) Hincl) as Hlen.
  rewrite map_length, seq_length in Hlen. subst n. lia.
Qed.

(* and the name is the one protoc computes from the same set of taken names *)
Theorem oo_name_is_synth_lemma : forall all f r, oo_name all f = Some r -> is_synth_name all f r.
Proof.
  intros all f r H. unfold oo_name in H. apply oo_search_some in H.
  destruct H as (k & _ & -> & Hn & Hlt). rewrite oo_candidate_eq in *. exists k. auto.
Qed.

(* protoc's name is unique, and depends on the taken names only as a set *)
Lemma is_synth_name_unique all all' f r r' :
  (forall k, In (x_times k (synth_candidate f)) all <-> In (x_times k (synth_candidate f)) all') ->
  is_synth_name all f r -> is_synth_name all' f r' -> r = r'.
Proof.
  intros Hsame (k & -> & Hn & Hlt) (k' & -> & Hn' & Hlt').
  destruct (Nat.lt_trichotomy k k') as [H|[H|H]].
  - exfalso. apply Hn. apply Hsame. now apply Hlt'.
  - now subst.
  - exfalso. apply Hn'. apply Hsame. now apply Hlt.
Qed.

(* ------------------------------------------------------------------------------------------ *)
(* the loop over the fields *)

(* the loop never runs out of fuel *)
Lemma p3opt_loop_total : forall fs done all oneofs, p3opt_loop fs done all oneofs <> None.
Proof.
  induction fs as [|fd r IH]; intros done all oneofs; cbn [p3opt_loop]; [discriminate|].
  destruct (df_p3opt fd); [|apply IH].
  destruct (oo_name all (df_name fd)) eqn:E; [apply IH|]. now apply oo_name_total_lemma in E.
Qed.

(* synthetic_oneof_names_fresh: the new oneof names are appended, are pairwise distinct and
   differ from every name collected from the message *)
Lemma p3opt_loop_fresh : forall fs done all oneofs fs' oneofs',
  p3opt_loop fs done all oneofs = Some (fs', oneofs') ->
  exists new, oneofs' = oneofs ++ new /\ NoDup new /\ forall n, In n new -> ~ In n all.
Proof.
  induction fs as [|fd r IH]; intros done all oneofs fs' oneofs' H; cbn [p3opt_loop] in H.
  - injection H as <- <-. exists []. rewrite app_nil_r. repeat split; [constructor|intros n []].
  - destruct (df_p3opt fd).
    + destruct (oo_name all (df_name fd)) as [oo|] eqn:E; [|discriminate].
      apply IH in H. destruct H as (new & -> & Hnd & Hfresh).
      exists (oo :: new). rewrite <- app_assoc. split; [reflexivity|].
      apply oo_name_is_synth_lemma in E. destruct E as (k & Hoo & Hn & _).
      split.
      * constructor; [|assumption]. intros Hin. apply (Hfresh oo Hin). now left.
      * intros n [<- | Hin]; [assumption|]. intros Hall. apply (Hfresh n Hin). now right.
    + now apply IH in H.
Qed.

Theorem synthetic_oneof_names_fresh_lemma : forall all fields oneofs fs' oneofs',
  process_p3opt all fields oneofs = Some (fs', oneofs') ->
  exists new, oneofs' = oneofs ++ new /\ NoDup new /\ forall n, In n new -> ~ In n all.
Proof. intros all fields oneofs fs' oneofs'. apply p3opt_loop_fresh. Qed.

Theorem process_p3opt_total_lemma : forall all fields oneofs, process_p3opt all fields oneofs <> None.
Proof. intros. apply p3opt_loop_total. Qed.

(* synthetic_oneof_names_eq_protoc: with the larger set of names the Go code collects (also
   extensions, enums, enum values, nested messages) the result is the same as with protoc's set
   (fields and oneofs), provided none of the extra names is a candidate of an optional field *)
Lemma p3opt_loop_eq : forall fs done allG allP oneofs,
  (forall n, In n allP -> In n allG) ->
  (forall f k, In f fs -> df_p3opt f = true ->
               In (x_times k (synth_candidate (df_name f))) allG -> In (x_times k (synth_candidate (df_name f))) allP) ->
  (forall f k oo, In f fs -> df_p3opt f = true -> In (x_times k (synth_candidate (df_name f))) (oo :: allG) ->
                  In (x_times k (synth_candidate (df_name f))) (oo :: allP)) ->
  p3opt_loop fs done allG oneofs = p3opt_loop fs done allP oneofs.
Proof.
  induction fs as [|fd r IH]; intros done allG allP oneofs Hsub Hcand Hcand'; cbn [p3opt_loop]; [reflexivity|].
  destruct (df_p3opt fd) eqn:Ep.
  - destruct (oo_name allG (df_name fd)) as [g|] eqn:Eg; [|now apply oo_name_total_lemma in Eg].
    destruct (oo_name allP (df_name fd)) as [p|] eqn:Epn; [|now apply oo_name_total_lemma in Epn].
    assert (g = p).
    { apply (is_synth_name_unique allG allP (df_name fd)).
      - intros k. split; [apply Hcand; [now left|assumption]|apply Hsub].
      - now apply oo_name_is_synth_lemma.
      - now apply oo_name_is_synth_lemma. }
    subst p. apply IH.
    + intros n [<-|Hn]; [now left|right; now apply Hsub].
    + intros f k Hf Hp Hin. apply (Hcand' f k g); [now right|assumption|assumption].
    + intros f k oo Hf Hp [<-|Hin]; [now left|]. right. apply (Hcand' f k g); [now right|assumption|assumption].
  - apply IH; [assumption| |].
    + intros f k Hf. apply Hcand. now right.
    + intros f k oo Hf. apply Hcand'. now right.
Qed.

Theorem synthetic_oneof_names_eq_protoc_lemma : forall fields oneofs exts enums nested,
  (forall f k n, In f fields -> df_p3opt f = true ->
     In n (go_all_names fields oneofs exts enums nested) -> ~ In n (protoc_all_names fields oneofs) ->
     n <> x_times k (synth_candidate (df_name f))) ->
  process_p3opt (go_all_names fields oneofs exts enums nested) fields oneofs
  = process_p3opt (protoc_all_names fields oneofs) fields oneofs.
Proof.
  intros fields oneofs exts enums nested Hextra. unfold process_p3opt.
  assert (Hsub : forall n, In n (protoc_all_names fields oneofs) -> In n (go_all_names fields oneofs exts enums nested)).
  { unfold protoc_all_names, go_all_names. intros n Hn. rewrite !in_app_iff in *. tauto. }
  assert (Hback : forall f k, In f fields -> df_p3opt f = true ->
            In (x_times k (synth_candidate (df_name f))) (go_all_names fields oneofs exts enums nested) ->
            In (x_times k (synth_candidate (df_name f))) (protoc_all_names fields oneofs)).
  { intros f k Hf Hp Hin.
    destruct (mem_name (x_times k (synth_candidate (df_name f))) (protoc_all_names fields oneofs)) eqn:E.
    - now apply mem_name_In.
    - apply mem_name_false in E. exfalso. exact (Hextra f k _ Hf Hp Hin E eq_refl). }
  apply p3opt_loop_eq; [assumption|assumption|].
  intros f k oo Hf Hp [<-|Hin]; [now left|right; now apply Hback].
Qed.

(* non-vacuity witnesses used by Props/C02.v *)
Lemma c02_example :
  json_name [102;111;111;95;98;97;114] = [102;111;111;66;97;114] /\
  map_entry [102;111;111;95;98;97;114] = [70;111;111;66;97;114;69;110;116;114;121] /\
  json_name [95;120] = [88] /\
  oo_name [[97]; [95;97]; [88;95;97]] [97] = Some [88;88;95;97].
Proof. repeat split; vm_compute; reflexivity. Qed.
